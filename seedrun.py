#!/usr/bin/env python3
"""seedrun.py <patch.diff> <Cxx> [quick|thorough] [--demo <dir> <cmd>]
Runs a check against a seeded change WITHOUT touching /repo: a scratch
worktree of /repo HEAD gets the patch, the changed files are substituted at
build time through VERIF_OVERLAY, the worktree is removed afterwards."""
import sys, os, json, subprocess, tempfile, shutil
patch, cid = sys.argv[1], sys.argv[2]
tier = sys.argv[3] if len(sys.argv) > 3 and not sys.argv[3].startswith("--") else "quick"
wt = tempfile.mkdtemp(prefix="verif-seedrun-")
os.rmdir(wt)
def sh(cmd, **kw): return subprocess.run(cmd, shell=True, text=True, capture_output=True, **kw)
try:
    r = sh(f"git -C /repo worktree add -q --detach {wt} HEAD")
    if r.returncode: print(r.stderr); sys.exit(3)
    r = sh(f"git -C {wt} apply --whitespace=nowarn {patch}")
    if r.returncode:
        r = sh(f"git -C {wt} apply -3 --whitespace=nowarn {patch}")
        if r.returncode: print("PATCH DOES NOT APPLY:", r.stderr[:500]); sys.exit(3)
    changed = sh(f"git -C {wt} diff --name-only HEAD").stdout.split()
    ov = {"Replace": {os.path.join("/repo", f): os.path.join(wt, f) for f in changed}}
    ovf = wt + ".overlay.json"
    json.dump(ov, open(ovf, "w"))
    # evidence and replays of a run against a changed tree go to a scratch root,
    # never into /verif/evidence
    root = wt + ".root"
    os.makedirs(root, exist_ok=True)
    shutil.copy("/verif/known_findings.json", root)
    env = dict(os.environ, VERIF_OVERLAY=ovf, VERIF_OUT_ROOT=root)
    r = subprocess.run(["/verif/run.sh", cid, tier], env=env, capture_output=True); r.stdout = r.stdout.decode("utf-8", "replace")
    out = r.stdout
    sigs = {}
    for l in out.splitlines():
        if l.startswith("  signature:"): sigs[l] = sigs.get(l, 0) + 1
    for k, v in sigs.items(): print(v, k.strip()[:220])
    for l in out.splitlines():
        if l.startswith(cid + " ") or l.startswith("ERROR") or l.startswith("KNOWN"): print(l[:240])
    print("exit", r.returncode, "changed", changed)
finally:
    sh(f"git -C /repo worktree remove --force {wt}")
    for f in (wt + ".overlay.json",):
        if os.path.exists(f): os.remove(f)
    shutil.rmtree(wt + ".root", ignore_errors=True)
