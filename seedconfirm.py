#!/usr/bin/env python3
"""seedconfirm.py <name> <seed-out-dir> [rebased-patch]
Confirms a seeded change in a scratch worktree of /repo HEAD: demo passes on
the unchanged tree, the change compiles, the demo fails with it, and the tests
of the touched packages still pass with it. Writes /tmp/seedconfirm/<name>.json."""
import sys, os, json, subprocess, shutil, tempfile, re
name, src = sys.argv[1], sys.argv[2]
patch = sys.argv[3] if len(sys.argv) > 3 else os.path.join(src, "patch.diff")
meta = json.load(open(os.path.join(src, "meta.json")))
wt = tempfile.mkdtemp(prefix="verif-seedconfirm-"); os.rmdir(wt)
env = dict(os.environ, GOFLAGS="-mod=mod", GOPROXY="off")
def sh(cmd, cwd=None, timeout=3600):
    try:
        r = subprocess.run(cmd, shell=True, text=True, capture_output=True, cwd=cwd, env=env, timeout=timeout)
        return r.returncode, (r.stdout + r.stderr)[-3000:]
    except subprocess.TimeoutExpired:
        return 124, "timeout"
res = {"name": name, "property": meta.get("property"), "patch": patch}
try:
    rc, out = sh(f"git -C /repo worktree add -q --detach {wt} HEAD"); assert rc == 0, out
    demo_files = meta.get("demo_files", {})
    placed = []
    for dst, srcf in demo_files.items():
        sp = os.path.join(src, srcf)
        if not os.path.exists(sp):
            sp = os.path.join(src, "demo", os.path.basename(srcf))
        os.makedirs(os.path.dirname(os.path.join(wt, dst)), exist_ok=True)
        shutil.copy(sp, os.path.join(wt, dst)); placed.append(dst)
    cmd = meta.get("demo_cmd", "")
    cmd = re.sub(r"cd\s+(<[^>]*>|\S+)\s*(&&|;)", "", cmd)
    cmd = re.sub(r"\s{2,}\(.*$", "", cmd.strip())  # trailing remarks in parentheses
    res["demo_cmd"] = cmd
    rc, out = sh(cmd, cwd=wt, timeout=1500)
    res["demo_without_change"] = {"rc": rc, "tail": out[-600:]}
    rc, out = sh(f"git apply --whitespace=nowarn {patch}", cwd=wt)
    if rc != 0:
        rc, out = sh(f"git apply -3 --whitespace=nowarn {patch}", cwd=wt)
    res["apply"] = rc
    if rc == 0:
        rc, out = sh("go build ./...", cwd=wt); res["build"] = {"rc": rc, "tail": out[-400:]}
        rc, out = sh(cmd, cwd=wt, timeout=1500)
        res["demo_with_change"] = {"rc": rc, "tail": out[-800:]}
        changed = subprocess.run(f"git -C {wt} diff --name-only HEAD", shell=True, text=True, capture_output=True).stdout.split()
        pkgs = sorted({"./" + os.path.dirname(f) + "/" for f in changed if f.endswith(".go") and not f.endswith("_test.go")})
        # remove demo files before running the existing tests
        for d in placed:
            os.remove(os.path.join(wt, d))
        rc, out = sh("go test -count=1 -timeout 60m " + " ".join(pkgs), cwd=wt, timeout=4000)
        res["existing_tests"] = {"pkgs": pkgs, "rc": rc, "tail": out[-600:]}
    ok = (res.get("demo_without_change", {}).get("rc") == 0 and res.get("apply") == 0 and res.get("build", {}).get("rc") == 0
          and res.get("demo_with_change", {}).get("rc") not in (0, None) and res.get("existing_tests", {}).get("rc") == 0)
    res["confirmed"] = ok
finally:
    subprocess.run(f"git -C /repo worktree remove --force {wt}", shell=True, capture_output=True)
json.dump(res, open(f"/tmp/seedconfirm/{name}.json", "w"), indent=1)
print(name, "confirmed" if res.get("confirmed") else "NOT CONFIRMED", {k: (v.get("rc") if isinstance(v, dict) else v) for k, v in res.items() if k in ("demo_without_change", "apply", "build", "demo_with_change", "existing_tests")})
