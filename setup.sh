#!/bin/bash
# Run once after a fresh restore, offline: warms the Go build cache by
# building every check binary (and cmd/file.d with the verif tag).
set -u
cd "$(dirname "$0")"
export GOFLAGS=-mod=mod GOPROXY=off
unset GOSUMDB GOTOOLCHAIN 2>/dev/null || true
mkdir -p bin evidence replays
cp -f /repo/go.sum harness/go.sum 2>/dev/null || true
rc=0
(cd /repo && go build -tags verif ./... ) || rc=1
# only the checks registered in MANIFEST.json are built
for n in $(python3 -c "import json;print(' '.join(c['property_id'].lower() for c in json.load(open('MANIFEST.json'))['checks']))"); do
  [ -d "harness/cmd/$n" ] || continue
  race=""
  case "$n" in c01|c02|c04|c05|c08|c09|c10|c11|c15) race="-race";; esac
  (cd harness && go build -tags verif $race -o ../bin/$n ./cmd/$n) || { echo "setup: build of $n failed"; rc=1; }
done
(cd /repo && go build -tags verif -o /verif/bin/file.d-verif ./cmd/file.d) || rc=1
exit $rc
