#!/opt/veriftools/pyvenv/bin/python
import json,jsonschema,sys,glob
jsonschema.validate(json.load(open('/verif/MANIFEST.json')), json.load(open('/root/.vp/MANIFEST.schema.json')))
print('MANIFEST valid')
es=json.load(open('/root/.vp/EVIDENCE.schema.json'))
for f in sorted(glob.glob('/verif/evidence/*.json')):
    try:
        jsonschema.validate(json.load(open(f)), es); print(f,'valid')
    except Exception as e:
        print(f,'INVALID',str(e)[:300])
