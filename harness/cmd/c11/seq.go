package main

// Child workload "seq": one shard of the sequential part. All cases of a
// shard go through the same two plugin instances (emulate_mode no /
// elasticsearch) one after another, so pooled read/event buffers, gzip
// readers and source ids are reused across cases - on purpose.

import (
	"encoding/json"
	"fmt"
	"math/rand"
	"sort"

	"verifharness/core"
)

type seqIn struct {
	Seed      int64  `json:"seed"`
	Shard     int    `json:"shard"`
	Shards    int    `json:"shards"`
	MaxLen    int    `json:"max_len"`    // exhaustive scope, plain, emulate_mode no
	ESMaxLen  int    `json:"es_max_len"` // same scope again through /_bulk
	GzMaxLen  int    `json:"gz_max_len"` // bodies up to this length, several gzip encodings
	Large     int    `json:"large"`      // seeded large cases in this shard
	Net       int    `json:"net"`        // seeded cases over loopback TCP in this shard
	AvgEvSize int    `json:"avg_event_size"`
	LimMaxLen int    `json:"lim_max_len"` // exhaustive scope up to this length again with a small max_event_size
	Small     limits `json:"small_limit"` // instance for the small scope
	Big       limits `json:"big_limit"`   // instances (no / elasticsearch) for half of the seeded bodies
}

type seqOut struct {
	Evals    int64            `json:"evals"`
	Counters map[string]int64 `json:"counters"`
	Shapes   []string         `json:"shapes"`
	Viols    []viol           `json:"viols"`
	VSeen    map[string]int   `json:"vseen"`
	Samples  []any            `json:"samples"`
	Incon    map[string]int   `json:"incon"`
}

type seqRun struct {
	out    seqOut
	shapes map[string]struct{}
	io     *core.ChildIO
	plain  *instance
	es     *instance
	small  *instance // emulate_mode no, small max_event_size
	big    *instance // emulate_mode no, max_event_size of this shard
	bigES  *instance
	nlog   int64
}

func (s *seqRun) count(k string, n int64) { s.out.Counters[k] += n }

func (s *seqRun) inst(c *Case) *instance {
	var in *instance
	switch {
	case c.LimClass == "small":
		in = s.small
	case c.LimClass == "big" && c.ES:
		in = s.bigES
	case c.LimClass == "big":
		in = s.big
	case c.ES:
		in = s.es
	default:
		in = s.plain
	}
	c.Lim = in.lim
	c.ES = in.es
	return in
}

// observe records coverage facts of a clean case from the reference side and
// from what the reader saw.
func (s *seqRun) observe(c *Case, o *obs, outcome string) {
	s.count("outcome:"+outcome+":"+c.enc(), 1)
	s.count("in_calls", int64(len(o.datas)))
	if !c.Clean() {
		s.count(fmt.Sprintf("incomplete_body_status_%d", o.status), 1)
		return
	}
	want := refLines(c.Body)
	if len(c.Body) > 0 && c.Body[len(c.Body)-1] != '\n' {
		s.count("bodies_with_final_unterminated_line", 1)
	}
	if len(want) == 0 {
		s.count("bodies_without_any_line", 1)
	}
	if m := c.Lim.MaxEventSize; m > 0 {
		s.count("cases_with_max_event_size_set", 1)
		if c.Lim.CutOff {
			s.count("cases_with_max_event_size_and_cut_off_event_by_limit", 1)
		}
		for _, l := range want {
			switch {
			case len(l) > m:
				s.count("lines_longer_than_max_event_size", 1)
			case len(l) == m:
				s.count("lines_exactly_max_event_size", 1)
			}
		}
		if !c.Gzip && !c.Net {
			// a line longer than the limit whose carry-over (everything read before
			// its newline / before EOF) already exceeds the limit at a read boundary
			off, ls := 0, 0 // ls = start of the current line
			bounds := map[int]bool{}
			for _, r := range o.reads {
				off += r
				bounds[off] = true
			}
			for i := 0; i <= len(c.Wire); i++ {
				if i == len(c.Wire) || c.Wire[i] == '\n' {
					if i-ls > m && bounds[i] && i > ls {
						s.count("long_line_complete_in_carry_over_at_read_boundary(max_event_size)", 1)
					}
					ls = i + 1
				}
			}
		}
	}
	for _, l := range want {
		if len(l) == 0 {
			s.count("empty_lines", 1)
		}
		if len(l) >= readBufLen {
			s.count("lines_longer_than_read_buffer", 1)
		}
		if len(l) > 0 && l[len(l)-1] == '\r' {
			s.count("lines_ending_in_CR", 1)
		}
	}
	if c.EOFWithLast {
		s.count("eof_together_with_last_bytes", 1)
	}
	if !c.Gzip {
		// where do read boundaries fall?
		off := 0
		for i, r := range o.reads {
			if r == 0 {
				s.count("empty_reads", 1)
				continue
			}
			if i > 0 && off > 0 && off < len(c.Wire) {
				switch {
				case c.Wire[off] == '\n' && c.Wire[off-1] != '\n':
					s.count("boundary:newline_first_byte_of_read_with_carry", 1)
				case c.Wire[off] == '\n':
					s.count("boundary:newline_first_byte_of_read_no_carry", 1)
				case c.Wire[off-1] == '\n':
					s.count("boundary:right_after_newline", 1)
				default:
					s.count("boundary:inside_line", 1)
				}
			}
			if r == 1 {
				s.count("one_byte_reads", 1)
			}
			off += r
		}
	}
}

func (s *seqRun) runCase(c *Case, fp string) {
	s.nlog++
	var o obs
	if c.Net {
		var err error
		o, err = s.inst(c).serveNet(c)
		if err != nil {
			s.out.Incon["loopback transport: "+core.Trunc(err.Error(), 60)]++
			return
		}
	} else {
		o = s.inst(c).serve(c)
	}
	s.out.Evals++
	vs, outcome := judge(c, &o)
	s.observe(c, &o, outcome)
	for _, v := range vs {
		s.out.VSeen[v.Sig]++
		if s.out.VSeen[v.Sig] <= 2 && len(s.out.Viols) < 60 {
			s.out.Viols = append(s.out.Viols, v)
		}
	}
	if fp != "" {
		s.shapes[fp] = struct{}{}
	}
}

// limTag: how the longest line of the body relates to max_event_size.
func limTag(c *Case) string {
	m := c.Lim.MaxEventSize
	if c.LimClass == "" {
		return ""
	}
	longest := 0
	for _, l := range refLines(c.Body) {
		if len(l) > longest {
			longest = len(l)
		}
	}
	rel := "<"
	switch {
	case longest == m:
		rel = "="
	case longest == m+1:
		rel = "=+1"
	case longest > m:
		rel = ">"
	}
	mc := "small"
	if m > 64 {
		mc = "big"
	}
	return fmt.Sprintf(":max_event_size(%s,cutoff=%v)longest%s", mc, c.Lim.CutOff, rel)
}

func eofTag(b bool) string {
	if b {
		return "$E"
	}
	return "$"
}

func childSeq(raw json.RawMessage, cio *core.ChildIO) (any, error) {
	var in seqIn
	if err := json.Unmarshal(raw, &in); err != nil {
		return nil, err
	}
	s := &seqRun{io: cio, shapes: map[string]struct{}{}}
	s.out.Counters = map[string]int64{}
	s.out.VSeen = map[string]int{}
	s.out.Incon = map[string]int{}
	s.plain = newInstance(false, in.AvgEvSize, limits{})
	s.es = newInstance(true, in.AvgEvSize, limits{})
	s.small = newInstance(false, in.AvgEvSize, in.Small)
	s.big = newInstance(false, in.AvgEvSize, in.Big)
	s.bigES = newInstance(true, in.AvgEvSize, in.Big)
	for _, x := range []*instance{s.plain, s.es, s.small, s.big, s.bigES} {
		defer x.close()
	}

	// ---- seeded large bodies first and last half, so that small cases run on
	// buffers that have seen long lines and vice versa
	rng := rand.New(rand.NewSource(in.Seed*1000003 + int64(in.Shard)))
	runLarge := func(n int, net bool) {
		for i := 0; i < n; i++ {
			c := genLarge(rng, net)
			if rng.Intn(2) == 0 {
				c.LimClass = "big"
			}
			c.Lim = s.inst(c).lim
			cio.Log(map[string]any{"part": "seeded", "net": net, "i": i, "case": c.witness()})
			fp := "S:" + c.enc() + ":" + c.Kind + ":" + eofTag(c.EOFWithLast) + ":" + bodyClass(c) + limTag(c)
			s.runCase(c, fp)
			if len(s.out.Samples) < 2 && i%7 == 3 {
				s.out.Samples = append(s.out.Samples, map[string]any{"case": c.witness(), "lines": len(refLines(c.Body))})
			}
		}
	}
	runLarge(in.Large/2, false)

	// ---- exhaustive small scope
	cio.Log(map[string]any{"part": "exhaustive", "max_len": in.MaxLen})
	var n int64
	forEachSmall(in.MaxLen, func(idx int64, L, b, m int, eofLast bool) {
		if int(idx%int64(in.Shards)) != in.Shard {
			return
		}
		body := smallBody(L, b)
		plan := composition(L, m)
		c := &Case{Kind: "exhaustive", Body: body, Wire: body, Chunks: plan, EOFWithLast: eofLast, ErrAfter: -1}
		if n%20000 == 0 {
			cio.Log(map[string]any{"part": "exhaustive", "from_index": idx})
		}
		n++
		if L <= 7 {
			s.runCase(c, "X:"+shape(body, plan, false)+eofTag(eofLast))
		} else {
			s.runCase(c, fmt.Sprintf("Y%d:", L)+coarseShape(body, plan)+eofTag(eofLast))
		}
		s.count("exhaustive_plain_cases", 1)
		if L <= in.ESMaxLen {
			ce := *c
			ce.ES = true
			s.runCase(&ce, "")
			s.count("exhaustive_es_bulk_cases", 1)
		}
		if L <= in.LimMaxLen {
			cl := *c
			cl.LimClass = "small"
			s.runCase(&cl, "XL:"+shape(body, plan, false)+eofTag(eofLast)+limTag(&cl))
			s.count("exhaustive_small_max_event_size_cases", 1)
		}
		if len(s.out.Samples) < 4 && L == in.MaxLen && n%997 == 0 {
			s.out.Samples = append(s.out.Samples, map[string]any{"case": c.witness(), "expected_lines": qs(refLines(body))})
		}
	})

	// ---- small bodies, gzip: every body up to GzMaxLen x encodings x wire chunkings
	cio.Log(map[string]any{"part": "gzip-small", "max_len": in.GzMaxLen})
	var gi int64
	for L := 0; L <= in.GzMaxLen; L++ {
		for b := 0; b < pow(3, L); b++ {
			gi++
			if int(gi%int64(in.Shards)) != in.Shard {
				continue
			}
			body := smallBody(L, b)
			var wires []struct {
				how string
				w   []byte
			}
			for _, how := range []string{"one-block", "stored", "flush-each-byte"} {
				wires = append(wires, struct {
					how string
					w   []byte
				}{how, gzipBytes(body, how, rng)})
			}
			for k := 0; k <= L; k++ {
				wires = append(wires, struct {
					how string
					w   []byte
				}{fmt.Sprintf("two-members-split-at-%d", k), gzipSplitMembers(body, k)})
			}
			for _, wv := range wires {
				plans := [][]int{nil, planFixed(len(wv.w), 1), planRandom(rng, len(wv.w), 6), planRandom(rng, len(wv.w), 30)}
				for pi, plan := range plans {
					c := &Case{Kind: "gzip-small", Body: body, Wire: wv.w, Gzip: true, GzHow: wv.how, Chunks: plan,
						EOFWithLast: (pi+b)%2 == 0, ErrAfter: -1, ES: (b+pi)%5 == 0}
					how := wv.how
					if len(how) > 11 && how[:11] == "two-members" {
						how = "two-members"
					}
					s.runCase(c, fmt.Sprintf("G:%s:%s:plan%d", shape(body, []int{len(body)}, false), how, pi))
					s.count("gzip_small_cases", 1)
				}
			}
		}
	}

	runLarge(in.Net, true)
	runLarge(in.Large-in.Large/2, false)

	// a few tiny cases at the very end again (buffers that carried long lines)
	for b := 0; b < pow(3, 3); b++ {
		body := smallBody(3, b)
		for m := 0; m < 4; m++ {
			c := &Case{Kind: "exhaustive-after-large", Body: body, Wire: body, Chunks: composition(3, m), ErrAfter: -1}
			s.runCase(c, "")
		}
	}

	for k := range s.shapes {
		s.out.Shapes = append(s.out.Shapes, k)
	}
	sort.Strings(s.out.Shapes)
	return &s.out, nil
}

// bodyClass: coarse reference-side description of a seeded body.
func bodyClass(c *Case) string {
	ls := refLines(c.Body)
	long, empty, exact := 0, 0, 0
	for _, l := range ls {
		switch {
		case len(l) == 0:
			empty++
		case len(l) >= readBufLen-2 && len(l) <= readBufLen+2:
			exact++
		case len(l) > readBufLen:
			long++
		}
	}
	term := "nl"
	if len(c.Body) > 0 && c.Body[len(c.Body)-1] != '\n' {
		term = "open"
	}
	return fmt.Sprintf("lines=%d,long=%d,bufsize=%d,empty=%d,%s", len(ls), long, exact, min(empty, 3), term)
}
