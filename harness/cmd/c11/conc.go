package main

// Child workload "conc": K requests in flight at the same time on ONE plugin
// instance (run under the race detector). Every non-empty line carries
// "r<round>.<request>#<index>:" followed by a payload that is a function of
// (seed, round, request, index), so each datum handed to In can be checked
// against exactly one line of exactly one request without any shared
// bookkeeping on the hot path (the recorder must not add happens-before edges
// between the request goroutines, or it would hide the very races it is
// supposed to expose).

import (
	"bufio"
	"bytes"
	"encoding/json"
	"fmt"
	"io"
	"math/rand"
	"net"
	"net/http"
	"net/http/httptest"
	"runtime"
	"runtime/debug"
	"sort"
	"strconv"
	"sync"
	"sync/atomic"
	"time"

	"github.com/ozontech/file.d/decoder"
	"github.com/ozontech/file.d/pipeline"
	"github.com/ozontech/file.d/pipeline/metadata"

	"verifharness/core"
)

type concIn struct {
	Seed      int64  `json:"seed"`
	Idx       int    `json:"idx"`
	Rounds    int    `json:"rounds"`
	K         int    `json:"k"`
	ES        bool   `json:"es"`
	Net       bool   `json:"net"`
	AvgEvSize int    `json:"avg_event_size"`
	Lim       limits `json:"limits"`
}

type concOut struct {
	Evals    int64            `json:"evals"` // requests judged
	Counters map[string]int64 `json:"counters"`
	FPs      []string         `json:"fps"`
	Viols    []viol           `json:"viols"`
	VSeen    map[string]int   `json:"vseen"`
	Incon    map[string]int   `json:"incon"`
	Samples  []any            `json:"samples"`
}

type cEntry struct {
	kind   byte // 'I' In, 'S' status
	idx    int
	ok     bool
	data   []byte // kept only when it differs from the expected line
	status int
	sid    pipeline.SourceID
	gseq   int64
}

type cReq struct {
	id                int
	c                 *Case
	lines             [][]byte // reference lines
	mu                sync.Mutex
	entries           []cEntry
	panicMsg, panicAt string
	netErr            error
}

// roundState is published with one atomic store per round (the only
// synchronisation on the In path, and it orders nothing between requests).
type roundState struct {
	round    int
	reqs     []*cReq
	measured bool
}

type concRec struct {
	st   atomic.Pointer[roundState]
	gseq atomic.Int64

	omu     sync.Mutex
	orphans [][]byte
	empties int
}

func parseTag(d []byte) (round, req, idx int, ok bool) {
	if len(d) < 6 || d[0] != 'r' {
		return
	}
	i := 1
	num := func(stop byte) (int, bool) {
		s := i
		for i < len(d) && d[i] >= '0' && d[i] <= '9' && i-s < 9 {
			i++
		}
		if i == s || i >= len(d) || d[i] != stop {
			return 0, false
		}
		v, _ := strconv.Atoi(string(d[s:i]))
		i++
		return v, true
	}
	var a, b, c int
	if a, ok = num('.'); !ok {
		return
	}
	if b, ok = num('#'); !ok {
		return
	}
	if c, ok = num(':'); !ok {
		return
	}
	return a, b, c, true
}

func (r *concRec) In(sid pipeline.SourceID, _ string, _ pipeline.Offsets, data []byte, _ bool, _ metadata.MetaData) uint64 {
	cp := make([]byte, len(data))
	copy(cp, data)
	st := r.st.Load()
	var g int64
	if st.measured {
		g = r.gseq.Add(1)
	}
	round, req, idx, ok := parseTag(cp)
	if !ok || round != st.round || req >= len(st.reqs) {
		r.omu.Lock()
		if len(cp) == 0 {
			r.empties++
		} else {
			r.orphans = append(r.orphans, cp)
		}
		r.omu.Unlock()
		return 0
	}
	rq := st.reqs[req]
	e := cEntry{kind: 'I', idx: idx, sid: sid, gseq: g}
	if idx < len(rq.lines) && bytes.Equal(cp, rq.lines[idx]) {
		e.ok = true
	} else {
		e.data = cp
	}
	rq.mu.Lock()
	rq.entries = append(rq.entries, e)
	rq.mu.Unlock()
	return 0
}
func (r *concRec) UseSpread()                        {}
func (r *concRec) DisableStreams()                   {}
func (r *concRec) SuggestDecoder(decoder.Type)       {}
func (r *concRec) IncReadOps()                       {}
func (r *concRec) IncMaxEventSizeExceeded(...string) {}

type cRespWriter struct {
	rq    *cReq
	hdr   http.Header
	under http.ResponseWriter
	done  bool
}

func (w *cRespWriter) note(code int) {
	if w.done {
		return
	}
	w.done = true
	w.rq.mu.Lock()
	w.rq.entries = append(w.rq.entries, cEntry{kind: 'S', status: code})
	w.rq.mu.Unlock()
}
func (w *cRespWriter) Header() http.Header {
	if w.under != nil {
		return w.under.Header()
	}
	return w.hdr
}
func (w *cRespWriter) WriteHeader(code int) {
	w.note(code)
	if w.under != nil {
		w.under.WriteHeader(code)
	}
}
func (w *cRespWriter) Write(b []byte) (int, error) {
	w.note(http.StatusOK)
	if w.under != nil {
		return w.under.Write(b)
	}
	return len(b), nil
}

// payload bytes never contain '\n' or '#'.
const concAlpha = "abcdefghijklmnopqrstuvwxyzABCDEFGHIJKLMNOPQRSTUVWXYZ0123456789 {}[]\",:\\_-\r"

func concLine(seed int64, round, req, idx, n int) []byte {
	out := []byte(fmt.Sprintf("r%d.%d#%d:", round, req, idx))
	x := uint64(seed)*0x9E3779B97F4A7C15 + uint64(round)*1000003 + uint64(req)*7919 + uint64(idx)*104729 + 1
	for i := 0; i < n; i++ {
		x ^= x << 13
		x ^= x >> 7
		x ^= x << 17
		out = append(out, concAlpha[x%uint64(len(concAlpha))])
	}
	return out
}

func genConcCase(rng *rand.Rand, seed int64, round, req int, allowEmpty, es, net bool, lim limits) *Case {
	c := &Case{ErrAfter: -1, ES: es, Net: net, Kind: "concurrent", Lim: lim}
	nl := 1 + rng.Intn(8)
	li := 0 // index of the next line of the body (empty lines count)
	for i := 0; i < nl; i++ {
		var n int
		switch x := rng.Intn(100); {
		case x < 45:
			n = rng.Intn(60)
		case x < 70:
			n = 200 + rng.Intn(3000)
		case x < 80:
			n = readBufLen - 16 + rng.Intn(20)
		default:
			n = readBufLen + rng.Intn(30000)
		}
		if allowEmpty && rng.Intn(8) == 0 {
			c.Body = append(c.Body, '\n') // an empty line
			li++
		}
		c.Body = append(c.Body, concLine(seed, round, req, li, n)...)
		li++
		if i < nl-1 || rng.Intn(2) == 0 {
			c.Body = append(c.Body, '\n')
		}
	}
	c.Wire = c.Body
	if rng.Intn(4) == 0 {
		c.Gzip = true
		c.GzHow = gzHows[rng.Intn(len(gzHows))]
		c.Wire = gzipBytes(c.Body, c.GzHow, rng)
	}
	var pclass string
	c.Chunks, pclass = genPlan(rng, c.Wire, len(c.Wire) < 3000)
	if net && len(c.Chunks) > 200 {
		c.Chunks = c.Chunks[:200]
	}
	c.EOFWithLast = rng.Intn(2) == 0
	c.Kind = "concurrent/" + pclass
	return c
}

func childConc(raw json.RawMessage, cio *core.ChildIO) (any, error) {
	var in concIn
	if err := json.Unmarshal(raw, &in); err != nil {
		return nil, err
	}
	out := &concOut{Counters: map[string]int64{}, VSeen: map[string]int{}, Incon: map[string]int{}}
	fps := map[string]struct{}{}
	addV := func(sig, what string, w map[string]any) {
		out.VSeen[sig]++
		if out.VSeen[sig] <= 2 && len(out.Viols) < 40 {
			out.Viols = append(out.Viols, viol{Sig: sig, What: what, Witness: w})
		}
	}
	rec := &concRec{}
	plugin := startPlugin(rec, in.ES, in.AvgEvSize, in.Lim)
	defer plugin.Stop()
	path := "/x"
	if in.ES {
		path = "/_bulk"
	}

	var srv *httptest.Server
	if in.Net {
		srv = httptest.NewServer(http.HandlerFunc(func(w http.ResponseWriter, r *http.Request) {
			reqs := rec.st.Load().reqs
			id, err := strconv.Atoi(r.Header.Get("X-Verif-Req"))
			if err != nil || id < 0 || id >= len(reqs) {
				http.Error(w, "harness: bad request id", 599)
				return
			}
			rq := reqs[id]
			defer func() {
				if p := recover(); p != nil {
					rq.mu.Lock()
					rq.panicMsg = fmt.Sprint(p)
					rq.panicAt = panicSite(string(debug.Stack()))
					rq.mu.Unlock()
					panic(http.ErrAbortHandler)
				}
			}()
			plugin.ServeHTTP(&cRespWriter{rq: rq, under: w}, r)
		}))
		defer srv.Close()
	}

	rng := rand.New(rand.NewSource(in.Seed*7_000_003 + int64(in.Idx)))
	for round := 0; round < in.Rounds; round++ {
		k := in.K
		if round%3 == 2 && k > 2 {
			k = 2 + rng.Intn(k-1)
		}
		allowEmpty := round%2 == 1
		rec.gseq.Store(0)
		rec.omu.Lock()
		rec.orphans, rec.empties = nil, 0
		rec.omu.Unlock()
		reqs := make([]*cReq, k)
		wantEmpty := 0
		for i := range reqs {
			c := genConcCase(rng, in.Seed, round, i, allowEmpty, in.ES, in.Net, in.Lim)
			rq := &cReq{id: i, c: c, lines: refLines(c.Body)}
			for _, l := range rq.lines {
				if len(l) == 0 {
					wantEmpty++
				}
			}
			reqs[i] = rq
		}
		rec.st.Store(&roundState{round: round, reqs: reqs, measured: round%2 == 0})
		cio.Log(map[string]any{"part": "conc", "round": round, "k": k, "es": in.ES, "net": in.Net})

		var arrive sync.WaitGroup
		arrive.Add(k)
		var done sync.WaitGroup
		done.Add(k)
		for i := 0; i < k; i++ {
			rq := reqs[i]
			go func() {
				defer done.Done()
				var once sync.Once
				reach := func() { once.Do(arrive.Done) }
				defer reach()
				if in.Net {
					rq.netErr = sendNet(srv.Listener.Addr().String(), path, rq, func() { reach(); arrive.Wait() })
					return
				}
				first := true
				rd := &chunkReader{wire: rq.c.Wire, plan: append([]int(nil), rq.c.Chunks...), eofLast: rq.c.EOFWithLast, errAfter: -1}
				rd.yield = func() {
					if first {
						// all k requests hold their buffers and source ids now
						first = false
						reach()
						arrive.Wait()
						return
					}
					runtime.Gosched()
				}
				defer func() {
					if r := recover(); r != nil {
						rq.panicMsg = fmt.Sprint(r)
						rq.panicAt = panicSite(string(debug.Stack()))
					}
				}()
				plugin.ServeHTTP(&cRespWriter{rq: rq, hdr: http.Header{}}, newRequest(path, rd, rq.c.Gzip))
			}()
		}
		done.Wait()
		rec.omu.Lock()
		orphans, empties := rec.orphans, rec.empties
		rec.omu.Unlock()

		// ---- oracle over the round
		sidOwner := map[pipeline.SourceID]int{}
		var gorder []struct {
			g   int64
			req int
		}
		long, gz := 0, 0
		for _, rq := range reqs {
			rq.mu.Lock()
			entries := rq.entries
			rq.mu.Unlock()
			c := rq.c
			w := func(extra map[string]any) map[string]any {
				m := c.witness()
				m["round"], m["request"], m["in_flight"] = round, rq.id, k
				for k2, v := range extra {
					m[k2] = v
				}
				return m
			}
			if rq.netErr != nil {
				out.Incon["loopback transport: "+core.Trunc(rq.netErr.Error(), 60)]++
				continue
			}
			out.Evals++
			if c.Gzip {
				gz++
			}
			rq.mu.Lock()
			pmsg := rq.panicMsg
			rq.mu.Unlock()
			if pmsg != "" {
				addV(fmt.Sprintf("http-input panic while serving concurrent requests: %s @%s", normalizeMsg(rq.panicMsg), rq.panicAt), rq.panicMsg, w(nil))
				continue
			}
			next := 0 // next expected non-empty line index
			skipEmpty := func() {
				for next < len(rq.lines) && len(rq.lines[next]) == 0 {
					next++
				}
			}
			skipEmpty()
			statusPos, status := -1, 0
			seen := map[int]int{}
			bad := false
			sids := map[pipeline.SourceID]bool{}
			for pos, e := range entries {
				if e.kind == 'S' {
					statusPos, status = pos, e.status
					continue
				}
				sids[e.sid] = true
				if e.gseq > 0 {
					gorder = append(gorder, struct {
						g   int64
						req int
					}{e.gseq, rq.id})
				}
				out.Counters["in_calls_tagged"]++
				if statusPos >= 0 && !bad {
					bad = true
					addV("http-input concurrent requests: In called after the status of that request was written", fmt.Sprintf("line #%d", e.idx), w(nil))
				}
				if !e.ok {
					bad = true
					var ref []byte
					if e.idx < len(rq.lines) {
						ref = rq.lines[e.idx]
					}
					if bytes.Count(e.data, []byte("#")) > 1 {
						addV("http-input concurrent requests: one datum holds bytes of two different bodies",
							fmt.Sprintf("datum tagged request %d line %d: %s", rq.id, e.idx, q(e.data)), w(map[string]any{"datum": q(e.data), "reference_line": q(ref)}))
					} else {
						kind, _ := diffKind([][]byte{e.data}, [][]byte{ref})
						addV("http-input concurrent requests: datum is not a line of its request: "+kind,
							fmt.Sprintf("datum %s, reference line %s", q(e.data), q(ref)), w(map[string]any{"datum": q(e.data), "reference_line": q(ref)}))
					}
					continue
				}
				seen[e.idx]++
				if seen[e.idx] == 2 {
					bad = true
					addV("http-input concurrent requests: a line was handed over twice", fmt.Sprintf("request %d line %d", rq.id, e.idx), w(nil))
					continue
				}
				if e.idx != next && !bad {
					bad = true
					what := "lines of one request handed over out of order"
					if e.idx > next {
						what = "a line of the request was skipped"
					}
					addV("http-input concurrent requests: "+what, fmt.Sprintf("request %d: got line %d, expected line %d next", rq.id, e.idx, next), w(nil))
				}
				next = e.idx + 1
				skipEmpty()
				if len(rq.lines[e.idx]) >= readBufLen {
					long++
				}
			}
			if next < len(rq.lines) && !bad {
				bad = true
				addV("http-input concurrent requests: trailing lines of a request never handed over", fmt.Sprintf("request %d: %d of %d lines", rq.id, next, len(rq.lines)), w(nil))
			}
			switch {
			case statusPos < 0:
				addV("http-input concurrent requests: no status written for a well-formed body", "", w(nil))
			case status != http.StatusOK:
				addV(fmt.Sprintf("http-input concurrent requests: answered %d to a well-formed completely delivered body", status), "", w(nil))
			}
			// (a gzip request reads its header before it takes buffers and a source
			// id, and the loopback server may start a handler late: only plain
			// ServeHTTP requests are known to overlap at the barrier)
			for s := range sids {
				if in.Net || c.Gzip {
					break
				}
				if o, dup := sidOwner[s]; dup && o != rq.id {
					out.Counters["aux:source_id_shared_by_requests_in_flight_together"]++
				}
				sidOwner[s] = rq.id
			}
			if len(sids) > 1 {
				out.Counters["aux:request_used_several_source_ids"]++
			}
			out.Counters["requests_judged:"+c.enc()]++
			if in.Lim.MaxEventSize > 0 {
				out.Counters["requests_with_max_event_size_set"]++
			}
			fps[fmt.Sprintf("C:req:%s:%s:%s", c.enc(), c.Kind, bodyClass(c))] = struct{}{}
		}
		if len(orphans) > 0 {
			d := orphans[0]
			sig := "http-input concurrent requests: datum is no line of any request in flight"
			if bytes.Count(d, []byte("#")) > 1 {
				sig = "http-input concurrent requests: one datum holds bytes of two different bodies"
			}
			addV(sig, fmt.Sprintf("%d such data, first %s", len(orphans), q(d)), map[string]any{"round": round, "in_flight": k, "datum": q(d)})
		}
		if empties != wantEmpty {
			addV("http-input concurrent requests: number of empty data != number of empty lines",
				fmt.Sprintf("%d empty data handed, bodies hold %d empty lines", empties, wantEmpty), map[string]any{"round": round, "in_flight": k})
		}
		out.Counters["in_calls_empty"] += int64(empties)
		out.Counters["rounds"]++
		out.Counters["lines_longer_than_read_buffer"] += int64(long)
		// interleaving actually achieved (measured rounds only)
		sw := 0
		if len(gorder) > 1 {
			sort.Slice(gorder, func(a, b int) bool { return gorder[a].g < gorder[b].g })
			for i := 1; i < len(gorder); i++ {
				if gorder[i].req != gorder[i-1].req {
					sw++
				}
			}
			out.Counters["measured_switches_between_requests_in_global_In_order"] += int64(sw)
			if sw >= k {
				out.Counters["measured_rounds_with_interleaved_In_calls"]++
			}
		}
		swb := 0
		for x := sw; x > 0; x >>= 1 {
			swb++
		}
		fps[fmt.Sprintf("C:round:k=%d,max_event_size=%d,es=%v,net=%v,gz=%d,long=%d,emptylines=%v,switches~2^%d", k, in.Lim.MaxEventSize, in.ES, in.Net, gz, min(long, 4), allowEmpty, swb)] = struct{}{}
		if len(out.Samples) < 1 && round == 1 {
			out.Samples = append(out.Samples, map[string]any{"concurrent_round": round, "in_flight": k, "request0": reqs[0].c.witness(), "request0_lines": len(reqs[0].lines)})
		}
	}
	for k := range fps {
		out.FPs = append(out.FPs, k)
	}
	sort.Strings(out.FPs)
	return out, nil
}

// sendNet sends one request over its own loopback connection (chunked
// transfer encoding, one TCP write per planned chunk); after the first chunk
// it waits until all requests of the round are in flight.
func sendNet(addr, path string, rq *cReq, barrier func()) error {
	conn, err := net.Dial("tcp", addr)
	if err != nil {
		barrier()
		return err
	}
	defer conn.Close()
	_ = conn.SetDeadline(time.Now().Add(120 * time.Second))
	c := rq.c
	hdr := fmt.Sprintf("POST %s HTTP/1.1\r\nHost: verif\r\nX-Verif-Req: %d\r\nTransfer-Encoding: chunked\r\nConnection: close\r\n", path, rq.id)
	if c.Gzip {
		hdr += "Content-Encoding: gzip\r\n"
	}
	if _, err := conn.Write([]byte(hdr + "\r\n")); err != nil {
		barrier()
		return err
	}
	plan := append([]int(nil), c.Chunks...)
	off := 0
	first := true
	send := func(n int) error {
		var b bytes.Buffer
		fmt.Fprintf(&b, "%x\r\n", n)
		b.Write(c.Wire[off : off+n])
		b.WriteString("\r\n")
		off += n
		_, err := conn.Write(b.Bytes())
		return err
	}
	for _, n := range plan {
		if n > len(c.Wire)-off {
			n = len(c.Wire) - off
		}
		if n == 0 {
			continue
		}
		if err := send(n); err != nil {
			barrier()
			return err
		}
		if first {
			first = false
			barrier()
		} else {
			runtime.Gosched()
		}
	}
	if first {
		barrier()
	}
	if off < len(c.Wire) {
		if err := send(len(c.Wire) - off); err != nil {
			return err
		}
	}
	if _, err := conn.Write([]byte("0\r\n\r\n")); err != nil {
		return err
	}
	resp, err := http.ReadResponse(bufio.NewReader(conn), nil)
	if err != nil {
		return err
	}
	_, _ = io.Copy(io.Discard, resp.Body)
	resp.Body.Close()
	return nil
}
