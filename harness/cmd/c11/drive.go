package main

// Driving the real http input plugin and observing it at its two boundaries:
// pipeline.InputPluginController.In (what is handed over) and
// http.ResponseWriter (when the status is written).

import (
	"bufio"
	"bytes"
	"errors"
	"fmt"
	"io"
	"net"
	"net/http"
	"net/http/httptest"
	"net/url"
	"runtime/debug"
	"strings"
	"sync"
	"time"

	"github.com/ozontech/file.d/cfg"
	"github.com/ozontech/file.d/decoder"
	"github.com/ozontech/file.d/metric"
	"github.com/ozontech/file.d/pipeline"
	"github.com/ozontech/file.d/pipeline/metadata"
	httpin "github.com/ozontech/file.d/plugin/input/http"
	"github.com/prometheus/client_golang/prometheus"
	"go.uber.org/zap"
)

// ---------------------------------------------------------------------
// recording controller (sequential use: one request in flight per recorder)

type inRec struct {
	data []byte
	sid  pipeline.SourceID
	name string
	at   int64 // logical clock when In returned
}

type recorder struct {
	mu       sync.Mutex
	clock    int64
	ins      []inRec
	status   int
	statusAt int64 // clock of the first status/body write (0 = never)
	seq      uint64
}

func (r *recorder) reset() {
	r.mu.Lock()
	r.ins = r.ins[:0]
	r.status, r.statusAt = 0, 0
	r.mu.Unlock()
}

// In records a COPY of data taken during the call (the plugin may reuse the
// bytes as soon as In returns, exactly like with the real pipeline).
func (r *recorder) In(sid pipeline.SourceID, name string, _ pipeline.Offsets, data []byte, _ bool, _ metadata.MetaData) uint64 {
	cp := make([]byte, len(data))
	copy(cp, data)
	r.mu.Lock()
	r.clock++
	r.ins = append(r.ins, inRec{data: cp, sid: sid, name: name, at: r.clock})
	r.seq++
	s := r.seq
	r.mu.Unlock()
	return s
}
func (r *recorder) UseSpread()                        {}
func (r *recorder) DisableStreams()                   {}
func (r *recorder) SuggestDecoder(decoder.Type)       {}
func (r *recorder) IncReadOps()                       {}
func (r *recorder) IncMaxEventSizeExceeded(...string) {}

func (r *recorder) noteStatus(code int) {
	r.mu.Lock()
	if r.statusAt == 0 {
		r.clock++
		r.statusAt = r.clock
		r.status = code
	}
	r.mu.Unlock()
}

// respWriter is a recording http.ResponseWriter sharing the recorder's clock.
type respWriter struct {
	rec *recorder
	hdr http.Header
}

func (w *respWriter) Header() http.Header  { return w.hdr }
func (w *respWriter) WriteHeader(code int) { w.rec.noteStatus(code) }
func (w *respWriter) Write(b []byte) (int, error) {
	w.rec.noteStatus(http.StatusOK) // implicit 200 at the first body write
	return len(b), nil
}

// netRespWriter wraps the net/http server's writer for the loopback cases.
type netRespWriter struct {
	http.ResponseWriter
	rec *recorder
}

func (w *netRespWriter) WriteHeader(code int) {
	w.rec.noteStatus(code)
	w.ResponseWriter.WriteHeader(code)
}
func (w *netRespWriter) Write(b []byte) (int, error) {
	w.rec.noteStatus(http.StatusOK)
	return w.ResponseWriter.Write(b)
}

// ---------------------------------------------------------------------
// body reader that returns exactly the planned chunking

var errTransport = errors.New("verif: injected transport error")

type chunkReader struct {
	wire     []byte
	plan     []int
	pi       int
	off      int
	eofLast  bool
	errAfter int   // -1 none
	reads    []int // sizes actually returned (a planned size larger than len(p) is split)
	eofSeen  int   // number of reads answered with io.EOF
	yield    func()
}

func (r *chunkReader) Read(p []byte) (int, error) {
	if r.yield != nil {
		r.yield()
	}
	if r.errAfter >= 0 && r.off >= r.errAfter {
		return 0, errTransport
	}
	if r.off >= len(r.wire) {
		r.eofSeen++
		return 0, io.EOF
	}
	n := len(r.wire) - r.off
	if r.pi < len(r.plan) {
		n = r.plan[r.pi]
		if n > len(p) {
			// cannot hand more than the caller's buffer: split the planned read
			r.plan[r.pi] -= len(p)
			n = len(p)
		} else {
			r.pi++
		}
	} else if n > len(p) {
		n = len(p)
	}
	if n > len(r.wire)-r.off {
		n = len(r.wire) - r.off
	}
	if r.errAfter >= 0 && r.off+n > r.errAfter {
		n = r.errAfter - r.off
	}
	copy(p, r.wire[r.off:r.off+n])
	r.off += n
	r.reads = append(r.reads, n)
	if r.off >= len(r.wire) && r.eofLast && r.errAfter < 0 {
		r.eofSeen++
		return n, io.EOF
	}
	return n, nil
}
func (r *chunkReader) Close() error { return nil }

// ---------------------------------------------------------------------
// plugin instance

type instance struct {
	plugin *httpin.Plugin
	rec    *recorder
	es     bool
	lim    limits
	srv    *httptest.Server // loopback server (handler wrapper -> plugin.ServeHTTP), lazily started
	conn   net.Conn
	br     *bufio.Reader
	done   chan struct{}
}

var instSeq int
var instMu sync.Mutex

// limits are the pipeline size settings the plugin is started with. C11 says
// the http input hands over exactly the body's lines; what is too large is
// the pipeline's business (C20), so the oracle is the same for every value.
type limits struct {
	MaxEventSize int  `json:"max_event_size"`
	CutOff       bool `json:"cut_off_event_by_limit"`
}

func startPlugin(ctl pipeline.InputPluginController, es bool, avgEventSize int, lim limits) *httpin.Plugin {
	return startPluginAt(ctl, es, avgEventSize, lim, "off", zap.NewNop().Sugar())
}

// startPluginAt starts the plugin with the given `address` ("off": no
// listener, requests go through ServeHTTP; "127.0.0.1:<port>": the plugin's
// own listener, see stop.go).
func startPluginAt(ctl pipeline.InputPluginController, es bool, avgEventSize int, lim limits, address string, lg *zap.SugaredLogger) *httpin.Plugin {
	instMu.Lock()
	instSeq++
	id := instSeq
	instMu.Unlock()
	p, c := httpin.Factory()
	conf := c.(*httpin.Config)
	conf.Address = address
	if es {
		conf.EmulateMode = "elasticsearch"
	}
	if err := cfg.SetDefaultValues(conf); err != nil {
		panic(err)
	}
	conf.Address = address
	if err := cfg.Parse(conf, map[string]int{"gomaxprocs": 4}); err != nil {
		panic(err)
	}
	params := &pipeline.InputPluginParams{
		PluginDefaultParams: pipeline.PluginDefaultParams{
			PipelineName: fmt.Sprintf("c11_%d", id),
			PipelineSettings: &pipeline.Settings{AvgEventSize: avgEventSize, MetaCacheSize: 16, Capacity: 16,
				MaxEventSize: lim.MaxEventSize, CutOffEventByLimit: lim.CutOff, CutOffEventByLimitField: ""},
			MetricCtl: metric.NewCtl(fmt.Sprintf("c11_%d", id), prometheus.NewRegistry(), 0, 0),
		},
		Controller: ctl,
		Logger:     lg,
	}
	pl := p.(*httpin.Plugin)
	pl.Start(conf, params)
	return pl
}

func newInstance(es bool, avgEventSize int, lim limits) *instance {
	rec := &recorder{}
	return &instance{plugin: startPlugin(rec, es, avgEventSize, lim), rec: rec, es: es, lim: lim}
}

func (in *instance) close() {
	if in.conn != nil {
		in.conn.Close()
	}
	if in.srv != nil {
		in.srv.Close()
	}
	in.plugin.Stop()
}

func (in *instance) path() string {
	if in.es {
		return "/_bulk"
	}
	return "/logs"
}

// obs is what one request showed.
type obs struct {
	datas    [][]byte
	ats      []int64
	sids     []pipeline.SourceID
	status   int
	statusAt int64
	reads    []int
	eofSeen  int
	panicMsg string
	panicAt  string
}

func newRequest(path string, body io.ReadCloser, gz bool) *http.Request {
	u, _ := url.Parse(path)
	r := &http.Request{
		Method: http.MethodPost, URL: u, RequestURI: path, Proto: "HTTP/1.1", ProtoMajor: 1, ProtoMinor: 1,
		Header: http.Header{}, Body: body, ContentLength: -1, Host: "verif", RemoteAddr: "127.0.0.1:1",
	}
	if gz {
		r.Header.Set("Content-Encoding", "gzip")
	}
	return r
}

// serve delivers one case through ServeHTTP with the exact chunking.
func (in *instance) serve(c *Case) (o obs) {
	in.rec.reset()
	rd := &chunkReader{wire: c.Wire, plan: append([]int(nil), c.Chunks...), eofLast: c.EOFWithLast, errAfter: c.ErrAfter}
	w := &respWriter{rec: in.rec, hdr: http.Header{}}
	func() {
		defer func() {
			if r := recover(); r != nil {
				o.panicMsg = fmt.Sprint(r)
				o.panicAt = panicSite(string(debug.Stack()))
			}
		}()
		in.plugin.ServeHTTP(w, newRequest(in.path(), rd, c.Gzip))
	}()
	in.collect(&o)
	o.reads, o.eofSeen = rd.reads, rd.eofSeen
	return o
}

func (in *instance) collect(o *obs) {
	in.rec.mu.Lock()
	for _, r := range in.rec.ins {
		o.datas = append(o.datas, r.data)
		o.ats = append(o.ats, r.at)
		o.sids = append(o.sids, r.sid)
	}
	o.status, o.statusAt = in.rec.status, in.rec.statusAt
	in.rec.mu.Unlock()
}

// serveNet delivers one case over a real loopback connection with chunked
// transfer encoding: one TCP write per planned chunk.
func (in *instance) serveNet(c *Case) (o obs, err error) {
	if in.srv == nil {
		in.done = make(chan struct{}, 1)
		in.srv = httptest.NewServer(http.HandlerFunc(func(w http.ResponseWriter, r *http.Request) {
			defer func() { in.done <- struct{}{} }()
			in.plugin.ServeHTTP(&netRespWriter{ResponseWriter: w, rec: in.rec}, r)
		}))
	}
	in.rec.reset()
	if in.conn == nil {
		in.conn, err = net.Dial("tcp", in.srv.Listener.Addr().String())
		if err != nil {
			return o, err
		}
		in.br = bufio.NewReader(in.conn)
	}
	fail := func(e error) (obs, error) {
		in.conn.Close()
		in.conn = nil
		return o, e
	}
	_ = in.conn.SetDeadline(time.Now().Add(60 * time.Second))
	var hdr strings.Builder
	fmt.Fprintf(&hdr, "POST %s HTTP/1.1\r\nHost: verif\r\nTransfer-Encoding: chunked\r\n", in.path())
	if c.Gzip {
		hdr.WriteString("Content-Encoding: gzip\r\n")
	}
	hdr.WriteString("\r\n")
	if _, err = in.conn.Write([]byte(hdr.String())); err != nil {
		return fail(err)
	}
	off := 0
	var sent []int
	for _, n := range c.Chunks {
		if n == 0 {
			continue // a zero-length chunk would end the chunked body
		}
		if n > len(c.Wire)-off {
			n = len(c.Wire) - off
		}
		var b bytes.Buffer
		fmt.Fprintf(&b, "%x\r\n", n)
		b.Write(c.Wire[off : off+n])
		b.WriteString("\r\n")
		if _, err = in.conn.Write(b.Bytes()); err != nil {
			return fail(err)
		}
		off += n
		sent = append(sent, n)
	}
	if off < len(c.Wire) {
		var b bytes.Buffer
		fmt.Fprintf(&b, "%x\r\n", len(c.Wire)-off)
		b.Write(c.Wire[off:])
		b.WriteString("\r\n")
		if _, err = in.conn.Write(b.Bytes()); err != nil {
			return fail(err)
		}
		sent = append(sent, len(c.Wire)-off)
	}
	if _, err = in.conn.Write([]byte("0\r\n\r\n")); err != nil {
		return fail(err)
	}
	resp, err := http.ReadResponse(in.br, nil)
	if err != nil {
		return fail(err)
	}
	_, _ = io.Copy(io.Discard, resp.Body)
	resp.Body.Close()
	select {
	case <-in.done:
	case <-time.After(60 * time.Second):
		return fail(errors.New("handler did not return"))
	}
	in.collect(&o)
	if o.status == 0 {
		o.status = resp.StatusCode
	} else if o.status != resp.StatusCode {
		return fail(fmt.Errorf("status seen by client %d != status written %d", resp.StatusCode, o.status))
	}
	o.reads = sent
	o.eofSeen = 1
	if resp.Close {
		in.conn.Close()
		in.conn = nil
	}
	return o, nil
}

// panicSite: first frame inside the http plugin (else inside file.d) of a stack.
func panicSite(stack string) string {
	lines := strings.Split(stack, "\n")
	pick := func(sub string) string {
		for i, l := range lines {
			if strings.Contains(l, sub) && !strings.HasPrefix(l, "\t") {
				fn := l
				if j := strings.LastIndex(fn, "("); j > 0 {
					fn = fn[:j]
				}
				if k := strings.LastIndex(fn, "/"); k >= 0 {
					fn = fn[k+1:]
				}
				_ = i
				return fn
			}
		}
		return ""
	}
	if s := pick("file.d/plugin/input/http."); s != "" {
		return s
	}
	if s := pick("ozontech/file.d/"); s != "" {
		return s
	}
	return "?"
}

// ---------------------------------------------------------------------
// oracle for one sequentially served case

type viol struct {
	Sig     string         `json:"sig"`
	What    string         `json:"what"`
	Witness map[string]any `json:"witness"`
}

func q(b []byte) string {
	if len(b) > 80 {
		return fmt.Sprintf("%q…(%d bytes)…%q", b[:40], len(b), b[len(b)-24:])
	}
	return fmt.Sprintf("%q", b)
}

func qs(bs [][]byte) []string {
	var out []string
	for i, b := range bs {
		if i >= 24 {
			out = append(out, fmt.Sprintf("…(%d data)", len(bs)))
			break
		}
		out = append(out, q(b))
	}
	return out
}

// judge compares an observation with the reference. It returns the violations
// and a label of the observed outcome (for coverage counters).
func judge(c *Case, o *obs) (vs []viol, outcome string) {
	add := func(sig, what string, extra map[string]any) {
		w := c.witness()
		w["handed"] = qs(o.datas)
		w["status"] = o.status
		w["actual_read_sizes"] = headInts(o.reads, 64)
		for k, v := range extra {
			w[k] = v
		}
		vs = append(vs, viol{Sig: sig, What: what, Witness: w})
	}
	if o.panicMsg != "" {
		add(fmt.Sprintf("http-input panic while serving a request: %s @%s", normalizeMsg(o.panicMsg), o.panicAt),
			"the plugin panicked: "+o.panicMsg, nil)
		return vs, "panic"
	}
	want := refLines(c.Body)

	if c.Clean() {
		kind, idx := diffKind(o.datas, want)
		if kind != "" && c.Lim.MaxEventSize > 0 && idx < len(o.datas) && idx < len(want) &&
			len(o.datas[idx]) < len(want[idx]) && len(want[idx]) > c.Lim.MaxEventSize {
			// a line longer than max_event_size came out shorter
			// exactly the first max_event_size bytes, optionally followed by a later part of the line
			if g, w, m := o.datas[idx], want[idx], c.Lim.MaxEventSize; len(g) >= m && bytes.Equal(g[:m], w[:m]) && bytes.HasSuffix(w, g[m:]) {
				kind = "line-longer-than-max_event_size-cut-or-spliced"
			}
		}
		if kind != "" {
			ctx := lineContext(c, o.reads, idx)
			var g, w string
			if idx < len(o.datas) {
				g = q(o.datas[idx])
			}
			if idx < len(want) {
				w = q(want[idx])
			}
			add(fmt.Sprintf("http-input handed data != lines of body: %s; line %s", kind, ctx),
				fmt.Sprintf("datum #%d is %s, reference line is %s (handed %d data, body has %d lines)", idx, g, w, len(o.datas), len(want)),
				map[string]any{"expected_lines": qs(want), "first_difference_at": idx, "line_longer_than_read_buffer": idx < len(want) && len(want[idx]) >= readBufLen})
		}
		switch {
		case o.status != http.StatusOK:
			add(fmt.Sprintf("http-input answered %d to a well-formed completely delivered body; enc=%s", o.status, encClass(c)),
				"README: the plugin answers 200 right after it has read all the request body", nil)
		case len(o.ats) > 0 && o.statusAt < o.ats[len(o.ats)-1]:
			add("http-input wrote status 200 before the last In call of the request returned; enc="+encClass(c),
				fmt.Sprintf("status written at logical time %d, last In returned at %d", o.statusAt, o.ats[len(o.ats)-1]), nil)
		case kind != "" && len(o.datas) < len(want):
			add("http-input wrote status 200 although not every line of the body was handed over; enc="+encClass(c),
				fmt.Sprintf("%d of %d lines handed when 200 was written", len(o.datas), len(want)), nil)
		}
		if o.eofSeen == 0 {
			add("http-input stopped reading the body before end of stream; enc="+encClass(c), "the body reader never got to report io.EOF", nil)
		}
		return vs, "ok200"
	}

	// Incomplete bodies (transport error / cut gzip stream): the plugin has not
	// read all the body, so it must not answer 200; what it handed over must be
	// a prefix of the body's lines (the last datum may be a cut line).
	if o.status == http.StatusOK {
		why := "transport-read-error"
		if c.Truncated {
			why = "truncated-gzip-stream"
		}
		add(fmt.Sprintf("http-input answered 200 to an incompletely read body (%s); enc=%s", why, encClass(c)),
			"a 200 response is sent only after every line of the body has been handed to the pipeline", nil)
	}
	for i, d := range o.datas {
		switch {
		case i >= len(want):
			add("http-input handed data that is no line of the (incomplete) body; enc="+encClass(c), fmt.Sprintf("datum #%d %s", i, q(d)), map[string]any{"expected_lines": qs(want)})
			return vs, "incomplete"
		case bytes.Equal(d, want[i]):
		case i == len(o.datas)-1 && bytes.HasPrefix(want[i], d):
		default:
			add("http-input handed data that is no line of the (incomplete) body; enc="+encClass(c), fmt.Sprintf("datum #%d %s, line %s", i, q(d), q(want[i])), map[string]any{"expected_lines": qs(want)})
			return vs, "incomplete"
		}
	}
	return vs, "incomplete"
}

func encClass(c *Case) string {
	s := "plain"
	if c.Gzip {
		s = "gzip"
	}
	if c.Net {
		s += "+tcp"
	}
	return s
}

func headInts(a []int, n int) []int {
	if len(a) > n {
		return a[:n]
	}
	return a
}

func normalizeMsg(m string) string {
	var b strings.Builder
	prev := false
	for _, r := range m {
		if r >= '0' && r <= '9' {
			if !prev {
				b.WriteByte('N')
			}
			prev = true
			continue
		}
		prev = false
		b.WriteRune(r)
	}
	s := b.String()
	if len(s) > 120 {
		s = s[:120]
	}
	return s
}
