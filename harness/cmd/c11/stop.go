package main

// Child workload "stop": Plugin.Stop() while a request body is in flight.
//
// Every case starts its own real plugin with its OWN LISTENER
// (`address: 127.0.0.1:<free port>`, so Start/listenHTTP/Stop run as in
// production and the plugin itself is the http.Server's handler), uploads one
// body in several pieces over a raw TCP connection (chunked transfer encoding
// or Content-Length with pauses, plain and gzip), calls Plugin.Stop() at a
// controlled point (after k of n pieces were written AND the lines they
// complete were seen by the recording controller), then finishes or aborts the
// upload. The status is observed where the client sees it: on the wire.
//
// Oracle (nothing but the property text):
//   - the client got a 2xx answer  =>  at the moment the answer arrived the
//     data handed to In were exactly refLines(body) (no cut line, nothing
//     missing, nothing extra), and nothing is handed over afterwards;
//   - any other answer / connection error  =>  nothing is claimed about
//     completeness; what was handed over must still be a prefix of the body's
//     lines (the last datum may be a cut line - same tolerance as the
//     transport-error cases of the sequential part).
// Which answer a request gets when the plugin is stopped mid-body (200 after a
// graceful drain, 4xx/5xx, connection reset) is NOT judged.

import (
	"bufio"
	"bytes"
	"compress/flate"
	"compress/gzip"
	"encoding/json"
	"errors"
	"fmt"
	"io"
	"math/rand"
	"net"
	"net/http"
	"os"
	"sort"
	"strings"
	"sync"
	"sync/atomic"
	"syscall"
	"time"

	"github.com/ozontech/file.d/decoder"
	"github.com/ozontech/file.d/pipeline"
	"github.com/ozontech/file.d/pipeline/metadata"
	"go.uber.org/zap"
	"go.uber.org/zap/zapcore"

	"verifharness/core"
)

type stopIn struct {
	Seed  int64 `json:"seed"`
	Idx   int   `json:"idx"`
	Cases int   `json:"cases"`
	Par   int   `json:"par"`
}

// ---------------------------------------------------------------------
// recording controller with a rendezvous on the number of data handed over

type stopRec struct {
	smu    sync.Mutex
	datas  [][]byte
	notify chan struct{}
}

func (r *stopRec) In(_ pipeline.SourceID, _ string, _ pipeline.Offsets, data []byte, _ bool, _ metadata.MetaData) uint64 {
	return uint64(r.add(data))
}
func (r *stopRec) UseSpread()                        {}
func (r *stopRec) DisableStreams()                   {}
func (r *stopRec) SuggestDecoder(decoder.Type)       {}
func (r *stopRec) IncReadOps()                       {}
func (r *stopRec) IncMaxEventSizeExceeded(...string) {}

func newStopRec() *stopRec { return &stopRec{notify: make(chan struct{}, 1)} }

func (r *stopRec) add(data []byte) int {
	cp := make([]byte, len(data))
	copy(cp, data)
	r.smu.Lock()
	r.datas = append(r.datas, cp)
	n := len(r.datas)
	r.smu.Unlock()
	select {
	case r.notify <- struct{}{}:
	default:
	}
	return n
}

func (r *stopRec) n() int {
	r.smu.Lock()
	defer r.smu.Unlock()
	return len(r.datas)
}

func (r *stopRec) snapshot(from, to int) [][]byte {
	r.smu.Lock()
	defer r.smu.Unlock()
	if to < 0 || to > len(r.datas) {
		to = len(r.datas)
	}
	if from > to {
		from = to
	}
	return append([][]byte(nil), r.datas[from:to]...)
}

// waitLen blocks until at least n data were handed over, the response of the
// request arrived (done), or the (generous) limit passed. Never a verdict.
func (r *stopRec) waitLen(n int, done <-chan struct{}, limit time.Duration) string {
	t := time.NewTimer(limit)
	defer t.Stop()
	for {
		if r.n() >= n {
			return "reached"
		}
		select {
		case <-r.notify:
		case <-done:
			if r.n() >= n {
				return "reached"
			}
			return "response-first"
		case <-t.C:
			return "timeout"
		}
	}
}

// ---------------------------------------------------------------------
// case

type stopCase struct {
	ID         string
	ES         bool
	Gzip       bool
	GzLevel    int
	CL         bool // Content-Length with pauses; otherwise chunked transfer encoding
	Body       []byte
	Pieces     [][]byte // the body cut into pieces
	Wire       [][]byte // the wire bytes of each piece (gzip: flushed at every piece end)
	LinesAfter []int    // newline-terminated lines in Pieces[0..i]
	StopAfter  int      // Stop() is called after this many pieces
	Finish     string   // stepwise | at-once | abort-halfclose | abort-close
	AbortAfter int      // pieces written after Stop() before the abort
	AvgEv      int
	Lim        limits
	WriteSeed  int64
}

func (c *stopCase) enc() string {
	s := "plain"
	if c.Gzip {
		s = "gzip"
	}
	if c.ES {
		s += "+es_bulk"
	}
	if c.CL {
		return s + "+listener/content-length"
	}
	return s + "+listener/chunked"
}

// sigEnc: the encoding part of a signature (transport and endpoint are in the witness).
func (c *stopCase) sigEnc() string {
	if c.Gzip {
		return "gzip+listener"
	}
	return "plain+listener"
}

// boundaryAtStop: where in the body Stop() falls.
func (c *stopCase) boundaryAtStop() string {
	switch {
	case c.StopAfter == 0:
		return "before-first-piece"
	case c.StopAfter >= len(c.Pieces):
		return "after-last-piece-before-terminator"
	}
	prev := c.Pieces[c.StopAfter-1]
	next := c.Pieces[c.StopAfter]
	switch {
	case prev[len(prev)-1] == '\n':
		return "right-after-newline"
	case next[0] == '\n':
		return "right-before-newline(partial-line-pending)"
	default:
		return "inside-line(partial-line-pending)"
	}
}

func (c *stopCase) witness() map[string]any {
	var ps []string
	for i, p := range c.Pieces {
		if i >= 8 {
			ps = append(ps, "…")
			break
		}
		ps = append(ps, q(p))
	}
	return map[string]any{
		"family": "stop-mid-body", "enc": c.enc(), "pieces": ps, "n_pieces": len(c.Pieces), "body_len": len(c.Body),
		"stop_called_after_pieces": c.StopAfter, "stop_falls": c.boundaryAtStop(), "finish": c.Finish, "pieces_after_stop_before_abort": c.AbortAfter,
		"avg_event_size": c.AvgEv, "max_event_size": c.Lim.MaxEventSize, "cut_off_event_by_limit": c.Lim.CutOff,
	}
}

func genStopCase(rng *rand.Rand, id string) *stopCase {
	c := &stopCase{ID: id}
	c.ES = rng.Intn(4) == 0
	c.Gzip = rng.Intn(10) < 3
	c.CL = rng.Intn(10) < 3
	c.AvgEv = []int{0, 1, 16, 4096}[rng.Intn(4)]
	if rng.Intn(4) == 0 {
		c.Lim = limits{MaxEventSize: []int{8, 64, 4096, readBufLen}[rng.Intn(4)], CutOff: rng.Intn(2) == 0}
	}
	c.WriteSeed = rng.Int63()

	nl := 3 + rng.Intn(10)
	crlf := rng.Intn(7) == 0
	for i := 0; i < nl; i++ {
		var n int
		switch x := rng.Intn(100); {
		case x < 10:
			n = -1 // empty line
		case x < 65:
			n = rng.Intn(120)
		case x < 85:
			n = 200 + rng.Intn(3000)
		case x < 93:
			n = readBufLen - 24 + rng.Intn(12)
		default:
			n = readBufLen + rng.Intn(40000)
		}
		if n >= 0 {
			c.Body = append(c.Body, fmt.Sprintf("%s#%d:", id, i)...)
			x := uint64(c.WriteSeed) + uint64(i)*104729 + 1
			for j := 0; j < n; j++ {
				x ^= x << 13
				x ^= x >> 7
				x ^= x << 17
				c.Body = append(c.Body, concAlpha[x%uint64(len(concAlpha))])
			}
		}
		if i < nl-1 || rng.Intn(2) == 0 {
			if crlf {
				c.Body = append(c.Body, '\r')
			}
			c.Body = append(c.Body, '\n')
		}
	}

	// cut points
	var nls []int
	for i, b := range c.Body {
		if b == '\n' {
			nls = append(nls, i)
		}
	}
	np := 2 + rng.Intn(5)
	// usually the first piece completes the first line: once that line was seen by
	// the controller the handler is known to be running (otherwise Stop() may close
	// the listener before the connection was even accepted)
	firstLineInPiece0 := rng.Intn(10) != 0
	cuts := map[int]bool{}
	for tries := 0; len(cuts) < np-1 && tries < 200; tries++ {
		p := 0
		switch x := rng.Intn(10); {
		case x < 6: // inside a line
			p = 1 + rng.Intn(len(c.Body)-1)
			if c.Body[p-1] == '\n' || c.Body[p] == '\n' {
				continue
			}
		case x < 8: // right after a newline
			p = nls[rng.Intn(len(nls))] + 1
		default: // right before a newline
			p = nls[rng.Intn(len(nls))]
		}
		if p <= 0 || p >= len(c.Body) || (firstLineInPiece0 && p <= nls[0]) {
			continue
		}
		cuts[p] = true
	}
	var cs []int
	for p := range cuts {
		cs = append(cs, p)
	}
	sort.Ints(cs)
	last := 0
	for _, p := range append(cs, len(c.Body)) {
		c.Pieces = append(c.Pieces, c.Body[last:p])
		last = p
	}
	np = len(c.Pieces)
	lines := 0
	for _, p := range c.Pieces {
		lines += bytes.Count(p, []byte{'\n'})
		c.LinesAfter = append(c.LinesAfter, lines)
	}

	// wire
	if c.Gzip {
		c.GzLevel = []int{gzip.DefaultCompression, gzip.BestSpeed, flate.NoCompression, flate.HuffmanOnly}[rng.Intn(4)]
		var buf bytes.Buffer
		w, _ := gzip.NewWriterLevel(&buf, c.GzLevel)
		mark := 0
		for i, p := range c.Pieces {
			if len(p) > 2 && rng.Intn(3) == 0 { // a flush inside the piece, too
				k := 1 + rng.Intn(len(p)-1)
				w.Write(p[:k])
				w.Flush()
				w.Write(p[k:])
			} else {
				w.Write(p)
			}
			if i == np-1 {
				w.Close()
			} else {
				w.Flush() // everything of this piece is decodable once its wire bytes arrived
			}
			c.Wire = append(c.Wire, append([]byte(nil), buf.Bytes()[mark:]...))
			mark = buf.Len()
		}
	} else {
		c.Wire = c.Pieces
	}

	// where Stop() falls and how the upload goes on
	switch x := rng.Intn(100); {
	case x < 5:
		c.StopAfter = 0
	case x < 12 && !c.CL:
		c.StopAfter = np
	default:
		c.StopAfter = 1 + rng.Intn(np-1)
		if np >= 3 && rng.Intn(2) == 0 {
			c.StopAfter = 1 + rng.Intn(np-2) // at least two pieces follow
		}
	}
	switch x := rng.Intn(100); {
	case x < 55:
		c.Finish = "stepwise"
	case x < 70:
		c.Finish = "at-once"
	case x < 88:
		c.Finish = "abort-halfclose"
	default:
		c.Finish = "abort-close"
	}
	if rem := np - c.StopAfter; rem > 0 && strings.HasPrefix(c.Finish, "abort") {
		c.AbortAfter = rng.Intn(rem)
	}
	return c
}

// ---------------------------------------------------------------------
// running one case

type stopRun struct {
	incon       string
	status      int    // 0: no response
	respErr     string // class of the error instead of a response
	atResp      [][]byte
	final       [][]byte
	sentAtResp  int // pieces completely written when the response arrived
	sentAll     bool
	writeErr    string
	rendezvous  map[string]int
	stopFirst   bool // Stop() returned before the idle connection was seen closing
	stopBlocked bool // Stop() had not returned when the response arrived
}

// freeAddr probes a loopback port for the plugin's listener. The port is taken
// from BELOW the kernel's ephemeral range when there is room: a port handed
// out by Listen(":0") can be grabbed as the source port of any outgoing
// connection on this (busy) machine between the probe and the plugin's own
// bind. Which port is used is not part of the case (not derived from the seed).
func freeAddr() (string, error) {
	lo := 0
	if b, err := os.ReadFile("/proc/sys/net/ipv4/ip_local_port_range"); err == nil {
		_, _ = fmt.Sscan(string(b), &lo)
	}
	if lo >= 20000 {
		for try := 0; try < 64; try++ {
			a := fmt.Sprintf("127.0.0.1:%d", 10240+rand.Intn(lo-10240))
			if l, err := net.Listen("tcp", a); err == nil {
				l.Close()
				return a, nil
			}
		}
	}
	l, err := net.Listen("tcp", "127.0.0.1:0")
	if err != nil {
		return "", err
	}
	a := l.Addr().String()
	l.Close()
	return a, nil
}

func errClass(err error) string {
	var ne net.Error
	switch {
	case err == nil:
		return ""
	case errors.Is(err, io.EOF), errors.Is(err, io.ErrUnexpectedEOF):
		return "connection-closed"
	case errors.Is(err, syscall.ECONNRESET):
		return "connection-reset"
	case errors.Is(err, syscall.EPIPE):
		return "broken-pipe"
	case errors.Is(err, net.ErrClosed):
		return "closed-by-client"
	case errors.As(err, &ne) && ne.Timeout():
		return "timeout"
	}
	return "other"
}

const stopWatchdog = 40 * time.Second

var stopStartMu sync.Mutex // port probing + listener start, one at a time per process

func runStopCase(sc *stopCase) (res stopRun) {
	res.rendezvous = map[string]int{}
	rec := newStopRec()
	// logger.Fatal (listen error: port taken meanwhile) must not kill the child
	lg := zap.NewNop().WithOptions(zap.WithFatalHook(zapcore.WriteThenGoexit)).Sugar()
	path := "/logs"
	if sc.ES {
		path = "/_bulk"
	}

	stopStartMu.Lock()
	addr, err := freeAddr()
	if err != nil {
		stopStartMu.Unlock()
		res.incon = "stop: no free loopback port"
		return
	}
	plugin := startPluginAt(rec, sc.ES, sc.AvgEv, sc.Lim, addr, lg)
	var canary net.Conn
	for dl := time.Now().Add(stopWatchdog); ; {
		canary, err = net.DialTimeout("tcp", addr, 5*time.Second)
		if err == nil || time.Now().After(dl) {
			break
		}
		time.Sleep(500 * time.Microsecond) // the listener goroutine has not bound yet
	}
	stopStartMu.Unlock()
	stopped := make(chan struct{})
	var stopOnce sync.Once
	stop := func() {
		stopOnce.Do(func() {
			go func() {
				plugin.Stop()
				close(stopped)
			}()
		})
	}
	if err != nil {
		stop()
		res.incon = "stop: watchdog: cannot connect to the plugin's listener"
		return
	}
	defer canary.Close()

	// canary: one complete keep-alive request. It proves that this port is served
	// by THIS plugin, and its connection is idle afterwards: net/http closes idle
	// connections after the listener is closed and the Serve loop has returned,
	// which is the observable rendezvous for "Stop() is in progress".
	cline := sc.ID + "#canary"
	_ = canary.SetDeadline(time.Now().Add(stopWatchdog))
	if _, err = fmt.Fprintf(canary, "POST %s HTTP/1.1\r\nHost: verif\r\nContent-Length: %d\r\n\r\n%s\n", path, len(cline)+1, cline); err != nil {
		stop()
		res.incon = "stop: canary request failed (write: " + errClass(err) + ")"
		return
	}
	cbr := bufio.NewReader(canary)
	cresp, err := http.ReadResponse(cbr, nil)
	if err != nil {
		stop()
		res.incon = "stop: canary request failed (read: " + errClass(err) + ")"
		return
	}
	_, _ = io.Copy(io.Discard, io.LimitReader(cresp.Body, 1<<20))
	cresp.Body.Close()
	if got := rec.snapshot(0, -1); cresp.StatusCode != http.StatusOK || cresp.Close || len(got) != 1 || string(got[0]) != cline {
		stop()
		res.incon = fmt.Sprintf("stop: canary request not served by this plugin (port taken by another listener?) status=%d close=%v data=%d", cresp.StatusCode, cresp.Close, len(got))
		return
	}
	_ = canary.SetDeadline(time.Time{})
	canaryClosed := make(chan struct{})
	go func() {
		var b [1]byte
		_, _ = cbr.Read(b[:])
		close(canaryClosed)
	}()

	// ---- the upload
	mark := rec.n()
	conn, err := net.DialTimeout("tcp", addr, 5*time.Second)
	if err != nil {
		stop()
		res.incon = "stop: cannot open the upload connection"
		return
	}
	defer conn.Close()
	wrng := rand.New(rand.NewSource(sc.WriteSeed))
	var sent atomic.Int32
	var writeErr error
	write := func(b []byte) bool {
		if writeErr != nil {
			return false
		}
		_ = conn.SetWriteDeadline(time.Now().Add(stopWatchdog))
		if len(b) > 1 && wrng.Intn(10) < 3 { // the TCP writes do not follow the HTTP framing
			k := 1 + wrng.Intn(len(b)-1)
			if _, writeErr = conn.Write(b[:k]); writeErr != nil {
				return false
			}
			b = b[k:]
		}
		_, writeErr = conn.Write(b)
		return writeErr == nil
	}
	var hdr strings.Builder
	fmt.Fprintf(&hdr, "POST %s HTTP/1.1\r\nHost: verif\r\n", path)
	if sc.CL {
		total := 0
		for _, w := range sc.Wire {
			total += len(w)
		}
		fmt.Fprintf(&hdr, "Content-Length: %d\r\n", total)
	} else {
		hdr.WriteString("Transfer-Encoding: chunked\r\n")
	}
	if sc.Gzip {
		hdr.WriteString("Content-Encoding: gzip\r\n")
	}
	hdr.WriteString("\r\n")
	write([]byte(hdr.String()))

	respDone := make(chan struct{})
	var rStatus int
	var rErr error
	var rAt, rSent int
	var rStopBlocked bool
	go func() {
		defer close(respDone)
		resp, err := http.ReadResponse(bufio.NewReader(conn), nil)
		rAt = rec.n() // what had been handed over when the answer arrived
		rSent = int(sent.Load())
		select {
		case <-stopped:
		default:
			rStopBlocked = true
		}
		if err != nil {
			rErr = err
			return
		}
		rStatus = resp.StatusCode
		_, _ = io.Copy(io.Discard, io.LimitReader(resp.Body, 1<<20))
		resp.Body.Close()
	}()
	answered := func() bool {
		select {
		case <-respDone:
			return true
		default:
			return false
		}
	}

	sendPiece := func(i int) bool {
		w := sc.Wire[i]
		var raw []byte
		if sc.CL {
			raw = w
		} else {
			var b bytes.Buffer
			for off := 0; off < len(w); {
				n := len(w) - off
				if n > 1 && wrng.Intn(3) == 0 {
					n = 1 + wrng.Intn(n-1)
				}
				fmt.Fprintf(&b, "%x\r\n", n)
				b.Write(w[off : off+n])
				b.WriteString("\r\n")
				off += n
			}
			raw = b.Bytes()
		}
		if !write(raw) {
			return false
		}
		sent.Add(1)
		return true
	}
	rendezvous := func(i int) {
		if sc.Gzip && i == len(sc.Pieces)-1 {
			// the gzip reader looks for a further member before it returns the data of
			// the final block: nothing of the last piece is observable before end of body
			res.rendezvous["skipped(last-gzip-piece)"]++
			return
		}
		limit := 10 * time.Second
		if res.rendezvous["timeout"] > 0 {
			limit = 100 * time.Millisecond // this plugin does not hand lines over as they arrive: do not wait again
		}
		res.rendezvous[rec.waitLen(mark+sc.LinesAfter[i], respDone, limit)]++
	}
	np := len(sc.Pieces)
	i := 0
	for ; i < sc.StopAfter && !answered(); i++ {
		if !sendPiece(i) {
			break
		}
		rendezvous(i)
	}

	// ---- Stop() while the body is in flight
	stop()
	select {
	case <-canaryClosed:
	case <-stopped:
		res.stopFirst = true
	case <-time.After(stopWatchdog):
		res.incon = "stop: watchdog: idle connection not closed after Stop()"
		conn.Close()
		return
	}
	time.Sleep(time.Millisecond) // listenHTTP returns right after; not a verdict

	// ---- go on with the upload
	finishBody := func() {
		if !sc.CL && !answered() && write([]byte("0\r\n\r\n")) {
			res.sentAll = true
		} else if sc.CL && writeErr == nil && i == np {
			res.sentAll = true
		}
	}
	switch sc.Finish {
	case "stepwise":
		for ; i < np && !answered(); i++ {
			if !sendPiece(i) {
				break
			}
			rendezvous(i)
		}
		if i == np {
			finishBody()
		}
	case "at-once":
		for ; i < np && !answered(); i++ {
			if !sendPiece(i) {
				break
			}
		}
		if i == np {
			finishBody()
		}
	default:
		for j := 0; j < sc.AbortAfter && i < np && !answered(); j++ {
			if !sendPiece(i) {
				break
			}
			rendezvous(i)
			i++
		}
		if sc.Finish == "abort-halfclose" {
			if tc, ok := conn.(*net.TCPConn); ok {
				_ = tc.CloseWrite()
			}
		} else {
			conn.Close()
		}
	}
	if writeErr != nil {
		res.writeErr = errClass(writeErr)
	}

	select {
	case <-respDone:
	case <-time.After(stopWatchdog):
		res.incon = "stop: watchdog: neither a response nor a connection error"
		conn.Close()
		<-respDone
		return
	}
	conn.Close()
	select {
	case <-stopped:
	case <-time.After(stopWatchdog):
		res.incon = "stop: watchdog: Stop() did not return after the connection was closed"
		return
	}
	// Stop() returned: the server has no active connection any more, the handler is done
	res.status, res.respErr = rStatus, errClass(rErr)
	res.sentAtResp, res.stopBlocked = rSent, rStopBlocked
	res.atResp = rec.snapshot(mark, rAt)
	res.final = rec.snapshot(mark, -1)
	for _, d := range rec.snapshot(0, -1) {
		// a datum that carries the complete tag of ANOTHER case (a cut line of this
		// case may be shorter than its own tag: that is not foreign)
		if own := []byte(sc.ID + "#"); bytes.HasPrefix(d, []byte("c11stop.")) && !bytes.HasPrefix(d, own) && !bytes.HasPrefix(own, d) {
			res.incon = "stop: data of a foreign request reached this plugin's port"
		}
	}
	return
}

// judgeStop applies the oracle to one finished case.
func judgeStop(sc *stopCase, r *stopRun) (vs []viol, outcome string) {
	want := refLines(sc.Body)
	add := func(sig, what string, extra map[string]any) {
		w := sc.witness()
		w["status_seen_by_client"] = r.status
		if r.respErr != "" {
			w["client_error_instead_of_response"] = r.respErr
		}
		w["handed_when_answer_arrived"] = qs(r.atResp)
		w["handed_in_total"] = qs(r.final)
		w["expected_lines"] = qs(want)
		w["pieces_written_when_answer_arrived"] = r.sentAtResp
		w["client_finished_upload"] = r.sentAll
		w["stop_still_blocked_when_answer_arrived"] = r.stopBlocked
		for k, v := range extra {
			w[k] = v
		}
		vs = append(vs, viol{Sig: sig, What: what, Witness: w})
	}
	if r.status >= 200 && r.status < 300 {
		outcome = fmt.Sprintf("%d", r.status)
		kind, idx := diffKind(r.atResp, want)
		if kind != "" {
			var g, w string
			if idx < len(r.atResp) {
				g = q(r.atResp[idx])
			}
			if idx < len(want) {
				w = q(want[idx])
			}
			add(fmt.Sprintf("http-input stopped mid-body: client got %d but handed data != lines of body: %s; enc=%s", r.status, kind, sc.sigEnc()),
				fmt.Sprintf("Plugin.Stop() was called while the body was in flight; the client got %d; datum #%d is %s, reference line is %s (handed %d data, body has %d lines)", r.status, idx, g, w, len(r.atResp), len(want)),
				map[string]any{"first_difference_at": idx})
			if len(r.atResp) < len(want) || strings.HasPrefix(kind, "line-cut-short") {
				add(fmt.Sprintf("http-input stopped mid-body: client got %d although not every line of the body was handed over; enc=%s", r.status, sc.sigEnc()),
					fmt.Sprintf("a 200 response is sent only after every line of that body has been handed to the pipeline; %d of %d pieces had been written by the client", r.sentAtResp, len(sc.Pieces)), nil)
			}
		}
		if len(r.final) != len(r.atResp) {
			add(fmt.Sprintf("http-input stopped mid-body: In called after the client had received %d; enc=%s", r.status, sc.sigEnc()),
				fmt.Sprintf("%d data when the answer arrived, %d in total", len(r.atResp), len(r.final)), nil)
		}
		return vs, outcome
	}
	outcome = "no-response:" + r.respErr
	if r.status != 0 {
		outcome = fmt.Sprintf("%d", r.status)
	}
	for i, d := range r.final {
		switch {
		case i >= len(want):
			add("http-input stopped mid-body: handed data that is no line of the (incomplete) body; enc="+sc.sigEnc(), fmt.Sprintf("datum #%d %s", i, q(d)), nil)
			return vs, outcome
		case bytes.Equal(d, want[i]):
		case i == len(r.final)-1 && bytes.HasPrefix(want[i], d):
		default:
			add("http-input stopped mid-body: handed data that is no line of the (incomplete) body; enc="+sc.sigEnc(), fmt.Sprintf("datum #%d %s, line %s", i, q(d), q(want[i])), nil)
			return vs, outcome
		}
	}
	return vs, outcome
}

func childStop(raw json.RawMessage, cio *core.ChildIO) (any, error) {
	var in stopIn
	if err := json.Unmarshal(raw, &in); err != nil {
		return nil, err
	}
	out := &concOut{Counters: map[string]int64{}, VSeen: map[string]int{}, Incon: map[string]int{}}
	fps := map[string]struct{}{}
	var mu sync.Mutex
	nonce := uint64(in.Seed)*0x9E3779B97F4A7C15 ^ uint64(in.Idx)<<40 ^ uint64(os.Getpid())<<8 ^ uint64(time.Now().UnixNano())
	par := in.Par
	if par < 1 {
		par = 1
	}
	core.ParallelFor(in.Cases, par, func(i int) {
		rng := rand.New(rand.NewSource(in.Seed*9_000_011 + int64(in.Idx)*100_003 + int64(i)))
		sc := genStopCase(rng, fmt.Sprintf("c11stop.%x.%d", nonce&0xffffffffffff, i))
		cio.Log(map[string]any{"part": "stop", "i": i, "case": sc.witness()})
		r := runStopCase(sc)
		mu.Lock()
		defer mu.Unlock()
		if r.incon != "" {
			out.Incon[r.incon]++
			return
		}
		out.Evals++
		vs, outcome := judgeStop(sc, &r)
		for _, v := range vs {
			out.VSeen[v.Sig]++
			if out.VSeen[v.Sig] <= 2 && len(out.Viols) < 40 {
				out.Viols = append(out.Viols, v)
			}
		}
		cnt := func(k string) { out.Counters[k]++ }
		cnt("cases_judged")
		cnt("enc:" + sc.enc())
		cnt("outcome:" + sc.Finish + ":" + outcome)
		cnt("stop_falls:" + sc.boundaryAtStop())
		for k, n := range r.rendezvous {
			out.Counters["rendezvous_on_handed_lines:"+k] += int64(n)
		}
		follow := len(sc.Pieces) - sc.StopAfter
		if strings.Contains(sc.boundaryAtStop(), "partial-line-pending") && follow >= 2 && !strings.HasPrefix(sc.Finish, "abort") {
			cnt("partial_line_pending_at_stop_and_2+_pieces_follow_and_upload_finished")
		}
		if r.status == http.StatusOK && r.sentAll {
			cnt("answered_200_after_complete_upload")
			if r.stopBlocked {
				cnt("answered_200_while_Stop_was_waiting_for_the_request")
			}
		}
		if r.status == http.StatusOK && !r.sentAll {
			cnt("aux:answered_200_before_client_finished_upload")
		}
		if r.status != http.StatusOK && r.sentAll {
			cnt("aux:complete_upload_not_answered_200")
		}
		if r.stopFirst {
			cnt("aux:Stop_returned_before_idle_connection_seen_closing")
		}
		if r.writeErr != "" {
			cnt("aux:client_write_error:" + r.writeErr)
		}
		if n := len(r.final); (r.status < 200 || r.status >= 300) && n > 0 && n <= len(refLines(sc.Body)) && !bytes.Equal(r.final[n-1], refLines(sc.Body)[n-1]) {
			cnt("aux:cut_last_datum_without_2xx")
		}
		out.Counters["in_calls"] += int64(len(r.final))
		fps[fmt.Sprintf("STOP:%s:pieces=%d:stop_after=%d:%s+%d:%s:%s", sc.enc(), len(sc.Pieces), sc.StopAfter, sc.Finish, sc.AbortAfter, sc.boundaryAtStop(), outcome)] = struct{}{}
		if len(out.Samples) < 3 && i%5 == 1 {
			w := sc.witness()
			w["status_seen_by_client"], w["client_error"] = r.status, r.respErr
			w["handed"], w["expected_lines"] = qs(r.final), qs(refLines(sc.Body))
			out.Samples = append(out.Samples, w)
		}
	})
	for k := range fps {
		out.FPs = append(out.FPs, k)
	}
	sort.Strings(out.FPs)
	return out, nil
}
