package main

// Child workload "overlap": histories on ONE plugin instance of the form
//
//	several aborted uploads (the body read fails in the middle: transport
//	error, cut gzip stream), then k uploads whose lifetimes overlap.
//
// The overlap is not left to the Go scheduler. A turn scheduler lets exactly
// one request goroutine run at a time; a request gives its turn back at the
// entry of every body Read ("the next piece has not arrived yet") and, in some
// rounds, inside InputPluginController.In ("the pipeline is full, the request
// is parked"). Which request continues is drawn from the seeded PRNG, so a
// round is a reproducible interleaving at the two boundaries the plugin does
// not control. Because one request runs at a time, every In call is attributed
// to the request that holds the turn, independent of what the data look like.
//
// Oracle (per request, nothing but the property text):
//   - a well-formed, completely delivered body is answered 200 and the data
//     handed over during this request's turns are exactly refLines(body): no
//     foreign bytes, nothing lost, nothing twice, whatever happened to earlier
//     requests and whatever other requests are in flight;
//   - the bytes of a datum do not change while In is in progress (the real
//     pipeline copies them only after it has got a free event);
//   - an aborted upload is not answered 200 and what was handed over for it is
//     a prefix of its lines (same tolerance as in the sequential part).
//
// The lines carry the request tag of conc.go ("r<round>.<request>#<index>:"),
// so a witness shows whose bytes ended up where.

import (
	"bytes"
	"encoding/json"
	"fmt"
	"math/rand"
	"net/http"
	"runtime/debug"
	"sort"
	"time"

	"github.com/ozontech/file.d/decoder"
	"github.com/ozontech/file.d/pipeline"
	"github.com/ozontech/file.d/pipeline/metadata"

	"verifharness/core"
)

type ovIn struct {
	Seed      int64  `json:"seed"`
	Idx       int    `json:"idx"`
	Rounds    int    `json:"rounds"`
	MaxK      int    `json:"max_k"`
	ES        bool   `json:"es"`
	AvgEvSize int    `json:"avg_event_size"`
	Lim       limits `json:"limits"`
}

type ovReq struct {
	id     int
	c      *Case
	lines  [][]byte
	rd     *chunkReader
	resume chan struct{}
	prng   *rand.Rand
	park   int // 0 never, 1 at the first In, 2 at random In calls, 3 at every In

	datas       [][]byte
	changed     [][2][]byte // data whose bytes changed while In was in progress
	ins         int
	status      int
	inAfterStat bool
	panicMsg    string
	panicAt     string
	started     bool
	parked      int
}

type ovEv struct {
	rq     *ovReq
	done   bool
	inside bool // parked inside In
}

// ovSched owns the turn. cur is written by the scheduler before it resumes a
// request and read by that request only: the channel operations order it.
type ovSched struct {
	cur     *ovReq
	yielded chan ovEv
	orphans [][]byte
}

func (s *ovSched) yield(rq *ovReq, inside bool) {
	s.yielded <- ovEv{rq: rq, inside: inside}
	<-rq.resume
}

func (s *ovSched) In(_ pipeline.SourceID, _ string, _ pipeline.Offsets, data []byte, _ bool, _ metadata.MetaData) uint64 {
	rq := s.cur
	before := append([]byte(nil), data...)
	if rq == nil {
		s.orphans = append(s.orphans, before)
		return 0
	}
	rq.ins++
	park := false
	switch rq.park {
	case 1:
		park = rq.ins == 1
	case 2:
		park = rq.prng.Intn(3) == 0
	case 3:
		park = true
	}
	if park {
		rq.parked++
		s.yield(rq, true)
	}
	// the pipeline reads the bytes when it has got a free event
	after := append([]byte(nil), data...)
	if !bytes.Equal(before, after) {
		rq.changed = append(rq.changed, [2][]byte{before, after})
	}
	if rq.status != 0 {
		rq.inAfterStat = true
	}
	rq.datas = append(rq.datas, after)
	return 0
}
func (s *ovSched) UseSpread()                        {}
func (s *ovSched) DisableStreams()                   {}
func (s *ovSched) SuggestDecoder(decoder.Type)       {}
func (s *ovSched) IncReadOps()                       {}
func (s *ovSched) IncMaxEventSizeExceeded(...string) {}

type ovRespWriter struct {
	rq  *ovReq
	hdr http.Header
}

func (w *ovRespWriter) Header() http.Header { return w.hdr }
func (w *ovRespWriter) WriteHeader(code int) {
	if w.rq.status == 0 {
		w.rq.status = code
	}
}
func (w *ovRespWriter) Write(b []byte) (int, error) {
	if w.rq.status == 0 {
		w.rq.status = http.StatusOK
	}
	return len(b), nil
}

// genOvCase: a tagged body sent in several pieces; abort != 0 makes the upload
// fail in the middle (1: transport error, 2: cut gzip stream).
func genOvCase(rng *rand.Rand, seed int64, round, req int, allowEmpty, es bool, lim limits, abort int) *Case {
	c := genConcCase(rng, seed, round, req, allowEmpty, es, false, lim)
	switch abort {
	case 1:
		c.ErrAfter = rng.Intn(len(c.Wire))
		if !c.Gzip && rng.Intn(3) > 0 {
			// inside a line, so that a carry-over is pending when the read fails
			for c.ErrAfter > 0 && c.ErrAfter < len(c.Wire) && c.Wire[c.ErrAfter-1] == '\n' {
				c.ErrAfter++
			}
			if c.ErrAfter >= len(c.Wire) {
				c.ErrAfter = len(c.Wire) - 1
			}
		}
		c.Kind = "overlap-aborted/transport-error"
	case 2:
		c.Gzip, c.GzHow, c.Truncated = true, "one-block,truncated", true
		full := gzipBytes(c.Body, "one-block", rng)
		c.Wire = full[:rng.Intn(len(full))]
		c.Kind = "overlap-aborted/truncated-gzip"
	default:
		c.Kind = "overlap/" + c.Kind
	}
	// an upload arrives in pieces
	if abort == 2 || len(c.Chunks) < 2 {
		if n := len(c.Wire); n > 1 {
			c.Chunks = planRandom(rng, n, 1+n/(2+rng.Intn(4)))
		}
	}
	if len(c.Chunks) > 400 {
		// keep the number of turns moderate
		c.Chunks = planRandom(rng, len(c.Wire), 1+len(c.Wire)/(20+rng.Intn(100)))
	}
	return c
}

var ovPolicies = []string{"random", "round-robin", "bursts", "all-started-then-one-by-one", "newest-first"}

func childOverlap(raw json.RawMessage, cio *core.ChildIO) (any, error) {
	var in ovIn
	if err := json.Unmarshal(raw, &in); err != nil {
		return nil, err
	}
	out := &concOut{Counters: map[string]int64{}, VSeen: map[string]int{}, Incon: map[string]int{}}
	fps := map[string]struct{}{}
	addV := func(sig, what string, w map[string]any) {
		out.VSeen[sig]++
		if out.VSeen[sig] <= 2 && len(out.Viols) < 40 {
			out.Viols = append(out.Viols, viol{Sig: sig, What: what, Witness: w})
		}
	}
	sched := &ovSched{yielded: make(chan ovEv)}
	plugin := startPlugin(sched, in.ES, in.AvgEvSize, in.Lim)
	defer plugin.Stop()
	path := "/x"
	if in.ES {
		path = "/_bulk"
	}
	rng := rand.New(rand.NewSource(in.Seed))

	// runSet serves the requests under the turn scheduler; it returns the
	// sequence of turns (request ids) and false when the watchdog fired.
	runSet := func(reqs []*ovReq, policy string) (turns []int, halfLine, insideIn int, ok bool) {
		for _, rq := range reqs {
			rq := rq
			rq.resume = make(chan struct{})
			rq.rd = &chunkReader{wire: rq.c.Wire, plan: append([]int(nil), rq.c.Chunks...), eofLast: rq.c.EOFWithLast, errAfter: rq.c.ErrAfter}
			first := true
			rq.rd.yield = func() {
				if first {
					// the request has just got its turn for the first time
					first = false
					return
				}
				sched.yield(rq, false)
			}
			go func() {
				<-rq.resume
				defer func() {
					if r := recover(); r != nil {
						rq.panicMsg = fmt.Sprint(r)
						rq.panicAt = panicSite(string(debug.Stack()))
					}
					sched.yielded <- ovEv{rq: rq, done: true}
				}()
				plugin.ServeHTTP(&ovRespWriter{rq: rq, hdr: http.Header{}}, newRequest(path, rq.rd, rq.c.Gzip))
			}()
		}
		live := append([]*ovReq(nil), reqs...)
		var last *ovReq
		rr := 0
		phase1 := policy == "all-started-then-one-by-one"
		pend := 0 // how the last request gave its turn back: 1 with a half-read line, 2 parked inside In
		for len(live) > 0 {
			var pick *ovReq
			switch policy {
			case "round-robin":
				pick = live[rr%len(live)]
				rr++
			case "bursts":
				if last != nil && rng.Intn(4) > 0 {
					pick = last
				}
			case "all-started-then-one-by-one":
				if phase1 {
					for _, rq := range live {
						if !rq.started {
							pick = rq
							break
						}
					}
					if pick == nil {
						phase1 = false
					}
				}
				if pick == nil {
					pick = live[0]
				}
			case "newest-first":
				// start another request as long as there is one (the earlier
				// ones stay parked), then finish them in reverse order
				for _, rq := range live {
					if !rq.started {
						pick = rq
						break
					}
				}
				if pick == nil {
					pick = live[len(live)-1]
				}
			}
			if pick == nil {
				pick = live[rng.Intn(len(live))]
			}
			if pend != 0 && pick != last {
				if pend == 1 {
					halfLine++
				} else {
					insideIn++
				}
			}
			pend = 0
			pick.started = true
			sched.cur = pick
			turns = append(turns, pick.id)
			pick.resume <- struct{}{}
			var ev ovEv
			select {
			case ev = <-sched.yielded:
			case <-time.After(3 * time.Minute):
				return turns, halfLine, insideIn, false
			}
			sched.cur = nil
			last = pick
			if ev.done {
				last = nil
				for i, rq := range live {
					if rq == ev.rq {
						live = append(live[:i], live[i+1:]...)
						break
					}
				}
				continue
			}
			if ev.inside {
				pend = 2
			} else if rd := ev.rq.rd; !ev.rq.c.Gzip && rd.off > 0 && rd.off < len(rd.wire) && rd.wire[rd.off-1] != '\n' {
				pend = 1
			}
		}
		return turns, halfLine, insideIn, true
	}

	judge := func(rq *ovReq, round, inFlight, aborts int, policy string) {
		c := rq.c
		w := func(extra map[string]any) map[string]any {
			m := c.witness()
			m["round"], m["request"], m["in_flight_together"], m["aborted_uploads_before"], m["turn_policy"], m["parked_inside_In"] = round, rq.id, inFlight, aborts, policy, rq.parked
			m["handed_during_the_turns_of_this_request"] = qs(rq.datas)
			m["expected_lines"] = qs(rq.lines)
			m["status"] = rq.status
			for k, v := range extra {
				m[k] = v
			}
			return m
		}
		out.Evals++
		ctx := "overlapping uploads"
		if inFlight == 1 {
			ctx = "an upload served alone"
		}
		if rq.panicMsg != "" {
			addV(fmt.Sprintf("http-input panic while serving %s after aborted uploads: %s @%s", ctx, normalizeMsg(rq.panicMsg), rq.panicAt), rq.panicMsg, w(nil))
			return
		}
		if len(rq.changed) > 0 {
			addV("http-input "+ctx+" after aborted uploads: bytes of a datum changed while In was in progress",
				fmt.Sprintf("at the call %s, when In went on %s", q(rq.changed[0][0]), q(rq.changed[0][1])), w(nil))
		}
		if rq.inAfterStat {
			addV("http-input "+ctx+" after aborted uploads: In called after the status of that request was written", "", w(nil))
		}
		if !c.Clean() {
			if rq.status == http.StatusOK {
				addV("http-input answered 200 to an incompletely read body ("+c.Kind+")", "a 200 response is sent only after every line of the body has been handed to the pipeline", w(nil))
			} else {
				out.Counters["aborted_uploads_not_answered_200"]++
			}
			for i, d := range rq.datas {
				if i < len(rq.lines) && (bytes.Equal(d, rq.lines[i]) || (i == len(rq.datas)-1 && bytes.HasPrefix(rq.lines[i], d))) {
					continue
				}
				addV("http-input handed data that is no line of the (aborted) upload it was read from", fmt.Sprintf("datum #%d %s", i, q(d)), w(nil))
				break
			}
			return
		}
		out.Counters["clean_requests_judged:"+c.enc()]++
		if inFlight > 1 {
			out.Counters["overlapping_requests_judged"]++
		}
		if rq.parked > 0 {
			out.Counters["requests_parked_inside_In"]++
		}
		if kind, idx := diffKind(rq.datas, rq.lines); kind != "" {
			var g, wl []byte
			if idx < len(rq.datas) {
				g = rq.datas[idx]
			}
			if idx < len(rq.lines) {
				wl = rq.lines[idx]
			}
			foreign := ""
			if r0, q0, _, ok := parseTagAnywhere(g, round, rq.id); ok {
				foreign = fmt.Sprintf(" (holds bytes of request r%d.%d)", r0, q0)
				kind = "bytes-of-another-request/" + kind
			}
			sig := "http-input " + ctx + " after aborted uploads: data handed for a request != lines of its body: " + kind
			addV(sig, fmt.Sprintf("datum #%d is %s%s, reference line is %s (handed %d data, body has %d lines), status %d", idx, q(g), foreign, q(wl), len(rq.datas), len(rq.lines), rq.status),
				w(map[string]any{"first_difference_at": idx}))
			if rq.status == http.StatusOK && len(rq.datas) < len(rq.lines) {
				addV("http-input "+ctx+" after aborted uploads: 200 although not every line of the body was handed over",
					fmt.Sprintf("%d of %d lines", len(rq.datas), len(rq.lines)), w(nil))
			}
		}
		switch {
		case rq.status == 0:
			addV("http-input "+ctx+" after aborted uploads: no status written for a well-formed body", "", w(nil))
		case rq.status != http.StatusOK:
			addV(fmt.Sprintf("http-input %s after aborted uploads: answered %d to a well-formed completely delivered body", ctx, rq.status), "", w(nil))
		}
		if rq.rd.eofSeen == 0 {
			addV("http-input "+ctx+" after aborted uploads: stopped reading the body before end of stream", "", w(nil))
		}
		fps[fmt.Sprintf("O:req:%s:%s:%s:park=%d", c.enc(), c.Kind, bodyClass(c), rq.park)] = struct{}{}
	}

	for round := 0; round < in.Rounds; round++ {
		aborts := []int{1, 2, 4, 3, 6, 0, 5, 1}[(round+in.Idx)%8]
		k := 2 + rng.Intn(in.MaxK-1)
		if round%4 == 0 {
			k = 2
		}
		policy := ovPolicies[(round+2*in.Idx)%len(ovPolicies)]
		parkMode := []int{1, 0, 2, 3, 1, 2, 0}[(round+in.Idx)%7]
		allowEmpty := round%2 == 1
		cio.Log(map[string]any{"part": "overlap", "round": round, "aborts": aborts, "k": k, "policy": policy, "park": parkMode})

		// ---- the aborted uploads, one after the other
		watchdog := false
		for a := 0; a < aborts && !watchdog; a++ {
			c := genOvCase(rng, in.Seed, round, 100+a, false, in.ES, in.Lim, 1+rng.Intn(3)/2)
			rq := &ovReq{id: 100 + a, c: c, lines: refLines(c.Body), prng: rand.New(rand.NewSource(rng.Int63()))}
			if _, _, _, ok := runSet([]*ovReq{rq}, "random"); !ok {
				watchdog = true
				break
			}
			out.Counters["aborted_uploads"]++
			judge(rq, round, 1, a, "alone")
		}
		if watchdog {
			out.Incon["watchdog: an aborted upload did not return"]++
			break
		}

		// ---- k uploads that overlap; now and then one of them is aborted too
		reqs := make([]*ovReq, k)
		for i := range reqs {
			ab := 0
			if k > 2 && i > 0 && rng.Intn(8) == 0 {
				ab = 1 + rng.Intn(2)
			}
			c := genOvCase(rng, in.Seed, round, i, allowEmpty, in.ES, in.Lim, ab)
			reqs[i] = &ovReq{id: i, c: c, lines: refLines(c.Body), prng: rand.New(rand.NewSource(rng.Int63())), park: parkMode}
		}
		turns, halfLine, insideIn, ok := runSet(reqs, policy)
		if !ok {
			out.Incon["watchdog: overlapping uploads did not return"]++
			break
		}
		for _, rq := range reqs {
			judge(rq, round, k, aborts, policy)
		}
		if len(sched.orphans) > 0 {
			addV("http-input In called while no request was being served", fmt.Sprintf("%d data, first %s", len(sched.orphans), q(sched.orphans[0])), map[string]any{"round": round})
			sched.orphans = nil
		}
		sw := 0
		for i := 1; i < len(turns); i++ {
			if turns[i] != turns[i-1] {
				sw++
			}
		}
		out.Counters["rounds"]++
		if aborts > 0 {
			out.Counters["rounds_with_aborted_uploads_before_the_overlap"]++
		}
		out.Counters["turn_switches_between_requests"] += int64(sw)
		out.Counters["turn_switches_while_a_line_was_half_read"] += int64(halfLine)
		out.Counters["turn_switches_while_parked_inside_In"] += int64(insideIn)
		if aborts > 0 && sw >= k && (halfLine > 0 || insideIn > 0) {
			out.Counters["rounds_with_aborts_then_interleaved_uploads"]++
		}
		swb := 0
		for x := sw; x > 0; x >>= 1 {
			swb++
		}
		fps[fmt.Sprintf("O:round:k=%d,aborts=%d,policy=%s,park=%d,es=%v,max_event_size=%d,switches~2^%d,halfline=%v,insideIn=%v", k, aborts, policy, parkMode, in.ES, in.Lim.MaxEventSize, swb, halfLine > 0, insideIn > 0)] = struct{}{}
		if len(out.Samples) < 1 && round == 1 {
			out.Samples = append(out.Samples, map[string]any{"overlap_round": round, "aborted_uploads_before": aborts, "in_flight": k, "turn_policy": policy, "turns": headInts(turns, 64), "request0": reqs[0].c.witness()})
		}
	}
	for k := range fps {
		out.FPs = append(out.FPs, k)
	}
	sort.Strings(out.FPs)
	return out, nil
}

// parseTagAnywhere looks for a request tag "r<round>.<req>#" in d that does
// not belong to (round, req). Only used to word a witness.
func parseTagAnywhere(d []byte, round, req int) (r0, q0, i0 int, found bool) {
	for i := 0; i+5 < len(d); i++ {
		if d[i] != 'r' || d[i+1] < '0' || d[i+1] > '9' {
			continue
		}
		if a, b, c, ok := parseTag(d[i:]); ok && (a != round || b != req) {
			return a, b, c, true
		}
	}
	return 0, 0, 0, false
}
