package main

// Child workload "big": one LARGE well-formed body (tens to hundreds of MiB of
// lines, gzip-encoded or plain) served through ServeHTTP, checked for complete
// hand-over.
//
// Nothing of the body is kept in memory: line i is a function of (seed, i), the
// plain wire is produced on the fly, the gzip wire is small because the lines
// compress well, and the recording controller compares every datum with the
// line that is expected next while In is running. The oracle is the same as
// everywhere in C11: status 200 <=> exactly the body's lines were handed over,
// in order, the final unterminated line included - whatever the size and the
// encoding of the body.

import (
	"bytes"
	"compress/flate"
	"compress/gzip"
	"encoding/json"
	"fmt"
	"io"
	"math/rand"
	"net/http"
	"runtime/debug"
	"strconv"
	"sync"

	"github.com/ozontech/file.d/decoder"
	"github.com/ozontech/file.d/pipeline"
	"github.com/ozontech/file.d/pipeline/metadata"

	"verifharness/core"
)

type bigIn struct {
	Seed      int64  `json:"seed"`
	Idx       int    `json:"idx"`
	Inflated  int64  `json:"inflated_bytes_at_least"`
	Gzip      bool   `json:"gzip"`
	GzHow     string `json:"gz_how,omitempty"` // best-speed | default | members
	ES        bool   `json:"es"`
	Open      bool   `json:"final_line_unterminated"`
	AvgEvSize int    `json:"avg_event_size"`
	Lim       limits `json:"limits"`
}

// bigBody describes the body: nlines lines, line i built by line(i).
type bigBody struct {
	seed   uint64
	nlines int
	open   bool
	total  int64 // bytes of the (inflated) body
}

const bigAlpha = "abcdefghijklmnopqrstuvwxyzABCDEFGHIJKLMNOPQRSTUVWXYZ012345678"

var bigBlock = bytes.Repeat([]byte(bigAlpha), (3*readBufLen)/len(bigAlpha)+2)

func (b *bigBody) mix(i int) uint64 {
	x := b.seed + uint64(i)*0x9E3779B97F4A7C15 + 1
	x ^= x >> 31
	x *= 0xBF58476D1CE4E5B9
	x ^= x >> 29
	return x
}

func (b *bigBody) lineLen(i int) int {
	x := b.mix(i)
	switch {
	case i%1013 == 5 && i != b.nlines-1:
		return 0 // an empty line
	case i%997 == 3:
		return 2*readBufLen + 3 + int(x%7)
	case i%499 == 1:
		return readBufLen - 2 + int(x%5)
	default:
		return 600 + int(x%900)
	}
}

// line builds line i into buf: "B<i>:" and a position-sensitive filling.
func (b *bigBody) line(i int, buf []byte) []byte {
	n := b.lineLen(i)
	buf = buf[:0]
	if n == 0 {
		return buf
	}
	buf = append(buf, 'B')
	buf = strconv.AppendInt(buf, int64(i), 10)
	buf = append(buf, ':')
	off := int(b.mix(i)>>16) % len(bigAlpha)
	return append(buf, bigBlock[off:off+n-len(buf)]...)
}

func newBigBody(seed uint64, atLeast int64, open bool) *bigBody {
	b := &bigBody{seed: seed, open: open, nlines: -1}
	for i := 0; b.total < atLeast; i++ {
		b.total += int64(b.lineLen(i)) + 1
		b.nlines = i + 1
	}
	// (lineLen(last) was computed as if it were not the last line: make sure
	// the last line is not an empty one)
	if (b.nlines-1)%1013 == 5 {
		b.total += int64(b.lineLen(b.nlines)) + 1
		b.nlines++
	}
	if open {
		b.total--
	}
	return b
}

// writeTo streams the body.
func (b *bigBody) writeTo(w io.Writer, memberEvery int, next func()) {
	var buf []byte
	for i := 0; i < b.nlines; i++ {
		buf = b.line(i, buf)
		if i < b.nlines-1 || !b.open {
			buf = append(buf, '\n')
		}
		if _, err := w.Write(buf); err != nil {
			panic("harness: writing the body: " + err.Error())
		}
		if memberEvery > 0 && i%memberEvery == memberEvery-1 && i < b.nlines-1 {
			next()
		}
	}
}

// bigPlainReader produces the plain wire on the fly in reads of seeded sizes.
type bigPlainReader struct {
	b       *bigBody
	i       int
	cur     []byte
	rng     *rand.Rand
	eofSeen int
	eofLast bool
	sent    int64
}

func (r *bigPlainReader) Read(p []byte) (int, error) {
	if r.i >= r.b.nlines && len(r.cur) == 0 {
		r.eofSeen++
		return 0, io.EOF
	}
	want := len(p)
	if r.rng.Intn(4) == 0 {
		want = 1 + r.rng.Intn(len(p))
	}
	n := 0
	for n < want {
		if len(r.cur) == 0 {
			if r.i >= r.b.nlines {
				break
			}
			r.cur = r.b.line(r.i, r.cur[:0])
			if r.i < r.b.nlines-1 || !r.b.open {
				r.cur = append(r.cur, '\n')
			}
			r.i++
		}
		k := copy(p[n:want], r.cur)
		n += k
		r.cur = r.cur[k:]
	}
	r.sent += int64(n)
	if r.eofLast && r.i >= r.b.nlines && len(r.cur) == 0 {
		r.eofSeen++
		return n, io.EOF
	}
	return n, nil
}
func (r *bigPlainReader) Close() error { return nil }

// bigRec checks every datum against the line expected next.
type bigRec struct {
	mu       sync.Mutex
	b        *bigBody
	count    int
	bytes    int64
	buf      []byte
	badIdx   int
	badGot   []byte
	badWant  []byte
	status   int
	afterSt  bool
	longSeen int
	emptySn  int
}

func (r *bigRec) In(_ pipeline.SourceID, _ string, _ pipeline.Offsets, data []byte, _ bool, _ metadata.MetaData) uint64 {
	r.mu.Lock()
	defer r.mu.Unlock()
	if r.status != 0 {
		r.afterSt = true
	}
	if r.badIdx < 0 {
		var want []byte
		if r.count < r.b.nlines {
			r.buf = r.b.line(r.count, r.buf)
			want = r.buf
		}
		if r.count >= r.b.nlines || !bytes.Equal(want, data) {
			r.badIdx = r.count
			r.badGot = append([]byte(nil), data...)
			r.badWant = append([]byte(nil), want...)
		}
	}
	if len(data) >= readBufLen {
		r.longSeen++
	}
	if len(data) == 0 {
		r.emptySn++
	}
	r.count++
	r.bytes += int64(len(data))
	return 0
}
func (r *bigRec) UseSpread()                        {}
func (r *bigRec) DisableStreams()                   {}
func (r *bigRec) SuggestDecoder(decoder.Type)       {}
func (r *bigRec) IncReadOps()                       {}
func (r *bigRec) IncMaxEventSizeExceeded(...string) {}

type bigRespWriter struct {
	rec *bigRec
	hdr http.Header
}

func (w *bigRespWriter) note(code int) {
	w.rec.mu.Lock()
	if w.rec.status == 0 {
		w.rec.status = code
	}
	w.rec.mu.Unlock()
}
func (w *bigRespWriter) Header() http.Header         { return w.hdr }
func (w *bigRespWriter) WriteHeader(code int)        { w.note(code) }
func (w *bigRespWriter) Write(b []byte) (int, error) { w.note(http.StatusOK); return len(b), nil }

func sizeClass(n int64) string {
	const mib = 1 << 20
	switch {
	case n < 16*mib:
		return "<16MiB"
	case n < 32*mib:
		return "16..32MiB"
	case n < 64*mib:
		return "32..64MiB"
	case n < 128*mib:
		return "64..128MiB"
	default:
		return ">=128MiB"
	}
}

func childBig(raw json.RawMessage, cio *core.ChildIO) (any, error) {
	var in bigIn
	if err := json.Unmarshal(raw, &in); err != nil {
		return nil, err
	}
	out := &concOut{Counters: map[string]int64{}, VSeen: map[string]int{}, Incon: map[string]int{}}
	rng := rand.New(rand.NewSource(in.Seed))
	body := newBigBody(uint64(in.Seed), in.Inflated, in.Open)
	enc := "plain"
	if in.Gzip {
		enc = "gzip(" + in.GzHow + ")"
	}
	if in.ES {
		enc += "+es_bulk"
	}
	cls := sizeClass(body.total)
	cio.Log(map[string]any{"part": "big", "inflated": body.total, "lines": body.nlines, "enc": enc})

	var rd io.ReadCloser
	var eofSeen func() int
	wireLen := body.total
	if in.Gzip {
		var wire bytes.Buffer
		level := flate.BestSpeed
		if in.GzHow == "default" {
			level = flate.DefaultCompression
		}
		zw, _ := gzip.NewWriterLevel(&wire, level)
		every := 0
		if in.GzHow == "members" {
			every = 1 + body.nlines/(2+rng.Intn(3))
		}
		body.writeTo(writerFunc(func(p []byte) (int, error) { return zw.Write(p) }), every, func() {
			zw.Close()
			zw, _ = gzip.NewWriterLevel(&wire, level)
		})
		zw.Close()
		wireLen = int64(wire.Len())
		var plan []int
		if rng.Intn(2) == 0 {
			plan = planRandom(rng, wire.Len(), 40000)
		}
		cr := &chunkReader{wire: wire.Bytes(), plan: plan, eofLast: rng.Intn(2) == 0, errAfter: -1}
		rd, eofSeen = cr, func() int { return cr.eofSeen }
	} else {
		pr := &bigPlainReader{b: body, rng: rng, eofLast: rng.Intn(2) == 0}
		rd, eofSeen = pr, func() int { return pr.eofSeen }
	}

	rec := &bigRec{b: body, badIdx: -1}
	plugin := startPlugin(rec, in.ES, in.AvgEvSize, in.Lim)
	defer plugin.Stop()
	path := "/x"
	if in.ES {
		path = "/_bulk"
	}
	var panicMsg, panicAt string
	func() {
		defer func() {
			if r := recover(); r != nil {
				panicMsg = fmt.Sprint(r)
				panicAt = panicSite(string(debug.Stack()))
			}
		}()
		plugin.ServeHTTP(&bigRespWriter{rec: rec, hdr: http.Header{}}, newRequest(path, rd, in.Gzip))
	}()

	rec.mu.Lock()
	defer rec.mu.Unlock()
	w := func() map[string]any {
		return map[string]any{"input": in, "enc": enc, "inflated_bytes": body.total, "wire_bytes": wireLen, "lines_of_body": body.nlines,
			"final_line_unterminated": body.open, "status": rec.status, "data_handed": rec.count, "bytes_handed": rec.bytes,
			"bytes_of_lines": body.total - int64(body.nlines) + b2i(body.open),
			"line_rule":      "line i = \"B<i>:\" + filling, a function of (seed, i); see big.go bigBody.line"}
	}
	addV := func(sig, what string) {
		out.VSeen[sig]++
		m := w()
		if rec.badIdx >= 0 {
			m["first_wrong_datum_index"], m["first_wrong_datum"], m["line_expected_there"] = rec.badIdx, q(rec.badGot), q(rec.badWant)
		}
		out.Viols = append(out.Viols, viol{Sig: sig, What: what, Witness: m})
	}
	out.Evals = 1
	tail := "; enc=" + enc + "; inflated=" + cls
	if panicMsg != "" {
		addV(fmt.Sprintf("http-input panic while serving a large body: %s @%s", normalizeMsg(panicMsg), panicAt), panicMsg)
		return out, nil
	}
	if rec.badIdx >= 0 {
		kind := "extra-data-after-last-line"
		if rec.badIdx < body.nlines {
			kind, _ = diffKind([][]byte{rec.badGot}, [][]byte{rec.badWant})
		}
		addV("http-input large body: handed data != lines of body: "+kind+tail,
			fmt.Sprintf("datum #%d is %s, line #%d of the body is %s", rec.badIdx, q(rec.badGot), rec.badIdx, q(rec.badWant)))
	}
	switch {
	case rec.status == 0:
		addV("http-input large body: no status written for a well-formed body"+tail, "")
	case rec.status != http.StatusOK:
		addV(fmt.Sprintf("http-input large body: answered %d to a well-formed completely delivered body%s", rec.status, tail),
			"README: the plugin answers 200 right after it has read all the request body")
	case rec.count < body.nlines:
		addV("http-input large body: 200 although not every line of the body was handed over"+tail,
			fmt.Sprintf("%d of %d lines (%d of %d bytes of lines) had been handed over when 200 was written", rec.count, body.nlines, rec.bytes, body.total-int64(body.nlines)+b2i(body.open)))
	}
	if rec.afterSt {
		addV("http-input large body: In called after the status was written"+tail, "")
	}
	if eofSeen() == 0 {
		addV("http-input large body: stopped reading the body before end of stream"+tail, "the body reader never got to report io.EOF")
	}
	if len(out.Viols) == 0 {
		out.Counters["handed_over_completely_200:"+encShort(in)+":"+cls]++
		out.Counters["handed_over_completely_200"]++
		out.Counters["bytes_inflated"] += body.total
		out.Counters["lines"] += int64(rec.count)
		out.Counters["lines_longer_than_read_buffer"] += int64(rec.longSeen)
		out.Counters["empty_lines"] += int64(rec.emptySn)
		if body.open {
			out.Counters["final_unterminated_line"]++
		}
	}
	out.FPs = append(out.FPs, fmt.Sprintf("B:%s:%s:open=%v:max_event_size=%d", enc, cls, body.open, in.Lim.MaxEventSize))
	out.Samples = append(out.Samples, w())
	return out, nil
}

type writerFunc func(p []byte) (int, error)

func (f writerFunc) Write(p []byte) (int, error) { return f(p) }

func encShort(in bigIn) string {
	if in.Gzip {
		return "gzip"
	}
	return "plain"
}

func b2i(b bool) int64 {
	if b {
		return 1
	}
	return 0
}
