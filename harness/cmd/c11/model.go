package main

// Reference model and case description for C11. Everything in this file is
// written from the property text / the plugin README only:
//
//	"the events handed to the pipeline are exactly the newline-separated lines
//	 of the (decompressed) body in order - including a final unterminated line"
//
// It never looks at how the plugin scans chunks.

import (
	"bytes"
	"fmt"
	"strconv"
	"strings"
)

// refLines is the reference: the lines of a body. A line is a maximal run of
// bytes terminated by '\n' (terminator not included); bytes after the last
// '\n' form a final unterminated line when there are any. '\r' is an
// ordinary byte.
func refLines(body []byte) [][]byte {
	var out [][]byte
	start := 0
	for i, b := range body {
		if b == '\n' {
			out = append(out, body[start:i])
			start = i + 1
		}
	}
	if start < len(body) {
		out = append(out, body[start:])
	}
	return out
}

// Case is one request.
type Case struct {
	Kind        string `json:"kind"`             // generator class
	Body        []byte `json:"-"`                // logical (decompressed) body
	Wire        []byte `json:"-"`                // bytes put on the wire (== Body unless Gzip)
	Gzip        bool   `json:"gzip"`             // Content-Encoding: gzip
	GzHow       string `json:"gz_how,omitempty"` // how Wire was produced
	ES          bool   `json:"es"`               // emulate_mode elasticsearch, POST /_bulk
	Chunks      []int  `json:"-"`                // planned sizes of successive reads of Wire (0 = empty read, nil error)
	EOFWithLast bool   `json:"eof_with_last"`    // the read that delivers the last byte also returns io.EOF
	ErrAfter    int    `json:"err_after"`        // >=0: after this many wire bytes the reader fails with a non-EOF error
	Truncated   bool   `json:"truncated"`        // Wire is a cut gzip stream (Body holds the full plaintext)
	Net         bool   `json:"net"`              // delivered over a loopback TCP connection, chunked transfer encoding
	Lim         limits `json:"limits"`           // pipeline size settings of the plugin instance that serves the case
	LimClass    string `json:"-"`                // "" (no limit), "small", "big": which instance of the shard
}

// Clean: a well-formed, completely delivered body.
func (c *Case) Clean() bool { return c.ErrAfter < 0 && !c.Truncated }

func (c *Case) enc() string {
	s := "plain"
	if c.Gzip {
		s = "gzip"
	}
	if c.ES {
		s += "+es_bulk"
	}
	if c.Net {
		s += "+tcp"
	}
	return s
}

// witness renders a case for a replay file (bodies abbreviated when large).
func (c *Case) witness() map[string]any {
	w := map[string]any{
		"kind": c.Kind, "enc": c.enc(), "eof_with_last_read": c.EOFWithLast,
		"body_len": len(c.Body), "wire_len": len(c.Wire), "err_after": c.ErrAfter, "truncated_gzip": c.Truncated,
		"max_event_size": c.Lim.MaxEventSize, "cut_off_event_by_limit": c.Lim.CutOff,
	}
	if len(c.Body) <= 256 {
		w["body"] = strconv.Quote(string(c.Body))
	} else {
		w["body_head"] = strconv.Quote(string(c.Body[:96]))
		var ll []int
		for _, l := range refLines(c.Body) {
			ll = append(ll, len(l))
			if len(ll) >= 40 {
				break
			}
		}
		w["line_lengths"] = ll
		w["ends_with_newline"] = c.Body[len(c.Body)-1] == '\n'
	}
	if len(c.Chunks) <= 64 {
		w["read_sizes"] = c.Chunks
	} else {
		w["read_sizes_head"] = c.Chunks[:64]
		w["reads"] = len(c.Chunks)
	}
	if c.Gzip {
		w["gzip_how"] = c.GzHow
		if len(c.Wire) <= 128 {
			w["wire_hex"] = fmt.Sprintf("%x", c.Wire)
		}
	}
	return w
}

// ---------------------------------------------------------------------
// classification of a difference between handed data and the reference

// diffKind classifies got vs want structurally (stable across seeds).
func diffKind(got, want [][]byte) (kind string, idx int) {
	n := len(got)
	if len(want) < n {
		n = len(want)
	}
	for i := 0; i < n; i++ {
		if bytes.Equal(got[i], want[i]) {
			continue
		}
		g, w := got[i], want[i]
		for j := i + 1; j < len(want) && j <= i+8; j++ {
			if bytes.Equal(g, want[j]) && (len(g) > 0 || j == i+1) {
				allEmpty := true
				for _, s := range want[i:j] {
					if len(s) != 0 {
						allEmpty = false
					}
				}
				if allEmpty {
					return "empty-line-not-handed", i
				}
				return "line-skipped", i
			}
		}
		if i > 0 && len(g) > 0 && bytes.Equal(g, got[i-1]) {
			return "line-handed-twice", i
		}
		switch {
		case i+1 < len(want) && bytes.Equal(g, append(append([]byte{}, w...), want[i+1]...)):
			return "two-lines-joined-without-newline", i
		case i+1 < len(want) && len(g) > len(w) && bytes.HasPrefix(g, w) && g[len(w)] == '\n':
			return "newline-kept-inside-datum", i
		case len(g) == len(w)+1 && bytes.HasPrefix(g, w) && g[len(w)] == '\n':
			return "newline-appended-to-line", i
		case len(g) < len(w) && bytes.HasSuffix(w, g):
			return "head-of-line-lost(carry-over)", i
		case len(g) < len(w) && bytes.HasPrefix(w, g):
			return "line-cut-short(split-at-read-boundary)", i
		case len(g) > len(w) && bytes.HasSuffix(g, w):
			return "foreign-bytes-prepended(stale-carry-over)", i
		case len(g) > len(w) && bytes.HasPrefix(g, w):
			return "foreign-bytes-appended", i
		case len(g) == len(w):
			return "line-bytes-altered", i
		default:
			return "line-differs", i
		}
	}
	switch {
	case len(got) == len(want):
		return "", -1
	case len(got) < len(want):
		if len(got) == len(want)-1 {
			return "last-line-not-handed", len(got)
		}
		return "trailing-lines-not-handed", len(got)
	default:
		allEmpty := true
		for _, g := range got[len(want):] {
			if len(g) != 0 {
				allEmpty = false
			}
		}
		if allEmpty {
			return "extra-empty-datum-after-last-line", len(want)
		}
		return "extra-data-after-last-line", len(want)
	}
}

// lineContext says how the want-line with index idx lies relative to the
// reads that delivered the body (only meaningful for plain bodies, where the
// reads are under the harness's control).
func lineContext(c *Case, reads []int, idx int) string {
	if c.Gzip || c.Net {
		return "reads-not-controlled(gzip/tcp)"
	}
	if idx >= len(refLines(c.Body)) {
		return "after-last-line"
	}
	// byte range of line idx in body
	start, k := 0, 0
	for i := 0; i < len(c.Body) && k < idx; i++ {
		if c.Body[i] == '\n' {
			k++
			start = i + 1
		}
	}
	if k < idx {
		return "past-end"
	}
	end := start
	for end < len(c.Body) && c.Body[end] != '\n' {
		end++
	}
	unterminated := end == len(c.Body)
	// read boundaries
	var ctx []string
	off := 0
	spans := false
	nlFirst := false
	for _, r := range reads {
		off += r
		if off > start && off <= end && !(off == end && unterminated) {
			if off == end {
				nlFirst = true // the terminating newline is the first byte of the next read
			} else {
				spans = true
			}
		}
	}
	switch {
	case spans:
		ctx = append(ctx, "spans-reads")
	case nlFirst:
		ctx = append(ctx, "newline-first-byte-of-read")
	default:
		ctx = append(ctx, "inside-one-read")
	}
	if unterminated {
		ctx = append(ctx, "final-unterminated")
	}
	return strings.Join(ctx, ",")
}

// readBufLen is the documented default read buffer of the plugin (16 KiB);
// only used to pick boundary sizes and to label witnesses.
const readBufLen = 16 * 1024

// shape is the behavioural fingerprint of a (body, reads) pair: per read the
// pattern of its bytes with runs of ordinary bytes collapsed ('x'), '\n' kept
// ('n'), '\r' kept ('r'); long runs get a size class.
func shape(wire []byte, reads []int, coarse bool) string {
	var sb strings.Builder
	off := 0
	for ri, r := range reads {
		if ri > 0 {
			sb.WriteByte('|')
		}
		if r == 0 {
			sb.WriteByte('0')
			continue
		}
		run := 0
		flush := func() {
			if run == 0 {
				return
			}
			switch {
			case !coarse || run < 8:
				sb.WriteByte('x')
			case run < readBufLen-1:
				sb.WriteByte('X')
			case run == readBufLen-1:
				sb.WriteString("B-")
			case run == readBufLen:
				sb.WriteString("B=")
			default:
				sb.WriteString("B+")
			}
			run = 0
		}
		for _, b := range wire[off : off+r] {
			switch b {
			case '\n':
				flush()
				sb.WriteByte('n')
			case '\r':
				flush()
				sb.WriteByte('r')
			default:
				run++
			}
		}
		flush()
		off += r
	}
	return sb.String()
}

// coarseShape abstracts further (used for bodies longer than 7 in the
// exhaustive part, where exact shapes are nearly as many as cases): per read
// only whether it starts / ends with a newline and whether it holds further
// newlines.
func coarseShape(wire []byte, reads []int) string {
	var sb strings.Builder
	off := 0
	for _, r := range reads {
		seg := wire[off : off+r]
		off += r
		cl := func(b byte) byte {
			if b == '\n' {
				return 'n'
			}
			return 'x'
		}
		switch {
		case r == 0:
			sb.WriteByte('0')
		case r == 1:
			sb.WriteByte(cl(seg[0]))
		default:
			sb.WriteByte(cl(seg[0]))
			if bytes.IndexByte(seg[1:r-1], '\n') >= 0 {
				sb.WriteByte('N')
			} else if r > 2 {
				sb.WriteByte('_')
			}
			sb.WriteByte(cl(seg[r-1]))
		}
		sb.WriteByte('|')
	}
	return sb.String()
}
