// C11 - HTTP input: events are the body's lines, however the body is chunked.
//
// Runtime monitor: the real plugin/input/http is started with `address: off`
// and a recording InputPluginController; requests are delivered through
// ServeHTTP (and, for a sample, over loopback TCP with chunked transfer
// encoding) by a body reader that returns exactly the planned reads. The
// oracle is refLines (model.go): split on '\n', final unterminated line
// included. A further family (stop.go) runs the plugin with its own loopback
// listener and calls Plugin.Stop() while a body is in flight. See NOTES.md.
package main

import (
	"encoding/json"
	"fmt"
	"math/rand"
	"sort"
	"strings"
	"sync"
	"time"

	"verifharness/core"
)

const seqShards = 16

type agg struct {
	mu    sync.Mutex
	viols map[string]*viol
	vseen map[string]int
}

func (a *agg) add(vs []viol, seen map[string]int) {
	a.mu.Lock()
	defer a.mu.Unlock()
	for i := range vs {
		v := vs[i]
		if _, ok := a.viols[v.Sig]; !ok {
			a.viols[v.Sig] = &v
		}
	}
	for k, n := range seen {
		a.vseen[k] += n
	}
}

func main() {
	core.RegisterChild("seq", childSeq)
	core.RegisterChild("conc", childConc)
	core.RegisterChild("stop", childStop)
	core.RegisterChild("overlap", childOverlap)
	core.RegisterChild("big", childBig)
	core.Main("C11", "exploration", run)
}

func run(c *core.Ctx) {
	maxLen := c.N(7, 9)
	ovMaxK := c.N(6, 12)
	c.SetExhaustive(true)
	c.SetRule(fmt.Sprintf("(1) EXHAUSTIVE small scope: every body over {unique ordinary byte, '\\n', '\\r'} of length 0..%d x every composition of the length into read sizes x {EOF after / together with the last read}, served sequentially through the same plugin instances (emulate_mode no, max_event_size unset; lengths 0..%d again with max_event_size 1..5 set; lengths 0..%d again through elasticsearch /_bulk; lengths 0..%d gzip-encoded in several block/member layouts x wire chunkings); "+
		"(2) seeded bodies (half of them on instances with max_event_size 3..32768 set, with and without cut_off_event_by_limit) with lines around and beyond the 16 KiB read buffer, multi-byte runes, CRLF, empty lines, read plans (1-byte, fixed, random, boundaries at newlines, empty reads), gzip layouts, injected transport errors and truncated gzip streams, a sample over loopback TCP with chunked transfer encoding; "+
		"(3) 2..32 requests in flight together on one instance under the race detector, every line tagged with request and index; "+
		"(4) Plugin.Stop() while a body is in flight: the plugin runs with its own loopback listener, a body of 3..12 tagged lines is uploaded in 2..6 pieces over a raw TCP connection (chunked / Content-Length, plain / gzip flushed per piece), Stop() is called after k pieces were written and the lines they complete were seen by the controller, then the upload is finished (piece by piece / at once) or aborted (half-close / close); the status is the one the client reads from the wire. "+
		"(5) histories 'several uploads aborted in the middle of the body (transport error, cut gzip stream), then 2..%d uploads whose lifetimes overlap' on one instance: a turn scheduler lets one request run at a time, a request gives the turn back at every body read and (in some rounds) while it is parked inside In, the next one is drawn from the seeded PRNG; every In call is attributed to the request holding the turn, and a request's data must be exactly its own lines; "+
		"(6) a few large well-formed bodies (%s MiB of lines and a bit more, gzip in one / several members and plain, lines regenerated from their index instead of being stored) checked for complete hand-over with 200; "+
		"distinct_nontrivial = distinct shapes: per read the pattern of newline / CR / run-of-ordinary-bytes (exhaustive part up to length 7; beyond that per read only newline-at-start / inside / at-end), generator class x encoding x body class (seeded part), round composition x measured interleaving (concurrent part)",
		maxLen, maxLen-1, c.N(5, 7), c.N(4, 6), ovMaxK, bigSizesText(bigSpecs(c))))
	c.Assume("the recording InputPluginController copies the data bytes during In, like pipeline.In does; data is not looked at after In returned")
	c.Assume("gzip streams are produced by the Go standard library writer; several members decompress to the concatenation of their contents (RFC 1952)")
	c.Assume("pipeline size settings (max_event_size 0/1..5/8/32/4096/16383..16385/32768, cut_off_event_by_limit on/off) must not change what the http input hands over: size policy is applied behind In (C20)")
	c.Assume("an incompletely delivered body (transport read error, cut gzip stream) must not be answered with 200; what is handed over for it only has to be a prefix of the body's lines")
	c.Assume("stop-mid-body cases: which answer a request gets when the plugin is stopped while its body is in flight (200 after draining, 4xx/5xx, connection reset) is not judged; only '2xx seen by the client => exactly the body's lines had been handed over' and 'otherwise => a prefix of the body's lines'")

	c.Assume("overlap family: one request goroutine runs at a time (turns are handed over at body reads and inside In), so an In call belongs to the request that holds the turn; the bytes given to In are read again when In goes on after a park, like pipeline.In reads them after it has waited for a free event")
	c.Assume("large bodies: no size limit on a request body is documented for the http input, so a well-formed body of any size is answered 200 only after all its lines were handed over (a documented rejection would have to be a non-2xx answer, never a silent cut)")

	a := &agg{viols: map[string]*viol{}, vseen: map[string]int{}}
	var shapesMu sync.Mutex
	shapes := map[string]struct{}{}
	sampleBudget := 6

	handleCrash := func(name string, in any, res *core.ChildResult, opt core.ChildOpt, conc bool) {
		if res.TimedOut {
			c.Inconclusive("watchdog: child " + name)
			return
		}
		msg, site := core.PanicSite(res.Stderr)
		confirmed := false
		if conc && strings.Contains(site, "plugin/input/http/") {
			confirmed = true
		} else {
			r2 := core.RunChild(name, in, opt)
			if r2.Crashed() {
				m2, s2 := core.PanicSite(r2.Stderr)
				confirmed = core.NormalizeMsg(m2) == core.NormalizeMsg(msg) && s2 == site
			}
		}
		if !confirmed || msg == "" {
			c.Inconclusive("child ended abnormally, not reproduced: " + core.Trunc(core.NormalizeMsg(msg), 60))
			return
		}
		part := "sequential requests"
		if conc {
			part = "concurrent requests"
		}
		if name == "stop" {
			part = "requests while the plugin is being stopped"
		}
		c.Violation(fmt.Sprintf("http-input process crash while serving %s: %s @%s", part, core.NormalizeMsg(msg), stripLine(site)),
			"the child process serving requests died: "+msg,
			map[string]any{"child": name, "input": in, "last_logged": json.RawMessage(orNull(res.LastLog())), "stderr_tail": core.Trunc(tail(res.Stderr, 3000), 3000)})
	}

	handleRaces := func(res *core.ChildResult, in any) {
		for _, rep := range res.RaceReports {
			key := raceKey(rep)
			if raceTouchesBuffers(rep) {
				a.add([]viol{{Sig: "http-input data race on request read/event buffers: " + key,
					What:    "the race detector reported unsynchronised accesses on the path that reads a body into the plugin's buffers / hands lines over",
					Witness: map[string]any{"child_input": in, "report": core.Trunc(rep, 6000)}}}, map[string]int{"http-input data race on request read/event buffers: " + key: 1})
			} else {
				c.Count("aux:race_report_not_on_buffers: "+key, 1)
			}
		}
		c.Count("race_reports_total", int64(len(res.RaceReports)))
	}

	// ---------------- phase A: sequential shards
	large := c.N(1600, 24000)
	netN := c.N(320, 3200)
	core.ParallelFor(seqShards, seqShards, func(i int) {
		in := seqIn{Seed: c.Seed, Shard: i, Shards: seqShards, MaxLen: maxLen, ESMaxLen: c.N(5, 7), GzMaxLen: c.N(4, 6),
			Large: large / seqShards, Net: netN / seqShards, AvgEvSize: []int{0, 16, 4096, 1}[i%4],
			LimMaxLen: maxLen - 1,
			Small:     limits{MaxEventSize: []int{3, 1, 2, 4, 5, 3, 2, 1}[i%8], CutOff: i >= 8},
			Big:       limits{MaxEventSize: []int{3, 8, 32, 4096, readBufLen - 1, readBufLen, readBufLen + 1, 2 * readBufLen}[(i+3)%8], CutOff: i < 8}}
		opt := core.ChildOpt{Timeout: 40 * time.Minute, GOMAXPROCS: 2}
		res := core.RunChild("seq", in, opt)
		handleRaces(res, in)
		if !completed(res) {
			handleCrash("seq", in, res, opt, false)
			return
		}
		var out seqOut
		if err := json.Unmarshal(res.Out, &out); err != nil {
			c.Inconclusive("unreadable child output")
			return
		}
		c.Eval(int(out.Evals))
		for k, n := range out.Counters {
			c.Count(k, n)
		}
		for k, n := range out.Incon {
			for j := 0; j < n; j++ {
				c.Inconclusive(k)
			}
		}
		a.add(out.Viols, out.VSeen)
		shapesMu.Lock()
		for _, s := range out.Shapes {
			shapes[s] = struct{}{}
		}
		if sampleBudget > 0 && (i == 0 || i == 5) {
			for _, s := range out.Samples {
				if sampleBudget > 0 {
					c.Sample(s)
					sampleBudget--
				}
			}
		}
		shapesMu.Unlock()
		c.Count("seq_shards_completed", 1)
	})

	// ---------------- phase C (runs next to phase B): Plugin.Stop() while a body is in flight
	nStop := c.N(8, 24)
	stopCases := c.N(60, 200)
	var phaseC sync.WaitGroup
	phaseC.Add(1)
	go func() {
		defer phaseC.Done()
		core.ParallelFor(nStop, 6, func(i int) {
			in := stopIn{Seed: c.Seed, Idx: i, Cases: stopCases, Par: 10}
			opt := core.ChildOpt{Timeout: 20 * time.Minute, GOMAXPROCS: []int{4, 2, 8, 3}[i%4]}
			res := core.RunChild("stop", in, opt)
			handleRaces(res, in)
			if !completed(res) {
				handleCrash("stop", in, res, opt, true)
				return
			}
			var out concOut
			if err := json.Unmarshal(res.Out, &out); err != nil {
				c.Inconclusive("unreadable child output")
				return
			}
			c.Eval(int(out.Evals))
			for k, n := range out.Counters {
				c.Count("stop:"+k, n)
			}
			for k, n := range out.Incon {
				for j := 0; j < n; j++ {
					c.Inconclusive(k)
				}
			}
			a.add(out.Viols, out.VSeen)
			shapesMu.Lock()
			for _, s := range out.FPs {
				shapes[s] = struct{}{}
			}
			if i == 1 {
				for _, s := range out.Samples {
					c.Sample(s)
				}
			}
			shapesMu.Unlock()
			c.Count("stop_children_completed", 1)
		})
	}()

	// ---------------- phase D (next to phase B): aborted uploads, then overlapping uploads under a turn scheduler
	nOv := c.N(6, 24)
	ovRounds := c.N(16, 48)
	phaseC.Add(1)
	go func() {
		defer phaseC.Done()
		core.ParallelFor(nOv, 3, func(i int) {
			in := ovIn{Seed: c.SubSeed("overlap", i), Idx: i, Rounds: ovRounds, MaxK: ovMaxK, ES: i%3 == 2, AvgEvSize: []int{16, 4096, 0}[i%3],
				Lim: limits{MaxEventSize: []int{0, 0, 64, 0, readBufLen}[i%5], CutOff: i%2 == 1}}
			opt := core.ChildOpt{Timeout: 20 * time.Minute, GOMAXPROCS: []int{4, 2, 8, 1}[i%4]}
			res := core.RunChild("overlap", in, opt)
			handleRaces(res, in)
			if !completed(res) {
				handleCrash("overlap", in, res, opt, false)
				return
			}
			var out concOut
			if err := json.Unmarshal(res.Out, &out); err != nil {
				c.Inconclusive("unreadable child output")
				return
			}
			c.Eval(int(out.Evals))
			for k, n := range out.Counters {
				c.Count("overlap:"+k, n)
			}
			for k, n := range out.Incon {
				for j := 0; j < n; j++ {
					c.Inconclusive(k)
				}
			}
			a.add(out.Viols, out.VSeen)
			shapesMu.Lock()
			for _, s := range out.FPs {
				shapes[s] = struct{}{}
			}
			if i == 0 {
				for _, s := range out.Samples {
					c.Sample(s)
				}
			}
			shapesMu.Unlock()
			c.Count("overlap_children_completed", 1)
		})
	}()

	// ---------------- phase E (next to phase B): large bodies
	bigs := bigSpecs(c)
	phaseC.Add(1)
	go func() {
		defer phaseC.Done()
		core.ParallelFor(len(bigs), c.N(3, 4), func(i int) {
			in := bigs[i]
			opt := core.ChildOpt{Timeout: 30 * time.Minute, GOMAXPROCS: 2}
			res := core.RunChild("big", in, opt)
			handleRaces(res, in)
			if !completed(res) {
				handleCrash("big", in, res, opt, false)
				return
			}
			var out concOut
			if err := json.Unmarshal(res.Out, &out); err != nil {
				c.Inconclusive("unreadable child output")
				return
			}
			c.Eval(int(out.Evals))
			for k, n := range out.Counters {
				c.Count("big:"+k, n)
			}
			a.add(out.Viols, out.VSeen)
			shapesMu.Lock()
			for _, s := range out.FPs {
				shapes[s] = struct{}{}
			}
			if i == 0 {
				for _, s := range out.Samples {
					c.Sample(s)
				}
			}
			shapesMu.Unlock()
			c.Count("big_children_completed", 1)
		})
	}()

	// ---------------- phase B: concurrent requests under the race detector
	nConc := c.N(10, 40)
	rounds := c.N(6, 16)
	ks := []int{2, 3, 4, 8, 16, 32, 8, 5, 24, 12}
	core.ParallelFor(nConc, 4, func(i int) {
		in := concIn{Seed: c.Seed, Idx: i, Rounds: rounds, K: ks[i%len(ks)], ES: i%3 == 1, Net: i%5 == 4, AvgEvSize: []int{16, 4096, 0}[i%3],
			Lim: limits{MaxEventSize: []int{0, 64, 0, readBufLen, 8}[i%5], CutOff: i%2 == 1}}
		opt := core.ChildOpt{Timeout: 20 * time.Minute, GOMAXPROCS: []int{4, 2, 8, 3}[i%4]}
		res := core.RunChild("conc", in, opt)
		handleRaces(res, in)
		if !completed(res) {
			handleCrash("conc", in, res, opt, true)
			return
		}
		var out concOut
		if err := json.Unmarshal(res.Out, &out); err != nil {
			c.Inconclusive("unreadable child output")
			return
		}
		c.Eval(int(out.Evals))
		c.Count("concurrent_requests_judged", out.Evals)
		for k, n := range out.Counters {
			c.Count("conc:"+k, n)
		}
		for k, n := range out.Incon {
			for j := 0; j < n; j++ {
				c.Inconclusive(k)
			}
		}
		a.add(out.Viols, out.VSeen)
		shapesMu.Lock()
		for _, s := range out.FPs {
			shapes[s] = struct{}{}
		}
		if i == 2 {
			for _, s := range out.Samples {
				c.Sample(s)
			}
		}
		shapesMu.Unlock()
		c.Count("conc_children_completed", 1)
	})

	phaseC.Wait()

	for s := range shapes {
		c.Nontrivial(s)
	}

	// ---------------- verdicts
	sigs := make([]string, 0, len(a.viols))
	for s := range a.viols {
		sigs = append(sigs, s)
	}
	sort.Strings(sigs)
	for _, s := range sigs {
		v := a.viols[s]
		v.Witness["times_seen_in_this_run"] = a.vseen[s]
		c.Violation(v.Sig, v.What, v.Witness)
	}

	// ---------------- floors: a run that did not observe the behaviours the
	// property is about decides nothing
	need := func(name string, min int64) {
		if c.Counter(name) < min {
			c.Fatal("expected behaviour class not observed: %s = %d (< %d)", name, c.Counter(name), min)
		}
	}
	if c.Violations() == 0 && len(a.viols) == 0 {
		need("seq_shards_completed", seqShards)
		need("conc_children_completed", int64(nConc))
		need("outcome:ok200:plain", 1000)
		need("outcome:ok200:gzip", 100)
		need("outcome:ok200:plain+es_bulk", 100)
		need("outcome:ok200:plain+tcp", 10)
		need("bodies_with_final_unterminated_line", 100)
		need("lines_longer_than_read_buffer", 50)
		need("boundary:newline_first_byte_of_read_with_carry", 100)
		need("boundary:newline_first_byte_of_read_no_carry", 100)
		need("boundary:inside_line", 100)
		need("eof_together_with_last_bytes", 100)
		need("empty_lines", 100)
		need("cases_with_max_event_size_set", 1000)
		need("cases_with_max_event_size_and_cut_off_event_by_limit", 100)
		need("lines_longer_than_max_event_size", 1000)
		need("long_line_complete_in_carry_over_at_read_boundary(max_event_size)", 100)
		need("incomplete_body_status_400", 10)
		need("concurrent_requests_judged", 50)
		need("conc:lines_longer_than_read_buffer", 5)
		need("conc:measured_rounds_with_interleaved_In_calls", 1)
		need("stop_children_completed", int64(nStop))
		need("stop:cases_judged", int64(nStop*stopCases*3/4))
		need("stop:answered_200_after_complete_upload", int64(nStop*stopCases/10))
		need("stop:partial_line_pending_at_stop_and_2+_pieces_follow_and_upload_finished", int64(nStop*stopCases/20))
		need("stop:rendezvous_on_handed_lines:reached", int64(nStop*stopCases))
		need("overlap_children_completed", int64(nOv))
		need("overlap:rounds", int64(nOv*ovRounds))
		need("overlap:aborted_uploads_not_answered_200", int64(nOv*ovRounds))
		need("overlap:overlapping_requests_judged", int64(nOv*ovRounds*2))
		need("overlap:rounds_with_aborts_then_interleaved_uploads", int64(nOv*ovRounds/2))
		need("overlap:turn_switches_while_a_line_was_half_read", int64(nOv*ovRounds))
		need("overlap:turn_switches_while_parked_inside_In", int64(nOv*ovRounds/2))
		need("overlap:requests_parked_inside_In", int64(nOv*ovRounds/2))
		need("big_children_completed", int64(len(bigs)))
		need("big:handed_over_completely_200", int64(len(bigs)))
		need("big:handed_over_completely_200:gzip:32..64MiB", 1)
		need("big:handed_over_completely_200:gzip:64..128MiB", 1)
		need("big:handed_over_completely_200:plain:32..64MiB", 1)
		need("big:lines_longer_than_read_buffer", 10)
		if want := exhaustiveCount(maxLen); c.Counter("exhaustive_plain_cases") != want {
			c.Fatal("exhaustive scope incomplete: %d of %d cases evaluated", c.Counter("exhaustive_plain_cases"), want)
		}
	}
	c.Extra("exhaustive_scope", fmt.Sprintf("bodies over {ordinary,\\n,\\r} of length 0..%d x all read compositions x 2 EOF styles = %d cases", maxLen, exhaustiveCount(maxLen)))
}

// bigSpecs: the large bodies of this run. Sizes sit a seeded bit above the
// powers of two between 8 and 256 MiB (and, in the thorough tier, just below).
func bigSpecs(c *core.Ctx) []bigIn {
	const mib = 1 << 20
	type sp struct {
		mib  int64
		gz   string // "" plain
		es   bool
		near bool // a bit BELOW the mark instead of above
	}
	sps := []sp{{32, "best-speed", false, false}, {64, "members", false, false}, {32, "", false, false}}
	if c.Thorough() {
		sps = append(sps, sp{64, "", true, false}, sp{8, "default", false, false}, sp{16, "best-speed", true, false}, sp{32, "default", true, true},
			sp{48, "members", false, false}, sp{64, "best-speed", true, true}, sp{100, "best-speed", false, false}, sp{128, "members", true, false},
			sp{128, "", false, false}, sp{200, "default", false, false}, sp{256, "best-speed", false, false}, sp{256, "", true, false})
	}
	var out []bigIn
	for i, s := range sps {
		seed := c.SubSeed("big", i)
		rng := rand.New(rand.NewSource(seed))
		n := s.mib*mib + 1 + rng.Int63n(2*mib)
		if s.near {
			n = s.mib*mib - 3*readBufLen - rng.Int63n(mib/2)
		}
		out = append(out, bigIn{Seed: seed, Idx: i, Inflated: n, Gzip: s.gz != "", GzHow: s.gz, ES: s.es, Open: rng.Intn(2) == 0,
			AvgEvSize: []int{4096, 16, 0}[i%3], Lim: limits{MaxEventSize: []int{0, 0, 0, 4096, readBufLen}[i%5], CutOff: i%2 == 1}})
	}
	return out
}

func bigSizesText(bs []bigIn) string {
	var parts []string
	for _, b := range bs {
		parts = append(parts, fmt.Sprintf("%d", b.Inflated>>20))
	}
	return strings.Join(parts, "/")
}

func orNull(b json.RawMessage) []byte {
	if len(b) == 0 {
		return []byte("null")
	}
	return b
}

func tail(s string, n int) string {
	if len(s) > n {
		return s[len(s)-n:]
	}
	return s
}

func stripLine(site string) string {
	if i := strings.LastIndex(site, ":"); i > 0 {
		return site[:i]
	}
	return site
}

// raceTouchesBuffers: is one of the two racing ACCESS SITES (first file.d /
// harness frame of each stack) in the code that owns / fills / hands over the
// request buffers? (plugin: processBulk,
// processChunk, newReadBuff, newEventBuffs; harness: the body reader copying
// into the plugin's read buffer, the recorder copying the handed data)
func raceTouchesBuffers(rep string) bool {
	key := raceKey(rep)
	for _, f := range []string{
		"plugin/input/http.(*Plugin).processBulk", "plugin/input/http.(*Plugin).processChunk",
		"plugin/input/http.(*Plugin).newReadBuff", "plugin/input/http.(*Plugin).newEventBuffs",
		"main.(*chunkReader).Read", "main.(*concRec).In", "main.(*recorder).In",
	} {
		if strings.Contains(key, f) {
			return true
		}
	}
	return false
}

// raceKey: the two access sites (first frame inside file.d or the harness of
// each stack, line numbers stripped), order-independent.
func raceKey(rep string) string {
	var sites []string
	lines := strings.Split(rep, "\n")
	for i := 0; i < len(lines); i++ {
		l := lines[i]
		if !(strings.HasPrefix(l, "Read at") || strings.HasPrefix(l, "Write at") || strings.HasPrefix(l, "Previous read at") || strings.HasPrefix(l, "Previous write at")) {
			continue
		}
		site := ""
		for j := i + 1; j < len(lines) && strings.TrimSpace(lines[j]) != ""; j += 2 {
			fn := strings.TrimSpace(lines[j])
			if k := strings.LastIndex(fn, "("); k > 0 {
				fn = fn[:k]
			}
			if site == "" {
				site = fn
			}
			if strings.Contains(fn, "ozontech/file.d/") || strings.HasPrefix(fn, "main.") {
				site = strings.TrimPrefix(fn, "github.com/ozontech/file.d/")
				break
			}
		}
		sites = append(sites, site)
	}
	sort.Strings(sites)
	if len(sites) == 0 {
		return core.RaceKey(rep)
	}
	return strings.Join(sites, " <-> ")
}

// completed: the workload returned and wrote its output. A child in which the
// race detector reported something exits with status 66 even though the
// workload finished (core.ChildResult.Completed is false then).
func completed(res *core.ChildResult) bool {
	return res.Completed || (len(res.Out) > 0 && !res.TimedOut && res.ExitCode == 66 && len(res.RaceReports) > 0)
}
