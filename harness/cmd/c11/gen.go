package main

// Case generators: the exhaustive small scope and the seeded large bodies.

import (
	"bytes"
	"compress/flate"
	"compress/gzip"
	"fmt"
	"math/rand"
)

// ---------------------------------------------------------------------
// exhaustive small scope

// smallBody builds the body number b (base 3, L digits) of length L:
// digit 0 -> an ordinary byte that is unique for its position ('a'+i, so any
// misplaced/duplicated/lost byte changes the result), 1 -> '\n', 2 -> '\r'.
func smallBody(L, b int) []byte {
	out := make([]byte, L)
	for i := 0; i < L; i++ {
		switch b % 3 {
		case 0:
			out[i] = byte('a' + i)
		case 1:
			out[i] = '\n'
		case 2:
			out[i] = '\r'
		}
		b /= 3
	}
	return out
}

// composition number m of L (bit i set = a read boundary after byte i).
func composition(L, m int) []int {
	if L == 0 {
		return nil
	}
	var out []int
	run := 1
	for i := 0; i < L-1; i++ {
		if m&(1<<i) != 0 {
			out = append(out, run)
			run = 1
		} else {
			run++
		}
	}
	return append(out, run)
}

func pow(b, e int) int {
	r := 1
	for ; e > 0; e-- {
		r *= b
	}
	return r
}

// exhaustiveCount is the size of the small scope up to maxLen:
// bodies x compositions x {EOF after / with the last read}.
func exhaustiveCount(maxLen int) int64 {
	var n int64
	for L := 0; L <= maxLen; L++ {
		comps := 1
		if L > 1 {
			comps = 1 << (L - 1)
		}
		n += int64(pow(3, L)) * int64(comps) * 2
	}
	return n
}

// forEachSmall enumerates the small scope; fn gets the running index.
func forEachSmall(maxLen int, fn func(idx int64, L, b, m int, eofLast bool)) {
	var idx int64
	for L := 0; L <= maxLen; L++ {
		comps := 1
		if L > 1 {
			comps = 1 << (L - 1)
		}
		nb := pow(3, L)
		for b := 0; b < nb; b++ {
			for m := 0; m < comps; m++ {
				fn(idx, L, b, m, false)
				idx++
				fn(idx, L, b, m, true)
				idx++
			}
		}
	}
}

// ---------------------------------------------------------------------
// gzip encodings (written with the standard library, independent of the
// klauspost reader used by the plugin)

func gzipBytes(body []byte, how string, rng *rand.Rand) []byte {
	var buf bytes.Buffer
	switch how {
	case "one-block":
		w := gzip.NewWriter(&buf)
		w.Write(body)
		w.Close()
	case "stored":
		w, _ := gzip.NewWriterLevel(&buf, flate.NoCompression)
		w.Write(body)
		w.Close()
	case "huffman-only":
		w, _ := gzip.NewWriterLevel(&buf, flate.HuffmanOnly)
		w.Write(body)
		w.Close()
	case "flush-each-byte":
		w := gzip.NewWriter(&buf)
		for i := range body {
			w.Write(body[i : i+1])
			w.Flush()
		}
		w.Close()
	case "flush-random":
		w, _ := gzip.NewWriterLevel(&buf, flate.BestSpeed)
		for off := 0; off < len(body); {
			n := 1 + rng.Intn(1+len(body)/3)
			if rng.Intn(3) == 0 {
				n = 1 + rng.Intn(20)
			}
			if n > len(body)-off {
				n = len(body) - off
			}
			w.Write(body[off : off+n])
			w.Flush()
			off += n
		}
		w.Close()
	case "members":
		// several gzip members back to back (RFC 1952 2.2: the result is the
		// concatenation of the members' contents)
		k := 2 + rng.Intn(3)
		off := 0
		for j := 0; j < k; j++ {
			n := len(body) - off
			if j < k-1 && n > 0 {
				n = rng.Intn(n + 1)
			}
			w := gzip.NewWriter(&buf)
			w.Write(body[off : off+n])
			w.Close()
			off += n
		}
	default:
		panic("unknown gzip how " + how)
	}
	return buf.Bytes()
}

// gzipSplitMembers: two members split at position k.
func gzipSplitMembers(body []byte, k int) []byte {
	var buf bytes.Buffer
	for _, part := range [][]byte{body[:k], body[k:]} {
		w := gzip.NewWriter(&buf)
		w.Write(part)
		w.Close()
	}
	return buf.Bytes()
}

// ---------------------------------------------------------------------
// read plans

func planFixed(total, k int) []int {
	var out []int
	for total > 0 {
		n := k
		if n > total {
			n = total
		}
		out = append(out, n)
		total -= n
	}
	return out
}

func planRandom(rng *rand.Rand, total, max int) []int {
	var out []int
	for total > 0 {
		n := 1 + rng.Intn(max)
		if n > total {
			n = total
		}
		out = append(out, n)
		total -= n
	}
	return out
}

// planAtNewlines puts read boundaries right before and/or right after newlines.
func planAtNewlines(rng *rand.Rand, wire []byte, mode int) []int {
	var out []int
	last := 0
	cut := func(at int) {
		if at > last && at <= len(wire) {
			out = append(out, at-last)
			last = at
		}
	}
	for i, b := range wire {
		if b != '\n' {
			continue
		}
		m := mode
		if m == 3 {
			m = rng.Intn(3)
		}
		switch m {
		case 0: // newline is the first byte of the next read
			cut(i)
		case 1: // newline is the last byte of the read
			cut(i + 1)
		case 2: // newline alone in its own read
			cut(i)
			cut(i + 1)
		}
	}
	cut(len(wire))
	return out
}

func withZeroReads(rng *rand.Rand, plan []int) []int {
	var out []int
	for _, n := range plan {
		if rng.Intn(6) == 0 {
			out = append(out, 0)
		}
		out = append(out, n)
	}
	if rng.Intn(2) == 0 {
		out = append(out, 0)
	}
	return out
}

// ---------------------------------------------------------------------
// seeded large bodies

var multiByte = []string{"é", "日本", "😀", " ", "ß", "\xff\xfe", "\x00", `\n`, `\"`, "\t", "{\"k\":\"v\"}", "\r"}

func fillLine(rng *rand.Rand, idx, n int) []byte {
	out := make([]byte, 0, n)
	out = append(out, fmt.Sprintf("L%d:", idx)...)
	const alpha = "abcdefghijklmnopqrstuvwxyzABCDEFGHIJKLMNOPQRSTUVWXYZ0123456789 {}[]\",:\\_-"
	for len(out) < n {
		if rng.Intn(40) == 0 {
			out = append(out, multiByte[rng.Intn(len(multiByte))]...)
			continue
		}
		out = append(out, alpha[rng.Intn(len(alpha))])
	}
	return out[:n] // may cut a multi-byte rune: bodies are bytes, not text
}

func pickLineLen(rng *rand.Rand) int {
	switch x := rng.Intn(100); {
	case x < 14:
		return 0
	case x < 30:
		return 1 + rng.Intn(10)
	case x < 55:
		return 11 + rng.Intn(300)
	case x < 62:
		return 4000 + rng.Intn(200)
	case x < 74:
		return readBufLen - 2 + rng.Intn(5) // 16382..16386
	case x < 79:
		return 2*readBufLen - 1 + rng.Intn(3)
	case x < 92:
		return readBufLen + 1 + rng.Intn(54000)
	default:
		return 3*readBufLen + rng.Intn(3)
	}
}

func genBody(rng *rand.Rand) (body []byte, class string) {
	switch rng.Intn(24) {
	case 0:
		return nil, "empty-body"
	case 1:
		return bytes.Repeat([]byte{'\n'}, 1+rng.Intn(5)), "only-newlines"
	case 2:
		return fillLine(rng, 0, readBufLen+rng.Intn(3)-1), "one-long-unterminated-line"
	case 3:
		return []byte("\r\n\r\n\r"), "crlf-only"
	}
	nl := 1 + rng.Intn(10)
	total := 0
	crlf := rng.Intn(5) == 0
	for i := 0; i < nl; i++ {
		n := pickLineLen(rng)
		if total+n > 300_000 {
			n = rng.Intn(50)
		}
		total += n
		line := fillLine(rng, i, n)
		if n < 4 { // too short for the "L<i>:" marker
			line = line[:n]
		}
		body = append(body, line...)
		if i < nl-1 || rng.Intn(2) == 0 {
			if crlf {
				body = append(body, '\r')
			}
			body = append(body, '\n')
		}
	}
	return body, "lines"
}

func genPlan(rng *rand.Rand, wire []byte, allowTiny bool) (plan []int, class string) {
	n := len(wire)
	for {
		switch rng.Intn(9) {
		case 0:
			return nil, "as-much-as-fits"
		case 1:
			if n > 48_000 || !allowTiny {
				continue
			}
			return planFixed(n, 1), "1-byte"
		case 2:
			ks := []int{2, 3, 5, 7, 64, 1000, 4096, readBufLen - 1, readBufLen}
			k := ks[rng.Intn(len(ks))]
			if (k < 64 && n > 100_000) || (k < 64 && !allowTiny) {
				continue
			}
			return planFixed(n, k), fmt.Sprintf("fixed-%d", k)
		case 3:
			ms := []int{4, 100, 20000}
			m := ms[rng.Intn(len(ms))]
			if (m == 4 && n > 60_000) || (m == 4 && !allowTiny) {
				continue
			}
			return planRandom(rng, n, m), fmt.Sprintf("random<=%d", m)
		case 4, 5, 6:
			mode := rng.Intn(4)
			return planAtNewlines(rng, wire, mode), fmt.Sprintf("at-newlines-%d", mode)
		case 7:
			p := planAtNewlines(rng, wire, 3)
			return withZeroReads(rng, p), "at-newlines+empty-reads"
		case 8:
			return withZeroReads(rng, planRandom(rng, n, 5000)), "random+empty-reads"
		}
	}
}

var gzHows = []string{"one-block", "stored", "huffman-only", "flush-random", "flush-random", "members"}

// genLarge draws one seeded case.
func genLarge(rng *rand.Rand, net bool) *Case {
	c := &Case{ErrAfter: -1, Net: net}
	var class string
	c.Body, class = genBody(rng)
	if net && len(c.Body) > 120_000 {
		c.Body = c.Body[:120_000]
	}
	c.ES = rng.Intn(10) < 3
	c.Wire = c.Body
	if rng.Intn(10) < 3 {
		c.Gzip = true
		c.GzHow = gzHows[rng.Intn(len(gzHows))]
		c.Wire = gzipBytes(c.Body, c.GzHow, rng)
	}
	var pclass string
	c.Chunks, pclass = genPlan(rng, c.Wire, !net || len(c.Wire) <= 300)
	if net {
		// one TCP write per chunk: keep the number of writes moderate
		if len(c.Chunks) > 400 {
			c.Chunks = c.Chunks[:400] // the rest goes out as one last chunk
		}
	}
	c.EOFWithLast = rng.Intn(2) == 0
	c.Kind = "seeded:" + class + "/" + pclass
	if !net {
		switch x := rng.Intn(100); {
		case x < 8 && len(c.Wire) > 0:
			c.ErrAfter = rng.Intn(len(c.Wire))
			c.Kind += "/transport-error"
		case x < 14 && len(c.Body) > 0:
			c.Gzip, c.GzHow, c.Truncated = true, "one-block,truncated", true
			full := gzipBytes(c.Body, "one-block", rng)
			cut := rng.Intn(len(full)) // 0..len-1: always an incomplete single member
			if rng.Intn(3) == 0 {
				cut = len(full) - 1 - rng.Intn(8) // inside the trailer
			}
			c.Wire = full[:cut]
			c.Chunks, pclass = genPlan(rng, c.Wire, true)
			c.Kind = "seeded:" + class + "/" + pclass + "/truncated-gzip"
		}
	}
	return c
}
