// C08 — Batcher: bounded size, bounded staleness, in-order commit, safe Stop.
//
// The real pipeline.Batcher is driven through its exported API by child
// processes; a recording OutFn and a recording OutputPluginController log
// every Add / send / OutFn call+return / Commit on one logical clock; the
// oracle is a pure function over that log.
package main

import (
	"context"
	"encoding/json"
	"fmt"
	"math/rand"
	"sort"
	"strings"
	"sync"
	"sync/atomic"
	"time"

	"github.com/ozontech/file.d/metric"
	"github.com/ozontech/file.d/pipeline"
	"github.com/ozontech/file.d/verifhook"
	"github.com/prometheus/client_golang/prometheus"

	"verifharness/core"
)

// ---------- case description ----------

type Case struct {
	Name       string
	Seed       int64
	Workers    int
	Count      int    // BatchSizeCount
	Bytes      int    // BatchSizeBytes
	FlushMs    int    // FlushTimeout
	Adders     int    // concurrent Add goroutines
	PerAdder   int    // events per adder
	MaxSize    int    // event sizes drawn from 0..MaxSize
	ParentPct  int    // % child-parent events
	ChildPct   int    // % child events
	OutDelays  []int  // OutFn delay in µs for batch seq i (cyclic); makes later batches finish first
	PauseEvery int    // adder pauses (longer than flush) after this many events (0 = never): idle flush
	Stop       string // "", "gate" (Stop placed inside the send window), "random"
	StopAfter  int    // for random: Stop after this many adds were started

	// Retriable: the Batcher is wrapped in the real RetriableBatcher; batch seq
	// numbers divisible by FailEvery fail their first FailN sends. FailN >
	// Attempts exhausts the retries: the error callback runs and, with DLQ, the
	// batch is marked as routed to the dead queue (its events are not committed
	// by this batcher).
	Retriable bool
	Attempts  int
	RetentMs  int
	FailEvery int
	FailN     int
	DLQ       bool
}

type rec struct {
	T     int64   `json:"t"`
	K     string  `json:"k"` // add.call add.ret send out.call out.ret commit stop.call stop.ret
	ID    int64   `json:"id,omitempty"`
	Adder int     `json:"adder,omitempty"`
	Seq   int64   `json:"seq,omitempty"`
	All   []int64 `json:"all,omitempty"`
	Iter  []int64 `json:"iter,omitempty"`
	Tick  int64   `json:"tick,omitempty"`
	WallU int64   `json:"wall_us,omitempty"`
	Att   int     `json:"att,omitempty"`
	OK    bool    `json:"ok,omitempty"`
}

type recorder struct {
	mu   sync.Mutex
	log  []rec
	t0   time.Time
	tick *int64
}

func (r *recorder) add(x rec) {
	r.mu.Lock()
	x.T = int64(len(r.log))
	x.Tick = atomic.LoadInt64(r.tick)
	x.WallU = time.Since(r.t0).Microseconds()
	r.log = append(r.log, x)
	r.mu.Unlock()
}

type ctl struct{ r *recorder }

func (c *ctl) Commit(e *pipeline.Event) { c.r.add(rec{K: "commit", ID: e.Offset}) }
func (c *ctl) Error(string)             {}

type Viol struct {
	Sig     string `json:"sig"`
	What    string `json:"what"`
	Witness any    `json:"witness"`
}

type CaseResult struct {
	Case         Case
	Viol         []Viol
	Inconclusive string
	Fingerprint  string
	WallStale    string // set when wall-clock staleness exceeded flush+heartbeat+slack (needs solo confirmation)
	Stuck        string // retriable cases: no record for 15 s while work is pending (needs solo confirmation)
	Stats        map[string]int64
	LogSample    []rec
}

func ids(evs []*pipeline.Event) []int64 {
	out := make([]int64, 0, len(evs))
	for _, e := range evs {
		out = append(out, e.Offset)
	}
	return out
}

// runCase executes one case against the real Batcher and judges the log.
func runCase(cs Case, io *core.ChildIO) CaseResult {
	res := CaseResult{Case: cs, Stats: map[string]int64{}}
	verifhook.Reset()
	var tick int64
	r := &recorder{t0: time.Now(), tick: &tick}
	verifhook.Arm("batcher.tick", func() { atomic.AddInt64(&tick, 1) })

	gate := verifhook.NewGate()
	var gateArmed int32
	verifhook.Arm("batcher.afterUnlock", func() {
		r.add(rec{K: "send"})
		if cs.Stop == "gate" && atomic.CompareAndSwapInt32(&gateArmed, 1, 2) {
			gate.Arrive()
		}
	})

	rng := rand.New(rand.NewSource(cs.Seed))
	kinds := map[int64]string{}
	sizes := map[int64]int{}
	total := cs.Adders * cs.PerAdder
	events := make([][]*pipeline.Event, cs.Adders)
	for a := 0; a < cs.Adders; a++ {
		for i := 0; i < cs.PerAdder; i++ {
			id := int64(a*1_000_000 + i + 1)
			kind := "regular"
			p := rng.Intn(100)
			if p < cs.ParentPct {
				kind = "parent"
			} else if p < cs.ParentPct+cs.ChildPct {
				kind = "child"
			}
			size := 0
			if cs.MaxSize > 0 {
				size = rng.Intn(cs.MaxSize + 1)
			}
			e := pipeline.VerifNewEvent(kind, size)
			e.Offset = id
			kinds[id] = kind
			sizes[id] = size
			events[a] = append(events[a], e)
		}
	}

	outFn := func(_ *pipeline.WorkerData, b *pipeline.Batch) {
		seq, _, _ := pipeline.VerifBatchInfo(b)
		var iter []int64
		b.ForEach(func(e *pipeline.Event) { iter = append(iter, e.Offset) })
		r.add(rec{K: "out.call", Seq: seq, All: ids(pipeline.VerifBatchEvents(b)), Iter: iter})
		if n := len(cs.OutDelays); n > 0 {
			if d := cs.OutDelays[int(seq)%n]; d > 0 {
				time.Sleep(time.Duration(d) * time.Microsecond)
			}
		}
		r.add(rec{K: "out.ret", Seq: seq})
	}
	opts := pipeline.BatcherOptions{
		PipelineName: "verif", OutputType: "mon", OutFn: outFn, Controller: &ctl{r},
		Workers: cs.Workers, BatchSizeCount: cs.Count, BatchSizeBytes: cs.Bytes,
		FlushTimeout: time.Duration(cs.FlushMs) * time.Millisecond,
		MetricCtl:    metric.NewCtl("c08", prometheus.NewRegistry(), time.Minute, 0),
	}
	var b interface {
		Start(context.Context)
		Add(*pipeline.Event)
		Stop()
	}
	if cs.Retriable {
		var amu sync.Mutex
		attempts := map[int64]int{}
		opts.OutFn = nil
		send := func(_ *pipeline.WorkerData, bt *pipeline.Batch) error {
			seq, _, _ := pipeline.VerifBatchInfo(bt)
			amu.Lock()
			att := attempts[seq]
			attempts[seq] = att + 1
			amu.Unlock()
			r.add(rec{K: "out.call", Seq: seq, All: ids(pipeline.VerifBatchEvents(bt)), Att: att})
			if n := len(cs.OutDelays); n > 0 {
				if d := cs.OutDelays[int(seq)%n]; d > 0 {
					time.Sleep(time.Duration(d) * time.Microsecond)
				}
			}
			fail := cs.FailEvery > 0 && seq%int64(cs.FailEvery) == 0 && att < cs.FailN
			r.add(rec{K: "out.ret", Seq: seq, Att: att, OK: !fail})
			if fail {
				return fmt.Errorf("verif: injected send failure")
			}
			return nil
		}
		onError := func(_ error, evs []*pipeline.Event) {
			r.add(rec{K: "giveup", All: ids(evs), OK: cs.DLQ})
		}
		b = pipeline.NewRetriableBatcher(&opts, send, pipeline.BackoffOpts{
			MinRetention: time.Duration(cs.RetentMs) * time.Millisecond, Multiplier: 2,
			AttemptNum: cs.Attempts, IsDeadQueueAvailable: cs.DLQ,
		}, onError)
	} else {
		b = pipeline.NewBatcher(opts)
	}
	ctx, cancel := context.WithCancel(context.Background())
	defer cancel()
	b.Start(ctx)

	var started int64
	var wg sync.WaitGroup
	stopDone := make(chan struct{})
	stopOnce := sync.Once{}
	doStop := func() {
		stopOnce.Do(func() {
			go func() {
				r.add(rec{K: "stop.call"})
				b.Stop()
				r.add(rec{K: "stop.ret"})
				close(stopDone)
			}()
		})
	}
	if cs.Stop == "gate" {
		atomic.StoreInt32(&gateArmed, 1)
	}
	for a := 0; a < cs.Adders; a++ {
		wg.Add(1)
		go func(a int) {
			defer wg.Done()
			for i, e := range events[a] {
				n := atomic.AddInt64(&started, 1)
				if cs.Stop == "random" && int(n) == cs.StopAfter {
					doStop()
				}
				r.add(rec{K: "add.call", ID: e.Offset, Adder: a})
				b.Add(e)
				r.add(rec{K: "add.ret", ID: e.Offset, Adder: a})
				if cs.PauseEvery > 0 && (i+1)%cs.PauseEvery == 0 {
					time.Sleep(time.Duration(cs.FlushMs)*time.Millisecond + 350*time.Millisecond)
				}
			}
		}(a)
	}
	if cs.Stop == "gate" {
		// wait until some sender sits between mu.Unlock and the channel send,
		// then run Stop to completion, then let the sender continue.
		if gate.WaitArrived(20 * time.Second) {
			res.Stats["gate_arrived"] = 1
			doStop()
			select {
			case <-stopDone:
				res.Stats["stop_completed_inside_window"] = 1
			case <-time.After(3 * time.Second):
				// Stop cannot finish while the sender holds the window (acceptable design)
			}
			gate.Release()
		} else {
			gate.Release()
			doStop()
		}
	}
	if cs.Retriable {
		// every stage below is driven by the batcher itself; a batcher that stops
		// making progress also stops its heartbeat (the logical clock), so the
		// only observable is "no record at all for 15 s while work is pending".
		// That is reported as Stuck and only becomes a verdict when it
		// reproduces alone.
		addersDone := make(chan struct{})
		go func() { wg.Wait(); close(addersDone) }()
		lastLen, lastChange := -1, time.Now()
		for {
			r.mu.Lock()
			n, done := len(r.log), 0
			for i := range r.log {
				switch r.log[i].K {
				case "commit":
					done++
				case "giveup":
					if r.log[i].OK {
						done += len(r.log[i].All)
					}
				}
			}
			r.mu.Unlock()
			if n != lastLen {
				lastLen, lastChange = n, time.Now()
			}
			finished := false
			select {
			case <-addersDone:
				finished = true
			default:
			}
			if finished && (cs.Stop != "" || done >= total) {
				break
			}
			if time.Since(lastChange) > 15*time.Second {
				res.Stuck = fmt.Sprintf("no Add return, send, commit or give-up for 15 s: adders finished=%v, %d of %d events committed or routed to the dead queue", finished, done, total)
				r.mu.Lock()
				log := append([]rec(nil), r.log...)
				r.mu.Unlock()
				judgeRetriable(cs, log, total, &res)
				res.LogSample = head(log, 400)
				return res
			}
			time.Sleep(5 * time.Millisecond)
		}
	}
	wg.Wait()

	// quiescence: every added event committed (no Stop), or Stop returned.
	deadline := time.Now().Add(time.Duration(cs.FlushMs)*time.Millisecond*20 + 20*time.Second)
	if cs.Stop == "" {
		for {
			r.mu.Lock()
			n := 0
			for i := range r.log {
				if r.log[i].K == "commit" {
					n++
				}
				if r.log[i].K == "giveup" && r.log[i].OK {
					n += len(r.log[i].All)
				}
			}
			r.mu.Unlock()
			if n >= total {
				break
			}
			if time.Now().After(deadline) {
				break
			}
			time.Sleep(5 * time.Millisecond)
		}
		// grace: catch late duplicates
		time.Sleep(30 * time.Millisecond)
	} else {
		doStop()
		select {
		case <-stopDone:
		case <-time.After(30 * time.Second):
			res.Inconclusive = "stop did not return within 30s"
		}
		// the plugins call Stop first and cancel the context afterwards (gelf never
		// does): whatever Stop left behind (a partial batch, the heartbeat) must
		// stay harmless for longer than the flush timeout
		time.Sleep(time.Duration(cs.FlushMs)*time.Millisecond + 250*time.Millisecond)
	}
	tickEnd := atomic.LoadInt64(&tick)
	cancel()
	if cs.Stop == "" {
		<-func() chan struct{} { doStop(); return stopDone }()
	}
	verifhook.Reset()

	r.mu.Lock()
	log := r.log
	r.mu.Unlock()
	if cs.Retriable {
		judgeRetriable(cs, log, total, &res)
	} else {
		judge(cs, log, kinds, sizes, total, tickEnd, &res)
	}
	if len(res.Viol) > 0 || cs.Name == "sample" {
		res.LogSample = log
		if len(res.LogSample) > 400 {
			res.LogSample = res.LogSample[:400]
		}
	}
	return res
}

// judge is the offline oracle over the recorded history.
func judge(cs Case, log []rec, kinds map[int64]string, sizes map[int64]int, total int, tickEnd int64, res *CaseResult) {
	add := func(sig, what string, w any) {
		if len(res.Viol) < 5 {
			res.Viol = append(res.Viol, Viol{sig, what, w})
		}
	}
	type binfo struct {
		all      []int64
		callT    int64
		retT     int64
		sendTick int64
		sendWall int64
	}
	batches := map[int64]*binfo{}
	batchOf := map[int64]int64{}
	addRet := map[int64]rec{}
	addCall := map[int64]rec{}
	var commits []rec
	var sends []rec
	adderOrder := map[int][]int64{}
	for _, x := range log {
		switch x.K {
		case "add.call":
			addCall[x.ID] = x
			adderOrder[x.Adder] = append(adderOrder[x.Adder], x.ID)
		case "add.ret":
			addRet[x.ID] = x
		case "send":
			sends = append(sends, x)
		case "out.call":
			if _, dup := batches[x.Seq]; dup {
				add("batch-seq-sent-twice", fmt.Sprintf("OutFn called twice for batch seq %d", x.Seq), x)
			}
			batches[x.Seq] = &binfo{all: x.All, callT: x.T, retT: -1}
			for _, id := range x.All {
				if prev, dup := batchOf[id]; dup {
					add("event-in-two-batches", fmt.Sprintf("event %d handed to OutFn in batches %d and %d", id, prev, x.Seq), x)
				}
				batchOf[id] = x.Seq
			}
			// --- size bounds ---
			if cs.Count > 0 && len(x.All) > cs.Count {
				add("batch-count-exceeded", fmt.Sprintf("batch seq %d holds %d events > BatchSizeCount %d", x.Seq, len(x.All), cs.Count), x)
			}
			if cs.Bytes > 0 && len(x.All) > 0 {
				sum := 0
				for _, id := range x.All[:len(x.All)-1] {
					sum += sizes[id]
				}
				if sum >= cs.Bytes {
					add("batch-bytes-exceeded-before-last", fmt.Sprintf("batch seq %d: size without its last event is %d >= BatchSizeBytes %d", x.Seq, sum, cs.Bytes), x)
				}
			}
			// ForEach must yield exactly the non-parent events in order
			var want []int64
			for _, id := range x.All {
				if kinds[id] != "parent" {
					want = append(want, id)
				}
			}
			if fmt.Sprint(want) != fmt.Sprint(x.Iter) {
				add("foreach-mismatch", "Batch.ForEach did not yield exactly the non-parent events in order", x)
			}
			if len(want) == 0 {
				add("outfn-for-parent-only-batch", "OutFn called for a batch without deliverable events", x)
			}
		case "out.ret":
			if b := batches[x.Seq]; b != nil {
				b.retT = x.T
			}
		case "commit":
			commits = append(commits, x)
		}
	}
	res.Stats["batches"] = int64(len(batches))
	res.Stats["commits"] = int64(len(commits))
	res.Stats["adds"] = int64(len(addCall))
	res.Stats["ticks"] = tickEnd

	// --- commit discipline ---
	seen := map[int64]int{}
	lastSeq := int64(-1)
	pos := 0 // position inside the current batch
	var curAll []int64
	inversions := 0
	for _, cm := range commits {
		seen[cm.ID]++
		if seen[cm.ID] > 1 {
			add("double-commit", fmt.Sprintf("event %d committed %d times", cm.ID, seen[cm.ID]), cm)
			continue
		}
		if _, known := addCall[cm.ID]; !known {
			add("commit-of-unknown-event", fmt.Sprintf("commit of id %d that was never added", cm.ID), cm)
			continue
		}
		seq, sent := batchOf[cm.ID]
		if !sent {
			if kinds[cm.ID] != "parent" {
				add("commit-without-send", fmt.Sprintf("event %d (%s) committed but never contained in a batch handed to OutFn", cm.ID, kinds[cm.ID]), cm)
			} else {
				res.Stats["parent_only_commits"]++
			}
			continue
		}
		b := batches[seq]
		if b.retT < 0 || b.retT > cm.T {
			add("commit-before-send-returned", fmt.Sprintf("event %d of batch %d committed before OutFn of that batch returned", cm.ID, seq), cm)
		}
		if seq != lastSeq {
			if curAll != nil && pos != len(curAll) {
				add("batch-commit-interleaved", fmt.Sprintf("commits of batch %d started before batch %d was completely committed (%d of %d)", seq, lastSeq, pos, len(curAll)), cm)
			}
			if seq < lastSeq {
				add("batch-commit-out-of-order", fmt.Sprintf("batch %d committed after batch %d", seq, lastSeq), cm)
			}
			lastSeq = seq
			curAll = b.all
			pos = 0
		}
		if pos >= len(curAll) || curAll[pos] != cm.ID {
			add("commit-order-inside-batch", fmt.Sprintf("batch %d: commit #%d is event %d, batch order is %v", seq, pos, cm.ID, curAll), cm)
		}
		pos++
	}
	// completion order vs formation order (fingerprint only)
	var rets []int64
	for _, x := range log {
		if x.K == "out.ret" {
			rets = append(rets, x.Seq)
		}
	}
	for i := 1; i < len(rets); i++ {
		if rets[i] < rets[i-1] {
			inversions++
		}
	}
	res.Stats["completion_inversions"] = int64(inversions)

	// per-adder order
	cpos := map[int64]int{}
	for i, cm := range commits {
		if _, ok := cpos[cm.ID]; !ok {
			cpos[cm.ID] = i
		}
	}
	for a, order := range adderOrder {
		last := -1
		for _, id := range order {
			p, ok := cpos[id]
			if !ok {
				continue
			}
			if p < last {
				add("adder-order-violated", fmt.Sprintf("adder %d: event %d committed before an event it added earlier", a, id), nil)
				break
			}
			last = p
		}
	}

	if cs.Stop == "" {
		if res.Inconclusive == "" {
			missing := 0
			var first int64
			for id := range addRet {
				if seen[id] == 0 {
					if missing == 0 {
						first = id
					}
					missing++
				}
			}
			if missing > 0 {
				// never flushed: decide on logical ticks
				need := int64(cs.FlushMs/100 + 3)
				at := addRet[first].Tick
				if tickEnd-at >= need {
					add("event-never-flushed", fmt.Sprintf("%d of %d added events were never committed although %d heartbeat ticks passed since Add returned (flush timeout %d ms)", missing, total, tickEnd-at, cs.FlushMs), map[string]any{"first_missing": first})
				} else if tickEnd == 0 {
					add("batcher-heartbeat-never-ran", fmt.Sprintf("%d of %d added events never committed and the batcher heartbeat never ticked", missing, total), nil)
				} else {
					res.Inconclusive = "missing commits but too few ticks"
				}
			}
		}
		// staleness in logical ticks: Add returned at tick a; the batch was put on
		// the worker queue (send) at tick s; require s-a <= floor(F/100)+2.
		sort.Slice(sends, func(i, j int) bool { return sends[i].T < sends[j].T })
		need := int64(cs.FlushMs/100 + 2)
		worstTicks, worstWall := int64(0), int64(0)
		for id, ar := range addRet {
			seq, ok := batchOf[id]
			if !ok || int(seq) >= len(sends) {
				continue
			}
			s := sends[seq]
			if s.T < ar.T {
				continue // batch was closed by this very Add (size limit)
			}
			dt := s.Tick - ar.Tick
			if dt > worstTicks {
				worstTicks = dt
			}
			if w := s.WallU - ar.WallU; w > worstWall {
				worstWall = w
			}
			if dt > need {
				add("stale-batch", fmt.Sprintf("event %d waited %d heartbeat ticks (> %d) between Add return and the hand-over of its batch (flush timeout %d ms)", id, dt, need, cs.FlushMs), map[string]any{"add": ar, "send": s})
				break
			}
		}
		res.Stats["worst_stale_ticks"] = worstTicks
		res.Stats["worst_stale_wall_us"] = worstWall
		// secondary, wall-clock view (catches a heartbeat that ticks too rarely):
		// flush timeout + one documented 100 ms heartbeat period + 600 ms slack.
		if limit := int64(cs.FlushMs+100+600) * 1000; worstWall > limit {
			res.WallStale = fmt.Sprintf("an event waited %d ms between Add return and the hand-over of its batch; flush timeout %d ms + 100 ms heartbeat + 600 ms slack", worstWall/1000, cs.FlushMs)
		}
	}
	closedBySize, closedByTime := 0, 0
	for _, b := range batches {
		if (cs.Count > 0 && len(b.all) >= cs.Count) || cs.Bytes > 0 && func() bool {
			s := 0
			for _, id := range b.all {
				s += sizes[id]
			}
			return s >= cs.Bytes
		}() {
			closedBySize++
		} else {
			closedByTime++
		}
	}
	res.Stats["closed_by_size"] = int64(closedBySize)
	res.Stats["closed_by_timeout"] = int64(closedByTime)
	invClass := "inv0"
	switch {
	case inversions > 8:
		invClass = "inv>8"
	case inversions > 0:
		invClass = fmt.Sprintf("inv%d", inversions)
	}
	res.Fingerprint = fmt.Sprintf("w%d c%d b%d f%d a%d stop=%s %s size=%v time=%v parents=%v", cs.Workers, cs.Count, cs.Bytes, cs.FlushMs, cs.Adders, cs.Stop, invClass, closedBySize > 0, closedByTime > 0, res.Stats["parent_only_commits"] > 0)
}

// judgeRetriable is the oracle for cases that wrap the Batcher in the real
// RetriableBatcher: the commit discipline of C08 has to survive failing sends.
func judgeRetriable(cs Case, log []rec, total int, res *CaseResult) {
	add := func(sig, what string, w any) {
		if len(res.Viol) < 5 {
			res.Viol = append(res.Viol, Viol{sig, what, w})
		}
	}
	type binfo struct {
		all     []int64
		okT     int64 // T of the successful out.ret, -1
		fails   int
		giveupT int64 // T of the give-up, -1
		dlq     bool
	}
	batches := map[int64]*binfo{}
	batchOf := map[int64]int64{}
	added := map[int64]bool{}
	addRet := map[int64]bool{}
	stopCalled := false
	for _, x := range log {
		switch x.K {
		case "add.call":
			added[x.ID] = true
		case "add.ret":
			addRet[x.ID] = true
		case "stop.call":
			stopCalled = true
		case "out.call":
			b := batches[x.Seq]
			if b == nil {
				b = &binfo{all: x.All, okT: -1, giveupT: -1}
				batches[x.Seq] = b
				for _, id := range x.All {
					if prev, dup := batchOf[id]; dup && prev != x.Seq {
						add("event-in-two-batches", fmt.Sprintf("event %d handed to the send function in batches %d and %d", id, prev, x.Seq), x)
					}
					batchOf[id] = x.Seq
				}
				if cs.Count > 0 && len(x.All) > cs.Count {
					add("batch-count-exceeded", fmt.Sprintf("batch seq %d holds %d events > BatchSizeCount %d", x.Seq, len(x.All), cs.Count), x)
				}
			} else {
				if fmt.Sprint(b.all) != fmt.Sprint(x.All) {
					add("retry-with-different-events", fmt.Sprintf("attempt %d of batch %d carries %v, the first attempt carried %v", x.Att, x.Seq, x.All, b.all), x)
				}
				if b.okT >= 0 {
					add("send-after-success", fmt.Sprintf("batch %d was sent again after a successful send", x.Seq), x)
				}
			}
		case "out.ret":
			if b := batches[x.Seq]; b != nil {
				if x.OK {
					b.okT = x.T
				} else {
					b.fails++
				}
			}
		case "giveup":
			if len(x.All) == 0 {
				continue
			}
			seq, ok := batchOf[x.All[0]]
			if !ok {
				add("giveup-of-unsent-events", "the error callback was called with events that were never handed to the send function", x)
				continue
			}
			b := batches[seq]
			if b.giveupT >= 0 {
				add("giveup-twice", fmt.Sprintf("the error callback ran twice for batch %d", seq), x)
			}
			b.giveupT, b.dlq = x.T, x.OK
			if cs.Attempts >= 0 && b.fails < cs.Attempts+1 {
				add("gave-up-too-early", fmt.Sprintf("batch %d was given up after %d failed sends, retry=%d requires %d", seq, b.fails, cs.Attempts, cs.Attempts+1), x)
			}
			if cs.Attempts < 0 {
				add("gave-up-with-negative-retry", fmt.Sprintf("batch %d was given up although retry=%d means retry forever", seq, cs.Attempts), x)
			}
		}
	}
	seen := map[int64]int{}
	lastSeq := int64(-1)
	ncommit := 0
	for _, cm := range log {
		if cm.K != "commit" {
			continue
		}
		ncommit++
		seen[cm.ID]++
		if seen[cm.ID] > 1 {
			add("double-commit", fmt.Sprintf("event %d committed %d times", cm.ID, seen[cm.ID]), cm)
			continue
		}
		if !added[cm.ID] {
			add("commit-of-unknown-event", fmt.Sprintf("commit of id %d that was never added", cm.ID), cm)
			continue
		}
		seq, sent := batchOf[cm.ID]
		if !sent {
			add("commit-without-send", fmt.Sprintf("event %d committed but never contained in a batch handed to the send function", cm.ID), cm)
			continue
		}
		b := batches[seq]
		switch {
		case b.okT >= 0 && b.okT < cm.T:
		case b.giveupT >= 0 && b.giveupT < cm.T && !b.dlq:
		case b.giveupT >= 0 && b.dlq:
			add("dead-queued-event-committed", fmt.Sprintf("event %d of batch %d was routed to the dead queue (retries exhausted) and still committed by this batcher", cm.ID, seq), cm)
		default:
			add("commit-without-successful-send", fmt.Sprintf("event %d of batch %d was committed although no send of that batch had succeeded and it had not been given up (%d failed sends, stop called=%v)", cm.ID, seq, b.fails, stopCalled), cm)
		}
		if seq < lastSeq {
			add("batch-commit-out-of-order", fmt.Sprintf("batch %d committed after batch %d", seq, lastSeq), cm)
		}
		if seq > lastSeq {
			lastSeq = seq
		}
	}
	res.Stats["batches"] = int64(len(batches))
	res.Stats["commits"] = int64(ncommit)
	res.Stats["adds"] = int64(len(added))
	res.Stats["retriable_cases"] = 1
	var failed, gaveUp, dlq int64
	for _, b := range batches {
		if b.fails > 0 {
			failed++
		}
		if b.giveupT >= 0 {
			gaveUp++
			if b.dlq {
				dlq++
			}
		}
	}
	res.Stats["batches_with_failed_send"] = failed
	res.Stats["batches_given_up"] = gaveUp
	res.Stats["batches_to_dead_queue"] = dlq
	if cs.Stop == "" && res.Stuck == "" && res.Inconclusive == "" {
		missing := 0
		for id := range addRet {
			if seen[id] > 0 {
				continue
			}
			if seq, ok := batchOf[id]; ok && batches[seq].giveupT >= 0 && batches[seq].dlq {
				continue
			}
			missing++
		}
		if missing > 0 {
			res.Inconclusive = fmt.Sprintf("%d events neither committed nor routed to the dead queue when the wait ended", missing)
		}
	}
	res.Fingerprint = fmt.Sprintf("retriable w%d c%d a%d retry=%d every=%d failN=%d dlq=%v stop=%s failed=%v gaveup=%v", cs.Workers, cs.Count, cs.Adders, cs.Attempts, cs.FailEvery, cs.FailN, cs.DLQ, cs.Stop, failed > 0, gaveUp > 0)
}

// ---------- child: runs a list of cases sequentially ----------

type childIn struct{ Cases []Case }
type childOut struct{ Results []CaseResult }

func child(raw json.RawMessage, io *core.ChildIO) (any, error) {
	var in childIn
	if err := json.Unmarshal(raw, &in); err != nil {
		return nil, err
	}
	out := childOut{}
	for _, cs := range in.Cases {
		io.Log(cs)
		out.Results = append(out.Results, runCase(cs, io))
	}
	return out, nil
}

// ---------- case generation ----------

func genCases(c *core.Ctx) []Case {
	rng := c.Rand("cases")
	var cases []Case
	n := c.N(140, 2400)
	workers := []int{1, 2, 4, 8}
	counts := []int{0, 1, 2, 7, 64}
	bytesL := []int{0, 10, 1000}
	flush := []int{20, 50, 150, 250}
	for i := 0; i < n; i++ {
		cs := Case{Seed: c.SubSeed("case", i)}
		cs.Workers = workers[rng.Intn(len(workers))]
		cs.Count = counts[rng.Intn(len(counts))]
		cs.Bytes = bytesL[rng.Intn(len(bytesL))]
		if cs.Count == 0 && cs.Bytes == 0 {
			cs.Count = 3
		}
		cs.FlushMs = flush[rng.Intn(len(flush))]
		cs.Adders = 1 + rng.Intn(8)
		cs.PerAdder = 20 + rng.Intn(200)
		if cs.Bytes > 0 {
			cs.MaxSize = cs.Bytes * 2
			if rng.Intn(3) == 0 {
				cs.MaxSize = cs.Bytes/3 + 1
			}
		} else {
			cs.MaxSize = rng.Intn(50)
		}
		if rng.Intn(3) == 0 {
			cs.ParentPct = []int{5, 30, 90}[rng.Intn(3)]
			cs.ChildPct = 10
		}
		// OutFn delays: make early batches slow so that later ones finish first
		switch rng.Intn(4) {
		case 0:
			cs.OutDelays = nil
		case 1:
			cs.OutDelays = []int{3000, 0, 0, 0}
		case 2:
			cs.OutDelays = []int{4000, 2000, 500, 0, 0, 1500}
		case 3:
			for k := 0; k < 7; k++ {
				cs.OutDelays = append(cs.OutDelays, rng.Intn(3000))
			}
		}
		switch k := rng.Intn(10); {
		case k < 2:
			// idle-flush: traffic stops mid-batch
			cs.PauseEvery = 1 + rng.Intn(5)
			cs.PerAdder = 3 + rng.Intn(6)
			cs.Adders = 1 + rng.Intn(2)
			cs.Name = "idle-flush"
		case k < 4:
			cs.Stop = "gate"
			cs.Name = "stop-in-send-window"
		case k < 6:
			cs.Stop = "random"
			cs.StopAfter = 1 + rng.Intn(cs.Adders*cs.PerAdder)
			cs.Name = "stop-random"
		default:
			cs.Name = "stream"
		}
		cases = append(cases, cs)
	}
	cases[0].Name = "sample"
	cases[0].Stop = ""
	// the Batcher under failing sends: wrapped in the real RetriableBatcher
	rr := c.Rand("retriable")
	nr := c.N(36, 480)
	for i := 0; i < nr; i++ {
		cs := Case{Seed: c.SubSeed("rcase", i), Name: "retriable", Retriable: true}
		cs.Workers = []int{1, 2, 4}[rr.Intn(3)]
		cs.Count = []int{1, 2, 5}[rr.Intn(3)]
		cs.FlushMs = []int{20, 50}[rr.Intn(2)]
		cs.Adders = 1 + rr.Intn(3)
		cs.PerAdder = 10 + rr.Intn(30)
		cs.MaxSize = 20
		cs.Attempts = []int{0, 1, 2, 3, -1, -2, -5}[rr.Intn(7)]
		cs.RetentMs = []int{1, 2, 5}[rr.Intn(3)]
		cs.FailEvery = 1 + rr.Intn(3)
		if cs.Attempts >= 0 && rr.Intn(2) == 0 {
			cs.FailN = cs.Attempts + 5 // exhausts the retries
			cs.DLQ = rr.Intn(3) > 0
		} else {
			cs.FailN = 1 + rr.Intn(3) // recovers
			if cs.Attempts >= 0 && cs.FailN > cs.Attempts {
				cs.FailN = cs.Attempts
			}
		}
		if rr.Intn(3) == 0 {
			cs.OutDelays = []int{1500, 0, 300, 0}
		}
		if rr.Intn(3) == 0 {
			// Stop while sends are failing and being retried
			cs.Name = "retriable-stop"
			cs.Stop = "random"
			cs.RetentMs = []int{20, 50}[rr.Intn(2)]
			cs.FailEvery = 1
			if cs.Attempts < 2 && cs.Attempts >= 0 {
				cs.Attempts = 2
			}
			if cs.FailN < 2 {
				cs.FailN = 2
			}
			if cs.Attempts >= 0 && cs.FailN > cs.Attempts+1 {
				cs.FailN = cs.Attempts + 5
			}
			cs.Adders = 1 + rr.Intn(2)
			cs.PerAdder = 8 + rr.Intn(16)
			cs.StopAfter = 1 + rr.Intn(cs.Adders*cs.PerAdder)
		}
		cases = append(cases, cs)
	}
	return cases
}

func main() {
	core.RegisterChild("batcher", child)
	core.Main("C08", "exploration", run)
}

func run(c *core.Ctx) {
	c.SetRule("seeded cases (workers × count/byte limits × flush timeout × adders × event sizes × child/parent mixes × OutFn delay plans × idle pauses × Stop placement by gate in the unlock→send window or at a drawn Add) run against the real pipeline.Batcher in child processes; distinct = configuration class × completion-order inversion class × which limits closed batches; non-trivial = at least one batch formed and committed")
	c.Assume("hook points batcher.tick / batcher.afterUnlock (build tag verif) only count and optionally block; staleness is decided in heartbeat ticks, not wall time")
	cases := genCases(c)
	per := 6
	var groups [][]Case
	for i := 0; i < len(cases); i += per {
		j := i + per
		if j > len(cases) {
			j = len(cases)
		}
		groups = append(groups, cases[i:j])
	}
	var mu sync.Mutex
	handle := func(r CaseResult, confirm bool) {
		c.Eval(1)
		for k, v := range r.Stats {
			if strings.HasPrefix(k, "worst_") {
				mu.Lock()
				if v > c.Counter(k) {
					c.Count(k, v-c.Counter(k))
				}
				mu.Unlock()
				continue
			}
			c.Count(k, v)
		}
		if r.Inconclusive != "" {
			c.Inconclusive(r.Inconclusive)
		}
		for _, v := range r.Viol {
			c.Violation("batcher:"+v.Sig, v.What, map[string]any{"case": r.Case, "witness": v.Witness, "log": r.LogSample})
		}
		if r.WallStale != "" && !confirm {
			// wall-clock observation: only a verdict if it reproduces alone, 3 of 3
			rep := 0
			for k := 0; k < 3; k++ {
				r2 := core.RunChild("batcher", childIn{[]Case{r.Case}}, core.ChildOpt{Timeout: 3 * time.Minute, GOMAXPROCS: 4})
				var o2 childOut
				if r2.Completed && json.Unmarshal(r2.Out, &o2) == nil && len(o2.Results) == 1 && o2.Results[0].WallStale != "" {
					rep++
				}
			}
			if rep == 3 {
				c.Violation("batcher:stale-batch-wall", r.WallStale+" (reproduced 3/3 alone)", map[string]any{"case": r.Case})
			} else {
				c.Inconclusive("wall-clock staleness not reproduced alone")
			}
		}
		if r.Stuck != "" && !confirm {
			// wall-clock observation: only a verdict if it reproduces alone, 2 of 2
			rep := 0
			for k := 0; k < 2; k++ {
				r2 := core.RunChild("batcher", childIn{[]Case{r.Case}}, core.ChildOpt{Timeout: 3 * time.Minute, GOMAXPROCS: 4})
				var o2 childOut
				if r2.Completed && json.Unmarshal(r2.Out, &o2) == nil && len(o2.Results) == 1 && o2.Results[0].Stuck != "" {
					rep++
				}
			}
			if rep == 2 {
				c.Violation("batcher:stuck-after-failed-sends", r.Stuck+" (reproduced 2/2 alone)", map[string]any{"case": r.Case, "log": r.LogSample})
			} else {
				c.Inconclusive("a stuck retriable case did not reproduce alone")
			}
		}
		if r.Stats["commits"] > 0 {
			c.Nontrivial(r.Fingerprint)
		}
		if r.Case.Name == "sample" {
			c.Sample(map[string]any{"case": r.Case, "stats": r.Stats, "log_head": head(r.LogSample, 40)})
		}
	}
	core.ParallelFor(len(groups), 10, func(gi int) {
		g := groups[gi]
		procs := []int{1, 2, 4, 8}[gi%4]
		res := core.RunChild("batcher", childIn{g}, core.ChildOpt{Timeout: 6 * time.Minute, GOMAXPROCS: procs})
		if res.Completed {
			var out childOut
			if err := json.Unmarshal(res.Out, &out); err != nil {
				c.Fatal("bad child output: %v", err)
				return
			}
			for _, r := range out.Results {
				handle(r, false)
			}
			reportRaces(c, res)
			return
		}
		if res.TimedOut {
			c.Inconclusive("child watchdog")
			return
		}
		// crash: attribute to the last logged case and confirm alone
		var last Case
		if l := res.LastLog(); l != nil {
			_ = json.Unmarshal(l, &last)
		}
		msg, site := core.PanicSite(res.Stderr)
		confirmed := 0
		for k := 0; k < 3; k++ {
			r2 := core.RunChild("batcher", childIn{[]Case{last}}, core.ChildOpt{Timeout: 3 * time.Minute, GOMAXPROCS: procs})
			if r2.Crashed() {
				confirmed++
			}
		}
		c.Eval(1)
		c.Count("child_crashes", 1)
		if confirmed > 0 || last.Stop != "" {
			c.Violation("batcher:crash:"+core.NormalizeMsg(msg)+"@"+site+":stop="+last.Stop,
				fmt.Sprintf("process died while driving the Batcher (%s at %s); reproduced %d/3 alone", msg, site, confirmed),
				map[string]any{"case": last, "stderr": core.Trunc(res.Stderr, 3000)})
		} else {
			c.Inconclusive("unconfirmed child crash: " + core.NormalizeMsg(msg))
		}
	})
	if c.Counter("gate_arrived") == 0 {
		c.Fatal("the unlock→send window was never reached by a gated sender")
	}
	if c.Counter("completion_inversions") == 0 {
		c.Fatal("no run had a later batch finishing before an earlier one")
	}
	if c.Counter("batches_given_up") == 0 || c.Counter("batches_to_dead_queue") == 0 || c.Counter("batches_with_failed_send") == 0 {
		c.Fatal("the retriable cases never saw a failed send, a give-up or a dead-queue hand-over")
	}
	if c.Counter("closed_by_timeout") == 0 || c.Counter("closed_by_size") == 0 {
		c.Fatal("flush-by-timeout or flush-by-size never observed")
	}
}

func reportRaces(c *core.Ctx, res *core.ChildResult) {
	for _, rr := range res.RaceReports {
		key := core.RaceKey(rr)
		c.Count("race_reports", 1)
		if strings.Contains(rr, "pipeline.(*Batch") || strings.Contains(rr, "pipeline.(*Batcher)") {
			c.Violation("batcher:race:"+key, "data race inside the Batcher", core.Trunc(rr, 4000))
		}
	}
}

func head(l []rec, n int) []rec {
	if len(l) > n {
		return l[:n]
	}
	return l
}
