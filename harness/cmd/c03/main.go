// C03 - file input loses no line across kill and restart (and keeps running
// across a truncation). Engine: the real cmd/file.d binary (built by run.sh
// with -tags verif into /verif/bin/file.d-verif) run as a separate process on
// a generated configuration; the harness writes lines with unique ids into
// watched files, kills the process (crash points through VERIF_HOOKS,
// SIGKILL from outside after a drawn delay, or SIGKILL triggered by a state
// of the offsets file on disk), restarts it on the same offsets file, waits
// for the process' own logical idle condition and compares sets of ids.
package main

import (
	"fmt"
	"os"
	"path/filepath"
	"sort"
	"strings"
	"sync"
	"time"

	"verifharness/core"
)

// buildScenarios returns one constructor per scenario (a scenario is
// regenerated from its seed when it has to be repeated).
func buildScenarios(c *core.Ctx) []func() *Scenario {
	var out []func() *Scenario
	th := c.Thorough()
	idx := 0
	add := func(mk func(i int, sd int64) *Scenario) {
		i := idx
		idx++
		sd := c.SubSeed("scenario", i)
		out = append(out, func() *Scenario { return mk(i, sd) })
	}
	rep := c.N(5, 60)
	// directed: first line of a stream held in flight at the kill
	for k := 0; k < c.N(3, 20); k++ {
		for v := 0; v < 4; v++ {
			v := v
			add(func(i int, sd int64) *Scenario { return genHeld(i, sd, []string{"async", "sync"}[v/2], v, th) })
		}
	}
	// every crash point in both persistence modes
	for k := 0; k < rep; k++ {
		for _, pt := range hookPoints {
			for _, pm := range []string{"async", "sync"} {
				pt, pm := pt, pm
				add(func(i int, sd int64) *Scenario { return genKill(i, sd, pt, pm, th) })
			}
		}
	}
	// SIGKILL from outside after a drawn delay
	for k := 0; k < c.N(48, 500); k++ {
		add(func(i int, sd int64) *Scenario { return genKill(i, sd, "", "", th) })
	}
	// directed: busy writer + write notifications, kill when the offsets file holds a non-line-end offset
	for k := 0; k < c.N(3, 45); k++ {
		pm := []string{"sync", "async", "sync"}[k%3]
		add(func(i int, sd int64) *Scenario { return genBusy(i, sd, pm, th) })
	}
	// directed: write notification handled late (stale size), reader in the middle of a round
	for k := 0; k < c.N(4, 30); k++ {
		add(func(i int, sd int64) *Scenario { return genStale(i, sd, th) })
	}
	// directed: file rotated between the watcher's stat and the open of its job
	for k := 0; k < c.N(4, 30); k++ {
		add(func(i int, sd int64) *Scenario { return genRotRace(i, sd, th) })
	}
	// directed: unterminated line held across a maintenance reopen, completed later
	for k := 0; k < c.N(6, 48); k++ {
		k := k
		add(func(i int, sd int64) *Scenario { return genHeldTail(i, sd, k, th) })
	}
	// directed: truncation while file.d is down, restart on the persisted offsets
	for k := 0; k < c.N(6, 48); k++ {
		k := k
		add(func(i int, sd int64) *Scenario { return genDownTrunc(i, sd, k, th) })
	}
	// directed: a new file obtains the inode number of a file that went away (while down / while running)
	if inodesRecycled {
		for k := 0; k < c.N(8, 64); k++ {
			k := k
			add(func(i int, sd int64) *Scenario { return genInodeReuse(i, sd, k, th) })
		}
	}
	// truncation clause
	tails := []string{"complete", "fragment", "blank"}
	if th {
		tails = append(tails, "garbage")
	}
	for k := 0; k < c.N(3, 24); k++ {
		for _, watch := range []bool{false, true} {
			for _, mode := range []string{"idle", "inflight1"} {
				for _, tail := range tails {
					watch, mode, tail := watch, mode, tail
					add(func(i int, sd int64) *Scenario { return genTrunc(i, sd, watch, mode, tail, th) })
				}
			}
			watch := watch
			add(func(i int, sd int64) *Scenario { return genTrunc(i, sd, watch, "inflight2", "complete", th) })
		}
	}
	return out
}

func main() {
	core.Main("C03", "fault_enumeration", run)
}

// inodesRecycled: the scratch file system hands a freed inode number to the next file created in the
// same directory (ext4, xfs; tmpfs does not). Decided by probeInodeRecycling before the scenarios are built.
var inodesRecycled bool

// probeInodeRecycling creates a file in a private directory, removes it and creates files until one
// has the same inode number (at most 16 per round, 6 rounds).
func probeInodeRecycling() bool {
	dir, err := os.MkdirTemp(core.ScratchBase(), "verif-c03-inoprobe-")
	if err != nil {
		return false
	}
	defer os.RemoveAll(dir)
	for round := 0; round < 6; round++ {
		first := filepath.Join(dir, fmt.Sprintf("p%d", round))
		if os.WriteFile(first, []byte("x\n"), 0o644) != nil {
			return false
		}
		ino := inodeOf(first)
		os.Remove(first)
		for n := 0; n < 16; n++ {
			f := filepath.Join(dir, fmt.Sprintf("p%d-%d", round, n))
			if os.WriteFile(f, nil, 0o644) != nil {
				return false
			}
			if inodeOf(f) == ino {
				return true
			}
		}
	}
	return false
}

// sigSeen counts every refuting observation by signature (core prints only
// the first 25 and suppresses repeated signatures).
var (
	sigMu   sync.Mutex
	sigSeen = map[string][]int{}
)

var (
	auxSeen    = map[string][]int{}
	auxExample = map[string]string{}
)

func auxNote(sig string, idx int, example string) {
	sigMu.Lock()
	auxSeen[sig] = append(auxSeen[sig], idx)
	if _, ok := auxExample[sig]; !ok {
		auxExample[sig] = fmt.Sprintf("scenario %d: %s", idx, core.Trunc(example, 400))
	}
	sigMu.Unlock()
}

func violation(c *core.Ctx, s *Scenario, sig, what string, w any) {
	sigMu.Lock()
	sigSeen[sig] = append(sigSeen[sig], s.Idx)
	sigMu.Unlock()
	c.Violation(sig, what, w)
}

func run(c *core.Ctx) {
	c.SetRule("scenario = history (1-3 watched files x 1-3 stream values, bursts of appends before start / while running / while down / after restart, " +
		"partial lines completed later, rename rotation while running and while down, hostile line content) x configuration (persistence async|sync, " +
		"workers, read buffer 64B-4KiB, capacity, GOMAXPROCS, output batch size/workers/flush, chain none|discard|join) x kill plan (crash:<nth> at each of " +
		strings.Join(hookPoints, ", ") + "; SIGKILL after a drawn delay; SIGKILL when the offsets file on disk shows a chosen state); truncation scenarios " +
		"(watch on/off x truncation when idle / with events in flight x shape of the file's end) run without a kill; inode-reuse scenarios: a fully read file " +
		"whose inode is a key of the persisted offsets goes away (unlinked / next generation renamed over it; while down / while run 2 is running) and a new, longer " +
		"watched file with the same inode number appears after the start phase of run 2. " +
		"A scenario is non-trivial if the restart had something to deliver (lines undelivered at the kill or written while down) or, for truncation, if " +
		"post-truncation content was written; the fingerprint is kind/persistence/chain/kill point/how the run ended/outcome classes/features.")
	c.Assume("a line counts as delivered when its id appears in a complete line of the file output's target file (written with O_APPEND, no user-space buffering)")
	c.Assume("process kill (SIGKILL) stands for a crash; power loss (unsynced page cache) is not simulated")
	c.Assume("idle = 3 consecutive input-plugin maintenance ticks with all jobs done and nothing resumed and 3 consecutive pipeline ticks with 0 events in use and an unchanged input counter, all after the harness' last write (from file.d's own log)")

	bin := filepath.Join(core.Root(), "bin", "file.d-verif")
	if b := os.Getenv("VERIF_FILED_BIN"); b != "" {
		bin = b // run.sh builds a private binary per invocation
	}
	if _, err := os.Stat(bin); err != nil {
		c.Fatal("file.d binary %s missing (run through run.sh): %v", bin, err)
		return
	}
	// run a private copy: /verif/bin is shared, and another `run.sh C03` (e.g. with a VERIF_OVERLAY
	// mutant) started while this run is going on would replace the binary under its scenarios
	if priv, cleanup, err := privateCopy(bin); err == nil {
		bin = priv
		defer cleanup()
	} else {
		c.Assume("could not make a private copy of the binary (" + err.Error() + "); a concurrent rebuild may disturb this run")
	}
	inodesRecycled = probeInodeRecycling()
	if !inodesRecycled {
		c.Assume("the scratch file system does not hand freed inode numbers to new files: the inode-reuse histories cannot be staged here and are skipped")
		c.Count("inodereuse.skipped_scratch_file_system_does_not_recycle_inode_numbers", 1)
		fmt.Println("  note: scratch file system does not recycle inode numbers; family inodereuse skipped")
	}
	scs := buildScenarios(c)
	if only := os.Getenv("C03_ONLY"); only != "" { // debugging aid: run a single scenario index
		var f []func() *Scenario
		for i, mk := range scs {
			if fmt.Sprint(i) == only {
				f = append(f, mk)
			}
		}
		scs = f
	}
	if kind := os.Getenv("C03_KIND"); kind != "" { // debugging aid: run the scenarios of one kind
		var f []func() *Scenario
		for _, mk := range scs {
			if mk().Kind == kind {
				f = append(f, mk)
			}
		}
		scs = f
	}
	workers := 12
	var mu sync.Mutex
	results := make([]*result, len(scs))
	core.ParallelFor(len(scs), workers, func(i int) {
		var res *result
		for attempt := 0; attempt < 3; attempt++ {
			res = runScenario(scs[i](), bin)
			if res.NotStaged && attempt < 2 {
				// another process of the machine took the freed inode number first: nothing observed, play the history again
				mu.Lock()
				c.Count("inodereuse.history_repeated_because_the_inode_number_went_elsewhere", 1)
				mu.Unlock()
				continue
			}
			if res.EnvProblem == "" {
				break
			}
			// the machine (inotify instance limit shared with every other process of this
			// user) kept file.d from watching anything: nothing was observed, try again later
			mu.Lock()
			c.Count("environment.retries_after_inotify_limit", 1)
			mu.Unlock()
			time.Sleep(time.Duration(2+attempt*3) * time.Second)
		}
		mu.Lock()
		results[i] = res
		mu.Unlock()
	})
	for _, res := range results {
		judge(c, res)
	}

	if len(sigSeen) > 0 {
		sigs := make([]string, 0, len(sigSeen))
		for k := range sigSeen {
			sigs = append(sigs, k)
		}
		sort.Strings(sigs)
		fmt.Println("refuting observations by signature (listed known findings included):")
		ss := map[string]any{}
		for _, k := range sigs {
			fmt.Printf("  %3d x %s   scenarios %v\n", len(sigSeen[k]), k, head(sigSeen[k], 12))
			ss[k] = len(sigSeen[k])
		}
		c.Extra("observations_by_signature", ss)
	}

	if len(auxSeen) > 0 {
		keys := make([]string, 0, len(auxSeen))
		for k := range auxSeen {
			keys = append(keys, k)
		}
		sort.Strings(keys)
		fmt.Println("auxiliary observations (not verdicts):")
		ax := map[string]any{}
		for _, k := range keys {
			fmt.Printf("  %3d x %s   scenarios %v   e.g. %s\n", len(auxSeen[k]), k, head(auxSeen[k], 12), auxExample[k])
			ax[k] = map[string]any{"count": len(auxSeen[k]), "example": auxExample[k]}
		}
		c.Extra("auxiliary_observations", ax)
	}

	// a run that did not observe the behaviours it is about decides nothing
	if c.Counter("kill.hook_reached") == 0 {
		c.Fatal("no crash point was ever reached")
	}
	if c.Counter("kill.scenarios_with_pending_lines_at_kill") == 0 || c.Counter("lines.recovered_in_run2") == 0 {
		c.Fatal("no scenario in which the restart had to deliver lines that were undelivered at the kill")
	}
	if c.Counter("lines.redelivered_duplicates") == 0 {
		c.Fatal("no line was ever delivered twice: kills never fell between output and offset save")
	}
	if os.Getenv("C03_ONLY") == "" && os.Getenv("C03_KIND") == "" {
		if c.Counter("heldtail.scenarios_with_reopen_while_partial_held") == 0 {
			c.Fatal("no scenario in which maintenance reopened a file while a line was held unterminated")
		}
		if c.Counter("downtrunc.truncation_reported_by_run2") == 0 || c.Counter("downtrunc.file_had_saved_offsets_beyond_new_size") == 0 {
			c.Fatal("no restart met a file truncated while down below its saved offsets")
		}
	}
	if inodesRecycled && os.Getenv("C03_ONLY") == "" && (os.Getenv("C03_KIND") == "" || os.Getenv("C03_KIND") == "inodereuse") {
		if c.Counter("inodereuse.new_file_got_an_inode_number_that_has_an_entry_in_the_loaded_offsets") == 0 {
			c.Fatal("no scenario in which a new file obtained the inode number of a file that had gone away and is a key of the offsets file run 2 loaded")
		}
	}
	if c.Counter("trunc.decided") == 0 && os.Getenv("C03_ONLY") == "" {
		c.Fatal("no truncation scenario was decided")
	}
	if c.Counter("trunc.detected_by_filed") == 0 && os.Getenv("C03_ONLY") == "" {
		c.Fatal("file.d never reported a truncation")
	}
}

func physSummary(res *result) []string {
	var out []string
	for _, ph := range res.Phys {
		out = append(out, fmt.Sprintf("%s inode=%d size=%d rotated=%s", filepath.Base(ph.Path), ph.Inode, ph.Size, orNo(ph.Rotated)))
	}
	return out
}

func lastLines(s string, n int) string {
	ls := strings.Split(strings.TrimSpace(s), "\n")
	if len(ls) > n {
		ls = ls[len(ls)-n:]
	}
	return strings.Join(ls, " | ")
}

func privateCopy(bin string) (string, func(), error) {
	dir, err := os.MkdirTemp(core.ScratchBase(), "verif-c03-bin-")
	if err != nil {
		return "", nil, err
	}
	b, err := os.ReadFile(bin)
	if err != nil {
		os.RemoveAll(dir)
		return "", nil, err
	}
	dst := filepath.Join(dir, "file.d-verif")
	if err := os.WriteFile(dst, b, 0o755); err != nil {
		os.RemoveAll(dir)
		return "", nil, err
	}
	return dst, func() { os.RemoveAll(dir) }, nil
}

func head(x []int, n int) []int {
	if len(x) > n {
		return x[:n]
	}
	return x
}

func summary(res *result) map[string]any {
	s := res.S
	return map[string]any{
		"idx": s.Idx, "kind": s.Kind, "cfg": s.Cfg, "kill": s.Kill, "features": s.Features,
		"files": s.NFiles, "streams": s.Streams, "lines": len(s.Lines), "killed_by": res.KilledBy,
		"trunc_mode": s.TruncMode, "trunc_tail": s.TruncTail, "wall_ms": res.WallMs,
	}
}

func lineCounts(res *result) (expected, pendingAtKill, recovered, dups, downLines, lost int) {
	for i := range res.S.Lines {
		l := &res.S.Lines[i]
		if !l.Written || !l.Expect {
			continue
		}
		expected++
		_, in1 := res.D1[l.ID]
		n := res.D[l.ID]
		before := l.Phase == "pre" || (l.Phase == "run1" && l.Alive)
		if before && !in1 {
			pendingAtKill++
		}
		if !before && (l.Phase == "down" || (l.Phase == "run1" && !l.Alive)) {
			downLines++
		}
		if before && !in1 && n > 0 {
			recovered++
		}
		if n >= 2 {
			dups++
		}
		if n == 0 {
			lost++
		}
	}
	return
}

func judge(c *core.Ctx, res *result) {
	s := res.S
	c.Count("scenarios."+s.Kind, 1)
	if res.HarnessErr != "" {
		c.Inconclusive("harness error")
		c.Count("harness_errors", 1)
		fmt.Printf("  harness error in scenario %d: %s\n", s.Idx, res.HarnessErr)
		return
	}
	if res.EnvProblem != "" {
		c.Inconclusive("environment: " + res.EnvProblem + " (inotify instance limit)")
		fmt.Printf("  inconclusive scenario %d (%s): environment: %s\n", s.Idx, s.Kind, res.EnvProblem)
		return
	}
	if res.Inconclusive != "" {
		c.Inconclusive(res.Inconclusive)
		fmt.Printf("  inconclusive scenario %d (%s): %s; last log: %s\n", s.Idx, s.Kind, res.Inconclusive, core.Trunc(lastLines(res.Run2LogTail, 2), 500))
		return
	}
	c.Eval(1)
	expected, pending, recovered, dups, downLines, lost := lineCounts(res)
	c.Count("lines.expected", int64(expected))
	c.Count("lines.lost", int64(lost))

	if s.Kind == "trunc" {
		judgeTrunc(c, res, expected, lost)
		return
	}
	if n := anyNonLineEnd(res); n != "" {
		c.Count("aux.offsets_file_at_kill_holds_non_line_end_offset", 1)
	}

	c.Count("kill.by."+res.KilledBy, 1)
	if os.Getenv("C03_DEBUG") != "" && s.Kind != "kill" {
		fmt.Printf("  debug %s %d: killed_by=%s run1_trunc=%d readded=%d lost=%d notes=%v wall=%dms cfg=%+v phys=%v\n    offsets at kill: %q\n",
			s.Kind, s.Idx, res.KilledBy, res.Run1Trunc, res.Run1Readded, lost, res.Notes, res.WallMs, s.Cfg, physSummary(res), sanitize(res.OffsetsAtKil, res.Dir))
	}
	if strings.HasPrefix(res.KilledBy, "hook:") {
		c.Count("kill.hook_reached", 1)
		c.Count("kill.hook_reached."+s.Kill.Point+"."+s.Cfg.Persistence, 1)
	}
	c.Count("persistence."+s.Cfg.Persistence, 1)
	c.Count("chain."+s.Cfg.Chain, 1)
	c.Count("lines.delivered_in_run1", int64(len(res.D1)))
	c.Count("lines.pending_at_kill", int64(pending))
	c.Count("lines.recovered_in_run2", int64(recovered))
	c.Count("lines.redelivered_duplicates", int64(dups))
	c.Count("lines.written_while_down", int64(downLines))
	if pending > 0 {
		c.Count("kill.scenarios_with_pending_lines_at_kill", 1)
	}
	if res.OffsetsAtKil == "" {
		c.Count("kill.no_offsets_file_at_kill", 1)
	}
	if s.Kind == "heldtail" {
		c.Count("heldtail.maintenance_ticks_that_reopened_a_file_while_a_line_was_unterminated", int64(res.ReopensHeld))
		if res.ReopensHeld > 0 {
			c.Count("heldtail.scenarios_with_reopen_while_partial_held", 1)
		}
	}
	if s.Kind == "downtrunc" {
		c.Count("downtrunc.decided", 1)
		if res.TruncSeen > 0 {
			c.Count("downtrunc.truncation_reported_by_run2", 1)
		}
		if res.MinSavedDown >= 0 {
			c.Count("downtrunc.file_had_saved_offsets_beyond_new_size", 1)
		}
	}
	if s.Kind == "inodereuse" && res.Reuse != nil {
		ru := res.Reuse
		c.Count("inodereuse.decided", 1)
		c.Count("inodereuse.old_file_went_away_while_"+ru.Where, 1)
		c.Count("inodereuse.inode_freed_by_"+ru.FreedBy, 1)
		c.Count("inodereuse.run1_ended_by_"+s.ReuseEnd, 1)
		c.Count("inodereuse.files_created_until_the_number_came_back", int64(ru.Creates))
		if ru.StaleMin > 0 {
			c.Count("inodereuse.new_file_got_an_inode_number_that_has_an_entry_in_the_loaded_offsets", 1)
		}
		if ru.NewFile != ru.OldFile {
			c.Count("inodereuse.new_file_has_another_name_than_the_old_one", 1)
		}
	}
	if res.TmpFiles > 0 {
		c.Count("kill.left_temporary_offsets_file", 1)
	}
	for _, f := range s.Features {
		c.Count("feature."+f, 1)
	}
	for _, ph := range res.Phys {
		if ph.Rotated != "" {
			c.Count("rotations."+ph.Rotated, 1)
		}
	}
	if res.WrongFormat > 0 {
		c.Count("run2.undecodable_lines_logged", int64(res.WrongFormat))
	}

	if pending > 0 || downLines > 0 || (s.Kind == "inodereuse" && res.Reuse != nil && res.Reuse.StaleMin > 0) {
		feat := append([]string{}, s.Features...)
		sort.Strings(feat)
		pt := s.Kill.Mode
		if s.Kill.Mode == "hook" {
			pt = s.Kill.Point
		}
		c.Nontrivial(fmt.Sprintf("%s|%s|%s|%s|by=%s|pend=%t|recov=%t|dup=%t|down=%t|lost=%t|f=%d|s=%d|%s",
			s.Kind, s.Cfg.Persistence, s.Cfg.Chain, pt, res.KilledBy, pending > 0, recovered > 0, dups > 0, downLines > 0, lost > 0,
			s.NFiles, len(s.Streams), strings.Join(feat, ",")))
	}
	sm := summary(res)
	sm["expected"], sm["pending_at_kill"], sm["recovered_in_run2"], sm["duplicates"], sm["written_while_down"], sm["lost"] = expected, pending, recovered, dups, downLines, lost
	if res.Reuse != nil {
		sm["inode_reuse"] = res.Reuse
	}
	c.Sample(sm)

	// --- oracle -------------------------------------------------------------
	if res.Run1Trunc > 0 {
		// kill scenarios never truncate a file: file.d re-reads from 0 (duplicates, allowed by the property)
		c.Count("aux.run1_reported_a_truncation_that_never_happened", 1)
		c.Count(fmt.Sprintf("aux.run1_reported_a_truncation_that_never_happened.watch=%t", s.Cfg.WatchChanges), 1)
	}
	if res.KilledBy == "term-then-kill" {
		c.Count("aux.sigterm_saved_offsets_but_process_did_not_exit", 1)
	}
	if res.Run1Readded > 0 {
		c.Count("aux.run1_job_deleted_by_maintenance_then_added_again", 1)
	}
	if res.Run1Died != "" {
		// Not a refutation of C03 by itself (a crash is one more kill instant and the restart is judged
		// like after any kill), but never expected: reported as an auxiliary observation.
		cls := fatalClass(res.Run1Fatals, res.Run1LogTail)
		aux := fmt.Sprintf("run1-died-by-itself:%s:truncation-reported-though-none-happened=%t:job-readded-after-deletion=%t:watch-file-changes=%t",
			cls, res.Run1Trunc > 0, res.Run1Readded > 0, s.Cfg.WatchChanges)
		c.Count("aux.run1_died_by_itself", 1)
		ex := ""
		if len(res.Run1Fatals) > 0 {
			ex = sanitize(res.Run1Fatals[0], res.Dir)
		}
		auxNote(aux, s.Idx, ex)
	}
	if res.Stuck != "" && s.Kind == "downtrunc" {
		violation(c, s, "C03:truncation-while-down:new-content-not-delivered:alive-but-never-idle",
			"content written after a truncation performed while file.d was down was not delivered and run 2 never became idle ("+res.Stuck+")",
			witness(res, nil, map[string]any{"run2_log_tail": res.Run2LogTail}))
		return
	}
	if res.Run2Died != "" && s.Kind == "downtrunc" {
		cls := fatalClass(res.Run2Fatals, res.Run2LogTail)
		violation(c, s, "C03:truncation-while-down:run2-died:"+cls,
			"file.d restarted on its persisted offsets after the file had been truncated while it was down, and died: "+res.Run2Died,
			witness(res, nil, map[string]any{"fatals": res.Run2Fatals, "log_tail": res.Run2LogTail}))
		return
	}
	if res.Run2Died != "" {
		cls := fatalClass(res.Run2Fatals, res.Run2LogTail)
		violation(c, s, "C03:run2-died:"+cls,
			"file.d restarted on the offsets file it last persisted and died: "+res.Run2Died,
			witness(res, nil, map[string]any{"fatals": res.Run2Fatals, "log_tail": res.Run2LogTail}))
		return
	}
	if lost == 0 {
		return
	}
	// classify every lost line against the offsets file the restart saw
	ents := parseOffsets(res.OffsetsAtKil)
	byInode := map[uint64]*offEntry{}
	for i := range ents {
		byInode[ents[i].Inode] = &ents[i]
	}
	groups := map[string][]map[string]any{}
	reuseSig := ""
	for i := range s.Lines {
		l := &s.Lines[i]
		if !l.Written || !l.Expect || res.D[l.ID] > 0 {
			continue
		}
		ph := res.Phys[l.Phys]
		if ph.Reused && res.Reuse != nil {
			// a line of the new file that took over the inode number of the file that went away: one
			// observation per scenario, classified by the first lost line of that file
			ru := res.Reuse
			own, has := ru.StaleStreams[streamKey(l.Stream)]
			pos := "beyond-the-offsets-of-the-old-file"
			switch {
			case ru.StaleMin < 0:
				pos = "no-entry-for-the-inode-in-the-loaded-offsets"
			case l.End <= ru.StaleMin:
				pos = "before-the-min-saved-offset-of-the-old-file"
			case has && l.End <= own:
				pos = "at-or-before-the-offset-saved-for-its-stream-in-the-old-file"
			}
			if reuseSig == "" {
				reuseSig = fmt.Sprintf("C03:restart-loses-line:new-file-on-the-recycled-inode-of-a-file-that-went-away:old-file-went-away-while=%s:inode-freed-by=%s:first-lost-line=%s",
					ru.Where, ru.FreedBy, pos)
			}
			groups[reuseSig] = append(groups[reuseSig], map[string]any{"id": l.ID, "stream": streamKey(l.Stream), "kind": l.Kind, "file": filepath.Base(ph.Path),
				"start": l.Start, "end": l.End, "written_in": l.Phase, "position": pos, "logged_as_undecodable_in_run2": res.BadIDs[l.ID]})
			continue
		}
		if s.Kind == "downtrunc" {
			e := byInode[ph.Inode]
			stale := false
			var own int64 = -1
			if e != nil {
				if v, ok := e.Streams[streamKey(l.Stream)]; ok {
					own = v
					stale = l.End <= v
				}
			}
			sig := fmt.Sprintf("C03:truncation-while-down:line-written-after-the-truncation-lost:at-or-below-stale-saved-offset-of-its-stream=%t:truncation-reported-by-run2=%t:logged-undecodable=%t",
				stale, res.TruncSeen > 0, res.BadIDs[l.ID])
			groups[sig] = append(groups[sig], map[string]any{"id": l.ID, "stream": streamKey(l.Stream), "start": l.Start, "end": l.End,
				"written_in": l.Phase, "stale_saved_offset_of_its_stream": own, "min_saved_offset_of_file": res.MinSavedDown})
			continue
		}
		sig, detail := classifyLost(l, ph, byInode[ph.Inode])
		detail["truncations_reported_by_run1_though_none_happened"] = res.Run1Trunc
		if e := byInode[ph.Inode]; e != nil {
			if bad := nonLineEnd(s, l.Phys, e); bad != "" {
				detail["non_line_end_offset_in_offsets_file"] = bad
				if other := offsetsOfSuccessor(res, l.Phys, e); other != "" {
					detail["offsets_are_line_ends_of"] = other
					groups["C03:restart-loses-line:offsets-of-the-new-file-saved-under-the-inode-of-the-file-renamed-away"] =
						append(groups["C03:restart-loses-line:offsets-of-the-new-file-saved-under-the-inode-of-the-file-renamed-away"], detailWithID(detail, l, ph, res))
					continue
				}
				sig = fmt.Sprintf("C03:restart-loses-line:offsets-file-holds-an-offset-that-is-no-line-end-of-the-file:watch-file-changes=%t:truncation-reported-though-none-happened=%t",
					s.Cfg.WatchChanges, res.Run1Trunc > 0)
			}
		}
		detail["id"] = l.ID
		detail["stream"] = streamKey(l.Stream)
		detail["kind"] = l.Kind
		detail["file"] = filepath.Base(ph.Path)
		detail["start"], detail["end"] = l.Start, l.End
		detail["delivered_in_run1"] = res.D1[l.ID] > 0
		detail["logged_as_undecodable_in_run2"] = res.BadIDs[l.ID]
		groups[sig] = append(groups[sig], detail)
	}
	sigs := make([]string, 0, len(groups))
	for k := range groups {
		sigs = append(sigs, k)
	}
	sort.Strings(sigs)
	for _, sig := range sigs {
		ex := groups[sig]
		n := len(ex)
		if len(ex) > 6 {
			ex = ex[:6]
		}
		violation(c, s, sig,
			fmt.Sprintf("%d complete line(s) written to a watched file appear in the output of neither run after run 2 went idle (scenario %d, %s, killed by %s)", n, s.Idx, s.Cfg.Persistence, res.KilledBy),
			witness(res, ex, map[string]any{"run2_log_tail": res.Run2LogTail, "inode_reuse": res.Reuse}))
	}
}

// classifyLost gives the structural class of a lost line.
func classifyLost(l *Line, ph *physFile, e *offEntry) (string, map[string]any) {
	d := map[string]any{"written_in": phaseOf(l), "rotated": ph.Rotated, "partial": l.Partial}
	if e == nil || len(e.Streams) == 0 {
		d["file_entry"] = "absent"
		return fmt.Sprintf("C03:restart-loses-line:file-without-entry-in-offsets-file:written=%s:rotated=%s:partial=%t", phaseOf(l), orNo(ph.Rotated), l.Partial), d
	}
	min := int64(-1)
	for _, v := range e.Streams {
		if min < 0 || v < min {
			min = v
		}
	}
	d["saved_streams"] = e.Streams
	d["min_saved"] = min
	own, has := e.Streams[streamKey(l.Stream)]
	switch {
	case !has && l.End <= min:
		return "C03:restart-loses-line:stream-without-saved-offset:line-at-or-before-min-saved-offset-of-its-file", d
	case !has:
		return fmt.Sprintf("C03:restart-loses-line:stream-without-saved-offset:line-beyond-min-saved-offset:written=%s:rotated=%s:partial=%t", phaseOf(l), orNo(ph.Rotated), l.Partial), d
	case l.End <= own:
		d["own_saved"] = own
		return fmt.Sprintf("C03:restart-loses-line:own-stream-saved-offset-at-or-beyond-line:written=%s:rotated=%s:partial=%t", phaseOf(l), orNo(ph.Rotated), l.Partial), d
	default:
		d["own_saved"] = own
		return fmt.Sprintf("C03:restart-loses-line:line-beyond-own-saved-offset-not-reread:written=%s:rotated=%s:partial=%t", phaseOf(l), orNo(ph.Rotated), l.Partial), d
	}
}

// nonLineEnd names a saved offset of the entry that is neither 0 nor the end
// of a line written to that physical file.
func nonLineEnd(s *Scenario, phys int, e *offEntry) string {
	ends := map[int64]bool{0: true}
	for i := range s.Lines {
		if s.Lines[i].Written && s.Lines[i].Phys == phys {
			ends[s.Lines[i].End] = true
		}
	}
	ks := make([]string, 0, len(e.Streams))
	for k := range e.Streams {
		ks = append(ks, k)
	}
	sort.Strings(ks)
	for _, k := range ks {
		if !ends[e.Streams[k]] {
			return fmt.Sprintf("%s: %d", k, e.Streams[k])
		}
	}
	return ""
}

// offsetsOfSuccessor: every saved offset of the entry is 0 or a line end of
// another physical file that carries the same path name later (the file
// created after `phys` was renamed away); returns that file's name.
func offsetsOfSuccessor(res *result, phys int, e *offEntry) string {
	s := res.S
	for pi, ph := range res.Phys {
		if pi == phys || ph.Logical != res.Phys[phys].Logical || pi < phys {
			continue
		}
		ends := map[int64]bool{0: true}
		for i := range s.Lines {
			if s.Lines[i].Written && s.Lines[i].Phys == pi {
				ends[s.Lines[i].End] = true
			}
		}
		all := true
		for _, v := range e.Streams {
			if !ends[v] {
				all = false
			}
		}
		if all {
			return filepath.Base(ph.Path)
		}
	}
	return ""
}

func detailWithID(detail map[string]any, l *Line, ph *physFile, res *result) map[string]any {
	detail["id"] = l.ID
	detail["stream"] = streamKey(l.Stream)
	detail["kind"] = l.Kind
	detail["file"] = filepath.Base(ph.Path)
	detail["start"], detail["end"] = l.Start, l.End
	detail["delivered_in_run1"] = res.D1[l.ID] > 0
	return detail
}

func anyNonLineEnd(res *result) string {
	ents := parseOffsets(res.OffsetsAtKil)
	for i := range ents {
		for pi, ph := range res.Phys {
			if ph.Inode == ents[i].Inode && !ph.Reused {
				if bad := nonLineEnd(res.S, pi, &ents[i]); bad != "" {
					return bad
				}
			}
		}
	}
	return ""
}

func orNo(s string) string {
	if s == "" {
		return "no"
	}
	return s
}

func phaseOf(l *Line) string {
	if l.Phase == "run1" && !l.Alive {
		return "down"
	}
	return l.Phase
}

func judgeTrunc(c *core.Ctx, res *result, expected, lost int) {
	s := res.S
	c.Count("trunc.decided", 1)
	if res.TruncSeen > 0 {
		c.Count("trunc.detected_by_filed", 1)
	}
	c.Count(fmt.Sprintf("trunc.%s.tail-%s.watch-%t", s.TruncMode, s.TruncTail, s.Cfg.WatchChanges), 1)
	inflight := false
	for _, n := range res.WaitNotes {
		if strings.HasPrefix(n, "truncating with") && !strings.HasSuffix(n, "in_use=0") {
			inflight = true
		}
	}
	if inflight {
		c.Count("trunc.events_in_flight_at_truncation", 1)
	}
	nStreams := "one"
	if len(s.Streams) > 1 {
		nStreams = "several"
	}
	c.Nontrivial(fmt.Sprintf("trunc|%s|%s|watch=%t|%s|inflight=%t|detected=%t|lost=%t|died=%t|streams=%d",
		s.TruncMode, s.TruncTail, s.Cfg.WatchChanges, s.Cfg.Persistence, inflight, res.TruncSeen > 0, lost > 0, res.Run2Died != "", len(s.Streams)))
	sm := summary(res)
	sm["expected"], sm["lost"], sm["truncations_logged"], sm["wait_notes"] = expected, lost, res.TruncSeen, res.WaitNotes
	c.Sample(sm)

	if res.Stuck != "" {
		c.Count("trunc.never_idle", 1)
		violation(c, s, "C03:truncation:new-content-not-delivered:alive-but-never-idle",
			"content written after the truncation was not delivered and file.d never became idle ("+res.Stuck+")",
			witness(res, nil, map[string]any{"log_tail": res.Run2LogTail, "wait_notes": res.WaitNotes}))
		return
	}
	if res.Run2Died != "" {
		cls := fatalClass(res.Run2Fatals, res.Run2LogTail)
		violation(c, s, fmt.Sprintf("C03:truncation:file.d-died:%s:pre-truncation-tail=%s:streams=%s", cls, tailName(s.TruncTail), nStreams),
			"file.d did not keep running across a truncation: "+res.Run2Died,
			witness(res, nil, map[string]any{"fatals": res.Run2Fatals, "log_tail": res.Run2LogTail, "wait_notes": res.WaitNotes}))
		return
	}
	if lost == 0 {
		return
	}
	groups := map[string][]map[string]any{}
	firstPost := true
	for i := range s.Lines {
		l := &s.Lines[i]
		if !l.Written || !l.Expect {
			continue
		}
		isFirst := false
		if l.Phase == "post" {
			isFirst = firstPost
			firstPost = false
		}
		if res.D[l.ID] > 0 {
			continue
		}
		var sig string
		switch {
		case l.Phase != "post":
			sig = "C03:truncation:pre-truncation-line-lost-although-idle-before-truncation"
		case res.BadIDs[l.ID] && isFirst && s.TruncTail == "fragment":
			sig = "C03:truncation:first-new-line-glued-to-stale-unterminated-fragment:wrong-log-format"
		case res.BadIDs[l.ID]:
			sig = fmt.Sprintf("C03:truncation:new-line-undecodable:pre-truncation-tail=%s:first-new-line=%t", tailName(s.TruncTail), isFirst)
		default:
			sig = fmt.Sprintf("C03:truncation:new-line-lost-without-decode-error:pre-truncation-tail=%s:streams=%s:events-in-flight-at-truncation=%t:truncation-reported=%t",
				tailName(s.TruncTail), nStreams, inflight, res.TruncSeen > 0)
		}
		groups[sig] = append(groups[sig], map[string]any{"id": l.ID, "start": l.Start, "end": l.End, "stream": streamKey(l.Stream), "first_line_of_new_content": isFirst})
	}
	sigs := make([]string, 0, len(groups))
	for k := range groups {
		sigs = append(sigs, k)
	}
	sort.Strings(sigs)
	for _, sig := range sigs {
		ex := groups[sig]
		n := len(ex)
		if len(ex) > 6 {
			ex = ex[:6]
		}
		violation(c, s, sig,
			fmt.Sprintf("%d line(s) missing from the output after file.d went idle (scenario %d, mode %s, watch=%t)", n, s.Idx, s.TruncMode, s.Cfg.WatchChanges),
			witness(res, ex, map[string]any{"log_tail": res.Run2LogTail, "wait_notes": res.WaitNotes}))
	}
}

func tailName(t string) string {
	switch t {
	case "fragment":
		return "unterminated-fragment"
	case "blank":
		return "empty-line"
	case "garbage":
		return "undecodable-line"
	}
	return "complete-line"
}

// fatalClass classifies how a file.d process died from its log.
func fatalClass(fatals []string, logTail string) string {
	msg := ""
	for _, f := range fatals {
		msg = f
		break
	}
	for _, p := range []string{"panic: ", "fatal: ", "dpanic: ", "fatal error: "} {
		msg = strings.TrimPrefix(msg, p)
	}
	if i := strings.Index(msg, ":"); i > 0 {
		msg = msg[:i]
	}
	msg = core.NormalizeMsg(strings.TrimSpace(msg))
	_, fn := core.PanicFunc(logTail)
	if msg == "" && fn == "" {
		return "no-panic-or-fatal-message-in-log"
	}
	if fn != "" {
		return msg + "@" + fn
	}
	return msg
}

func witness(res *result, lost []map[string]any, extra map[string]any) map[string]any {
	s := res.S
	w := map[string]any{
		"scenario":        summary(res),
		"ops":             opsSummary(s),
		"physical_files":  res.Phys,
		"offsets_at_kill": sanitize(res.OffsetsAtKil, res.Dir),
		"notes":           res.Notes,
		"reproduce":       fmt.Sprintf("VERIF_SEED=<seed of this file> C03_ONLY=%d ./run.sh C03 <tier of this file>", s.Idx),
	}
	if lost != nil {
		w["lost_examples"] = lost
	}
	for k, v := range extra {
		w[k] = v
	}
	return w
}

func opsSummary(s *Scenario) []string {
	var out []string
	for _, op := range s.Ops {
		switch op.Kind {
		case "append":
			first, last := "", ""
			if len(op.Lines) > 0 {
				first, last = s.Lines[op.Lines[0]].ID, s.Lines[op.Lines[len(op.Lines)-1]].ID
			}
			var sb strings.Builder
			for _, li := range op.Lines {
				l := s.Lines[li]
				sb.WriteString(fmt.Sprintf(" %s:%s[%d,%d)", streamKey(l.Stream), l.Kind, l.Start, l.End))
				if sb.Len() > 600 {
					sb.WriteString(" ...")
					break
				}
			}
			out = append(out, fmt.Sprintf("append f%d %d lines %s..%s in %d writes:%s", op.File, len(op.Lines), first, last, op.Chunks, sb.String()))
		case "pbegin":
			if op.Raw != "" {
				out = append(out, fmt.Sprintf("write unterminated fragment to f%d (%d bytes)", op.File, len(op.Raw)))
			} else {
				out = append(out, fmt.Sprintf("write first %d bytes of line %s to f%d", op.Cut, s.Lines[op.Lines[0]].ID, op.File))
			}
		case "pend":
			out = append(out, fmt.Sprintf("complete line %s in f%d", s.Lines[op.Lines[0]].ID, op.File))
		case "rotate":
			out = append(out, fmt.Sprintf("rename f%d.log away (rotation)", op.File))
		case "MARKX":
			out = append(out, fmt.Sprintf("(the file now named f%d.log is X)", op.File))
		case "VANISH":
			if op.Raw == "unlink" {
				out = append(out, "unlink X (its inode number stays reserved through a hard link outside the watched directory)")
			} else {
				out = append(out, fmt.Sprintf("rename f%d.log over X (X's inode number stays reserved through a hard link outside the watched directory)", op.File))
			}
		case "WAITGONE":
			out = append(out, "wait for file.d's 'job ... deleted' line for X")
		case "REUSE":
			first, last := s.Lines[op.Lines[0]].ID, s.Lines[op.Lines[len(op.Lines)-1]].ID
			out = append(out, fmt.Sprintf("drop the hard link, create a file with X's inode number, write %d lines %s..%s at once, rename it to f%d.log", len(op.Lines), first, last, op.File))
		case "WAITSAVED":
			out = append(out, fmt.Sprintf("wait for saved offsets (%s >= %d)", op.Raw, op.Ms))
		case "sleep":
			out = append(out, fmt.Sprintf("sleep %dms", op.Ms))
		default:
			out = append(out, op.Kind)
		}
	}
	return out
}
