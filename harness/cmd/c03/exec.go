package main

// Executes one scenario against the real file.d binary: applies the history
// to the file system, runs / kills / restarts the process, follows its log
// for the logical idle condition, and collects what the oracle needs.

import (
	"bufio"
	"bytes"
	"encoding/json"
	"fmt"
	"os"
	"os/exec"
	"path/filepath"
	"regexp"
	"sort"
	"strconv"
	"strings"
	"syscall"
	"time"

	"verifharness/core"
)

// physFile is one inode.
type physFile struct {
	Logical int    `json:"logical"`
	Path    string `json:"path"`
	Inode   uint64 `json:"inode"`
	Size    int64  `json:"size"`
	Rotated string `json:"rotated,omitempty"`      // "" | running | down
	Epoch   int    `json:"epoch"`                  // number of truncations
	Gone    string `json:"gone,omitempty"`         // the file went away (its name was unlinked / renamed over): down | running
	GoneBy  string `json:"gone_by,omitempty"`      // unlink | rename-over
	Reused  bool   `json:"reused_inode,omitempty"` // this file obtained the inode number of a file that had gone away
}

// reuseInfo describes how an inode-reuse scenario was staged.
type reuseInfo struct {
	Where        string           `json:"old_file_went_away"` // down | running
	FreedBy      string           `json:"inode_freed_by"`     // unlink | rename-over
	Inode        uint64           `json:"inode"`
	OldFile      string           `json:"old_file"`
	OldSize      int64            `json:"old_size"`
	NewFile      string           `json:"new_file"`
	NewSize      int64            `json:"new_size_when_it_appeared"`
	Creates      int              `json:"files_created_until_the_inode_number_came_back"`
	StaleStreams map[string]int64 `json:"offsets_of_the_old_file_in_the_offsets_file_run2_loaded"`
	StaleMin     int64            `json:"stale_min"` // -1: the loaded offsets file had no entry for the inode
	StaleMax     int64            `json:"stale_max"`
}

// proc is one run of file.d.
type proc struct {
	cmd     *exec.Cmd
	done    chan struct{}
	logPath string
	logOff  int64
	logBuf  []byte

	exited   bool
	exitDesc string

	// log-derived state
	mTicks, pTicks int
	mQuiet, pQuiet int
	lastTotal      int64
	total          int64
	inUse          int64
	fatals         []string
	hookCrash      string
	truncSeen      int
	wrongFormat    int
	badIDs         map[string]bool   // ids seen inside the payload of a "wrong log format" error
	noWatcher      bool              // "can't create fs watcher" (inotify instance limit of the machine): the run observes nothing
	deletedJobs    map[string]bool   // source ids of jobs deleted by maintenance
	readded        int               // jobs added again for a source id whose job had been deleted
	writeNotifies  int               // "notify notify.Write ..." lines (logged right before the watcher's Lstat)
	createNotifies int               // "notify notify.Create ..." lines (start-up walk and new files)
	reopenTicks    int               // maintenance ticks that closed and reopened at least one fully read file
	offsetsAtStop  bool              // graceful stop: "saving last known offsets..." then "stopping output" were logged
	addedSID       map[string]string // file name -> source id of the job last added under that name
}

var (
	reMaint    = regexp.MustCompile(`file plugin maintenance stats: not done=(\d+), resumed=(\d+), reopened=(\d+)`)
	reStat     = regexp.MustCompile(`events in use=(-?\d+)/\d+.* total=(\d+)\|`)
	reID       = regexp.MustCompile(`@k\d+-\d{6}@`)
	reJobID    = regexp.MustCompile(`^job (\d+):`)
	reJobAdded = regexp.MustCompile(`^job added for a file (\d+):(.*)$`)
)

func startProc(bin, dir, cfgPath, logName string, gomaxprocs int, hooks string, hookSeed int64) (*proc, error) {
	lp := filepath.Join(dir, logName)
	lf, err := os.Create(lp)
	if err != nil {
		return nil, err
	}
	cmd := exec.Command(bin, "--config", cfgPath, "--http", "off")
	cmd.Stdout = lf
	cmd.Stderr = lf
	cmd.Dir = dir
	env := []string{}
	for _, e := range os.Environ() {
		if strings.HasPrefix(e, "VERIF_HOOKS") || strings.HasPrefix(e, "GOMAXPROCS=") || strings.HasPrefix(e, "LOG_LEVEL=") || strings.HasPrefix(e, "GOGC=") {
			continue
		}
		env = append(env, e)
	}
	env = append(env, fmt.Sprintf("GOMAXPROCS=%d", gomaxprocs), "LOG_LEVEL=info")
	if hooks != "" {
		env = append(env, "VERIF_HOOKS="+hooks, fmt.Sprintf("VERIF_HOOKS_SEED=%d", hookSeed))
	}
	cmd.Env = env
	cmd.SysProcAttr = &syscall.SysProcAttr{Setpgid: true}
	if err := cmd.Start(); err != nil {
		lf.Close()
		return nil, err
	}
	lf.Close()
	p := &proc{cmd: cmd, done: make(chan struct{}), logPath: lp, mQuiet: -1, pQuiet: -1, lastTotal: -1}
	go func() {
		err := cmd.Wait()
		desc := "exit 0"
		if err != nil {
			desc = err.Error()
		}
		p.exitDesc = desc
		close(p.done)
	}()
	return p, nil
}

func (p *proc) alive() bool {
	select {
	case <-p.done:
		return false
	default:
		return true
	}
}

func (p *proc) kill() {
	if p.alive() {
		_ = syscall.Kill(-p.cmd.Process.Pid, syscall.SIGKILL)
	}
	<-p.done
}

// waitExit waits up to d for the process to end.
func (p *proc) waitExit(d time.Duration) bool {
	select {
	case <-p.done:
		return true
	case <-time.After(d):
		return false
	}
}

// drain consumes new log output and updates the derived state.
func (p *proc) drain() {
	f, err := os.Open(p.logPath)
	if err != nil {
		return
	}
	defer f.Close()
	if _, err := f.Seek(p.logOff, 0); err != nil {
		return
	}
	rd := bufio.NewReaderSize(f, 1<<16)
	for {
		chunk, err := rd.ReadBytes('\n')
		if len(chunk) > 0 && chunk[len(chunk)-1] == '\n' {
			p.logOff += int64(len(chunk))
			p.line(chunk[:len(chunk)-1])
		}
		if err != nil {
			break // incomplete last line stays for the next drain
		}
	}
}

func (p *proc) line(b []byte) {
	if len(b) == 0 {
		return
	}
	if b[0] != '{' {
		s := string(b)
		if strings.HasPrefix(s, "verifhook: crash at ") {
			p.hookCrash = strings.TrimPrefix(s, "verifhook: crash at ")
		}
		if strings.HasPrefix(s, "panic: ") || strings.HasPrefix(s, "fatal error: ") {
			p.fatals = append(p.fatals, core.Trunc(s, 400))
		}
		return
	}
	var l struct {
		Level   string `json:"level"`
		Message string `json:"message"`
		Stat    string `json:"stat"`
		Log     string `json:"log"`
	}
	if json.Unmarshal(b, &l) != nil {
		return
	}
	switch l.Level {
	case "panic", "fatal", "dpanic":
		p.fatals = append(p.fatals, l.Level+": "+core.Trunc(l.Message, 400))
		return
	}
	switch {
	case l.Message == "pipeline stats":
		m := reStat.FindStringSubmatch(l.Stat)
		if m == nil {
			return
		}
		inUse, _ := strconv.ParseInt(m[1], 10, 64)
		total, _ := strconv.ParseInt(m[2], 10, 64)
		p.pTicks++
		p.inUse, p.total = inUse, total
		if inUse == 0 && total == p.lastTotal {
			p.pQuiet++
		} else {
			p.pQuiet = 0
		}
		p.lastTotal = total
	case strings.HasPrefix(l.Message, "file plugin maintenance stats"):
		m := reMaint.FindStringSubmatch(l.Message)
		if m == nil {
			return
		}
		p.mTicks++
		if m[3] != "0" {
			p.reopenTicks++
		}
		if m[1] == "0" && m[2] == "0" {
			p.mQuiet++
		} else {
			p.mQuiet = 0
		}
	case strings.Contains(l.Message, "was truncated, reading will start over"):
		p.truncSeen++
	case strings.HasPrefix(l.Message, "notify notify.Write "):
		p.writeNotifies++
	case strings.HasPrefix(l.Message, "notify notify.Create "):
		p.createNotifies++
	case l.Message == "stopping output":
		p.offsetsAtStop = true
	case strings.Contains(l.Message, "can't create fs watcher"):
		p.noWatcher = true
	case strings.HasPrefix(l.Message, "job ") && strings.HasSuffix(l.Message, " deleted"):
		if m := reJobID.FindStringSubmatch(l.Message); m != nil {
			if p.deletedJobs == nil {
				p.deletedJobs = map[string]bool{}
			}
			p.deletedJobs[m[1]] = true
		}
	case strings.HasPrefix(l.Message, "job added for a file "):
		if m := reJobAdded.FindStringSubmatch(l.Message); m != nil {
			if p.deletedJobs[m[1]] {
				p.readded++
			}
			if p.addedSID == nil {
				p.addedSID = map[string]string{}
			}
			p.addedSID[m[2]] = m[1]
		}
	case l.Message == "wrong log format":
		p.wrongFormat++
		for _, id := range reID.FindAllString(l.Log, -1) {
			if p.badIDs == nil {
				p.badIDs = map[string]bool{}
			}
			p.badIDs[id] = true
		}
	}
}

// touch is called after the harness changed a watched file: the next tick of
// each kind may have been computed before the change and is not counted.
func (p *proc) touch() {
	p.drain()
	p.mQuiet, p.pQuiet = -1, -1
}

// idle: three consecutive maintenance ticks of the input plugin that found
// every job done and nothing to resume, and three consecutive pipeline ticks
// with no event in use and an unchanged input counter, all computed after
// the last change made by the harness.
func (p *proc) idle() bool { return p.mQuiet >= 3 && p.pQuiet >= 3 }

func (p *proc) logTail(n int) string {
	b, err := os.ReadFile(p.logPath)
	if err != nil {
		return ""
	}
	if len(b) > n {
		b = b[len(b)-n:]
	}
	return string(b)
}

// result is what one scenario produced.
type result struct {
	S     *Scenario
	Phys  []*physFile
	Notes []string

	Inconclusive string
	HarnessErr   string

	KilledBy     string // hook:<point> | external | state | state-timeout | hook-not-reached | self:<why>
	Run1Died     string // non-empty when run 1 ended by itself (not through the harness / a crash hook)
	Run1Trunc    int    // truncations reported by run 1 (kill scenarios never truncate)
	Run1Readded  int    // jobs re-added in run 1 after maintenance had deleted them
	EnvProblem   string // the machine, not file.d, prevented the observation (e.g. inotify instance limit)
	ReopensHeld  int    // maintenance ticks that reopened a file while the harness kept a line unterminated at its end
	MinSavedDown int64  // kind downtrunc: minimum saved offset of the truncated file in the offsets file the restart sees (-1: no entry)
	Run1Fatals   []string
	Run1LogTail  string
	OffsetsAtKil string
	TmpFiles     int
	D1           map[string]int
	D            map[string]int
	Run2Died     string
	Stuck        string // truncation: new content undelivered and never idle for a bounded number of the program's own heartbeats
	Run2Fatals   []string
	Run2LogTail  string
	Run2Restarts int
	IdleReached  bool
	TruncSeen    int
	WrongFormat  int
	BadIDs       map[string]bool
	WaitNotes    []string
	Dir          string
	WallMs       int64
	NotStaged    bool       // kind inodereuse: the file system gave the freed inode number to somebody else (nothing observed)
	Reuse        *reuseInfo // kind inodereuse: how the history was staged
}

type runner struct {
	s      *Scenario
	bin    string
	dir    string
	res    *result
	cur    []int // logical -> physical index
	rotN   []int
	oldSz  []int64 // logical -> size of the file just before its last truncation
	p      *proc
	phase  string
	hooks  string
	outDir string
	xPhys  int    // kind inodereuse: physical file that goes away (-1: none marked)
	holder string // hard link that keeps its inode number reserved
	xSID   string // its source id in the running file.d (from the "job added" log line)
}

func (r *runner) note(f string, a ...any) {
	r.res.Notes = append(r.res.Notes, fmt.Sprintf(f, a...))
}

func inodeOf(path string) uint64 {
	st, err := os.Stat(path)
	if err != nil {
		return 0
	}
	if s, ok := st.Sys().(*syscall.Stat_t); ok {
		return s.Ino
	}
	return 0
}

func (r *runner) physOf(logical int) *physFile {
	if r.cur[logical] < 0 {
		path := filepath.Join(r.dir, "in", fmt.Sprintf("f%d.log", logical))
		r.res.Phys = append(r.res.Phys, &physFile{Logical: logical, Path: path})
		r.cur[logical] = len(r.res.Phys) - 1
	}
	return r.res.Phys[r.cur[logical]]
}

// writeBytes appends data to the current physical file of a logical file in
// `chunks` write calls.
func (r *runner) writeBytes(logical int, data []byte, chunks int) error {
	ph := r.physOf(logical)
	f, err := os.OpenFile(ph.Path, os.O_CREATE|os.O_WRONLY|os.O_APPEND, 0o644)
	if err != nil {
		return err
	}
	defer f.Close()
	if chunks < 1 {
		chunks = 1
	}
	n := len(data)
	for i := 0; i < chunks; i++ {
		lo, hi := n*i/chunks, n*(i+1)/chunks
		if lo == hi {
			continue
		}
		if _, err := f.Write(data[lo:hi]); err != nil {
			return err
		}
	}
	if ph.Inode == 0 {
		ph.Inode = inodeOf(ph.Path)
	}
	ph.Size += int64(n)
	if r.p != nil {
		r.p.touch()
	}
	return nil
}

func (r *runner) procAlive() bool { return r.p != nil && r.p.alive() }

func (r *runner) markWritten(li int, start, end int64) {
	l := &r.s.Lines[li]
	l.Phys = r.cur[l.File]
	l.Start, l.End = start, end
	l.Phase = r.phase
	l.Alive = r.procAlive()
	l.Written = true
}

func (r *runner) doAppend(op Op) error {
	ph := r.physOf(op.File)
	var buf bytes.Buffer
	off := ph.Size
	type span struct {
		li         int
		start, end int64
	}
	var spans []span
	for _, li := range op.Lines {
		t := r.s.Lines[li].Text
		start := off + int64(buf.Len())
		buf.WriteString(t)
		buf.WriteByte('\n')
		spans = append(spans, span{li, start, off + int64(buf.Len())})
	}
	if err := r.writeBytes(op.File, buf.Bytes(), op.Chunks); err != nil {
		return err
	}
	for _, sp := range spans {
		r.markWritten(sp.li, sp.start, sp.end)
	}
	return nil
}

func (r *runner) readIDs() map[string]int {
	out := map[string]int{}
	ents, _ := os.ReadDir(r.outDir)
	for _, e := range ents {
		b, err := os.ReadFile(filepath.Join(r.outDir, e.Name()))
		if err != nil {
			continue
		}
		// only complete output lines count as delivered
		if i := bytes.LastIndexByte(b, '\n'); i >= 0 {
			b = b[:i+1]
		} else {
			b = nil
		}
		for _, m := range reID.FindAll(b, -1) {
			out[string(m)]++
		}
	}
	return out
}

func (r *runner) outSize() int64 {
	var n int64
	ents, _ := os.ReadDir(r.outDir)
	for _, e := range ents {
		if st, err := e.Info(); err == nil {
			n += st.Size()
		}
	}
	return n
}

func (r *runner) hasAll(ids map[string]int, lines []int) bool {
	for _, li := range lines {
		if _, ok := ids[r.s.Lines[li].ID]; !ok {
			return false
		}
	}
	return true
}

// waitIdle polls until the process is idle (true), dead (false) or the
// watchdog expires (false, inconclusive set by the caller).
func (r *runner) waitIdle(watchdog time.Duration) (idle bool, dead bool) {
	deadline := time.Now().Add(watchdog)
	var lastSize int64 = -1
	for {
		r.p.drain()
		if r.p.noWatcher {
			r.res.EnvProblem = "can't create fs watcher"
			return false, false
		}
		if !r.p.alive() {
			r.p.drain()
			return false, true
		}
		sz := r.outSize()
		if r.p.idle() && sz == lastSize {
			return true, false
		}
		lastSize = sz
		if time.Now().After(deadline) {
			return false, false
		}
		time.Sleep(40 * time.Millisecond)
	}
}

const (
	idleWatchdog = 40 * time.Second
	// truncation clause: bound, in maintenance ticks of the input plugin (its own heartbeat), after which
	// undelivered new content with a never-idle process is reported (ticks x tick interval >= stuckMs)
	stuckMs = 12000
)

func (r *runner) start(logName string, hooks string) error {
	cfgPath := filepath.Join(r.dir, "config.yml")
	p, err := startProc(r.bin, r.dir, cfgPath, logName, r.s.Cfg.GOMAXPROCS, hooks, r.s.Seed)
	if err != nil {
		return err
	}
	r.p = p
	return nil
}

func sanitize(s, dir string) string {
	return strings.ReplaceAll(s, dir, "<dir>")
}

func (r *runner) savedOffset(logical int, stream string) (int64, bool) {
	b, err := os.ReadFile(filepath.Join(r.dir, "offsets.yaml"))
	if err != nil {
		return 0, false
	}
	ents := parseOffsets(string(b))
	ph := r.physOf(logical)
	for _, e := range ents {
		if e.Inode == ph.Inode {
			v, ok := e.Streams[streamKey(stream)]
			return v, ok
		}
	}
	return 0, false
}

// run executes the scenario.
func runScenario(s *Scenario, bin string) *result {
	t0 := time.Now()
	res := &result{S: s}
	dir, err := os.MkdirTemp(core.ScratchBase(), "verif-c03-")
	if err != nil {
		res.HarnessErr = err.Error()
		return res
	}
	// resolve symlinks so that the paths in the offsets file equal ours
	if d, err := filepath.EvalSymlinks(dir); err == nil {
		dir = d
	}
	res.Dir = dir
	if os.Getenv("C03_KEEP") == "" { // debugging aid: keep the scenario directory (logs, files, offsets)
		defer os.RemoveAll(dir)
	} else {
		fmt.Println("  keeping", dir)
	}
	r := &runner{s: s, bin: bin, dir: dir, res: res, outDir: filepath.Join(dir, "out"), phase: "pre", xPhys: -1}
	r.cur = make([]int, s.NFiles)
	r.rotN = make([]int, s.NFiles)
	r.oldSz = make([]int64, s.NFiles)
	for i := range r.cur {
		r.cur[i] = -1
	}
	for _, d := range []string{"in", "out", "hold"} {
		if err := os.MkdirAll(filepath.Join(dir, d), 0o755); err != nil {
			res.HarnessErr = err.Error()
			return res
		}
	}
	if err := os.WriteFile(filepath.Join(dir, "config.yml"), []byte(s.Cfg.yaml(dir)), 0o644); err != nil {
		res.HarnessErr = err.Error()
		return res
	}
	defer func() {
		if r.p != nil {
			r.p.drain()
			if r.p.noWatcher {
				res.EnvProblem = "can't create fs watcher"
			}
			if res.Inconclusive != "" && res.Run2LogTail == "" {
				res.Run2LogTail = sanitize(r.p.logTail(1500), r.dir)
			}
			r.p.kill()
		}
		res.WallMs = time.Since(t0).Milliseconds()
	}()

	hooks := s.Kill.Sleeps
	if s.Kill.Mode == "hook" {
		h := fmt.Sprintf("%s=crash:%d", s.Kill.Point, s.Kill.Nth)
		if hooks != "" {
			hooks = h + ";" + hooks
		} else {
			hooks = h
		}
	}

	run := 0
	for _, op := range s.Ops {
		switch op.Kind {
		case "sleep":
			time.Sleep(time.Duration(op.Ms) * time.Millisecond)
		case "append":
			if err := r.doAppend(op); err != nil {
				res.HarnessErr = err.Error()
				return res
			}
		case "BUSY":
			for _, li := range op.Lines {
				if err := r.doAppend(Op{File: op.File, Lines: []int{li}, Chunks: 1}); err != nil {
					res.HarnessErr = err.Error()
					return res
				}
				if r.p != nil && r.p.alive() {
					if b, err := os.ReadFile(filepath.Join(r.dir, "offsets.yaml")); err == nil {
						if bad := r.nonBoundary(parseOffsets(string(b))); bad != "" {
							res.KilledBy = "anomaly"
							r.p.kill()
							r.note("killed when the offsets file showed %s", bad)
							r.afterDeath()
							r.phase = "down"
						}
					}
				}
				if op.Ms > 0 {
					time.Sleep(time.Duration(op.Ms) * time.Millisecond)
				}
			}
		case "pbegin":
			ph := r.physOf(op.File)
			if op.Raw != "" {
				if err := r.writeBytes(op.File, []byte(op.Raw), 1); err != nil {
					res.HarnessErr = err.Error()
					return res
				}
				break
			}
			li := op.Lines[0]
			t := r.s.Lines[li].Text
			cut := op.Cut
			if cut > len(t) {
				cut = len(t)
			}
			r.s.Lines[li].Start = ph.Size
			r.s.Lines[li].Phys = r.cur[op.File]
			if err := r.writeBytes(op.File, []byte(t[:cut]), 1); err != nil {
				res.HarnessErr = err.Error()
				return res
			}
			r.s.Lines[li].End = int64(cut) // remembered: bytes already written
		case "pend":
			li := op.Lines[0]
			l := &r.s.Lines[li]
			done := int(l.End)
			start := l.Start
			rest := l.Text[done:] + "\n"
			if err := r.writeBytes(op.File, []byte(rest), 1); err != nil {
				res.HarnessErr = err.Error()
				return res
			}
			r.markWritten(li, start, start+int64(len(l.Text))+1)
		case "rotate":
			ph := r.physOf(op.File)
			if ph.Inode == 0 {
				break // nothing written yet: nothing to rotate
			}
			r.rotN[op.File]++
			np := filepath.Join(dir, "in", fmt.Sprintf("f%d.r%d.log", op.File, r.rotN[op.File]))
			if err := os.Rename(ph.Path, np); err != nil {
				res.HarnessErr = err.Error()
				return res
			}
			ph.Path = np
			if r.procAlive() {
				ph.Rotated = "running"
			} else {
				ph.Rotated = "down"
			}
			r.cur[op.File] = -1
			if r.p != nil {
				r.p.touch()
			}
		case "START1", "START2":
			run++
			if run == 1 {
				r.phase = "run1"
				if err := r.start("run1.log", hooks); err != nil {
					res.HarnessErr = err.Error()
					return res
				}
			} else {
				r.phase = "run2"
				if err := r.start("run2.log", ""); err != nil {
					res.HarnessErr = err.Error()
					return res
				}
			}
		case "KILL":
			r.endRun1(op)
			if res.Inconclusive != "" || res.HarnessErr != "" {
				return res
			}
			r.phase = "down"
		case "WAITNOTIFY":
			// wait until the watcher goroutine has logged one more write notification than before the last
			// append (it takes its Lstat right after that line), then give the Lstat a moment
			dl := time.Now().Add(5 * time.Second)
			for {
				r.p.drain()
				if r.p.writeNotifies > op.Ms || !r.p.alive() || time.Now().After(dl) {
					break
				}
				time.Sleep(2 * time.Millisecond)
			}
			time.Sleep(5 * time.Millisecond)
		case "WAITCREATE":
			// wait until file.d has logged its first create notification (start-up walk; the Lstat follows at once)
			dl := time.Now().Add(10 * time.Second)
			for {
				r.p.drain()
				if r.p.createNotifies > 0 || !r.p.alive() || time.Now().After(dl) {
					break
				}
				time.Sleep(2 * time.Millisecond)
			}
			time.Sleep(10 * time.Millisecond)
		case "WAITSAVED":
			// wait until the offsets file on disk has an entry for the file whose smallest stream offset is >= op.Ms
			dl := time.Now().Add(8 * time.Second)
			var ph *physFile
			t0 := time.Now()
			want := map[string]int64{} // op.Ms < 0: every stream of the file must be saved up to its last line
			if op.Raw == "X" {
				if r.xPhys < 0 {
					res.HarnessErr = "generator: WAITSAVED X without MARKX"
					return res
				}
				ph = res.Phys[r.xPhys]
				if op.Ms < 0 {
					for i := range s.Lines {
						if l := &s.Lines[i]; l.Written && l.Phys == r.xPhys && l.Kind == "plain" && l.End > want[streamKey(l.Stream)] {
							want[streamKey(l.Stream)] = l.End
						}
					}
				}
			} else {
				ph = r.physOf(op.File)
			}
			for {
				ok := false
				r.p.drain()
				if b, err := os.ReadFile(filepath.Join(r.dir, "offsets.yaml")); err == nil {
					for _, e := range parseOffsets(string(b)) {
						if e.Inode == ph.Inode && len(e.Streams) > 0 {
							ok = true
							for _, v := range e.Streams {
								if v < int64(op.Ms) {
									ok = false
								}
							}
							full := true
							for st, v := range want {
								if e.Streams[st] < v {
									full = false
								}
							}
							if !full {
								// file.d may have dropped the job before its last commits arrived (job deleted by
								// maintenance under a stale name after a rotation): once the process is idle nothing
								// more will be saved, so an entry with positive offsets is what the restart gets
								ok = false
								if r.p.idle() && time.Since(t0) > 1200*time.Millisecond {
									ok = true
									for _, v := range e.Streams {
										if v <= 0 {
											ok = false
										}
									}
									if ok {
										r.note("offsets of %s saved only up to %v (its last lines end at %v)", filepath.Base(ph.Path), e.Streams, want)
									}
								}
							}
						}
					}
				}
				if ok || !r.p.alive() {
					break
				}
				if time.Now().After(dl) {
					res.Inconclusive = "watchdog: offsets never saved far enough before the planned end of run 1"
					return res
				}
				time.Sleep(5 * time.Millisecond)
			}
		case "MARKX":
			r.xPhys = r.cur[op.File]
			if r.xPhys < 0 || res.Phys[r.xPhys].Inode == 0 {
				res.HarnessErr = "generator: MARKX on a file that was never written"
				return res
			}
		case "VANISH":
			if msg := r.vanish(op); msg != "" {
				res.HarnessErr = msg
				return res
			}
		case "WAITGONE":
			// file.d holds the file open: wait for its own report that the job was dropped (maintenance closed
			// the descriptor, could not reopen the name or found another file under it)
			if r.xSID == "" {
				res.Inconclusive = "the job of the file that went away was not seen in file.d's log"
				return res
			}
			dl := time.Now().Add(20 * time.Second)
			for {
				r.p.drain()
				if r.p.deletedJobs[r.xSID] {
					break
				}
				if !r.p.alive() {
					r.endRun2()
					return res
				}
				if time.Now().After(dl) {
					res.Inconclusive = "watchdog: file.d never dropped the job of the file that went away"
					return res
				}
				time.Sleep(5 * time.Millisecond)
			}
		case "REUSE":
			if msg := r.reuse(op); msg != "" {
				res.HarnessErr = msg
				return res
			}
			if res.NotStaged {
				res.Inconclusive = "environment: the file system gave the freed inode number to another file (history not staged)"
				return res
			}
		case "HELDIDLE":
			// the harness has left a line unterminated at the end of a file: wait until file.d is idle
			// again (>= 3 maintenance ticks with the job done) and count the ticks that reopened files
			r.p.drain()
			r0 := r.p.reopenTicks
			idle, dead := r.waitIdle(idleWatchdog)
			if dead {
				res.Inconclusive = "run 1 died while a partial line was held"
				return res
			}
			if !idle {
				res.Inconclusive = "watchdog: never idle while a partial line was held"
				return res
			}
			r.p.drain()
			res.ReopensHeld += r.p.reopenTicks - r0
		case "MARKNOTIFY":
			r.p.drain()
			for i := range s.Ops {
				if s.Ops[i].Kind == "WAITNOTIFY" {
					s.Ops[i].Ms = r.p.writeNotifies
				}
			}
		case "WAITIDLE":
			idle, dead := r.waitIdle(idleWatchdog)
			if dead && r.phase == "run2" && s.Kind != "trunc" {
				r.endRun2() // the restart died: judged as such
				return res
			}
			if dead && s.Kind != "trunc" {
				res.Inconclusive = "run 1 died before the scenario began"
				return res
			}
			if dead {
				r.finishSingleRun("died before the truncation")
				return res
			}
			if !idle {
				res.Inconclusive = "watchdog: run never idle before truncation"
				return res
			}
		case "WAITREAD":
			// wait until the pipeline's own input counter shows that all events of A were read
			want := int64(0)
			for _, li := range op.Lines {
				if r.s.Lines[li].Kind == "plain" {
					want++
				}
			}
			dl := time.Now().Add(20 * time.Second)
			for {
				r.p.drain()
				if !r.p.alive() {
					r.finishSingleRun("died before the truncation")
					return res
				}
				if r.p.noWatcher {
					res.EnvProblem = "can't create fs watcher"
					res.Inconclusive = "environment"
					return res
				}
				if r.p.total >= want {
					res.WaitNotes = append(res.WaitNotes, fmt.Sprintf("truncating with input total=%d in_use=%d", r.p.total, r.p.inUse))
					break
				}
				if time.Now().After(dl) {
					res.Inconclusive = "watchdog: content A never read"
					return res
				}
				time.Sleep(15 * time.Millisecond)
			}
		case "TRUNC":
			ph := r.physOf(op.File)
			if err := os.Truncate(ph.Path, 0); err != nil {
				res.HarnessErr = err.Error()
				return res
			}
			ph.Epoch++
			oldSize := ph.Size
			ph.Size = 0
			limit := oldSize
			if r.p != nil {
				r.p.touch()
			} else {
				// truncated while file.d is down: the new content must stay below the smallest offset the
				// restart will resume from (below that the truncation is visible to file.d at once)
				res.MinSavedDown = -1
				for _, e := range parseOffsets(res.OffsetsAtKil) {
					if e.Inode == ph.Inode {
						for _, v := range e.Streams {
							if res.MinSavedDown < 0 || v < res.MinSavedDown {
								res.MinSavedDown = v
							}
						}
					}
				}
				if res.MinSavedDown >= 0 {
					limit = res.MinSavedDown
				}
			}
			r.note("truncated %s at size %d (new content must stay below %d)", filepath.Base(ph.Path), oldSize, limit)
			if op.Ms > 0 {
				time.Sleep(time.Duration(op.Ms) * time.Millisecond)
			}
			// enforce: post-truncation content stays below the old read offset
			r.oldSz[op.File] = limit
			r.phase = "post"
		case "WAITIDS":
			ph := r.physOf(op.File)
			if old := r.oldSz[op.File]; ph.Size >= old {
				res.HarnessErr = fmt.Sprintf("generator: post-truncation size %d not below old size %d", ph.Size, old)
				return res
			}
			// wait for delivery of B or for idleness, whichever comes first
			dl := time.Now().Add(idleWatchdog)
			var lastSize int64 = -1
			r.p.drain()
			ticks0 := r.p.mTicks
			for {
				r.p.drain()
				if !r.p.alive() {
					if s.Kind != "trunc" {
						r.endRun2()
						return res
					}
					r.finishSingleRun("died after the truncation")
					return res
				}
				if r.hasAll(r.readIDs(), op.Lines) {
					break
				}
				if r.p.noWatcher {
					res.EnvProblem = "can't create fs watcher"
					res.Inconclusive = "environment"
					return res
				}
				if n := r.p.mTicks - ticks0; n*s.Cfg.TickMs >= stuckMs && !r.p.idle() {
					res.Stuck = fmt.Sprintf("%d maintenance ticks of %dms after the last write", n, s.Cfg.TickMs)
					d1 := res.D1
					r.finishSingleRun("")
					if s.Kind != "trunc" {
						res.D1 = d1
					}
					res.Run2LogTail = sanitize(r.p.logTail(8000), r.dir)
					return res
				}
				sz := r.outSize()
				if r.p.idle() && sz == lastSize {
					res.WaitNotes = append(res.WaitNotes, "idle without the post-truncation lines")
					break
				}
				lastSize = sz
				if time.Now().After(dl) {
					res.Inconclusive = "watchdog: neither delivery nor idleness after truncation"
					return res
				}
				time.Sleep(40 * time.Millisecond)
			}
		case "END":
			if s.Kind == "trunc" {
				idle, dead := r.waitIdle(idleWatchdog)
				if dead {
					r.finishSingleRun("died after the truncation")
					return res
				}
				if !idle {
					res.D = r.readIDs()
					if r.allExpected(res.D) {
						res.Inconclusive = "watchdog: everything delivered but never idle"
					} else {
						res.Inconclusive = "watchdog: run never idle"
					}
					return res
				}
				r.finishSingleRun("")
				return res
			}
			r.endRun2()
			return res
		}
	}
	return res
}

func (r *runner) allExpected(d map[string]int) bool {
	for i := range r.s.Lines {
		l := &r.s.Lines[i]
		if l.Expect && l.Written {
			if _, ok := d[l.ID]; !ok {
				return false
			}
		}
	}
	return true
}

func (r *runner) finishSingleRun(died string) {
	res := r.res
	r.p.drain()
	res.D = r.readIDs()
	res.D1 = res.D
	res.TruncSeen = r.p.truncSeen
	res.WrongFormat = r.p.wrongFormat
	res.BadIDs = r.p.badIDs
	if r.p.noWatcher {
		res.EnvProblem = "can't create fs watcher"
	}
	res.IdleReached = died == ""
	if died != "" {
		<-r.p.done
		r.p.drain()
		res.Run2Died = died + ": " + r.p.exitDesc
		res.Run2Fatals = r.p.fatals
		res.Run2LogTail = sanitize(r.p.logTail(6000), r.dir)
	}
	if died == "" && !r.allExpected(res.D) {
		res.Run2LogTail = sanitize(r.p.logTail(16000), r.dir)
	}
	if b, err := os.ReadFile(filepath.Join(r.dir, "offsets.yaml")); err == nil {
		res.OffsetsAtKil = sanitize(string(b), r.dir)
	}
}

// nonBoundary describes the first saved offset that is not a line end of its file ("" if none).
func (r *runner) nonBoundary(ents []offEntry) string {
	for _, e := range ents {
		for pi, ph := range r.res.Phys {
			if ph.Inode != e.Inode {
				continue
			}
			ends := map[int64]bool{0: true}
			for i := range r.s.Lines {
				l := &r.s.Lines[i]
				if l.Written && l.Phys == pi {
					ends[l.End] = true
				}
			}
			for st, v := range e.Streams {
				if !ends[v] {
					return fmt.Sprintf("%s: stream %s offset %d (file size %d)", filepath.Base(ph.Path), st, v, ph.Size)
				}
			}
		}
	}
	return ""
}

// endRun1 ends the first run according to the kill plan and snapshots what
// the restart will see.
func (r *runner) endRun1(op Op) {
	if r.p == nil {
		return // already ended (anomaly seen while writing)
	}
	res := r.res
	k := r.s.Kill
	p := r.p
	p.drain()
	if p.noWatcher {
		res.EnvProblem = "run 1: can't create fs watcher"
		res.Inconclusive = "environment"
		p.kill()
		return
	}
	switch k.Mode {
	case "term":
		// graceful stop: SIGTERM, file.d saves its last offsets and exits
		time.Sleep(time.Duration(k.DelayMs) * time.Millisecond)
		if !p.alive() {
			res.KilledBy = "self"
		} else {
			_ = syscall.Kill(p.cmd.Process.Pid, syscall.SIGTERM)
			// the input plugin saves its last offsets in Stop; the process itself may take long to exit
			// afterwards (not this property's concern): it gets 1.5 s after "stopping output", 8 s in all
			dl := time.Now().Add(8 * time.Second)
			var stopAt time.Time
			for {
				if p.waitExit(20 * time.Millisecond) {
					res.KilledBy = "term"
					break
				}
				p.drain()
				if p.offsetsAtStop && stopAt.IsZero() {
					stopAt = time.Now()
				}
				if (!stopAt.IsZero() && time.Since(stopAt) > 1500*time.Millisecond) || time.Now().After(dl) {
					res.KilledBy = "term-then-kill"
					p.kill()
					break
				}
			}
		}
	case "external":
		time.Sleep(time.Duration(k.DelayMs) * time.Millisecond)
		if !p.alive() {
			res.KilledBy = "self"
		} else {
			res.KilledBy = "external"
		}
		p.kill()
	case "hook":
		// the crash point fires by itself; if it is never reached the process is
		// killed from outside once it is idle (or after a bounded wait)
		dl := time.Now().Add(6 * time.Second)
		for {
			if p.waitExit(30 * time.Millisecond) {
				break
			}
			p.drain()
			if p.idle() || time.Now().After(dl) {
				res.KilledBy = "hook-not-reached"
				p.kill()
				break
			}
		}
		p.drain()
		if res.KilledBy == "" {
			if p.hookCrash != "" {
				res.KilledBy = "hook:" + k.Point
			} else {
				res.KilledBy = "self"
			}
		}
	case "anomaly":
		// SIGKILL at the instant the offsets file on disk holds, for a watched file, an offset that is
		// neither 0 nor the end of a line of that file (or after a bounded wait)
		dl := time.Now().Add(time.Duration(k.DelayMs) * time.Millisecond)
		for {
			if !p.alive() {
				res.KilledBy = "self"
				break
			}
			if b, err := os.ReadFile(filepath.Join(r.dir, "offsets.yaml")); err == nil {
				if bad := r.nonBoundary(parseOffsets(string(b))); bad != "" {
					if k.Nth > 0 { // let a few more commits happen
						p.waitExit(time.Duration(k.Nth) * time.Millisecond)
					}
					res.KilledBy = "anomaly"
					if !p.alive() {
						res.KilledBy = "self"
					}
					p.kill()
					r.note("killed %dms after the offsets file showed %s", k.Nth, bad)
					break
				}
			}
			if time.Now().After(dl) {
				res.KilledBy = "anomaly-not-seen"
				p.kill()
				break
			}
			time.Sleep(2 * time.Millisecond)
		}
	case "state":
		held := &r.s.Lines[op.Lines[0]]
		dl := time.Now().Add(6 * time.Second)
		for {
			if !p.alive() {
				res.KilledBy = "self"
				break
			}
			if v, ok := r.savedOffset(k.StateFile, k.StateStream); ok && v > held.End {
				res.KilledBy = "state"
				p.kill()
				break
			}
			if time.Now().After(dl) {
				res.KilledBy = "state-timeout"
				p.kill()
				break
			}
			time.Sleep(3 * time.Millisecond)
		}
	}
	r.afterDeath()
}

// afterDeath snapshots what the restart will see.
func (r *runner) afterDeath() {
	res := r.res
	p := r.p
	<-p.done
	p.drain()
	if res.KilledBy == "self" {
		res.Run1Died = p.exitDesc
	}
	res.Run1Fatals = p.fatals
	res.Run1Trunc = p.truncSeen
	res.Run1Readded = p.readded
	if p.noWatcher {
		res.EnvProblem = "run 1: can't create fs watcher"
	}
	if res.KilledBy == "self" || len(p.fatals) > 0 {
		res.Run1LogTail = sanitize(p.logTail(6000), r.dir)
	}
	res.D1 = r.readIDs()
	if b, err := os.ReadFile(filepath.Join(r.dir, "offsets.yaml")); err == nil {
		res.OffsetsAtKil = string(b)
	}
	if m, _ := filepath.Glob(filepath.Join(r.dir, "offsets.yaml.atomic.*")); len(m) > 0 {
		res.TmpFiles = len(m)
	}
	r.p = nil
}

// endRun2 waits for the second run to become idle and collects the output.
func (r *runner) endRun2() {
	res := r.res
	idle, dead := r.waitIdle(idleWatchdog)
	r.p.drain()
	res.TruncSeen = r.p.truncSeen
	res.WrongFormat = r.p.wrongFormat
	res.BadIDs = r.p.badIDs
	res.D = r.readIDs()
	if r.p.noWatcher {
		res.EnvProblem = "run 2: can't create fs watcher"
	}
	if dead {
		<-r.p.done
		r.p.drain()
		res.Run2Died = r.p.exitDesc
		res.Run2Fatals = r.p.fatals
		res.Run2LogTail = sanitize(r.p.logTail(6000), r.dir)
		return
	}
	if !idle {
		if r.allExpected(res.D) {
			res.Inconclusive = "watchdog: everything delivered but run 2 never idle"
		} else {
			res.Inconclusive = "watchdog: run 2 never idle"
		}
		res.Run2LogTail = sanitize(r.p.logTail(3000), r.dir)
		return
	}
	res.IdleReached = true
	if !r.allExpected(res.D) {
		res.Run2LogTail = sanitize(r.p.logTail(8000), r.dir)
	}
}

// vanish makes the marked file X go away the way a rotation drops its oldest generation: its name is
// unlinked, or the current generation is renamed over it. A hard link outside the watched directory
// keeps X's inode number reserved until the new file is created (REUSE): for file.d the file is gone
// either way (its name no longer leads to it), for the harness the window in which another process of
// the machine can take the freed number shrinks to microseconds.
func (r *runner) vanish(op Op) string {
	if r.xPhys < 0 {
		return "generator: VANISH without MARKX"
	}
	x := r.res.Phys[r.xPhys]
	if r.p != nil {
		r.p.drain()
		r.xSID = r.p.addedSID[x.Path]
	}
	r.holder = filepath.Join(r.dir, "hold", "x.keep")
	if err := os.Link(x.Path, r.holder); err != nil {
		return err.Error()
	}
	when := "down"
	if r.procAlive() {
		when = "running"
	}
	switch op.Raw {
	case "unlink":
		if err := os.Remove(x.Path); err != nil {
			return err.Error()
		}
		if r.cur[x.Logical] == r.xPhys {
			r.cur[x.Logical] = -1
		}
	case "rename-over":
		if r.cur[x.Logical] < 0 || r.cur[x.Logical] == r.xPhys {
			return "generator: rename-over needs a current generation besides X"
		}
		y := r.res.Phys[r.cur[x.Logical]]
		if y.Inode == 0 {
			return "generator: rename-over with an unwritten current generation"
		}
		if err := os.Rename(y.Path, x.Path); err != nil {
			return err.Error()
		}
		y.Path = x.Path
		y.Rotated = when
		r.cur[x.Logical] = -1
	default:
		return "generator: VANISH mode " + op.Raw
	}
	x.Gone, x.GoneBy = when, op.Raw
	r.note("%s (inode %d, size %d) went away by %s while file.d was %s", filepath.Base(x.Path), x.Inode, x.Size, op.Raw, when)
	if r.p != nil {
		r.p.touch()
	}
	return ""
}

// reuse frees X's inode number and creates the new watched file on it: files are created under
// unwatched names in the watched directory (the file system hands out the lowest free number of the
// directory's group, so files that got a lower number are kept until the end) until one has X's
// number; that one gets the whole content in one write and is renamed to its watched name.
func (r *runner) reuse(op Op) string {
	res := r.res
	if r.xPhys < 0 || r.holder == "" {
		return "generator: REUSE without VANISH"
	}
	if r.cur[op.File] >= 0 {
		return "generator: REUSE on a file name that exists"
	}
	x := res.Phys[r.xPhys]
	info := &reuseInfo{Where: x.Gone, FreedBy: x.GoneBy, Inode: x.Inode, OldFile: filepath.Base(x.Path), OldSize: x.Size, StaleMin: -1, StaleMax: -1}
	res.Reuse = info
	for _, e := range parseOffsets(res.OffsetsAtKil) {
		if e.Inode == x.Inode && len(e.Streams) > 0 {
			info.StaleStreams = e.Streams
			for _, v := range e.Streams {
				if info.StaleMin < 0 || v < info.StaleMin {
					info.StaleMin = v
				}
				if v > info.StaleMax {
					info.StaleMax = v
				}
			}
		}
	}
	var buf bytes.Buffer
	type span struct {
		li         int
		start, end int64
	}
	var spans []span
	for _, li := range op.Lines {
		start := int64(buf.Len())
		buf.WriteString(r.s.Lines[li].Text)
		buf.WriteByte('\n')
		spans = append(spans, span{li, start, int64(buf.Len())})
	}
	if int64(buf.Len()) <= info.StaleMax || int64(buf.Len()) <= x.Size {
		return fmt.Sprintf("generator: new file (%d bytes) not longer than the old one (%d bytes, saved offsets up to %d)", buf.Len(), x.Size, info.StaleMax)
	}
	if err := os.Remove(r.holder); err != nil {
		return err.Error()
	}
	var junk []string
	defer func() {
		for _, j := range junk {
			os.Remove(j)
		}
	}()
	for n := 0; n < 48; n++ {
		tmp := filepath.Join(r.dir, "in", fmt.Sprintf("new-%d.tmp", n))
		f, err := os.OpenFile(tmp, os.O_CREATE|os.O_EXCL|os.O_WRONLY, 0o644)
		if err != nil {
			return err.Error()
		}
		info.Creates = n + 1
		var ino uint64
		if st, err := f.Stat(); err == nil {
			if sy, ok := st.Sys().(*syscall.Stat_t); ok {
				ino = sy.Ino
			}
		}
		if ino != x.Inode {
			f.Close()
			junk = append(junk, tmp)
			continue
		}
		if _, err := f.Write(buf.Bytes()); err != nil {
			f.Close()
			return err.Error()
		}
		if err := f.Close(); err != nil {
			return err.Error()
		}
		ph := r.physOf(op.File)
		if err := os.Rename(tmp, ph.Path); err != nil {
			return err.Error()
		}
		ph.Inode, ph.Size, ph.Reused = ino, int64(buf.Len()), true
		info.NewFile, info.NewSize = filepath.Base(ph.Path), ph.Size
		for _, sp := range spans {
			r.markWritten(sp.li, sp.start, sp.end)
		}
		r.note("%s created with the inode number %d of %s (create no. %d), %d bytes at once", info.NewFile, ino, info.OldFile, n+1, ph.Size)
		if r.p != nil {
			r.p.touch()
		}
		return ""
	}
	res.NotStaged = true
	return ""
}

// ---- offsets file (independent, tolerant reader used for classification only)

type offEntry struct {
	File    string
	Inode   uint64
	Streams map[string]int64
}

func streamKey(s string) string {
	if s == "" {
		return "not_set"
	}
	return s
}

func parseOffsets(content string) []offEntry {
	var out []offEntry
	var cur *offEntry
	inStreams := false
	for _, ln := range strings.Split(content, "\n") {
		switch {
		case strings.HasPrefix(ln, "- file: "):
			out = append(out, offEntry{File: strings.TrimPrefix(ln, "- file: "), Streams: map[string]int64{}})
			cur = &out[len(out)-1]
			inStreams = false
		case cur == nil:
		case strings.HasPrefix(ln, "  inode: "):
			cur.Inode, _ = strconv.ParseUint(strings.TrimPrefix(ln, "  inode: "), 10, 64)
		case strings.HasPrefix(ln, "  streams:"):
			inStreams = true
		case inStreams && strings.HasPrefix(ln, "    "):
			t := ln[4:]
			if i := strings.LastIndex(t, ": "); i > 0 {
				v, err := strconv.ParseInt(t[i+2:], 10, 64)
				if err == nil {
					cur.Streams[t[:i]] = v
				}
			}
		}
	}
	return out
}

func sortedKeys(m map[string]int) []string {
	ks := make([]string, 0, len(m))
	for k := range m {
		ks = append(ks, k)
	}
	sort.Strings(ks)
	return ks
}
