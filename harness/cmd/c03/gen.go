package main

// Scenario generator for C03: history x configuration x kill plan, all drawn
// from one PRNG seeded per scenario (deterministic from VERIF_SEED).

import (
	"encoding/json"
	"fmt"
	"math/rand"
	"os"
	"strings"
)

// Config is the generated file.d configuration of one scenario.
type Config struct {
	Persistence   string `json:"persistence"` // async | sync
	AsyncMs       int    `json:"async_ms"`
	Workers       int    `json:"workers"`
	ReadBuf       int    `json:"read_buf"`
	Capacity      int    `json:"capacity"`
	GOMAXPROCS    int    `json:"gomaxprocs"`
	BatchSize     int    `json:"batch_size"`
	OutWorkers    int    `json:"out_workers"`
	FlushMs       int    `json:"flush_ms"`
	Chain         string `json:"chain"` // none | discard | join
	WatchChanges  bool   `json:"watch_changes"`
	EventTimeoutS int    `json:"event_timeout_s"`
	TickMs        int    `json:"tick_ms"` // maintenance interval of the input plugin and of the pipeline
}

// KillPlan says how run 1 ends.
type KillPlan struct {
	Mode    string `json:"mode"`            // hook | external | state | none
	Point   string `json:"point,omitempty"` // hook point (mode hook)
	Nth     int    `json:"nth,omitempty"`
	DelayMs int    `json:"delay_ms,omitempty"` // mode external: pause before SIGKILL
	Sleeps  string `json:"sleeps,omitempty"`   // extra VERIF_HOOKS sleep specs (schedule perturbation)
	// mode state: SIGKILL as soon as the offsets file on disk shows, for
	// logical file StateFile, a saved offset >= StateMinOff for stream StateStream.
	StateFile   int    `json:"state_file,omitempty"`
	StateStream string `json:"state_stream,omitempty"`
	StateMinOff int64  `json:"state_min_off,omitempty"`
}

// Line is one line written to a watched file.
type Line struct {
	ID      string `json:"id"`
	File    int    `json:"file"`   // logical file
	Stream  string `json:"stream"` // "" = no stream field (file.d names that stream "not_set")
	Kind    string `json:"kind"`   // plain | start | cont | drop | garbage | blank
	Text    string `json:"-"`      // bytes without the trailing newline
	Expect  bool   `json:"expect"`
	Partial bool   `json:"partial,omitempty"`

	// filled in while the history is executed
	Phys    int    `json:"phys"`  // physical file (inode) index
	Start   int64  `json:"start"` // byte offsets inside the physical file
	End     int64  `json:"end"`   // offset just after the newline
	Phase   string `json:"phase"` // pre | run1 | down | run2 (by history position)
	Alive   bool   `json:"alive"` // file.d process alive when the newline was written
	Written bool   `json:"written"`
}

// Op is one step of the history.
type Op struct {
	Kind   string `json:"kind"` // append | pbegin | pend | rotate | sleep | START1 | KILL | START2 | END | TRUNC | WAITIDLE | WAITREAD | WAITIDS | MARKX | VANISH | WAITGONE | REUSE
	File   int    `json:"file,omitempty"`
	Lines  []int  `json:"lines,omitempty"`  // indexes into Scenario.Lines
	Cut    int    `json:"cut,omitempty"`    // pbegin: number of bytes written first
	Chunks int    `json:"chunks,omitempty"` // append: number of write calls
	Ms     int    `json:"ms,omitempty"`
	Raw    string `json:"raw,omitempty"` // pbegin in truncation scenarios: an unterminated fragment that is never completed; VANISH: unlink | rename-over; WAITSAVED: "X" = the marked file
}

// Scenario is one execution plan.
type Scenario struct {
	Idx      int      `json:"idx"`
	Seed     int64    `json:"seed"`
	Tag      string   `json:"tag"`
	Kind     string   `json:"kind"` // kill | held | trunc
	Cfg      Config   `json:"cfg"`
	Kill     KillPlan `json:"kill"`
	NFiles   int      `json:"n_files"`
	Streams  []string `json:"streams"`
	Ops      []Op     `json:"ops"`
	Lines    []Line   `json:"-"`
	Features []string `json:"features"`

	// truncation scenarios
	TruncMode string `json:"trunc_mode,omitempty"` // idle | inflight
	TruncTail string `json:"trunc_tail,omitempty"` // complete | fragment | blank | garbage

	// inode-reuse scenarios
	ReuseWhere string `json:"reuse_where,omitempty"` // down | running: when the old file goes away
	ReuseBy    string `json:"reuse_by,omitempty"`    // unlink | rename-over: how its inode number is freed
	ReuseEnd   string `json:"reuse_end,omitempty"`   // kill-idle | term | kill-in-flight: how run 1 ends
}

var hookPoints = []string{
	"router.beforeOut",
	"batcher.afterOut",
	"batcher.beforeCommitWait",
	"file.commit.afterStore",
	"offsets.afterOpen",
	"offsets.write",
	"offsets.sync",
	"offsets.beforeRename",
	"offsets.afterRename",
}

// the third name carries the separator of the offsets file ("name: offset") inside the stream value
var streamNames = []string{"stdout", "stderr", "s: 3", ""}

// hostile padding pieces: escapes, multi-byte runes, JSON look-alikes.
var padPieces = []string{
	"a", "bc", " ", "x y z", "\"", "\\", "\n", "\t", "\r", "é", "ж", "日本語", "😀", " ",
	"{\"k\":1}", "}", "{", "[", "]", ":", ",", "stream", "\\n", "0123456789", "<&>", " ", "%s", "/",
}

type gen struct {
	r   *rand.Rand
	s   *Scenario
	seq int
	// per logical file
	pending    []int // index of a line whose first part is written, or -1
	openGroup  []map[string]bool
	fileStream [][]string
}

func (g *gen) pad(max int) string {
	var b strings.Builder
	n := 0
	switch g.r.Intn(10) {
	case 0:
		n = 0
	case 1, 2, 3, 4:
		n = g.r.Intn(24)
	case 5, 6, 7:
		n = g.r.Intn(200)
	default:
		n = g.r.Intn(max + 1)
	}
	for b.Len() < n {
		b.WriteString(padPieces[g.r.Intn(len(padPieces))])
	}
	return b.String()
}

// newLine creates a line for logical file f; kind "" lets the chain decide.
func (g *gen) newLine(f int, stream string, kind string) int {
	s := g.s
	g.seq++
	id := fmt.Sprintf("@%s-%06d@", s.Tag, g.seq)
	l := Line{ID: id, File: f, Stream: stream, Kind: kind, Expect: true, Phys: -1}
	maxPad := 3 * s.Cfg.ReadBuf
	if maxPad > 6000 {
		maxPad = 6000
	}
	var logv string
	switch kind {
	case "start":
		logv = "START " + id + " " + g.pad(maxPad)
	case "cont":
		logv = "  CONT " + id + " " + g.pad(maxPad)
	case "garbage":
		l.Expect = false
		l.Text = "not json " + id + " {" + strings.ReplaceAll(g.pad(40), "\n", " ")
		l.Text = strings.ReplaceAll(l.Text, "\r", " ")
		s.Lines = append(s.Lines, l)
		return len(s.Lines) - 1
	case "blank":
		l.Expect = false
		l.Text = ""
		s.Lines = append(s.Lines, l)
		return len(s.Lines) - 1
	default:
		logv = "L " + id + " " + g.pad(maxPad)
	}
	lb, _ := json.Marshal(logv)
	var parts []string
	parts = append(parts, `"log":`+string(lb))
	if stream != "" {
		sb, _ := json.Marshal(stream)
		parts = append(parts, `"stream":`+string(sb))
	}
	if kind == "drop" {
		parts = append(parts, `"drop":"yes"`)
		l.Expect = false
	}
	if g.r.Intn(4) == 0 {
		parts = append(parts, fmt.Sprintf(`"n":%d`, g.r.Intn(1000)))
	}
	if g.r.Intn(6) == 0 {
		parts = append(parts, `"nested":{"stream":"other","a":[1,2,{"b":null}]}`)
	}
	g.r.Shuffle(len(parts), func(i, j int) { parts[i], parts[j] = parts[j], parts[i] })
	l.Text = "{" + strings.Join(parts, ",") + "}"
	s.Lines = append(s.Lines, l)
	return len(s.Lines) - 1
}

// burst makes n lines for file f according to the chain.
func (g *gen) burst(f, n int) []int {
	var out []int
	streams := g.fileStream[f]
	for len(out) < n {
		st := streams[g.r.Intn(len(streams))]
		x := g.r.Intn(100)
		switch {
		case g.s.Cfg.Chain == "join" && x < 22:
			out = append(out, g.newLine(f, st, "start"))
			g.openGroup[f][st] = true
			k := g.r.Intn(4)
			for i := 0; i < k; i++ {
				// lines of other streams may sit between the parts of a group
				if g.r.Intn(3) == 0 && len(streams) > 1 {
					o := streams[g.r.Intn(len(streams))]
					if o != st {
						out = append(out, g.newLine(f, o, "plain"))
						g.openGroup[f][o] = false
					}
				}
				out = append(out, g.newLine(f, st, "cont"))
			}
		case g.s.Cfg.Chain == "join" && x < 30 && g.openGroup[f][st]:
			out = append(out, g.newLine(f, st, "cont"))
		case g.s.Cfg.Chain == "discard" && x < 25:
			out = append(out, g.newLine(f, st, "drop"))
		case x >= 96:
			out = append(out, g.newLine(f, st, "garbage"))
		case x >= 93:
			out = append(out, g.newLine(f, st, "blank"))
		default:
			out = append(out, g.newLine(f, st, "plain"))
			g.openGroup[f][st] = false
		}
	}
	return out
}

func (g *gen) add(op Op) { g.s.Ops = append(g.s.Ops, op) }

func (g *gen) feature(f string) {
	for _, x := range g.s.Features {
		if x == f {
			return
		}
	}
	g.s.Features = append(g.s.Features, f)
}

func (g *gen) appendOp(f, n int) {
	if g.pending[f] >= 0 {
		g.pendOp(f)
		return
	}
	lines := g.burst(f, n)
	g.add(Op{Kind: "append", File: f, Lines: lines, Chunks: 1 + g.r.Intn(3)})
}

func (g *gen) pbeginOp(f int) {
	if g.pending[f] >= 0 {
		return
	}
	streams := g.fileStream[f]
	li := g.newLine(f, streams[g.r.Intn(len(streams))], "plain")
	g.openGroup[f][g.s.Lines[li].Stream] = false
	g.s.Lines[li].Partial = true
	n := len(g.s.Lines[li].Text)
	cut := 1 + g.r.Intn(n) // 1..n : n means everything except the newline
	g.add(Op{Kind: "pbegin", File: f, Lines: []int{li}, Cut: cut})
	g.pending[f] = li
}

func (g *gen) pendOp(f int) {
	if g.pending[f] < 0 {
		return
	}
	g.add(Op{Kind: "pend", File: f, Lines: []int{g.pending[f]}})
	g.pending[f] = -1
}

func (g *gen) sleepOp(max int) {
	if max <= 0 {
		return
	}
	g.add(Op{Kind: "sleep", Ms: g.r.Intn(max + 1)})
}

func pick[T any](r *rand.Rand, xs ...T) T { return xs[r.Intn(len(xs))] }

func genConfig(r *rand.Rand, thorough bool) Config {
	c := Config{
		Persistence:   pick(r, "async", "sync"),
		AsyncMs:       pick(r, 20, 50, 100, 300, 1000),
		Workers:       1 + r.Intn(4),
		ReadBuf:       pick(r, 64, 100, 128, 257, 512, 1024, 4096),
		Capacity:      pick(r, 4, 8, 16, 32, 64),
		GOMAXPROCS:    1 + r.Intn(4),
		OutWorkers:    1 + r.Intn(4),
		FlushMs:       pick(r, 50, 100, 200, 300),
		Chain:         pick(r, "none", "none", "discard", "join"),
		WatchChanges:  r.Intn(3) == 0,
		EventTimeoutS: 2,
		TickMs:        100,
	}
	if thorough {
		c.TickMs = pick(r, 50, 100, 100, 200)
	}
	c.BatchSize = 1 + r.Intn(16)
	if c.BatchSize > c.Capacity/2 {
		c.BatchSize = c.Capacity / 2
	}
	if c.BatchSize < 1 {
		c.BatchSize = 1
	}
	return c
}

func newGen(idx int, seed int64, kind string) *gen {
	r := rand.New(rand.NewSource(seed))
	s := &Scenario{Idx: idx, Seed: seed, Kind: kind, Tag: fmt.Sprintf("k%d", idx)}
	return &gen{r: r, s: s}
}

func (g *gen) initFiles(nFiles int, streamsPerFile func() int) {
	s := g.s
	s.NFiles = nFiles
	g.pending = make([]int, nFiles)
	g.openGroup = make([]map[string]bool, nFiles)
	g.fileStream = make([][]string, nFiles)
	seen := map[string]bool{}
	for f := 0; f < nFiles; f++ {
		g.pending[f] = -1
		g.openGroup[f] = map[string]bool{}
		k := streamsPerFile()
		perm := g.r.Perm(len(streamNames))
		for i := 0; i < k; i++ {
			st := streamNames[perm[i]]
			g.fileStream[f] = append(g.fileStream[f], st)
			if !seen[st] {
				seen[st] = true
				s.Streams = append(s.Streams, st)
			}
		}
	}
}

// finish completes pending partial lines and closes open join groups of the
// current physical files so that nothing has to wait for the event time-out.
func (g *gen) finish() {
	for f := 0; f < g.s.NFiles; f++ {
		g.finishFile(f)
	}
}

func (g *gen) finishFile(f int) {
	g.pendOp(f)
	var term []int
	for _, st := range g.fileStream[f] {
		if g.openGroup[f][st] {
			term = append(term, g.newLine(f, st, "plain"))
			g.openGroup[f][st] = false
		}
	}
	if len(term) > 0 {
		g.add(Op{Kind: "append", File: f, Lines: term, Chunks: 1})
	}
}

// genKill builds a random kill/restart scenario. point=="" means external kill.
func genKill(idx int, seed int64, point string, persistence string, thorough bool) *Scenario {
	g := newGen(idx, seed, "kill")
	s := g.s
	r := g.r
	s.Cfg = genConfig(r, thorough)
	if persistence != "" {
		s.Cfg.Persistence = persistence
	}
	g.initFiles(1+r.Intn(3), func() int { return 1 + r.Intn(3) })
	rotated := make([]bool, s.NFiles)

	nPre := 0
	for f := 0; f < s.NFiles; f++ {
		if r.Intn(10) < 7 {
			n := 3 + r.Intn(40)
			g.appendOp(f, n)
			nPre += n
			if r.Intn(8) == 0 {
				g.pbeginOp(f)
				g.feature("partial-before-start")
			}
		}
	}
	g.add(Op{Kind: "START1"})

	nLive := 0
	steps := 2 + r.Intn(6)
	for i := 0; i < steps; i++ {
		f := r.Intn(s.NFiles)
		switch x := r.Intn(100); {
		case x < 55:
			n := 1 + r.Intn(15)
			g.appendOp(f, n)
			nLive += n
		case x < 67:
			g.pbeginOp(f)
			g.feature("partial-run1")
		case x < 77:
			g.pendOp(f)
		case x < 87 && !rotated[f] && g.pending[f] < 0:
			g.add(Op{Kind: "rotate", File: f})
			rotated[f] = true
			g.feature("rotate-running")
			n := 1 + r.Intn(10)
			g.appendOp(f, n)
			nLive += n
		default:
			g.sleepOp(80)
		}
		g.sleepOp(40)
	}

	// kill plan
	total := nPre + nLive
	if total < 2 {
		g.appendOp(0, 6)
		total += 6
	}
	if point == "" {
		s.Kill = KillPlan{Mode: "external", DelayMs: pick(r, 0, 5, 20, 60, 150, 400, 900)}
	} else {
		nth := 1
		switch point {
		case "router.beforeOut", "file.commit.afterStore":
			nth = 1 + r.Intn(total*2/3+1)
		case "batcher.afterOut", "batcher.beforeCommitWait":
			nth = 1 + r.Intn(total/s.Cfg.BatchSize/2+2)
		default: // offsets.*
			if s.Cfg.Persistence == "sync" {
				nth = 1 + r.Intn(total/2+1)
			} else {
				nth = 1 + r.Intn(3)
			}
		}
		s.Kill = KillPlan{Mode: "hook", Point: point, Nth: nth}
	}
	if r.Intn(2) == 0 {
		// schedule perturbation between processors / output workers
		var sl []string
		for _, p := range []string{"router.beforeOut", "batcher.afterOut", "batcher.beforeCommitWait"} {
			if p != point && r.Intn(2) == 0 {
				sl = append(sl, fmt.Sprintf("%s=sleep:%d:%.2f", p, pick(r, 200, 1000, 3000, 8000), pick(r, 0.1, 0.3, 0.6)))
			}
		}
		s.Kill.Sleeps = strings.Join(sl, ";")
		if len(sl) > 0 {
			g.feature("sleeps")
		}
	}
	g.add(Op{Kind: "KILL"})

	// while down
	steps = r.Intn(5)
	for i := 0; i < steps; i++ {
		f := r.Intn(s.NFiles)
		switch x := r.Intn(100); {
		case x < 50:
			g.appendOp(f, 1+r.Intn(12))
			g.feature("append-down")
		case x < 62:
			g.pbeginOp(f)
			g.feature("partial-down")
		case x < 74:
			if g.pending[f] >= 0 {
				g.feature("partial-completed-down")
			}
			g.pendOp(f)
		case x < 92 && !rotated[f] && g.pending[f] < 0:
			g.add(Op{Kind: "rotate", File: f})
			rotated[f] = true
			g.feature("rotate-down")
			g.appendOp(f, 1+r.Intn(10))
		default:
		}
	}
	g.add(Op{Kind: "START2"})
	steps = r.Intn(4)
	for i := 0; i < steps; i++ {
		f := r.Intn(s.NFiles)
		switch x := r.Intn(100); {
		case x < 60:
			g.appendOp(f, 1+r.Intn(10))
			g.feature("append-run2")
		case x < 80:
			g.pendOp(f)
		default:
			g.sleepOp(100)
		}
		g.sleepOp(40)
	}
	g.finish()
	g.add(Op{Kind: "END"})
	return s
}

// genHeld builds the directed scenario "a stream whose first ever line is in
// flight at the kill": the join action holds the START line of stream `late`
// (nothing of that stream has ever been committed) while lines of another
// stream behind it in the same file are delivered, committed and saved; the
// process is killed as soon as the offsets file on disk shows the other
// stream beyond the held line. variant 1 uses no join: the late stream's
// line is merely the last but one line and the kill comes from a hook.
func genHeld(idx int, seed int64, persistence string, variant int, thorough bool) *Scenario {
	g := newGen(idx, seed, "held")
	s := g.s
	r := g.r
	s.Cfg = genConfig(r, thorough)
	s.Cfg.Persistence = persistence
	s.Cfg.Chain = "join"
	s.Cfg.EventTimeoutS = 8
	if s.Cfg.AsyncMs > 100 {
		s.Cfg.AsyncMs = 50
	}
	s.NFiles = 1
	g.pending = []int{-1}
	g.openGroup = []map[string]bool{{}}
	early, late := "stdout", "stderr"
	if r.Intn(2) == 0 {
		early, late = "s: 3", ""
	}
	g.fileStream = [][]string{{early, late}}
	s.Streams = []string{early, late}
	g.feature("late-stream-held-by-join")

	var pre []int
	a := r.Intn(6)
	for i := 0; i < a; i++ {
		pre = append(pre, g.newLine(0, early, "plain"))
	}
	held := g.newLine(0, late, "start")
	pre = append(pre, held)
	b := 2 + r.Intn(8)
	for i := 0; i < b; i++ {
		pre = append(pre, g.newLine(0, early, "plain"))
	}
	preFirst := variant%2 == 0
	if preFirst {
		g.add(Op{Kind: "append", File: 0, Lines: pre, Chunks: 1})
		g.add(Op{Kind: "START1"})
	} else {
		g.add(Op{Kind: "START1"})
		g.sleepOp(200)
		g.add(Op{Kind: "append", File: 0, Lines: pre, Chunks: 1 + r.Intn(2)})
	}
	// the kill waits until the early stream's saved offset is beyond the held line
	s.Kill = KillPlan{Mode: "state", StateFile: 0, StateStream: early, StateMinOff: -1 /* resolved at run time: end of the held line */}
	g.add(Op{Kind: "KILL", Lines: []int{held}})
	// while down: the rest of the group and a closing line of the late stream
	var down []int
	k := 1 + r.Intn(3)
	for i := 0; i < k; i++ {
		down = append(down, g.newLine(0, late, "cont"))
	}
	down = append(down, g.newLine(0, late, "plain"))
	down = append(down, g.newLine(0, early, "plain"))
	g.add(Op{Kind: "append", File: 0, Lines: down, Chunks: 1})
	g.add(Op{Kind: "START2"})
	g.finish()
	g.add(Op{Kind: "END"})
	return s
}

// genBusy builds the directed scenario "writer busy while the reader works,
// should_watch_file_changes on": a large file is being read (small read
// buffer, so one reading round lasts long) while single lines are appended
// every few milliseconds (one write notification each); the process is
// killed at the instant the offsets file on disk holds an offset that is no
// line end of the file (or after a bounded wait).
func genBusy(idx int, seed int64, persistence string, thorough bool) *Scenario {
	g := newGen(idx, seed, "busy")
	s := g.s
	r := g.r
	s.Cfg = genConfig(r, thorough)
	s.Cfg.Persistence = persistence
	s.Cfg.AsyncMs = 20
	s.Cfg.Chain = "none"
	s.Cfg.WatchChanges = true
	s.Cfg.ReadBuf = pick(r, 64, 100, 128)
	s.Cfg.Workers = 1 + r.Intn(2)
	s.Cfg.FlushMs = 50
	g.initFiles(1, func() int { return 1 + r.Intn(2) })
	g.feature("busy-writer-with-watch")
	g.appendOp(0, 200+r.Intn(600))
	g.add(Op{Kind: "START1"})
	g.sleepOp(30)
	n := 150 + r.Intn(250)
	lines := g.burst(0, n)
	g.add(Op{Kind: "BUSY", File: 0, Lines: lines, Ms: r.Intn(3)})
	s.Kill = KillPlan{Mode: "anomaly", DelayMs: 1200}
	g.add(Op{Kind: "KILL"})
	g.appendOp(0, 1+r.Intn(10))
	g.add(Op{Kind: "START2"})
	g.finish()
	g.add(Op{Kind: "END"})
	return s
}

// genStale builds the directed scenario "write notification handled late":
// should_watch_file_changes on; the watcher goroutine is held for a while
// between its Lstat of the file and the truncation check (sleep armed at the
// hook point file.watcher.afterStat - on a loaded machine the scheduler does
// the same, see NOTES.md), the file keeps growing and a worker is in the
// middle of a long reading round when the check finally compares the current
// read position with the old size. No file is ever truncated. The process is
// killed shortly after the offsets file on disk holds an offset that is no
// line end of the file.
func genStale(idx int, seed int64, thorough bool) *Scenario {
	g := newGen(idx, seed, "stale")
	s := g.s
	r := g.r
	s.Cfg = genConfig(r, thorough)
	s.Cfg.Persistence = "sync" // every commit is followed by a save + fsync: long reading rounds
	s.Cfg.Chain = "none"
	s.Cfg.WatchChanges = true
	s.Cfg.Workers = 1 + r.Intn(2)
	s.Cfg.Capacity = pick(r, 8, 16, 32)
	s.Cfg.BatchSize = 1 + r.Intn(4)
	s.Cfg.FlushMs = 50
	s.Cfg.TickMs = 100
	if s.Cfg.GOMAXPROCS < 2 {
		s.Cfg.GOMAXPROCS = 2
	}
	g.initFiles(1, func() int { return 1 + r.Intn(2) })
	g.feature("write-notification-handled-late")
	g.appendOp(0, 3+r.Intn(10))
	g.add(Op{Kind: "START1"})
	g.add(Op{Kind: "WAITIDLE"})
	g.add(Op{Kind: "MARKNOTIFY"})
	g.appendOp(0, 2+r.Intn(5)) // A: its notification takes the old size, then waits
	g.add(Op{Kind: "WAITNOTIFY"})
	g.appendOp(0, 5+r.Intn(10)) // B
	g.add(Op{Kind: "sleep", Ms: 10 + r.Intn(30)})
	g.appendOp(0, 800+r.Intn(400)) // C: a long reading round
	s.Kill = KillPlan{Mode: "anomaly", DelayMs: 2500, Nth: 40 + r.Intn(80), Sleeps: "file.watcher.afterStat=sleep:400000:1.0"}
	g.add(Op{Kind: "KILL"})
	g.appendOp(0, 1+r.Intn(5))
	g.add(Op{Kind: "START2"})
	g.finish()
	g.add(Op{Kind: "END"})
	return s
}

// genRotRace builds the directed scenario "file rotated between the watcher's
// Lstat and the open of the new job": the start-up walk has taken the stat
// of f0.log and is held (sleep armed at file.watcher.afterStat; a loaded
// machine does the same, see NOTES.md) while f0.log is renamed away and a
// new f0.log is created; the process is killed as soon as the offsets file on
// disk holds, under the inode of the renamed file, an offset that is no line
// end of that file.
func genRotRace(idx int, seed int64, thorough bool) *Scenario {
	g := newGen(idx, seed, "rotrace")
	s := g.s
	r := g.r
	s.Cfg = genConfig(r, thorough)
	if s.Cfg.AsyncMs > 100 {
		s.Cfg.AsyncMs = 50
	}
	g.initFiles(1, func() int { return 1 + r.Intn(2) })
	g.feature("rotation-between-stat-and-open")
	g.feature("rotate-running")
	g.appendOp(0, 30+r.Intn(40))
	g.add(Op{Kind: "START1"})
	g.add(Op{Kind: "WAITCREATE"})
	g.add(Op{Kind: "rotate", File: 0})
	g.appendOp(0, 3+r.Intn(4))
	// SIGKILL as soon as the offsets file holds, under the inode of the renamed file, an offset that is
	// no line end of that file (or after a bounded wait)
	s.Kill = KillPlan{Mode: "anomaly", DelayMs: 2500, Sleeps: "file.watcher.afterStat=sleep:300000:1.0"}
	g.add(Op{Kind: "KILL"})
	if r.Intn(2) == 0 {
		g.appendOp(0, 1+r.Intn(5))
	}
	g.add(Op{Kind: "START2"})
	g.finish()
	g.add(Op{Kind: "END"})
	return s
}

// genHeldTail builds the directed scenario "unterminated line held across a
// maintenance reopen": the writer stops in the middle of a line, file.d reads
// the fragment, goes idle, and its maintenance closes and reopens the fully
// read file (at least three ticks); only then is the line completed and more
// lines follow; later the process is killed (or stopped) and restarted.
func genHeldTail(idx int, seed int64, variant int, thorough bool) *Scenario {
	g := newGen(idx, seed, "heldtail")
	s := g.s
	r := g.r
	s.Cfg = genConfig(r, thorough)
	s.Cfg.TickMs = pick(r, 50, 100)
	if s.Cfg.AsyncMs > 100 {
		s.Cfg.AsyncMs = pick(r, 20, 50)
	}
	if s.Cfg.Chain == "join" {
		s.Cfg.Chain = "none"
	}
	g.initFiles(1+r.Intn(2), func() int { return 1 + r.Intn(2) })
	g.feature("partial-held-across-maintenance-reopen")
	for f := 0; f < s.NFiles; f++ {
		g.appendOp(f, 2+r.Intn(12))
	}
	preHeld := variant%3 == 2
	if preHeld { // the fragment is already there when file.d starts
		g.pbeginOp(0)
	}
	g.add(Op{Kind: "START1"})
	if !preHeld {
		g.sleepOp(100)
		if r.Intn(2) == 0 {
			g.appendOp(0, 1+r.Intn(6))
		}
		g.pbeginOp(0)
	}
	g.add(Op{Kind: "HELDIDLE"})
	g.pendOp(0)
	g.appendOp(0, 2+r.Intn(8)) // later lines move the committed offset past the completed line
	if s.NFiles > 1 {
		g.appendOp(1, 1+r.Intn(5))
	}
	if r.Intn(3) == 0 { // a second fragment, held again
		g.pbeginOp(0)
		g.add(Op{Kind: "HELDIDLE"})
		g.pendOp(0)
		g.appendOp(0, 1+r.Intn(5))
	}
	switch variant % 2 {
	case 0:
		g.add(Op{Kind: "WAITIDLE"}) // everything of run 1 committed and saved before the end
		s.Kill = KillPlan{Mode: pick(r, "external", "term"), DelayMs: s.Cfg.AsyncMs + 60}
	default:
		s.Kill = KillPlan{Mode: "external", DelayMs: pick(r, 0, 20, 80, 200)}
	}
	g.add(Op{Kind: "KILL"})
	if r.Intn(2) == 0 {
		g.appendOp(0, 1+r.Intn(6))
	}
	g.add(Op{Kind: "START2"})
	g.finish()
	g.add(Op{Kind: "END"})
	return s
}

// genDownTrunc builds the directed scenario "truncation while file.d is down"
// (copytruncate between two runs): content A is delivered, committed and saved,
// the process is stopped (SIGTERM) or killed, the file is truncated and gets
// shorter new content B (below every saved offset of the file), file.d is
// restarted on the persisted offsets file; later content C grows past the old
// size. Lines of A are not expected (README caveat: whatever was not yet
// delivered when the file was truncated is gone); B and C are.
func genDownTrunc(idx int, seed int64, variant int, thorough bool) *Scenario {
	g := newGen(idx, seed, "downtrunc")
	s := g.s
	r := g.r
	s.Cfg = genConfig(r, thorough)
	s.Cfg.Chain = "none"
	if s.Cfg.AsyncMs > 100 {
		s.Cfg.AsyncMs = pick(r, 20, 50, 100)
	}
	s.Cfg.WatchChanges = variant%2 == 1
	nStreams := 1 + r.Intn(2)
	g.initFiles(1+r.Intn(2), func() int { return nStreams })
	g.feature("truncation-while-down")
	streams := g.fileStream[0]
	var A []int
	nA := 16 + r.Intn(20)
	for i := 0; i < nA; i++ {
		A = append(A, g.newLine(0, streams[r.Intn(len(streams))], "plain"))
	}
	for _, st := range streams { // every stream ends near the end of the file
		A = append(A, g.newLine(0, st, "plain"))
	}
	for _, li := range A {
		s.Lines[li].Expect = false
	}
	preFirst := r.Intn(2) == 0
	if preFirst {
		g.add(Op{Kind: "append", File: 0, Lines: A, Chunks: 1 + r.Intn(2)})
	}
	if s.NFiles > 1 {
		g.appendOp(1, 3+r.Intn(10))
	}
	g.add(Op{Kind: "START1"})
	if !preFirst {
		g.sleepOp(120)
		g.add(Op{Kind: "append", File: 0, Lines: A, Chunks: 1 + r.Intn(2)})
	}
	switch (variant / 2) % 3 {
	case 0: // idle, then SIGKILL
		g.add(Op{Kind: "WAITIDLE"})
		g.add(Op{Kind: "WAITSAVED", File: 0, Ms: 250})
		s.Kill = KillPlan{Mode: "external", DelayMs: 0}
		g.feature("killed-when-idle")
	case 1: // idle, then graceful stop (Stop saves the last offsets)
		g.add(Op{Kind: "WAITIDLE"})
		g.add(Op{Kind: "WAITSAVED", File: 0, Ms: 250})
		s.Kill = KillPlan{Mode: "term", DelayMs: 0}
		g.feature("stopped-with-SIGTERM")
	default: // killed as soon as every stream of the file is saved beyond 250 bytes
		g.add(Op{Kind: "WAITSAVED", File: 0, Ms: 250})
		s.Kill = KillPlan{Mode: "external", DelayMs: 0}
		g.feature("killed-in-flight")
	}
	g.add(Op{Kind: "KILL"})
	g.add(Op{Kind: "TRUNC", File: 0})
	nB := 1 + r.Intn(3)
	var B []int
	for i := 0; i < nB; i++ {
		st := streams[r.Intn(len(streams))]
		g.seq++
		id := fmt.Sprintf("@%s-%06d@", s.Tag, g.seq)
		l := Line{ID: id, File: 0, Stream: st, Kind: "plain", Expect: true, Phys: -1}
		if st != "" {
			l.Text = fmt.Sprintf(`{"log":"B %s","stream":%q}`, id, st)
		} else {
			l.Text = fmt.Sprintf(`{"log":"B %s"}`, id)
		}
		s.Lines = append(s.Lines, l)
		B = append(B, len(s.Lines)-1)
	}
	g.add(Op{Kind: "append", File: 0, Lines: B, Chunks: 1})
	if s.NFiles > 1 && r.Intn(2) == 0 {
		g.appendOp(1, 1+r.Intn(5))
	}
	g.add(Op{Kind: "START2"})
	g.add(Op{Kind: "WAITIDS", File: 0, Lines: B})
	var C []int
	nC := nA + 6 + r.Intn(10)
	for i := 0; i < nC; i++ {
		C = append(C, g.newLine(0, streams[r.Intn(len(streams))], "plain"))
	}
	g.add(Op{Kind: "append", File: 0, Lines: C, Chunks: 1 + r.Intn(2)})
	g.finish()
	g.add(Op{Kind: "END"})
	return s
}

// genInodeReuse builds the directed scenario "a new file obtains the inode
// number of a file that went away": run 1 reads file X completely and persists
// its offsets (X's inode is a key of the offsets file); run 1 ends (SIGKILL when
// idle, SIGTERM, or - thorough - SIGKILL in flight); X goes away the way a
// rotation with a bounded number of generations drops its oldest generation:
// either it is unlinked (logrotate `rotate N`) or the next generation is renamed
// over it (`mv f0.log f0.r1.log` with f0.r1.log = X existing); this happens while
// file.d is down, or while run 2 is running (after its start phase; the harness
// then waits for file.d's own "job ... deleted" line). Run 2 is started on the
// persisted offsets file with offsets_op=continue (the default). After the start
// phase of run 2 (idle) a new watched file appears that has X's inode number
// (the harness keeps the number reserved through a hard link outside the
// watched directory and frees it right before creating the new file; if the
// file system hands the number to somebody else the scenario is repeated /
// inconclusive) and is already longer than every offset saved for X (written
// under an unwatched name and renamed in). Every line of the new file is
// expected, as are later appends to it.
func genInodeReuse(idx int, seed int64, variant int, thorough bool) *Scenario {
	g := newGen(idx, seed, "inodereuse")
	s := g.s
	r := g.r
	s.Cfg = genConfig(r, thorough)
	if s.Cfg.Chain == "join" {
		s.Cfg.Chain = "none"
	}
	if s.Cfg.AsyncMs > 100 {
		s.Cfg.AsyncMs = pick(r, 20, 50, 100)
	}
	s.Cfg.TickMs = pick(r, 50, 100)
	where := []string{"down", "running"}[variant%2]
	by := []string{"unlink", "rename-over"}[(variant/2)%2]
	end := []string{"kill-idle", "term"}[(variant/4)%2]
	if thorough && (variant/8)%3 == 2 && by == "unlink" && where == "down" {
		end = "kill-in-flight"
	}
	s.ReuseWhere, s.ReuseBy, s.ReuseEnd = where, by, end
	nStreams := 1 + r.Intn(3)
	// logical files: 0 = the name of X (and of its successors), 1 = a bystander, 2 = another name for the new file
	g.initFiles(3, func() int { return nStreams })
	g.feature("new-file-on-recycled-inode")
	g.feature("old-file-gone-" + where)
	g.feature("inode-freed-by-" + by)
	streams := g.fileStream[0]

	var X []int
	nX := 8 + r.Intn(20)
	if end == "kill-in-flight" {
		nX = 16 + r.Intn(20)
	}
	for i := 0; i < nX; i++ {
		X = append(X, g.newLine(0, streams[r.Intn(len(streams))], "plain"))
	}
	for _, st := range streams { // every stream ends near the end of the file: large saved offsets
		X = append(X, g.newLine(0, st, "plain"))
	}
	sizeX := 0
	for _, li := range X {
		sizeX += len(s.Lines[li].Text) + 1
		if end == "kill-in-flight" {
			s.Lines[li].Expect = false // the file is deleted while lines of it are undelivered: nobody can deliver them
		}
	}
	// rename-over: X is the older generation f0.r1.log and Y the current f0.log already when file.d starts
	// (a rename while file.d runs makes its maintenance drop the job of the renamed file a few ticks later -
	// "filename was changed" joins directory and name without a separator - and with it X's entry in the
	// next saves; no line is lost by that, but this family wants the entry)
	preFirst := r.Intn(2) == 0 || by == "rename-over"
	if preFirst {
		g.add(Op{Kind: "append", File: 0, Lines: X, Chunks: 1 + r.Intn(2)})
		g.add(Op{Kind: "MARKX", File: 0})
		if by == "rename-over" {
			g.add(Op{Kind: "rotate", File: 0})
			g.appendOp(0, 2+r.Intn(8))
			g.finishFile(0)
		}
	}
	if r.Intn(2) == 0 {
		g.appendOp(1, 2+r.Intn(8))
	}
	g.add(Op{Kind: "START1"})
	if !preFirst {
		g.sleepOp(100)
		g.add(Op{Kind: "append", File: 0, Lines: X, Chunks: 1 + r.Intn(2)})
		g.add(Op{Kind: "MARKX", File: 0})
	}
	if by == "rename-over" && r.Intn(2) == 0 {
		g.appendOp(0, 1+r.Intn(6)) // Y grows while running
		g.finishFile(0)
	}
	switch end {
	case "kill-idle":
		g.add(Op{Kind: "WAITIDLE"})
		g.add(Op{Kind: "WAITSAVED", File: 0, Raw: "X", Ms: -1})
		s.Kill = KillPlan{Mode: "external", DelayMs: 0}
		g.feature("killed-when-idle")
	case "term":
		g.add(Op{Kind: "WAITIDLE"})
		g.add(Op{Kind: "WAITSAVED", File: 0, Raw: "X", Ms: -1})
		s.Kill = KillPlan{Mode: "term", DelayMs: 0}
		g.feature("stopped-with-SIGTERM")
	default:
		g.add(Op{Kind: "WAITSAVED", File: 0, Raw: "X", Ms: 250})
		s.Kill = KillPlan{Mode: "external", DelayMs: 0}
		g.feature("killed-in-flight")
	}
	g.add(Op{Kind: "KILL"})
	if where == "down" {
		g.add(Op{Kind: "VANISH", File: 0, Raw: by})
	}
	if r.Intn(2) == 0 {
		g.appendOp(1, 1+r.Intn(6))
		g.feature("append-down")
	}
	// probe only (not part of any tier, see NOTES.md): the new file appears while file.d is still down
	beforeStart := os.Getenv("C03_PROBE_REUSE_BEFORE_START") != "" && where == "down"
	if !beforeStart {
		g.add(Op{Kind: "START2"})
		g.add(Op{Kind: "WAITIDLE"}) // the start phase of run 2 is over
	}
	if where == "running" {
		g.add(Op{Kind: "VANISH", File: 0, Raw: by})
		g.add(Op{Kind: "WAITGONE"})
	}
	fNew := 0
	if by == "unlink" && r.Intn(2) == 0 {
		fNew = 2
		g.feature("new-file-has-another-name")
	}
	var N []int
	sizeN := 0
	for sizeN <= sizeX+64 || len(N) < 5 {
		for _, li := range g.burst(fNew, 1+r.Intn(6)) {
			N = append(N, li)
			sizeN += len(s.Lines[li].Text) + 1
		}
	}
	g.add(Op{Kind: "REUSE", File: fNew, Lines: N})
	if beforeStart {
		g.feature("PROBE-new-file-created-while-down")
		g.add(Op{Kind: "START2"})
	}
	g.sleepOp(150)
	if r.Intn(3) > 0 {
		g.appendOp(fNew, 1+r.Intn(8))
		g.feature("append-run2")
	}
	if r.Intn(2) == 0 {
		g.appendOp(1, 1+r.Intn(5))
	}
	g.finish()
	g.add(Op{Kind: "END"})
	return s
}

// genTrunc builds a truncation scenario (no kill): content A, truncation,
// shorter content B (below the old read offset), then content C growing past
// the old size. Families:
//
//	idle      truncation after file.d went idle on A; 1-2 streams
//	inflight1 truncation while the events of A wait in the output batcher; one stream
//	inflight2 the same with two streams in the file, A ending with a single
//	          line of the second stream and B written to the first stream
func genTrunc(idx int, seed int64, watch bool, mode, tail string, thorough bool) *Scenario {
	g := newGen(idx, seed, "trunc")
	s := g.s
	r := g.r
	s.Cfg = genConfig(r, thorough)
	s.Cfg.Chain = "none"
	s.Cfg.WatchChanges = watch
	s.TruncMode, s.TruncTail = mode, tail
	s.Kill = KillPlan{Mode: "none"}
	if mode != "idle" {
		// events of A stay in the output batcher while the truncation is detected
		s.Cfg.Capacity = 64
		s.Cfg.BatchSize = 32
		s.Cfg.FlushMs = 5000 // the batch timer runs from the creation of the batch (process start): the window must cover read A .. read B
	}
	switch mode {
	case "idle":
		g.initFiles(1, func() int { return 1 + r.Intn(2) })
	case "inflight1":
		g.initFiles(1, func() int { return 1 })
	default:
		g.initFiles(1, func() int { return 2 })
	}
	g.feature("trunc-" + mode)
	g.feature("tail-" + tail)
	streams := g.fileStream[0]

	nA := 6 + r.Intn(10)
	var A []int
	for i := 0; i < nA; i++ {
		st := streams[r.Intn(len(streams))]
		if mode == "inflight2" {
			st = streams[0]
			if i == nA-1 {
				st = streams[1]
			}
		}
		A = append(A, g.newLine(0, st, "plain"))
	}
	switch tail {
	case "blank":
		A = append(A, g.newLine(0, "", "blank"))
	case "garbage":
		A = append(A, g.newLine(0, "", "garbage"))
	}
	preFirst := r.Intn(2) == 0
	if preFirst {
		g.add(Op{Kind: "append", File: 0, Lines: A, Chunks: 1})
	}
	g.add(Op{Kind: "START1"})
	if !preFirst {
		g.sleepOp(150)
		g.add(Op{Kind: "append", File: 0, Lines: A, Chunks: 1})
	}
	if tail == "fragment" {
		frag := `{"log":"unfinished ` + strings.Repeat("z", r.Intn(30))
		g.add(Op{Kind: "pbegin", File: 0, Raw: frag})
	}
	if mode == "idle" {
		g.add(Op{Kind: "WAITIDLE"})
	} else {
		g.add(Op{Kind: "WAITREAD", Lines: A})
		for i := range A {
			s.Lines[A[i]].Expect = false // README caveat: data written just before a truncation may be missed
		}
	}
	g.add(Op{Kind: "TRUNC", File: 0, Ms: pick(r, 0, 0, 10, 100)})
	// B: strictly shorter than A (size is enforced at run time as well)
	nB := 1 + r.Intn(3)
	var B []int
	for i := 0; i < nB; i++ {
		st := streams[r.Intn(len(streams))]
		if mode == "inflight2" {
			st = streams[0]
		}
		g.seq++
		id := fmt.Sprintf("@%s-%06d@", s.Tag, g.seq)
		l := Line{ID: id, File: 0, Stream: st, Kind: "plain", Expect: true, Phys: -1}
		if st != "" {
			l.Text = fmt.Sprintf(`{"log":"B %s","stream":%q}`, id, st)
		} else {
			l.Text = fmt.Sprintf(`{"log":"B %s"}`, id)
		}
		s.Lines = append(s.Lines, l)
		B = append(B, len(s.Lines)-1)
	}
	g.add(Op{Kind: "append", File: 0, Lines: B, Chunks: 1})
	g.add(Op{Kind: "WAITIDS", Lines: B})
	// C: grows past the old size
	var C []int
	nC := nA + 4 + r.Intn(10)
	for i := 0; i < nC; i++ {
		st := streams[r.Intn(len(streams))]
		C = append(C, g.newLine(0, st, "plain"))
	}
	g.add(Op{Kind: "append", File: 0, Lines: C, Chunks: 1 + r.Intn(2)})
	g.add(Op{Kind: "END"})
	return s
}

// yaml renders the file.d configuration.
func (c Config) yaml(dir string) string {
	var b strings.Builder
	w := func(f string, a ...any) { fmt.Fprintf(&b, f+"\n", a...) }
	w("pipelines:")
	w("  c03:")
	w("    settings:")
	w("      capacity: %d", c.Capacity)
	w("      decoder: json")
	w("      maintenance_interval: %dms", c.TickMs)
	w("      event_timeout: %ds", c.EventTimeoutS)
	w("    input:")
	w("      type: file")
	w("      watching_dir: %s/in", dir)
	w("      filename_pattern: \"*.log\"")
	w("      offsets_file: %s/offsets.yaml", dir)
	w("      persistence_mode: %s", c.Persistence)
	if c.Persistence == "async" {
		w("      async_interval: %dms", c.AsyncMs)
	}
	w("      maintenance_interval: %dms", c.TickMs)
	w("      workers_count: %d", c.Workers)
	w("      read_buffer_size: %d", c.ReadBuf)
	if c.WatchChanges {
		w("      should_watch_file_changes: true")
	}
	switch c.Chain {
	case "discard":
		w("    actions:")
		w("      - type: discard")
		w("        match_fields:")
		w("          drop: \"yes\"")
	case "join":
		w("    actions:")
		w("      - type: join")
		w("        field: log")
		w("        start: '/^START /'")
		w("        continue: '/^  CONT /'")
	}
	w("    output:")
	w("      type: file")
	w("      target_file: %s/out/out.log", dir)
	w("      retention_interval: 1000h")
	w("      batch_size: %d", c.BatchSize)
	w("      workers_count: %d", c.OutWorkers)
	w("      batch_flush_timeout: %dms", c.FlushMs)
	return b.String()
}
