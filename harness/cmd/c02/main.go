// C02 — per-stream commits in read order, exactly once; every accepted event
// ends in exactly one commit or one silent drop once the pipeline is idle.
package main

import (
	"verifharness/core"
	"verifharness/internal/pipemon"
)

func main() {
	core.Main("C02", "exploration", func(c *core.Ctx) {
		c.SetRule("same engine and case space as C01 (real pipeline in child processes under -race); oracle: per (source, stream name as seen by the input's Commit) strictly increasing offsets, no event committed twice, commit stream = read stream, and at idle (pool in-use 0) every accepted event has exactly one commit or exactly one silent drop; distinct = configuration class × observed phenomena; non-trivial = at least one event accepted and the run decided")
		c.Assume("idle = readers finished and the pool's in-use count 0 for three consecutive samples")
		pipemon.RunProperty(c, "C02", pipemon.Plan{"mix": {40, 900}, "dlq": {12, 250}, "hold": {10, 250}, "directed": {18, 240}}, true, nil)
		if c.Counter("committed") == 0 || c.Counter("dropped") == 0 {
			c.Fatal("commits or silent drops never observed")
		}
	})
}
