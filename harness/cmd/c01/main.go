// C01 — commit frontier safety: at every Commit seen by the input plugin the
// event was acknowledged by an output and nothing read earlier on the same
// source+stream is still unfinished. Decided by the offline oracle of
// internal/pipemon over histories of the real pipeline.
package main

import (
	"verifharness/core"
	"verifharness/internal/pipemon"
)

func main() {
	core.Main("C01", "exploration", func(c *core.Ctx) {
		c.SetRule("seeded pipeline cases (GOMAXPROCS/processors × pool kind × capacity × batch count/bytes/workers/flush × sources × streams × action chains of script(pass/discard/break/collapse/hold)/join/split/discard × output delay plans × failure plans × retries × dead queue × seeded sleeps at hook points) run on the real pipeline in child processes under -race; every Commit is checked against the recorded send acknowledgements and finalize events; distinct = configuration class × observed phenomena (later batch finishing first, discards overtaking in-flight events, time-outs, pool back-pressure); non-trivial = at least one event accepted and the run decided")
		c.Assume("monitoring plugins sit only at the plugin boundary; the finalize observer (build tag verif) only records")
		c.Assume("an event whose retries were exhausted without a dead queue counts as finished (reported through the error callback, C09)")
		pipemon.RunProperty(c, "C01", pipemon.Plan{"mix": {40, 900}, "dlq": {14, 300}, "hold": {8, 150}, "directed": {18, 240}, "stop": {6, 60}}, false, nil)
		if c.Counter("completion_inversions") == 0 {
			c.Fatal("no run had a later batch acknowledged before an earlier one")
		}
		if c.Counter("drops_overtaking_inflight") == 0 {
			c.Fatal("no run had a discard overtaking an in-flight event")
		}
	})
}
