package main

// Monitor 4: syscall order of the save protocol, observed with strace:
// every rename(tmp -> final) must be preceded by a successful fsync/fdatasync
// of tmp that comes after the last write to tmp; nothing writes the final
// file in place.

import (
	"encoding/json"
	"fmt"
	"math/rand"
	"os"
	"path/filepath"
	"regexp"
	"strconv"
	"strings"
	"time"

	"verifharness/core"

	"github.com/ozontech/file.d/offset"
	file "github.com/ozontech/file.d/plugin/input/file"
)

type seqIn struct {
	Kind   string // "file" | "generic"
	Path   string
	Tables []WTable
	Values []genericInfo
}

func childSeq(raw json.RawMessage, io *core.ChildIO) (any, error) {
	var in seqIn
	if err := json.Unmarshal(raw, &in); err != nil {
		return nil, err
	}
	n := 0
	switch in.Kind {
	case "file":
		db := file.VerifNewOffsetDB(in.Path, in.Path+".atomic")
		for _, t := range in.Tables {
			db.Save(t.toReal())
			n++
		}
	case "generic":
		for _, v := range in.Values {
			if err := offset.SaveYAML(in.Path, v); err != nil {
				return nil, err
			}
			n++
		}
	}
	return map[string]int{"saves": n}, nil
}

type sysEvent struct {
	start, end int // line numbers (call issued / call returned)
	name       string
	path       string // fd path for write/fsync, returned path for openat
	old, new   string // rename
	ret        int64
	flags      string
	raw        string
}

var (
	reLine    = regexp.MustCompile(`^(\d+)\s+(.*)$`)
	reResumed = regexp.MustCompile(`^<\.\.\. (\w+) resumed>(.*)$`)
	reCall    = regexp.MustCompile(`^(\w+)\((.*)\)\s+= (-?\d+|\?)(.*)$`)
	reFdPath  = regexp.MustCompile(`^\d+<([^>]*)>`)
	reQuoted  = regexp.MustCompile(`"((?:[^"\\]|\\.)*)"`)
	reRetPath = regexp.MustCompile(`^<([^>]*)>`)
)

func parseStrace(text string) []sysEvent {
	var evs []sysEvent
	pending := map[string]struct {
		line int
		text string
	}{}
	for ln, line := range strings.Split(text, "\n") {
		m := reLine.FindStringSubmatch(line)
		if m == nil {
			continue
		}
		pid, rest := m[1], m[2]
		start := ln
		if strings.HasSuffix(rest, "<unfinished ...>") {
			pending[pid] = struct {
				line int
				text string
			}{ln, strings.TrimSuffix(rest, "<unfinished ...>")}
			continue
		}
		if r := reResumed.FindStringSubmatch(rest); r != nil {
			p, ok := pending[pid]
			if !ok {
				continue
			}
			delete(pending, pid)
			rest = p.text + r[2]
			start = p.line
		}
		cm := reCall.FindStringSubmatch(rest)
		if cm == nil {
			continue
		}
		ev := sysEvent{start: start, end: ln, name: cm[1], raw: rest}
		if cm[3] == "?" {
			ev.ret = -1
		} else {
			ev.ret, _ = strconv.ParseInt(cm[3], 10, 64)
		}
		args := cm[2]
		switch ev.name {
		case "openat", "open", "creat":
			if pm := reRetPath.FindStringSubmatch(cm[4]); pm != nil {
				ev.path = pm[1]
			}
			ev.flags = args
		case "write", "pwrite64", "fsync", "fdatasync", "ftruncate":
			if pm := reFdPath.FindStringSubmatch(args); pm != nil {
				ev.path = pm[1]
			}
		case "rename", "renameat", "renameat2":
			qs := reQuoted.FindAllStringSubmatch(args, -1)
			if len(qs) >= 2 {
				ev.old, ev.new = qs[0][1], qs[len(qs)-1][1]
			}
		default:
			continue
		}
		evs = append(evs, ev)
	}
	return evs
}

type orderFinding struct{ sig, what string }

// checkOrder is the oracle over one trace. final is the offsets file.
func checkOrder(component string, evs []sysEvent, final string) (renames int, finds []orderFinding) {
	add := func(sig, what string) {
		for _, f := range finds {
			if f.sig == sig {
				return
			}
		}
		finds = append(finds, orderFinding{sig, what})
	}
	for i, e := range evs {
		switch e.name {
		case "write", "pwrite64", "ftruncate":
			if e.path == final {
				add("syscall order "+component+": offsets file written in place", "the final offsets file itself is written ("+core.Trunc(e.raw, 160)+"): a reader or a crash can see a partial file")
			}
		case "openat", "open", "creat":
			if e.path == final && e.ret >= 0 && (strings.Contains(e.flags, "O_TRUNC") || strings.Contains(e.flags, "O_WRONLY") || strings.Contains(e.flags, "O_RDWR")) {
				add("syscall order "+component+": offsets file written in place", "the final offsets file itself is opened for writing ("+core.Trunc(e.raw, 160)+")")
			}
		case "rename", "renameat", "renameat2":
			if e.new != final || e.ret != 0 {
				continue
			}
			renames++
			lastWrite, opened := -1, -1
			for k := 0; k < i; k++ {
				p := evs[k]
				if p.path != e.old {
					continue
				}
				switch p.name {
				case "openat", "open", "creat":
					if strings.Contains(p.flags, "O_CREAT") || strings.Contains(p.flags, "O_TRUNC") || p.name == "creat" {
						opened = p.end
						lastWrite = -1
					}
				case "write", "pwrite64", "ftruncate":
					lastWrite = p.end
				}
			}
			synced := false
			for k := 0; k < i; k++ {
				p := evs[k]
				if (p.name == "fsync" || p.name == "fdatasync") && p.path == e.old && p.ret == 0 && p.end < e.start && p.start > lastWrite && p.start > opened {
					synced = true
				}
			}
			if opened < 0 {
				add("syscall order "+component+": rename of a temp file that was never created by this save", core.Trunc(e.raw, 200))
			}
			if !synced {
				add("syscall order "+component+": rename(tmp -> offsets file) without a preceding fsync of tmp",
					fmt.Sprintf("%s: no successful fsync/fdatasync of %q between its last write and the rename, so the new snapshot is not durable when it replaces the previous one", core.Trunc(e.raw, 200), filepath.Base(e.old)))
			}
		}
	}
	return renames, finds
}

func monitorSyscallOrder(c *core.Ctx) {
	if _, err := os.Stat("/usr/bin/strace"); err != nil {
		c.Inconclusive("strace not available")
		c.Fatal("syscall-order monitor: /usr/bin/strace is missing")
		return
	}
	runs := c.N(3, 16)
	type tr struct {
		kind   string
		saves  int
		events []sysEvent
		final  string
		ok     bool
		text   string
	}
	out := make([]tr, runs*2)
	core.ParallelFor(runs*2, 8, func(i int) {
		rng := rand.New(rand.NewSource(c.SubSeed("strace", i)))
		dir := scratchDir(fastScratch)
		defer os.RemoveAll(dir)
		in := seqIn{Kind: []string{"file", "generic"}[i%2], Path: filepath.Join(dir, "offsets.yaml")}
		n := 3 + rng.Intn(5)
		for k := 0; k < n; k++ {
			if in.Kind == "file" {
				t := genTable(rng, genOpt{maxJobs: 4, safeOnly: true, bigProb: 0.2})
				if k == 0 {
					t = WTable{} // an empty table: nothing to write, the protocol still has to hold
				}
				in.Tables = append(in.Tables, t)
			} else {
				in.Values = append(in.Values, genericInfo{Offset: rng.Int63n(1e9), Cursor: "s=" + randNameASCII(rng) + ";i=" + fmt.Sprint(k)})
			}
		}
		trace := filepath.Join(dir, "trace.txt")
		res := runChild("seq", in, core.ChildOpt{Timeout: 3 * time.Minute,
			Prefix: []string{"/usr/bin/strace", "-f", "-y", "-o", trace, "-e", "trace=openat,open,creat,write,pwrite64,ftruncate,fsync,fdatasync,rename,renameat,renameat2"}})
		b, _ := os.ReadFile(trace)
		out[i] = tr{kind: in.Kind, saves: n, events: parseStrace(string(b)), final: in.Path, ok: res.Completed, text: string(b)}
	})
	sampled := map[string]bool{}
	for _, t := range out {
		comp := "file.offsetDB.save"
		if t.kind == "generic" {
			comp = "offset.Offset.Save"
		}
		if !t.ok {
			c.Inconclusive("strace child did not complete")
			continue
		}
		renames, finds := checkOrder(comp, t.events, t.final)
		if renames != t.saves {
			c.Inconclusive(fmt.Sprintf("strace: %d renames seen for %d saves (%s)", renames, t.saves, comp))
			continue
		}
		c.Eval(1)
		c.Count("syscall."+t.kind+".saves_traced", int64(renames))
		c.Count("syscall."+t.kind+".events", int64(len(t.events)))
		c.Nontrivial(fmt.Sprintf("strace|%s|saves=%d|findings=%d", t.kind, renames, len(finds)))
		for _, f := range finds {
			violOnce(c, f.sig, f.what, map[string]any{"component": comp, "trace_excerpt": excerpt(t.text, filepath.Base(t.final))})
		}
		if len(finds) == 0 {
			c.Count("syscall."+t.kind+".order_ok", 1)
		}
		if !sampled[t.kind] {
			sampled[t.kind] = true
			c.Sample(map[string]any{"monitor": "syscall order", "component": comp, "saves": renames, "findings": len(finds), "trace_excerpt": excerpt(t.text, filepath.Base(t.final))[:6]})
		}
	}
	if c.Counter("syscall.file.saves_traced") == 0 || c.Counter("syscall.generic.saves_traced") == 0 {
		c.Fatal("syscall-order monitor: no save was traced (strace unusable?)")
	}
}

func randNameASCII(rng *rand.Rand) string {
	b := make([]byte, 8+rng.Intn(24))
	for i := range b {
		b[i] = "0123456789abcdef"[rng.Intn(16)]
	}
	return string(b)
}

func excerpt(trace, needle string) []string {
	var out []string
	for _, l := range strings.Split(trace, "\n") {
		if strings.Contains(l, needle) || strings.Contains(l, "resumed") {
			out = append(out, core.Trunc(l, 220))
			if len(out) >= 24 {
				break
			}
		}
	}
	return out
}
