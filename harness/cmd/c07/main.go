// C07 - the offsets file is always a loadable snapshot, never ahead of commits.
//
// Four runtime monitors over the real code (see NOTES.md):
//  1. round trip of job tables through offsetDB.save / a fresh offsetDB.load
//     (and offset.SaveYAML / LoadYAML),
//  2. crash / fault matrix over the steps of the save protocol (small tables, and
//     large tables with a fault at every write step / real short writes),
//  3. concurrent commits against saves (never ahead, never stale, monotone),
//  4. syscall order (fsync of the temp file before the rename) under strace.
package main

import (
	"os"
	"sync"
	"time"

	"verifharness/core"
)

var (
	violMu   sync.Mutex
	violSeen = map[string]int{}
)

// runChild is core.RunChild with the child's scratch directory on tmpfs when
// there is one: nothing here depends on the file system type (a crash is a
// process kill, durability is judged from the syscall trace), and fsync /
// rename-over on a shared disk can stall for seconds when the machine is busy.
func runChild(name string, in any, opt core.ChildOpt) *core.ChildResult {
	if opt.Dir == "" {
		opt.Dir = scratchDir(fastScratch)
		if !opt.KeepDir {
			defer os.RemoveAll(opt.Dir)
		}
		opt.KeepDir = true
	}
	return core.RunChild(name, in, opt)
}

const fastScratch = "/dev/shm"

// violOnce reports at most two witnesses per signature (the counters keep the totals).
func violOnce(c *core.Ctx, sig, what string, witness any) {
	violMu.Lock()
	violSeen[sig]++
	n := violSeen[sig]
	violMu.Unlock()
	c.Count("violating_observations", 1)
	if n <= 2 {
		c.Violation(sig, what, witness)
	}
}

func main() {
	core.RegisterChild("rt", childRT)
	core.RegisterChild("grt", childGRT)
	core.RegisterChild("save2", childSave2)
	core.RegisterChild("load", childLoad)
	core.RegisterChild("gsave2", childGSave2)
	core.RegisterChild("gload", childGLoad)
	core.RegisterChild("conc", childConc)
	core.RegisterChild("seq", childSeq)
	core.Main("C07", "fault_enumeration", run)
}

func run(c *core.Ctx) {
	c.SetRule("round trip: seeded job tables (0-6 jobs, some 150-750; 0-4 streams, some 40) with file/stream names from adversarial pools and a random alphabet " +
		"(colon, spaces, dashes, '#', quotes, backslash, control bytes, non-ASCII, invalid UTF-8, 70 kB names, empty and line-feed names), ids up to 2^64-1, offsets up to 2^63-1, " +
		"saved by one reused offsetDB and loaded by a fresh one; distinct = (jobs, streams, >64KiB, set of name shapes). " +
		"fault matrix: per (previous table P | none, new table N) x {kill at each of the 5 protocol points, injected error at write/sync, real short write (RLIMIT_FSIZE), " +
		"fsync EIO (strace inject), temp open failure, rename EXDEV, in-process observation at each point}; distinct = (fault, had previous, which snapshot the file is). " +
		"large-table fault matrix: per table of 420-3750 jobs x 0-6 streams (snapshot 64 KiB .. ~900 KiB; previous snapshot large | small | none): a fault-free probe counts the write steps W and the size S, then " +
		"{injected failure at each of the W write steps (once, twice, from k on), kill at each write step, ENOSPC injected by strace at each write(2) call on the temp file, real short write (RLIMIT_FSIZE) at ~20 limits " +
		"(1, 4096, 64KiB-1/+0/+1/+small, 128KiB-1/+0/+1/+small, 192KiB, later multiples of 64KiB, S/2, S-64KiB, S-4096, S-1, random), limits S and S+1 (must succeed), sync failure, reader at every point}; " +
		"distinct = (fault, previous kind, size class, write position or limit class, which snapshot the file is). " +
		"leftover temp files: life 1 = the real save killed at one of 4 protocol points while writing a 150-250 job table (as save #1 or #2 of its process), life 2 = a fresh process doing 1-2 fault-free saves of 1-3 job tables in the same directory, then a fresh loader: the file must be exactly the last table saved; distinct = (point, dying save number, saves in life 2, temp file left, outcome). " +
		"restart save: life 1 saves table A, life 2 loads the file with the same offsetDB it then saves table B with (some jobs of A gone, some advanced, some new; 1-2 saves), fresh loader: exactly B. " +
		"concurrent: 1-6 committers over 1-4 jobs x 1-3 streams through the real commit, sync or async persistence, GOMAXPROCS 1-8, seeded yields after the store; " +
		"non-trivial = at least one snapshot taken while a commit was in flight; distinct = hash of which commit each key shows in every snapshot. " +
		"syscall order: strace of 3-7 successive saves per run.")
	c.Assume("a process kill (SIGKILL at a hook point) stands for a crash; power-loss durability itself is represented only by the syscall order fsync(tmp) -> rename")
	c.Assume("stream names are arbitrary byte strings (the event's stream field after JSON unescaping, or \"not_set\"); file names are arbitrary non-empty byte strings without NUL")
	c.Assume("job tables have unique source ids and unique stream names per job (jobs map / SliceMap invariants); offsets are >= 0")
	c.Assume("verifhook points are placed as described in NOTES.md; injected errors at offsets.write / offsets.sync replace the result of a call that succeeded")

	walls := map[string]float64{}
	for _, m := range []struct {
		name string
		fn   func(*core.Ctx)
	}{
		{"roundtrip", monitorRoundTrip}, {"generic roundtrip", monitorGenericRoundTrip}, {"fault matrix", monitorFaults},
		{"large-table fault matrix", monitorBigFaults}, {"leftover temp files", monitorLeftovers},
		{"generic fault matrix", monitorGenericFaults}, {"concurrent", monitorConcurrent}, {"syscall order", monitorSyscallOrder},
	} {
		t0 := time.Now()
		m.fn(c)
		walls[m.name] = float64(int(time.Since(t0).Seconds()*10)) / 10
	}
	c.Extra("wall_s_per_monitor", walls)
}
