package main

// Monitor 3: concurrent commits (real jobProvider.commit) against saves (sync
// mode: inside commit; async mode: the real saveOffsetsCyclic). Every snapshot
// that reaches the offsets file is recorded at offsets.afterRename and judged
// against the log of commit calls/returns on one logical clock.

import (
	"encoding/json"
	"fmt"
	"hash/fnv"
	"math/rand"
	"os"
	"os/exec"
	"path/filepath"
	"runtime"
	"sort"
	"strings"
	"sync"
	"sync/atomic"
	"time"

	"verifharness/core"

	file "github.com/ozontech/file.d/plugin/input/file"
	"github.com/ozontech/file.d/verifhook"
)

type concKey struct {
	Src    uint64
	Stream []byte
	Owner  int
	Init   int64 // -1: the stream has no offset yet (first commit adds it)
}

type concIn struct {
	Seed       int64
	Mode       string // "sync" | "async"
	Table      WTable // initial job table (streams with Init >= 0)
	Keys       []concKey
	Committers int
	Rounds     int
	YieldProb  float64
}

type commitRec struct {
	K           int
	V           int64
	TCall, TRet int64
}

type snapRec struct {
	TOpen, TRename int64
	Err            string
	Table          WTable
	Content        []byte `json:",omitempty"` // only when unloadable
}

type concOut struct {
	Commits   []commitRec
	Snaps     []snapRec
	FinalMem  WTable
	FinalFile loadRes
	Saves     int64
}

func childConc(raw json.RawMessage, io *core.ChildIO) (any, error) {
	var in concIn
	if err := json.Unmarshal(raw, &in); err != nil {
		return nil, err
	}
	cur := filepath.Join(io.Dir, "offsets.yaml")
	prov := file.VerifNewProvider(cur, in.Mode == "sync", in.Table.toReal())

	var clock atomic.Int64
	var mu sync.Mutex
	var out concOut
	var curOpen int64
	type rawSnap struct {
		topen, trename int64
		content        []byte
	}
	var raws []rawSnap
	verifhook.Arm("offsets.afterOpen", func() {
		t := clock.Add(1)
		mu.Lock()
		curOpen = t
		mu.Unlock()
	})
	verifhook.Arm("offsets.afterRename", func() {
		b, _ := os.ReadFile(cur)
		t := clock.Add(1)
		mu.Lock()
		raws = append(raws, rawSnap{curOpen, t, b})
		mu.Unlock()
	})
	yrng := rand.New(rand.NewSource(in.Seed))
	var ymu sync.Mutex
	verifhook.Arm("file.commit.afterStore", func() {
		ymu.Lock()
		r := yrng.Float64()
		ymu.Unlock()
		if r < in.YieldProb {
			runtime.Gosched()
		} else if r < in.YieldProb*1.2 {
			time.Sleep(20 * time.Microsecond)
		}
	})

	var stopSaver func()
	if in.Mode == "async" {
		stopSaver = prov.StartAsyncSaver(30 * time.Microsecond)
	}
	io.Log(map[string]string{"step": "commits"})
	recs := make([][]commitRec, in.Committers)
	var wg sync.WaitGroup
	for g := 0; g < in.Committers; g++ {
		wg.Add(1)
		go func(g int) {
			defer wg.Done()
			rng := rand.New(rand.NewSource(in.Seed*131 + int64(g)))
			ev := prov.NewEvent()
			var mine []int
			last := map[int]int64{}
			for k, key := range in.Keys {
				if key.Owner == g {
					mine = append(mine, k)
					last[k] = key.Init
					if key.Init < 0 {
						last[k] = 0
					}
				}
			}
			seq := uint64(1)
			for r := 0; r < in.Rounds; r++ {
				rng.Shuffle(len(mine), func(a, b int) { mine[a], mine[b] = mine[b], mine[a] })
				for _, k := range mine {
					v := last[k] + 1 + rng.Int63n(1000)
					last[k] = v
					rec := commitRec{K: k, V: v}
					rec.TCall = clock.Add(1)
					prov.Commit(ev, in.Keys[k].Src, string(in.Keys[k].Stream), v, seq)
					rec.TRet = clock.Add(1)
					seq++
					recs[g] = append(recs[g], rec)
				}
			}
		}(g)
	}
	wg.Wait()
	if stopSaver != nil {
		stopSaver()
	}
	io.Log(map[string]string{"step": "final save"})
	prov.Save()
	for _, r := range recs {
		out.Commits = append(out.Commits, r...)
	}
	out.FinalMem = fromReal(prov.Table())
	out.Saves = verifhook.Hits("offsets.afterRename")
	// parse every recorded snapshot with the real parser
	for _, rs := range raws {
		s := snapRec{TOpen: rs.topen, TRename: rs.trename}
		func() {
			defer func() {
				if p := recover(); p != nil {
					s.Err = "panic: " + fmt.Sprint(p)
				}
			}()
			t, err := file.VerifParseOffsets(string(rs.content))
			if err != nil {
				s.Err = core.Trunc(err.Error(), 600)
				return
			}
			s.Table = fromReal(t)
		}()
		if s.Err != "" {
			s.Content = rs.content
		}
		out.Snaps = append(out.Snaps, s)
	}
	// the final file through a fresh real load
	func() {
		defer func() {
			if p := recover(); p != nil {
				out.FinalFile.Panic = fmt.Sprint(p)
			}
		}()
		t, err := file.VerifLoadOffsets(cur)
		out.FinalFile.Exists = true
		if err != nil {
			out.FinalFile.Err = core.Trunc(err.Error(), 600)
			return
		}
		out.FinalFile.Loaded = fromReal(t)
	}()
	return out, nil
}

type concViolation struct{ sig, what string }

// checkConc is the oracle: a pure function of the recorded history.
func checkConc(in concIn, out concOut) (viol []concViolation, overlaps int, fp string) {
	add := func(sig, format string, a ...any) {
		for _, v := range viol {
			if v.sig == sig {
				return
			}
		}
		viol = append(viol, concViolation{sig, fmt.Sprintf(format, a...)})
	}
	type kk struct {
		src    uint64
		stream string
	}
	keyIdx := map[kk]int{}
	for i, k := range in.Keys {
		keyIdx[kk{k.Src, string(k.Stream)}] = i
	}
	fileOf := map[uint64]string{}
	for _, j := range in.Table {
		fileOf[j.Src] = string(j.File)
	}
	callT := make([]map[int64]int64, len(in.Keys))
	rets := make([][]commitRec, len(in.Keys)) // per key, in commit order
	for i := range callT {
		callT[i] = map[int64]int64{}
	}
	sort.Slice(out.Commits, func(a, b int) bool { return out.Commits[a].TCall < out.Commits[b].TCall })
	for _, r := range out.Commits {
		callT[r.K][r.V] = r.TCall
		rets[r.K] = append(rets[r.K], r)
	}
	sort.Slice(out.Snaps, func(a, b int) bool { return out.Snaps[a].TRename < out.Snaps[b].TRename })
	prev := make([]int64, len(in.Keys))
	for i := range prev {
		prev[i] = -2 // never seen
	}
	h := fnv.New64a()
	for si, s := range out.Snaps {
		if s.Err != "" {
			add("concurrent file.offsetDB: a published snapshot is unloadable", "snapshot #%d (renamed at t=%d): %s; content=%q", si, s.TRename, s.Err, core.Trunc(string(s.Content), 400))
			continue
		}
		got := make([]int64, len(in.Keys))
		for i := range got {
			got[i] = -1
		}
		for _, j := range s.Table {
			if f, ok := fileOf[j.Src]; !ok || f != string(j.File) {
				add("concurrent file.offsetDB: snapshot holds a job that does not exist", "snapshot #%d: source_id=%d file=%s", si, j.Src, q(j.File))
				continue
			}
			for _, st := range j.Streams {
				i, ok := keyIdx[kk{j.Src, string(st.Name)}]
				if !ok {
					add("concurrent file.offsetDB: snapshot holds a stream that was never committed", "snapshot #%d: source_id=%d stream=%s offset=%d", si, j.Src, q(st.Name), st.Off)
					continue
				}
				got[i] = st.Off
			}
		}
		inflight := false
		for i, k := range in.Keys {
			L := got[i]
			// newest value whose commit had returned before this save began
			R := k.Init
			for _, r := range rets[i] {
				if r.TRet < s.TOpen {
					R = r.V
				}
				if r.TCall < s.TRename && r.TRet > s.TOpen {
					inflight = true
				}
			}
			if L < 0 {
				if R >= 0 {
					add("concurrent file.offsetDB: snapshot misses an offset whose commit returned before the save began",
						"snapshot #%d (save began t=%d): key source_id=%d stream=%s is absent, but offset %d was committed earlier", si, s.TOpen, k.Src, q(k.Stream), R)
				}
				if prev[i] >= 0 {
					add("concurrent file.offsetDB: offset goes backwards between successive snapshots", "snapshot #%d: key source_id=%d stream=%s disappeared (was %d)", si, k.Src, q(k.Stream), prev[i])
				}
				continue
			}
			if L != k.Init {
				tc, ok := callT[i][L]
				switch {
				case !ok:
					add("concurrent file.offsetDB: snapshot holds an offset that was never committed", "snapshot #%d: key source_id=%d stream=%s offset %d", si, k.Src, q(k.Stream), L)
				case tc > s.TRename:
					add("concurrent file.offsetDB: snapshot is ahead of commits", "snapshot #%d renamed at t=%d holds offset %d of source_id=%d stream=%s whose commit was only called at t=%d", si, s.TRename, L, k.Src, q(k.Stream), tc)
				}
			}
			if L < R {
				add("concurrent file.offsetDB: snapshot misses an offset whose commit returned before the save began",
					"snapshot #%d (save began t=%d): key source_id=%d stream=%s has %d, but %d was committed earlier", si, s.TOpen, k.Src, q(k.Stream), L, R)
			}
			if prev[i] >= 0 && L < prev[i] {
				add("concurrent file.offsetDB: offset goes backwards between successive snapshots", "snapshot #%d: key source_id=%d stream=%s %d after %d", si, k.Src, q(k.Stream), L, prev[i])
			}
			prev[i] = L
			// fingerprint: which commit (by ordinal) each key shows
			ord := 0
			for n, r := range rets[i] {
				if r.V == L {
					ord = n + 1
				}
			}
			fmt.Fprintf(h, "%d,", ord)
		}
		h.Write([]byte{';'})
		if inflight {
			overlaps++
		}
	}
	if in.Mode == "sync" {
		// README: "sync – saves offsets as part of event commitment": when commit returns, the
		// latest published snapshot holds at least that offset.
		for _, r := range out.Commits {
			var latest *snapRec
			for i := range out.Snaps {
				if out.Snaps[i].TRename < r.TRet {
					latest = &out.Snaps[i]
				}
			}
			ok := false
			if latest != nil && latest.Err == "" {
				for _, j := range latest.Table {
					for _, st := range j.Streams {
						if j.Src == in.Keys[r.K].Src && string(st.Name) == string(in.Keys[r.K].Stream) && st.Off >= r.V {
							ok = true
						}
					}
				}
			}
			if !ok {
				add("concurrent file.offsetDB sync mode: commit returned but the offsets file does not hold the offset",
					"commit(source_id=%d stream=%s offset=%d) returned at t=%d; latest snapshot before that does not contain it", in.Keys[r.K].Src, q(in.Keys[r.K].Stream), r.V, r.TRet)
				break
			}
		}
	}
	// final state: file == memory == last committed values
	want := WTable{}
	for _, j := range in.Table {
		nj := WJob{File: j.File, Src: j.Src}
		for i, k := range in.Keys {
			if k.Src != j.Src {
				continue
			}
			v := k.Init
			if n := len(rets[i]); n > 0 {
				v = rets[i][n-1].V
			}
			if v >= 0 {
				nj.Streams = append(nj.Streams, WStream{Name: k.Stream, Off: v})
			}
		}
		want = append(want, nj)
	}
	if d := diffTables(want, out.FinalMem); d != "" {
		add("concurrent file.offsetDB: in-memory offsets differ from the committed ones", "%s", d)
	}
	if out.FinalFile.Err != "" || out.FinalFile.Panic != "" {
		add("concurrent file.offsetDB: final offsets file is unloadable", "%s", out.FinalFile.Err+out.FinalFile.Panic)
	} else if d := diffTables(want, out.FinalFile.Loaded); d != "" {
		add("concurrent file.offsetDB: final offsets file differs from the committed offsets", "%s", d)
	}
	return viol, overlaps, fmt.Sprintf("%x", h.Sum64())
}

// buildRaceSelf builds this check with the race detector (run.sh builds C07
// without -race because the other monitors are process- and syscall-heavy);
// only the commit/save workload runs in it. Same tree, same overlay.
func buildRaceSelf(c *core.Ctx) (bin string, cleanup func()) {
	if raceEnabled {
		return "", func() {}
	}
	dir := scratchDir(fastScratch)
	bin = filepath.Join(dir, "c07-race")
	args := []string{"build", "-tags", "verif", "-race"}
	if ov := os.Getenv("VERIF_OVERLAY"); ov != "" {
		args = append(args, "-overlay", ov)
	}
	args = append(args, "-o", bin, "./cmd/c07")
	cmd := exec.Command("go", args...)
	cmd.Dir = filepath.Join(core.Root(), "harness")
	env := os.Environ()
	if os.Getenv("GOFLAGS") == "" {
		env = append(env, "GOFLAGS=-mod=mod", "GOPROXY=off")
	}
	cmd.Env = append(env, "CGO_ENABLED=1")
	t0 := time.Now()
	outb, err := cmd.CombinedOutput()
	c.Extra("race_build_s", time.Since(t0).Seconds())
	if err != nil {
		c.Extra("race_build_error", core.Trunc(string(outb), 600))
		os.RemoveAll(dir)
		return "", func() {}
	}
	return bin, func() { os.RemoveAll(dir) }
}

func monitorConcurrent(c *core.Ctx) {
	raceBin, cleanup := buildRaceSelf(c)
	defer cleanup()
	var prefix []string
	if raceBin != "" {
		// RunChild starts `prefix... <self> child <name> <in> <out>`: drop <self>, start the race build instead
		prefix = []string{"/bin/sh", "-c", `shift; exec "$0" "$@"`, raceBin}
	}
	runs := c.N(48, 480)
	type result struct {
		in  concIn
		res *core.ChildResult
	}
	rs := make([]result, runs)
	procs := []int{1, 2, 4, 8}
	core.ParallelFor(runs, 8, func(i int) {
		rng := rand.New(rand.NewSource(c.SubSeed("conc", i)))
		in := concIn{Seed: c.SubSeed("conc-child", i), Mode: []string{"async", "sync"}[i%2], Committers: 1 + rng.Intn(6), YieldProb: []float64{0, 0.1, 0.5}[rng.Intn(3)]}
		in.Rounds = 40 + rng.Intn(80)
		if in.Mode == "sync" {
			in.Rounds = 10 + rng.Intn(20)
		}
		nj := 1 + rng.Intn(4)
		names := []string{"stdout", "stderr", "not_set", "a:b", "日本語", "with space"}
		for j := 0; j < nj; j++ {
			job := WJob{File: []byte(fmt.Sprintf("/var/log/pods/p%d/%d.log", i, j)), Inode: uint64(100 + j), Src: uint64(1000*(i+1) + j), TS: 1700000000000000000}
			ns := 1 + rng.Intn(3)
			for s := 0; s < ns; s++ {
				k := concKey{Src: job.Src, Stream: []byte(names[(j+s)%len(names)]), Owner: rng.Intn(in.Committers), Init: -1}
				if rng.Intn(2) == 0 {
					k.Init = rng.Int63n(1 << uint(1+rng.Intn(40)))
					job.Streams = append(job.Streams, WStream{Name: k.Stream, Off: k.Init})
				}
				in.Keys = append(in.Keys, k)
			}
			in.Table = append(in.Table, job)
		}
		dir := scratchDir(fastScratch)
		defer os.RemoveAll(dir)
		rs[i] = result{in: in, res: runChild("conc", in, core.ChildOpt{Timeout: 4 * time.Minute, GOMAXPROCS: procs[rng.Intn(len(procs))], Dir: dir, KeepDir: true, Prefix: prefix})}
	})
	raceSeen := map[string]bool{}
	for i, r := range rs {
		res := r.res
		if res.TimedOut {
			c.Inconclusive("concurrent child watchdog")
			continue
		}
		if !res.Completed {
			msg, fn := core.PanicFunc(res.Stderr)
			c.Eval(1)
			violOnce(c, "concurrent file.offsetDB: process died: "+core.NormalizeMsg(msg)+" in "+fn, "commit/save workload killed the process",
				map[string]any{"mode": r.in.Mode, "last": res.LastLog(), "stderr": core.Trunc(res.Stderr, 3000)})
			continue
		}
		var out concOut
		if err := json.Unmarshal(res.Out, &out); err != nil {
			c.Inconclusive("concurrent child output unreadable")
			continue
		}
		c.Eval(1)
		viol, overlaps, fp := checkConc(r.in, out)
		c.Count("concurrent."+r.in.Mode+".runs", 1)
		c.Count("concurrent.commits", int64(len(out.Commits)))
		c.Count("concurrent.snapshots", int64(len(out.Snaps)))
		c.Count("concurrent.snapshots_with_commit_in_flight", int64(overlaps))
		if overlaps > 0 {
			c.Nontrivial(fmt.Sprintf("conc|%s|g=%d|%s", r.in.Mode, r.in.Committers, fp))
		}
		if i < 2 {
			c.Sample(map[string]any{"monitor": "concurrent", "mode": r.in.Mode, "committers": r.in.Committers, "keys": len(r.in.Keys), "commits": len(out.Commits),
				"snapshots": len(out.Snaps), "snapshots_with_commit_in_flight": overlaps})
		}
		for _, v := range viol {
			violOnce(c, v.sig, v.what, map[string]any{"mode": r.in.Mode, "committers": r.in.Committers, "keys": len(r.in.Keys), "table": r.in.Table.pretty(), "child_seed": r.in.Seed})
		}
		for _, rep := range res.RaceReports {
			c.Count("concurrent.race_reports", 1)
			if !strings.Contains(rep, "plugin/input/file") {
				continue
			}
			parts := strings.Split(core.RaceKey(rep), " <-> ")
			sort.Strings(parts)
			key := strings.Join(parts, " <-> ")
			if raceSeen[key] {
				continue
			}
			raceSeen[key] = true
			violOnce(c, "concurrent file.offsetDB: data race "+key, "the snapshot must be taken under each job's lock: the race detector reports unsynchronised access between commit and save",
				map[string]any{"report": core.Trunc(rep, 3000)})
		}
	}
	c.Extra("race_detector", raceEnabled || raceBin != "")
	if !raceEnabled && raceBin == "" {
		c.Count("concurrent.race_detector_unavailable", 1)
	}
	if c.Counter("concurrent.snapshots_with_commit_in_flight") == 0 {
		c.Fatal("concurrent monitor: no snapshot was ever taken while a commit was in flight")
	}
	if c.Counter("concurrent.sync.runs") == 0 || c.Counter("concurrent.async.runs") == 0 {
		c.Fatal("concurrent monitor: a persistence mode was never exercised")
	}
}
