package main

// Monitor 1: load(save(T)) == T through the real offsetDB.save and a fresh
// real offsetDB.load, plus the same for the generic offset.SaveYAML/LoadYAML.

import (
	"encoding/json"
	"fmt"
	"os"
	"path/filepath"
	"sort"
	"strings"
	"sync"
	"time"

	"verifharness/core"

	"github.com/ozontech/file.d/offset"
	file "github.com/ozontech/file.d/plugin/input/file"
)

type rtIn struct {
	Tables []WTable
	Fresh  bool // a fresh offsetDB per table (otherwise one offsetDB is reused: buffer reuse across saves)
}

type rtRes struct {
	Done    bool
	Err     string // load error
	Panic   string // load or save panicked
	Loaded  WTable
	Size    int
	Content []byte // first bytes of the saved file (witness)
}

func (r *rtRes) unloadable() bool { return r.Err != "" || r.Panic != "" }

func childRT(raw json.RawMessage, io *core.ChildIO) (any, error) {
	var in rtIn
	if err := json.Unmarshal(raw, &in); err != nil {
		return nil, err
	}
	cur := filepath.Join(io.Dir, "offsets.yaml")
	db := file.VerifNewOffsetDB(cur, cur+".atomic")
	out := make([]rtRes, len(in.Tables))
	for i, t := range in.Tables {
		io.Log(map[string]int{"table": i})
		if in.Fresh {
			db = file.VerifNewOffsetDB(cur, cur+".atomic")
		}
		_ = os.Remove(cur)
		func() {
			defer func() {
				if p := recover(); p != nil {
					out[i].Panic = core.Trunc(fmt.Sprint(p), 600)
				}
			}()
			db.Save(t.toReal())
			b, _ := os.ReadFile(cur)
			out[i].Size = len(b)
			if len(b) > 2048 {
				b = b[:2048]
			}
			out[i].Content = b
			loaded, err := file.VerifLoadOffsets(cur)
			if err != nil {
				out[i].Err = core.Trunc(err.Error(), 600)
			} else {
				// output guard only: a load that returns far more than was saved is cut (the
				// comparison in the parent still sees jobs that were never saved)
				if max := len(t) + 16; len(loaded) > max {
					loaded = loaded[:max]
				}
				out[i].Loaded = fromReal(loaded)
			}
		}()
		out[i].Done = true
		if out[i].Size > 256<<20 {
			break // runaway file size: the remaining tables stay undecided
		}
	}
	return out, nil
}

// runRT runs tables through the child; a table whose processing kills the
// child is marked as Panic and the remaining ones are run in a new child.
func runRT(tables []WTable, fresh bool) []rtRes {
	res := make([]rtRes, len(tables))
	start := 0
	for start < len(tables) {
		dir := scratchDir(fastScratch)
		r := runChild("rt", rtIn{Tables: tables[start:], Fresh: fresh}, core.ChildOpt{Timeout: 5 * time.Minute, Dir: dir, KeepDir: true, GOMAXPROCS: 2})
		os.RemoveAll(dir)
		if r.Completed {
			var out []rtRes
			if err := json.Unmarshal(r.Out, &out); err == nil && len(out) == len(tables)-start {
				copy(res[start:], out)
				return res
			}
			return res
		}
		if r.TimedOut {
			return res
		}
		var last struct {
			Table int `json:"table"`
		}
		if l := r.LastLog(); l != nil {
			_ = json.Unmarshal(l, &last)
		} else {
			return res
		}
		// results before the crashing table are lost with the process: re-run them separately
		if last.Table > 0 {
			sub := runRT(tables[start:start+last.Table], fresh)
			copy(res[start:], sub)
		}
		msg, fn := core.PanicFunc(r.Stderr)
		res[start+last.Table] = rtRes{Done: true, Panic: "process died: " + core.NormalizeMsg(msg) + " in " + fn}
		start += last.Table + 1
	}
	return res
}

var (
	probeMu    sync.Mutex
	probeCache = map[string]rtRes{}
)

// runProbes runs one-job probe tables (fresh offsetDB each), remembering results.
func runProbes(c *core.Ctx, tabs []WTable) []rtRes {
	keys := make([]string, len(tabs))
	out := make([]rtRes, len(tabs))
	var todo []WTable
	var idx []int
	probeMu.Lock()
	for i, t := range tabs {
		b, _ := json.Marshal(t)
		keys[i] = string(b)
		if r, ok := probeCache[keys[i]]; ok {
			out[i] = r
		} else {
			todo = append(todo, t)
			idx = append(idx, i)
		}
	}
	probeMu.Unlock()
	if len(todo) > 0 {
		c.Count("roundtrip.shrink_probes", int64(len(todo)))
		res := runRT(todo, true)
		probeMu.Lock()
		for k, i := range idx {
			out[i] = res[k]
			if res[k].Done {
				probeCache[keys[i]] = res[k]
			}
		}
		probeMu.Unlock()
	}
	return out
}

type rtFailure struct {
	sig     string
	what    string
	witness any
}

// explainRT attributes a failing table to its smallest failing parts: every
// file name and every (stream, offset) is probed alone in an otherwise plain
// one-job table; what is left is probed as a whole.
type probe struct {
	kind string // "file" | "stream" | "ids"
	name []byte
	off  int64
	ids  [2]uint64
	tbl  WTable
}

func idShape(v uint64) string {
	switch {
	case v < 1<<31:
		return "<2^31"
	case v < 1<<32:
		return "<2^32"
	case v < 1<<63:
		return "<2^63"
	}
	return ">=2^63"
}

func probeSubject(p probe) string {
	if p.kind == "ids" {
		return fmt.Sprintf("inode=%d source_id=%d", p.ids[0], p.ids[1])
	}
	return "name " + q(p.name)
}

func probesOf(t WTable) []probe {
	var probes []probe
	seenF, seenS := map[string]bool{}, map[string]bool{}
	for _, j := range t {
		if k := fmt.Sprintf("ids\x00%d\x00%d", j.Inode, j.Src); len(j.Streams) > 0 && !seenS[k] {
			seenS[k] = true
			probes = append(probes, probe{kind: "ids", ids: [2]uint64{j.Inode, j.Src},
				tbl: WTable{{File: []byte("/f"), Inode: j.Inode, Src: j.Src, Streams: []WStream{{Name: []byte("s"), Off: 1}}}}})
		}
		if len(j.Streams) > 0 && !seenF[string(j.File)] {
			seenF[string(j.File)] = true
			probes = append(probes, probe{kind: "file", name: j.File,
				tbl: WTable{{File: j.File, Inode: 1, Src: 1, Streams: []WStream{{Name: []byte("s"), Off: 1}}}}})
		}
		for _, s := range j.Streams {
			k := fmt.Sprintf("%s\x00%d", s.Name, s.Off)
			if !seenS[k] {
				seenS[k] = true
				probes = append(probes, probe{kind: "stream", name: s.Name, off: s.Off,
					tbl: WTable{{File: []byte("/f"), Inode: 1, Src: 1, Streams: []WStream{{Name: s.Name, Off: s.Off}}}}})
			}
		}
	}
	return probes
}

func explainRT(c *core.Ctx, t WTable, first rtRes, inSequence bool) []rtFailure {
	probes := probesOf(t)
	tabs := make([]WTable, len(probes))
	for i := range probes {
		tabs[i] = probes[i].tbl
	}
	pres := runProbes(c, tabs)
	var fails []rtFailure
	badF, badS := map[string]bool{}, map[string]bool{}
	for i, p := range probes {
		r := pres[i]
		if !r.Done {
			continue
		}
		d := ""
		if !r.unloadable() {
			d = diffTables(p.tbl, r.Loaded)
			if d == "" {
				continue
			}
		}
		outcome, detail := "loads a different table", d
		if r.unloadable() {
			outcome, detail = "unloadable", r.Err+r.Panic
		}
		var sig string
		if p.kind == "ids" {
			badF[fmt.Sprintf("ids\x00%d\x00%d", p.ids[0], p.ids[1])] = true
			sig = fmt.Sprintf("file.offsetDB roundtrip: inode %s, source id %s: %s", idShape(p.ids[0]), idShape(p.ids[1]), outcome)
		} else if p.kind == "file" {
			badF[string(p.name)] = true
			sig = fmt.Sprintf("file.offsetDB roundtrip: file name %s: %s", nameShape(string(p.name)), outcome)
		} else {
			badS[fmt.Sprintf("%s\x00%d", p.name, p.off)] = true
			shape := nameShape(string(p.name))
			if shape == "plain" {
				shape = "plain, offset " + offsetShape(p.off)
			}
			sig = fmt.Sprintf("file.offsetDB roundtrip: stream name %s: %s", shape, outcome)
		}
		fails = append(fails, rtFailure{sig: sig,
			what: fmt.Sprintf("a one-job table with %s %s (offset %d) saved by offsetDB.save and loaded by a fresh offsetDB.load: %s: %s",
				p.kind, probeSubject(p), p.off, outcome, core.Trunc(detail, 300)),
			witness: map[string]any{"table": p.tbl.pretty(), "file_bytes": string(r.Content), "load_error": r.Err, "panic": r.Panic, "loaded": r.Loaded.pretty()}})
	}
	// residual: the table without the parts that fail alone
	var rest WTable
	for _, j := range t {
		if badF[string(j.File)] || badF[fmt.Sprintf("ids\x00%d\x00%d", j.Inode, j.Src)] {
			continue
		}
		nj := j
		nj.Streams = nil
		for _, s := range j.Streams {
			if !badS[fmt.Sprintf("%s\x00%d", s.Name, s.Off)] {
				nj.Streams = append(nj.Streams, s)
			}
		}
		rest = append(rest, nj)
	}
	rr := runRT([]WTable{rest}, true)[0]
	restBad := rr.Done && (rr.unloadable() || diffTables(rest, rr.Loaded) != "")
	if restBad {
		outcome, detail := "loads a different table", ""
		if rr.unloadable() {
			outcome, detail = "unloadable", rr.Err+rr.Panic
		} else {
			detail = diffTables(rest, rr.Loaded)
		}
		size := "<=64KiB"
		if rr.Size > 65536 {
			size = ">64KiB"
		}
		fails = append(fails, rtFailure{
			sig:     fmt.Sprintf("file.offsetDB roundtrip: table (no part fails alone; jobs>1=%v, file %s): %s", len(norm(rest)) > 1, size, outcome),
			what:    fmt.Sprintf("table of %d jobs whose names all round-trip alone: %s: %s", len(rest), outcome, core.Trunc(detail, 300)),
			witness: map[string]any{"table": rest.pretty(), "file_bytes": string(rr.Content), "load_error": rr.Err, "panic": rr.Panic}})
	}
	if len(fails) == 0 {
		outcome := "loads a different table"
		if first.unloadable() {
			outcome = "unloadable"
		}
		seq := "alone"
		if inSequence {
			seq = "only after earlier saves by the same offsetDB (state reused across saves)"
		}
		fails = append(fails, rtFailure{
			sig:     fmt.Sprintf("file.offsetDB roundtrip: table fails %s: %s", seq, outcome),
			what:    "the table failed in the batch but neither its parts nor the rest fail when saved by a fresh offsetDB: " + first.Err + first.Panic + diffTables(t, first.Loaded),
			witness: map[string]any{"table": t.pretty(), "file_bytes": string(first.Content)}})
	}
	return fails
}

func directedTables() []WTable {
	one := func(f string, streams ...WStream) WTable {
		return WTable{{File: []byte(f), Inode: 11, Src: 42, TS: 1700000000000000000, Streams: streams}}
	}
	st := func(n string, o int64) WStream { return WStream{Name: []byte(n), Off: o} }
	var out []WTable
	out = append(out, WTable{}, one("/f"), one("/f", st("not_set", 0)), one("/f", st("not_set", 1<<63-1)))
	for _, n := range goodStreams {
		out = append(out, one("/f", st(n, 7)))
	}
	for _, f := range goodFiles {
		out = append(out, one(f, st("stdout", 123456789)))
	}
	for _, id := range idPool {
		out = append(out, WTable{{File: []byte("/f"), Inode: id, Src: id, Streams: []WStream{st("s", 5)}}})
	}
	for _, o := range offsetPool {
		out = append(out, one("/f", st("stdout", o), st("stderr", o)))
	}
	// several jobs, jobs without offsets in between, look-alike names
	out = append(out, WTable{
		{File: []byte("/a"), Inode: 1, Src: 1, Streams: []WStream{st("stdout", 10), st("stderr", 20)}},
		{File: []byte("/b"), Inode: 2, Src: 2},
		{File: []byte("- file: /c"), Inode: 3, Src: 3, Streams: []WStream{st("- file: /d", 30), st("  streams:", 31)}},
		{File: []byte("/e"), Inode: 4, Src: 1<<64 - 1, Streams: []WStream{st(":", 1<<63-1)}},
	})
	// known-bad classes, always driven so that every run reports the same set
	out = append(out, one("/f", st("", 5)), one("/f", st("stdout", 1), st("", 5)))
	for _, n := range lfStreams {
		out = append(out, one("/f", st(n, 7)))
	}
	for _, f := range lfFiles {
		out = append(out, one(f, st("stdout", 9)))
	}
	return out
}

func monitorRoundTrip(c *core.Ctx) {
	batches := c.N(16, 256)
	per := c.N(150, 300)
	type failing struct {
		t WTable
		r rtRes
	}
	var failed []failing
	var fmu sync.Mutex
	const maxKeep = 600 // failing tables kept for attribution (the rest is only counted)
	// batches are generated, run and judged one at a time per worker: nothing but failures is kept
	core.ParallelFor(batches+1, 16, func(b int) {
		var tables []WTable
		if b == 0 {
			tables = directedTables()
		} else {
			rng := c.Rand(fmt.Sprintf("rt-%d", b))
			o := genOpt{maxJobs: 6, bigProb: 0.03, hostile: b%8 == 0}
			for i := 0; i < per; i++ {
				tables = append(tables, genTable(rng, o))
			}
		}
		res := runRT(tables, false)
		for i, t := range tables {
			r := res[i]
			if !r.Done {
				c.Inconclusive("roundtrip child did not finish")
				continue
			}
			c.Eval(1)
			n := norm(t)
			streams, shapes := 0, map[string]bool{}
			for _, j := range n {
				shapes["f:"+nameShape(j.file)] = true
				for s := range j.streams {
					streams++
					shapes["s:"+nameShape(s)] = true
				}
			}
			keys := make([]string, 0, len(shapes))
			for k := range shapes {
				keys = append(keys, k)
			}
			sort.Strings(keys)
			if streams > 0 {
				c.Nontrivial(fmt.Sprintf("rt|jobs=%d|streams=%d|big=%v|%s", len(n), streams, r.Size > 65536, strings.Join(keys, ",")))
			}
			if r.Size > 65536 {
				c.Count("roundtrip.file_over_64KiB", 1)
			}
			c.Count("roundtrip.streams_saved", int64(streams))
			if !r.unloadable() && diffTables(t, r.Loaded) == "" {
				c.Count("roundtrip.ok", 1)
				if streams > 0 {
					c.Count("roundtrip.ok_nonempty", 1)
				}
				// informational: last_read_timestamp is part of the file but not of the property
				ts := map[uint64]int64{}
				for _, j := range t {
					ts[j.Src] = j.TS
				}
				for _, j := range r.Loaded {
					if ts[j.Src] != j.TS {
						c.Count("roundtrip.info_timestamp_differs", 1)
					}
				}
				if (b == 0 && i == 40) || (b == 1 && i == 3) {
					c.Sample(map[string]any{"monitor": "roundtrip", "table": t.pretty(), "file_size": r.Size, "result": "loaded == saved"})
				}
				continue
			}
			c.Count("roundtrip.failed_tables", 1)
			fmu.Lock()
			// directed tables first, then small ones: big failing tables add nothing to the attribution
			if len(failed) < maxKeep && (b == 0 || len(t) <= 8 || len(failed) < 50) {
				r.Loaded = nil
				failed = append(failed, failing{t, r})
			} else {
				c.Count("roundtrip.failed_tables_not_attributed", 1)
			}
			fmu.Unlock()
		}
	})
	sort.SliceStable(failed, func(a, b int) bool { return len(failed[a].t) < len(failed[b].t) })
	// attribute every failing table to its smallest failing parts
	var all []WTable
	seenProbe := map[string]bool{}
	for _, f := range failed {
		for _, p := range probesOf(f.t) {
			b, _ := json.Marshal(p.tbl)
			if !seenProbe[string(b)] {
				seenProbe[string(b)] = true
				all = append(all, p.tbl)
			}
		}
	}
	const chunk = 400
	core.ParallelFor((len(all)+chunk-1)/chunk, 16, func(i int) {
		hi := (i + 1) * chunk
		if hi > len(all) {
			hi = len(all)
		}
		runProbes(c, all[i*chunk:hi])
	})
	fails := make([][]rtFailure, len(failed))
	core.ParallelFor(len(failed), 16, func(i int) { fails[i] = explainRT(c, failed[i].t, failed[i].r, true) })
	for _, fl := range fails {
		for _, f := range fl {
			violOnce(c, f.sig, f.what, f.witness)
		}
	}
	if c.Counter("roundtrip.ok_nonempty") == 0 {
		c.Fatal("round-trip monitor saw no successful non-empty save/load")
	}
	if c.Counter("roundtrip.file_over_64KiB") == 0 {
		c.Fatal("round-trip monitor never exceeded the 64 KiB initial write buffer")
	}
}

// ---- generic offset package (journalctl / dmesg) ----

type genericInfo struct {
	Offset int64  `json:"offset"`
	Cursor string `json:"cursor"`
}

type grtIn struct {
	Values []struct {
		Offset int64
		Cursor []byte
	}
}

type grtRes struct {
	SaveErr, LoadErr string
	Offset           int64
	Cursor           []byte
}

func childGRT(raw json.RawMessage, io *core.ChildIO) (any, error) {
	var in grtIn
	if err := json.Unmarshal(raw, &in); err != nil {
		return nil, err
	}
	path := filepath.Join(io.Dir, "generic-offsets.yaml")
	out := make([]grtRes, len(in.Values))
	for i, v := range in.Values {
		io.Log(map[string]int{"value": i})
		if err := offset.SaveYAML(path, genericInfo{Offset: v.Offset, Cursor: string(v.Cursor)}); err != nil {
			out[i].SaveErr = core.Trunc(err.Error(), 600)
			continue
		}
		var got genericInfo
		if err := offset.LoadYAML(path, &got); err != nil {
			out[i].LoadErr = core.Trunc(err.Error(), 600)
			continue
		}
		out[i].Offset, out[i].Cursor = got.Offset, []byte(got.Cursor)
	}
	return out, nil
}

func monitorGenericRoundTrip(c *core.Ctx) {
	rng := c.Rand("grt")
	var in grtIn
	cursors := []string{"", "s=0123abcd;i=1f;b=99aa;m=5;t=5e;x=77", "a: b", "- x", "#", "'", "\"", "a\nb", "\n", " lead", "trail ",
		"日本語", "null", "~", "true", "123", "0x10", "1e3", "{a: b}", "[1]", "|", ">", "a\tb", "\\", "%", "@", "`", "? x", "!!str a", "&a", "*a"}
	for _, cu := range cursors {
		in.Values = append(in.Values, struct {
			Offset int64
			Cursor []byte
		}{genOffset(rng), []byte(cu)})
	}
	n := c.N(300, 3000)
	for i := 0; i < n; i++ {
		cu := randName(rng, rng.Intn(5) == 0)
		// YAML text is Unicode: keep the cursor valid UTF-8 without NUL (journald cursors are ASCII)
		cu = strings.ToValidUTF8(strings.ReplaceAll(cu, "\x00", "0"), "?")
		in.Values = append(in.Values, struct {
			Offset int64
			Cursor []byte
		}{genOffset(rng), []byte(cu)})
	}
	r := runChild("grt", in, core.ChildOpt{Timeout: 3 * time.Minute})
	if !r.Completed {
		if r.TimedOut {
			c.Inconclusive("generic roundtrip watchdog")
			return
		}
		msg, fn := core.PanicFunc(r.Stderr)
		violOnce(c, "offset.SaveYAML/LoadYAML roundtrip: process died: "+core.NormalizeMsg(msg)+" in "+fn, "generic offset round trip crashed", map[string]any{"last": r.LastLog(), "stderr": core.Trunc(r.Stderr, 2000)})
		return
	}
	var out []grtRes
	_ = json.Unmarshal(r.Out, &out)
	for i, v := range in.Values {
		if i >= len(out) {
			break
		}
		c.Eval(1)
		o := out[i]
		c.Nontrivial("grt|" + nameShape(string(v.Cursor)) + "|" + offsetShape(v.Offset))
		switch {
		case o.SaveErr != "":
			violOnce(c, "offset.SaveYAML roundtrip: save error, cursor "+nameShape(string(v.Cursor)), o.SaveErr, map[string]any{"cursor": q(v.Cursor), "offset": v.Offset})
		case o.LoadErr != "":
			violOnce(c, "offset.SaveYAML roundtrip: unloadable, cursor "+nameShape(string(v.Cursor)), o.LoadErr, map[string]any{"cursor": q(v.Cursor), "offset": v.Offset})
		case o.Offset != v.Offset || string(o.Cursor) != string(v.Cursor):
			violOnce(c, "offset.SaveYAML roundtrip: loads a different value, cursor "+nameShape(string(v.Cursor)),
				fmt.Sprintf("saved {%d %s}, loaded {%d %s}", v.Offset, q(v.Cursor), o.Offset, q(o.Cursor)), map[string]any{"cursor": q(v.Cursor), "offset": v.Offset})
		default:
			c.Count("generic.roundtrip_ok", 1)
		}
	}
	if c.Counter("generic.roundtrip_ok") == 0 {
		c.Fatal("generic offset round trip never succeeded")
	}
}
