package main

// Monitor 2: crash / fault matrix over the steps of the save protocol, for the
// file input's offsetDB.save and for the generic offset.Offset.Save.

import (
	"encoding/json"
	"fmt"
	"os"
	"os/signal"
	"path/filepath"
	"runtime"
	"strings"
	"sync"
	"sync/atomic"
	"syscall"
	"time"

	"verifharness/core"

	"github.com/ozontech/file.d/offset"
	file "github.com/ozontech/file.d/plugin/input/file"
	"github.com/ozontech/file.d/verifhook"
)

var fileSavePoints = []string{"offsets.afterOpen", "offsets.write", "offsets.sync", "offsets.beforeRename", "offsets.afterRename"}

type save2In struct {
	Cur, Tmp string
	TmpN     string  // temp file name for the second save ("" = same)
	P, N     *WTable // P == nil: no previous save in this process
	Rlimit   uint64  // >0: soft RLIMIT_FSIZE during the second save (real short write, EFBIG)
	Observe  bool    // record the bytes of the offsets file at every protocol point of the second save

	// faults counted from the beginning of the SECOND save (independent of how
	// many times the first save passed the point); used by the large-table matrix
	ErrPoint   string // Err point that reports an injected failure ...
	ErrNth     int    // ... at its ErrNth hit within the second save (1-based) ...
	ErrCount   int    // ... ErrCount times in a row (0 = once, <0 = every hit from then on)
	CrashPoint string // point at which the process kills itself ...
	CrashNth   int    // ... at its CrashNth hit within the second save
	LockThread bool   // run on one locked OS thread (strace counts injected syscalls per thread)
	ObserveSum bool   // like Observe, but the offsets file is written to <Cur>.obs-<k> instead of being returned
	LoadFirst  bool   // the offsetDB loads the offsets file before its first save, as a restarted file.d does
}

type obs struct {
	Point   string
	Exists  bool
	Content []byte
}

type save2Out struct {
	Hits     map[string]int64
	Observed []obs
	HitsN    map[string]int64 // hits during the second save only
	Injected int              // how many times the ErrPoint fault was delivered
}

func childSave2(raw json.RawMessage, io *core.ChildIO) (any, error) {
	var in save2In
	if err := json.Unmarshal(raw, &in); err != nil {
		return nil, err
	}
	if in.LockThread {
		runtime.LockOSThread()
	}
	db := file.VerifNewOffsetDB(in.Cur, in.Tmp)
	if in.LoadFirst {
		io.Log(map[string]string{"step": "load"})
		_, lerr := db.Load()
		io.Log(map[string]string{"step": "loaded", "err": fmt.Sprint(lerr)})
	}
	if in.P != nil {
		io.Log(map[string]string{"step": "save P"})
		db.Save(in.P.toReal())
	}
	var out save2Out
	if in.Observe {
		var mu sync.Mutex
		look := func(p string) {
			b, err := os.ReadFile(in.Cur)
			mu.Lock()
			out.Observed = append(out.Observed, obs{Point: p, Exists: err == nil, Content: b})
			mu.Unlock()
		}
		for _, p := range fileSavePoints {
			p := p
			verifhook.Arm(p, func() { look(p) })
			verifhook.ArmErr(p, func(e error) error { look(p); return e })
		}
	}
	if in.ObserveSum {
		var mu sync.Mutex
		look := func(p string) {
			mu.Lock()
			defer mu.Unlock()
			b, err := os.ReadFile(in.Cur)
			k := len(out.Observed)
			if err == nil {
				_ = os.WriteFile(fmt.Sprintf("%s.obs-%d", in.Cur, k), b, 0o600)
			}
			out.Observed = append(out.Observed, obs{Point: p, Exists: err == nil})
		}
		for _, p := range fileSavePoints {
			p := p
			verifhook.Arm(p, func() { look(p) })
			verifhook.ArmErr(p, func(e error) error { look(p); return e })
		}
	}
	var injected atomic.Int64
	if in.ErrPoint != "" {
		var n atomic.Int64
		verifhook.ArmErr(in.ErrPoint, func(e error) error {
			k := int(n.Add(1))
			if k < in.ErrNth || (in.ErrCount >= 0 && k > in.ErrNth+max(in.ErrCount, 1)-1) {
				return e
			}
			injected.Add(1)
			return fmt.Errorf("verifhook: injected failure at %s (hit %d of this save)", in.ErrPoint, k)
		})
	}
	if in.CrashPoint != "" {
		var n atomic.Int64
		kill := func() {
			if int(n.Add(1)) == in.CrashNth {
				fmt.Fprintf(os.Stderr, "verifhook: crash at %s (hit %d of this save)\n", in.CrashPoint, in.CrashNth)
				verifhook.Crash()
			}
		}
		verifhook.Arm(in.CrashPoint, kill)
		verifhook.ArmErr(in.CrashPoint, func(e error) error { kill(); return e })
	}
	before := verifhook.Snapshot()
	if in.TmpN != "" {
		db.SetFiles(in.Cur, in.TmpN)
	}
	io.Log(map[string]string{"step": "save N"})
	tbl := in.N.toReal()
	var old syscall.Rlimit
	if in.Rlimit > 0 {
		signal.Ignore(syscall.SIGXFSZ)
		if err := syscall.Getrlimit(syscall.RLIMIT_FSIZE, &old); err != nil {
			return nil, err
		}
		if err := syscall.Setrlimit(syscall.RLIMIT_FSIZE, &syscall.Rlimit{Cur: in.Rlimit, Max: old.Max}); err != nil {
			return nil, err
		}
	}
	db.Save(tbl)
	if in.Rlimit > 0 {
		_ = syscall.Setrlimit(syscall.RLIMIT_FSIZE, &old)
	}
	out.Hits = verifhook.Snapshot()
	out.HitsN = map[string]int64{}
	for k, v := range out.Hits {
		if d := v - before[k]; d > 0 {
			out.HitsN[k] = d
		}
	}
	out.Injected = int(injected.Load())
	return out, nil
}

type loadIn struct{ Paths []string }

type loadRes struct {
	Exists bool
	Err    string
	Panic  string
	Loaded WTable
	Size   int
	Head   []byte
}

func childLoad(raw json.RawMessage, io *core.ChildIO) (any, error) {
	var in loadIn
	if err := json.Unmarshal(raw, &in); err != nil {
		return nil, err
	}
	out := make([]loadRes, len(in.Paths))
	for i, p := range in.Paths {
		io.Log(map[string]int{"path": i})
		b, err := os.ReadFile(p)
		out[i].Exists = err == nil
		out[i].Size = len(b)
		if len(b) > 1500 {
			b = b[:1500]
		}
		out[i].Head = b
		func() {
			defer func() {
				if r := recover(); r != nil {
					out[i].Panic = core.Trunc(fmt.Sprint(r), 600)
				}
			}()
			t, err := file.VerifLoadOffsets(p)
			if err != nil {
				out[i].Err = core.Trunc(err.Error(), 600)
				return
			}
			out[i].Loaded = fromReal(t)
		}()
	}
	return out, nil
}

// loadFresh loads one offsets file in a fresh process with the real load.
func loadFresh(path string) (loadRes, bool) {
	r := runChild("load", loadIn{Paths: []string{path}}, core.ChildOpt{Timeout: 2 * time.Minute, GOMAXPROCS: 2})
	if r.Completed {
		var out []loadRes
		if json.Unmarshal(r.Out, &out) == nil && len(out) == 1 {
			return out[0], true
		}
		return loadRes{}, false
	}
	if r.TimedOut {
		return loadRes{}, false
	}
	msg, fn := core.PanicFunc(r.Stderr)
	_, err := os.Stat(path)
	return loadRes{Exists: err == nil, Panic: "process died: " + core.NormalizeMsg(msg) + " in " + fn}, true
}

func scratchDir(prefer string) string {
	base := core.ScratchBase()
	if prefer != "" {
		if st, err := os.Stat(prefer); err == nil && st.IsDir() {
			base = prefer
		}
	}
	d, err := os.MkdirTemp(base, "verif-c07-")
	if err != nil {
		d, _ = os.MkdirTemp("", "verif-c07-")
	}
	return d
}

type faultCase struct {
	name    string // e.g. crash@offsets.write
	hooks   string // VERIF_HOOKS
	rlimit  uint64
	strace  string // strace -e inject=... expression
	tmpKind string // "", "missingdir", "otherfs"
	observe bool
	mustBeP bool // the save did not succeed: the file must still be the previous snapshot
	proof   string
}

func whichSnapshot(l loadRes, P, N *WTable) string {
	if l.Err != "" || l.Panic != "" {
		return "unloadable"
	}
	var loaded WTable
	if l.Exists {
		loaded = l.Loaded
	}
	isP := (P == nil && len(norm(loaded)) == 0) || (P != nil && diffTables(*P, loaded) == "")
	isN := diffTables(*N, loaded) == ""
	switch {
	case isP && isN:
		return "P=N"
	case isP:
		return "P"
	case isN:
		return "N"
	}
	return "neither"
}

func monitorFaults(c *core.Ctx) {
	pairs := c.N(20, 200)
	// a second file system for the rename-fails(EXDEV) case: the regular scratch base, if it is another device than tmpfs
	otherFS := ""
	{
		var a, b syscall.Stat_t
		if syscall.Stat(fastScratch, &a) == nil && syscall.Stat(core.ScratchBase(), &b) == nil && a.Dev != b.Dev {
			otherFS = core.ScratchBase()
		}
	}
	type job struct {
		pair int
		P, N *WTable
		fc   faultCase
	}
	var jobs []job
	for p := 0; p < pairs; p++ {
		rng := c.Rand(fmt.Sprintf("fault-%d", p))
		o := genOpt{maxJobs: 5, safeOnly: true}
		var P *WTable
		if p%5 != 4 { // every fifth pair: no previous offsets file at all
			t := genTable(rng, o)
			for len(norm(t)) == 0 {
				t = genTable(rng, o)
			}
			P = &t
		}
		// N: the previous table advanced, plus new jobs; large enough (> 8 KiB) for the short-write case
		var N WTable
		if P != nil {
			for _, j := range *P {
				nj := j
				nj.Streams = nil
				for _, s := range j.Streams {
					if s.Off < 1<<62 {
						s.Off += 1 + rng.Int63n(1<<20)
					}
					nj.Streams = append(nj.Streams, s)
				}
				if len(nj.Streams) == 0 {
					nj.Streams = []WStream{{Name: []byte("stdout"), Off: 1 + rng.Int63n(1000)}}
				}
				N = append(N, nj)
			}
		}
		extra := 120 + rng.Intn(60)
		for i := 0; i < extra; i++ {
			N = append(N, WJob{File: []byte(fmt.Sprintf("/var/log/pods/new-%d-%d/app.log", p, i)), Inode: uint64(1000 + i), Src: uint64(1)<<40 + uint64(i), TS: 1700000000000000000,
				Streams: []WStream{{Name: []byte("stdout"), Off: genOffset(rng)}, {Name: []byte("stderr"), Off: genOffset(rng)}}})
		}
		nth := 2
		if P == nil {
			nth = 1
		}
		var fcs []faultCase
		for _, pt := range fileSavePoints {
			fcs = append(fcs, faultCase{name: "crash@" + pt, hooks: fmt.Sprintf("%s=crash:%d", pt, nth)})
		}
		fcs = append(fcs,
			faultCase{name: "error@offsets.write", hooks: fmt.Sprintf("offsets.write=err:%d", nth), mustBeP: true},
			faultCase{name: "error@offsets.sync", hooks: fmt.Sprintf("offsets.sync=err:%d", nth), mustBeP: true},
			faultCase{name: "shortwrite(EFBIG)", rlimit: 4096, mustBeP: true, proof: "by construction: N is > 8 KiB, the limit is 4096 bytes"},
			faultCase{name: "open-fails(ENOENT)", tmpKind: "missingdir", mustBeP: true, proof: "by construction: the temp file directory does not exist"},
			faultCase{name: "observe", observe: true},
		)
		if otherFS != "" {
			fcs = append(fcs, faultCase{name: "rename-fails(EXDEV)", tmpKind: "otherfs", mustBeP: true, proof: "by construction: temp file and offsets file are on different file systems"})
		}
		if p%3 == 0 {
			fcs = append(fcs, faultCase{name: "fsync-fails(EIO,strace)", strace: "inject=fsync:error=EIO", mustBeP: true, proof: "strace"})
		}
		for _, fc := range fcs {
			nn := N
			jobs = append(jobs, job{pair: p, P: P, N: &nn, fc: fc})
		}
	}

	core.ParallelFor(len(jobs), 16, func(i int) {
		jb := jobs[i]
		fc := jb.fc
		dir := scratchDir(fastScratch)
		defer os.RemoveAll(dir)
		cur := filepath.Join(dir, "offsets.yaml")
		tmp := cur + ".atomic"
		var cleanup []string
		tmpN := ""
		switch fc.tmpKind {
		case "missingdir":
			tmpN = filepath.Join(dir, "no-such-dir", "offsets.yaml.atomic")
		case "otherfs":
			d, _ := os.MkdirTemp(otherFS, "verif-c07-")
			cleanup = append(cleanup, d)
			tmpN = filepath.Join(d, "offsets.yaml.atomic")
		}
		defer func() {
			for _, d := range cleanup {
				os.RemoveAll(d)
			}
		}()
		in := save2In{Cur: cur, Tmp: tmp, TmpN: tmpN, P: jb.P, N: jb.N, Rlimit: fc.rlimit, Observe: fc.observe}
		opt := core.ChildOpt{Timeout: 2 * time.Minute, GOMAXPROCS: 2}
		if fc.hooks != "" {
			opt.Env = []string{"VERIF_HOOKS=" + fc.hooks}
		}
		if fc.strace != "" {
			// the previous snapshot is written by an uninstrumented process first; the
			// traced process then only does the failing save (it issues no other fsync).
			if jb.P != nil {
				pre := runChild("save2", save2In{Cur: cur, Tmp: tmp, N: jb.P}, core.ChildOpt{Timeout: 2 * time.Minute})
				if !pre.Completed {
					c.Inconclusive("fault: could not write previous snapshot")
					return
				}
			}
			in.P = nil
			opt.Prefix = []string{"/usr/bin/strace", "-f", "-o", filepath.Join(dir, "trace.txt"), "-e", "trace=fsync,fdatasync", "-e", fc.strace}
		}
		res := runChild("save2", in, opt)
		if res.TimedOut {
			c.Inconclusive("fault child watchdog")
			return
		}
		l, ok := loadFresh(cur)
		if !ok {
			c.Inconclusive("fault: loader child failed")
			return
		}
		which := whichSnapshot(l, jb.P, jb.N)
		wit := func() map[string]any {
			w := map[string]any{"fault": fc.name, "hooks": fc.hooks, "previous_snapshot_present": jb.P != nil, "file_exists": l.Exists, "file_size": l.Size,
				"file_head": string(l.Head), "load_error": l.Err + l.Panic, "child_stderr": core.Trunc(res.Stderr, 1500), "file_is": which}
			if jb.P != nil {
				w["P_jobs"] = len(*jb.P)
			}
			w["N_jobs"] = len(*jb.N)
			return w
		}
		hadP := "with a previous snapshot"
		if jb.P == nil {
			hadP = "first save ever"
		}

		if strings.HasPrefix(fc.name, "crash@") {
			if res.Completed || res.Signal != "killed" || !strings.Contains(res.Stderr, "verifhook: crash at") {
				c.Inconclusive("crash point not reached: " + fc.name)
				return
			}
			c.Eval(1)
			c.Count("fault."+fc.name+"->"+which, 1)
			c.Nontrivial("fault|" + fc.name + "|" + hadP + "|" + which)
			if jb.pair == 0 && fc.name == "crash@offsets.sync" {
				c.Sample(map[string]any{"monitor": "fault matrix", "fault": fc.name, "hooks": fc.hooks, "child_signal": res.Signal, "file_after": describeWhich(which), "P_jobs": len(*jb.P), "N_jobs": len(*jb.N)})
			}
			if which == "unloadable" || which == "neither" {
				violOnce(c, fmt.Sprintf("file.offsetDB.save %s: offsets file afterwards is %s", fc.name, describeWhich(which)),
					fmt.Sprintf("process killed at %s during a save (%s): a fresh load gives neither the previous nor the new snapshot: %s", strings.TrimPrefix(fc.name, "crash@"), hadP, l.Err+l.Panic), wit())
			}
			return
		}
		if !res.Completed {
			msg, fn := core.PanicFunc(res.Stderr)
			violOnce(c, "file.offsetDB.save "+fc.name+": process died: "+core.NormalizeMsg(msg)+" in "+fn, "save under fault "+fc.name+" killed the process", wit())
			return
		}
		var out save2Out
		_ = json.Unmarshal(res.Out, &out)

		if fc.observe {
			c.Eval(1)
			if which != "N" && which != "P=N" {
				violOnce(c, "file.offsetDB.save without faults: offsets file afterwards is "+describeWhich(which), "after a successful save the file does not load to the saved table: "+l.Err+l.Panic, wit())
			}
			if len(out.Observed) != len(fileSavePoints) {
				c.Inconclusive(fmt.Sprintf("observe: %d of %d protocol points seen", len(out.Observed), len(fileSavePoints)))
				return
			}
			// what a concurrent reader (or a kill) would find at each step
			paths := []string{}
			for k, ob := range out.Observed {
				p := filepath.Join(dir, fmt.Sprintf("obs-%d", k))
				if ob.Exists {
					_ = os.WriteFile(p, ob.Content, 0o600)
				}
				paths = append(paths, p)
			}
			lr := runChild("load", loadIn{Paths: paths}, core.ChildOpt{Timeout: 2 * time.Minute})
			var ls []loadRes
			if !lr.Completed || json.Unmarshal(lr.Out, &ls) != nil || len(ls) != len(paths) {
				c.Inconclusive("observe: loader failed")
				return
			}
			seq := ""
			for k, ob := range out.Observed {
				w := whichSnapshot(ls[k], jb.P, jb.N)
				seq += ob.Point[len("offsets."):] + "=" + w + " "
				c.Count("observe."+ob.Point+"->"+w, 1)
				if w == "unloadable" || w == "neither" {
					violOnce(c, fmt.Sprintf("file.offsetDB.save mid-save at %s: offsets file is %s", ob.Point, describeWhich(w)),
						"a reader looking at the offsets file while save is at "+ob.Point+" finds neither the previous nor the new snapshot: "+ls[k].Err+ls[k].Panic,
						map[string]any{"point": ob.Point, "file_head": core.Trunc(string(ob.Content), 1500), "previous_snapshot_present": jb.P != nil})
				}
			}
			c.Nontrivial("observe|" + hadP + "|" + seq)
			if jb.pair == 0 {
				c.Sample(map[string]any{"monitor": "fault matrix", "fault": "none (reader at every protocol point)", "file_is": strings.TrimSpace(seq)})
			}
			return
		}

		// a save step failed
		// whether the fault really happened is established independently of what the code logs
		reached := true
		if fc.proof == "strace" {
			tb, _ := os.ReadFile(filepath.Join(dir, "trace.txt"))
			reached = strings.Contains(string(tb), "(INJECTED)")
		}
		if strings.HasPrefix(fc.name, "error@") {
			pt := strings.TrimPrefix(fc.name, "error@")
			nth := int64(2)
			if jb.P == nil {
				nth = 1
			}
			reached = out.Hits[pt] >= nth
		}
		if !reached {
			c.Inconclusive("fault not effective: " + fc.name)
			return
		}
		c.Eval(1)
		c.Count("fault."+fc.name+"->"+which, 1)
		c.Nontrivial("fault|" + fc.name + "|" + hadP + "|" + which)
		if which != "P" && which != "P=N" {
			step := failedStep(fc.name)
			violOnce(c, fmt.Sprintf("file.offsetDB.save: offsets file replaced after failed %s", step),
				fmt.Sprintf("fault %s (%s): save logged the failure and went on; the offsets file is now %s instead of the previous snapshot. %s", fc.name, hadP, describeWhich(which), l.Err+l.Panic), wit())
		}
	})

	for _, must := range []string{"crash@offsets.afterOpen", "crash@offsets.write", "crash@offsets.sync", "crash@offsets.beforeRename", "crash@offsets.afterRename",
		"error@offsets.write", "error@offsets.sync", "shortwrite(EFBIG)", "open-fails(ENOENT)"} {
		n := int64(0)
		for _, w := range []string{"P", "N", "P=N", "neither", "unloadable"} {
			n += c.Counter("fault." + must + "->" + w)
		}
		if n == 0 {
			c.Fatal("fault matrix: %s was never effective", must)
		}
	}
	if c.Counter("observe.offsets.afterRename->N") == 0 {
		c.Fatal("fault matrix: never observed a successful save")
	}
}

func failedStep(name string) string {
	switch {
	case strings.Contains(name, "write"):
		return "write"
	case strings.Contains(name, "sync"):
		return "sync"
	case strings.Contains(name, "open"):
		return "open"
	case strings.Contains(name, "rename"):
		return "rename"
	}
	return name
}

func describeWhich(w string) string {
	switch w {
	case "unloadable":
		return "unloadable"
	case "neither":
		return "a table that is neither the previous nor the new snapshot"
	case "N":
		return "the new snapshot"
	case "P":
		return "the previous snapshot"
	}
	return w
}

// ---- generic offset.Offset.Save ----

type gsave2In struct {
	Path   string
	P, N   *genericInfo
	Rlimit uint64
}

func childGSave2(raw json.RawMessage, io *core.ChildIO) (any, error) {
	var in gsave2In
	if err := json.Unmarshal(raw, &in); err != nil {
		return nil, err
	}
	res := map[string]string{}
	if in.P != nil {
		io.Log(map[string]string{"step": "save P"})
		if err := offset.SaveYAML(in.Path, *in.P); err != nil {
			return nil, err
		}
	}
	var old syscall.Rlimit
	if in.Rlimit > 0 {
		signal.Ignore(syscall.SIGXFSZ)
		_ = syscall.Getrlimit(syscall.RLIMIT_FSIZE, &old)
		if err := syscall.Setrlimit(syscall.RLIMIT_FSIZE, &syscall.Rlimit{Cur: in.Rlimit, Max: old.Max}); err != nil {
			return nil, err
		}
	}
	io.Log(map[string]string{"step": "save N"})
	if err := offset.SaveYAML(in.Path, *in.N); err != nil {
		res["save_error"] = core.Trunc(err.Error(), 600)
	}
	if in.Rlimit > 0 {
		_ = syscall.Setrlimit(syscall.RLIMIT_FSIZE, &old)
	}
	var got genericInfo
	if err := offset.LoadYAML(in.Path, &got); err != nil {
		res["load_error"] = core.Trunc(err.Error(), 600)
	}
	return res, nil
}

type gloadIn struct{ Path string }

func childGLoad(raw json.RawMessage, io *core.ChildIO) (any, error) {
	var in gloadIn
	if err := json.Unmarshal(raw, &in); err != nil {
		return nil, err
	}
	var got genericInfo
	res := map[string]any{}
	if err := offset.LoadYAML(in.Path, &got); err != nil {
		res["err"] = core.Trunc(err.Error(), 600)
	}
	res["offset"], res["cursor"] = got.Offset, got.Cursor
	return res, nil
}

func monitorGenericFaults(c *core.Ctx) {
	n := c.N(8, 80)
	type gcase struct {
		name   string
		hooks  string
		rlimit uint64
		hasP   bool
		i      int
		curLen int // length of the filler of the new cursor (default 3000)
	}
	// real short writes of a large value: limits at the start, around 64 KiB / 128 KiB and one byte before the end of a > 200 kB file
	bigLimits := []uint64{1, 4096, 65535, 65536, 65537, 131072, 131073, 199999, 200000}
	var cases []gcase
	for i := 0; i < n; i++ {
		hasP := i%4 != 3
		nth := 2
		if !hasP {
			nth = 1
		}
		cases = append(cases,
			gcase{name: "crash@offset.generic.afterWrite", hooks: fmt.Sprintf("offset.generic.afterWrite=crash:%d", nth), hasP: hasP, i: i},
			gcase{name: "crash@offset.generic.beforeRename", hooks: fmt.Sprintf("offset.generic.beforeRename=crash:%d", nth), hasP: hasP, i: i},
			gcase{name: "shortwrite(EFBIG)", rlimit: 1024, hasP: hasP, i: i},
			gcase{name: "shortwrite(EFBIG)", rlimit: bigLimits[i%len(bigLimits)], hasP: hasP, i: i, curLen: 200000},
		)
	}
	core.ParallelFor(len(cases), 16, func(k int) {
		gc := cases[k]
		rng := c.Rand(fmt.Sprintf("gfault-%d", k))
		dir := scratchDir(fastScratch)
		defer os.RemoveAll(dir)
		path := filepath.Join(dir, "journal-offsets.yaml")
		P := &genericInfo{Offset: rng.Int63n(1e6), Cursor: "s=aa;i=" + fmt.Sprint(rng.Intn(1e6))}
		N := &genericInfo{Offset: P.Offset + 1, Cursor: "s=aa;i=" + fmt.Sprint(rng.Intn(1e6)) + ";x=" + strings.Repeat("c", max(gc.curLen, 3000))}
		in := gsave2In{Path: path, N: N, Rlimit: gc.rlimit}
		if gc.hasP {
			in.P = P
		}
		opt := core.ChildOpt{Timeout: 2 * time.Minute, GOMAXPROCS: 2}
		if gc.hooks != "" {
			opt.Env = []string{"VERIF_HOOKS=" + gc.hooks}
		}
		res := runChild("gsave2", in, opt)
		if res.TimedOut {
			c.Inconclusive("generic fault watchdog")
			return
		}
		crash := strings.HasPrefix(gc.name, "crash@")
		if crash && (res.Completed || !strings.Contains(res.Stderr, "verifhook: crash at")) {
			c.Inconclusive("generic crash point not reached")
			return
		}
		if !crash {
			var out map[string]string
			_ = json.Unmarshal(res.Out, &out)
			// effective by construction: the value is > 3000 bytes and the limit is 1024, or > 200000 bytes and the limit is <= 200000
			if !res.Completed {
				c.Inconclusive("generic short write child failed")
				return
			}
			if out["save_error"] == "" {
				c.Count("generic.fault.shortwrite_not_reported_by_Save", 1)
			}
		}
		lr := runChild("gload", gloadIn{Path: path}, core.ChildOpt{Timeout: time.Minute})
		if !lr.Completed {
			c.Inconclusive("generic loader failed")
			return
		}
		var got struct {
			Err    string `json:"err"`
			Offset int64  `json:"offset"`
			Cursor string `json:"cursor"`
		}
		_ = json.Unmarshal(lr.Out, &got)
		which := "neither"
		switch {
		case got.Err != "":
			which = "unloadable"
		case gc.hasP && got.Offset == P.Offset && got.Cursor == P.Cursor, !gc.hasP && got.Offset == 0 && got.Cursor == "":
			which = "P"
		case got.Offset == N.Offset && got.Cursor == N.Cursor:
			which = "N"
		}
		c.Eval(1)
		c.Count("generic.fault."+gc.name+"->"+which, 1)
		c.Nontrivial(fmt.Sprintf("gfault|%s|%v|%s|%s", gc.name, gc.hasP, which, sizeClass(int64(gc.rlimit))))
		if gc.curLen > 3000 {
			c.Count("generic.fault.shortwrite_large_value", 1)
		}
		bad := which == "unloadable" || which == "neither" || (!crash && which != "P")
		if bad {
			violOnce(c, fmt.Sprintf("offset.Offset.Save %s: offsets file afterwards is %s", gc.name, describeWhich(which)),
				"generic offsets file after the fault is not the previous (or, for a crash, the new) value: "+got.Err,
				map[string]any{"fault": gc.name, "had_previous": gc.hasP, "loaded_offset": got.Offset, "loaded_cursor": core.Trunc(got.Cursor, 100), "P": P, "N_offset": N.Offset})
		}
	})
	if c.Counter("generic.fault.crash@offset.generic.afterWrite->P") == 0 || c.Counter("generic.fault.shortwrite(EFBIG)->P")+c.Counter("generic.fault.shortwrite(EFBIG)->neither")+c.Counter("generic.fault.shortwrite(EFBIG)->unloadable")+c.Counter("generic.fault.shortwrite(EFBIG)->N") == 0 {
		c.Fatal("generic fault matrix: a fault class was never effective")
	}
}
