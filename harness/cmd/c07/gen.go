package main

// Job tables, their byte-safe wire form, generators and the table comparison.

import (
	"fmt"
	"math/rand"
	"sort"
	"strings"
	"unicode/utf8"

	file "github.com/ozontech/file.d/plugin/input/file"
)

// Wire types: names are []byte (base64 in JSON) because stream and file names
// are arbitrary byte strings and encoding/json would replace invalid UTF-8.
type WStream struct {
	Name []byte `json:"n"`
	Off  int64  `json:"o"`
}

type WJob struct {
	File    []byte    `json:"f"`
	Inode   uint64    `json:"i"`
	Src     uint64    `json:"s"`
	TS      int64     `json:"t"`
	Streams []WStream `json:"st"`
}

type WTable []WJob

func (t WTable) toReal() []file.VerifJob {
	out := make([]file.VerifJob, 0, len(t))
	for _, j := range t {
		r := file.VerifJob{Filename: string(j.File), Inode: j.Inode, SourceID: j.Src, Timestamp: j.TS}
		for _, s := range j.Streams {
			r.Streams = append(r.Streams, file.VerifStreamOffset{Stream: string(s.Name), Offset: s.Off})
		}
		out = append(out, r)
	}
	return out
}

func fromReal(tbl []file.VerifJob) WTable {
	out := make(WTable, 0, len(tbl))
	for _, j := range tbl {
		w := WJob{File: []byte(j.Filename), Inode: j.Inode, Src: j.SourceID, TS: j.Timestamp}
		for _, s := range j.Streams {
			w.Streams = append(w.Streams, WStream{Name: []byte(s.Stream), Off: s.Offset})
		}
		out = append(out, w)
	}
	return out
}

// pretty is the human-readable form used in witnesses.
func (t WTable) pretty() []map[string]any {
	out := []map[string]any{}
	for _, j := range t {
		st := []string{}
		for _, s := range j.Streams {
			st = append(st, fmt.Sprintf("%s=%d", q(s.Name), s.Off))
		}
		out = append(out, map[string]any{"file": q(j.File), "inode": j.Inode, "source_id": j.Src, "streams": st})
	}
	return out
}

func q(b []byte) string {
	s := fmt.Sprintf("%q", string(b))
	if len(s) > 200 {
		s = s[:120] + fmt.Sprintf("…(%d bytes)", len(b))
	}
	return s
}

// ---- the reference: what a snapshot *is* ----

type normJob struct {
	file    string
	streams map[string]int64
}

// norm is the meaning of a job table as far as the offsets file is
// concerned: per source id the file name and the stream→offset map; jobs that
// have no committed offset yet carry no information and are omitted.
func norm(t WTable) map[uint64]normJob { return normKeep(t, false) }

// normKeep with keepEmpty is used for what load returned: a loaded job without
// streams is not "nothing" (the plugin refuses to start with it).
func normKeep(t WTable, keepEmpty bool) map[uint64]normJob {
	m := map[uint64]normJob{}
	for _, j := range t {
		if len(j.Streams) == 0 && !keepEmpty {
			continue
		}
		nj := normJob{file: string(j.File), streams: map[string]int64{}}
		for _, s := range j.Streams {
			nj.streams[string(s.Name)] = s.Off
		}
		m[j.Src] = nj
	}
	return m
}

// diffTables returns "" when both tables mean the same snapshot.
func diffTables(want, got WTable) string {
	w, g := norm(want), normKeep(got, true)
	ids := make([]uint64, 0, len(w))
	for id := range w {
		ids = append(ids, id)
	}
	sort.Slice(ids, func(a, b int) bool { return ids[a] < ids[b] })
	for _, id := range ids {
		wj := w[id]
		gj, ok := g[id]
		if !ok {
			return fmt.Sprintf("job source_id=%d (%s) is missing after load", id, q([]byte(wj.file)))
		}
		if wj.file != gj.file {
			return fmt.Sprintf("job source_id=%d: file name %s loaded as %s", id, q([]byte(wj.file)), q([]byte(gj.file)))
		}
		names := make([]string, 0, len(wj.streams))
		for n := range wj.streams {
			names = append(names, n)
		}
		sort.Strings(names)
		for _, n := range names {
			gv, ok := gj.streams[n]
			if !ok {
				return fmt.Sprintf("job source_id=%d: stream %s is missing after load (loaded streams: %s)", id, q([]byte(n)), streamList(gj.streams))
			}
			if gv != wj.streams[n] {
				return fmt.Sprintf("job source_id=%d stream %s: offset %d loaded as %d", id, q([]byte(n)), wj.streams[n], gv)
			}
		}
		if len(gj.streams) != len(wj.streams) {
			return fmt.Sprintf("job source_id=%d: %d streams saved, %d loaded (%s)", id, len(wj.streams), len(gj.streams), streamList(gj.streams))
		}
	}
	if len(g) != len(w) {
		for id, gj := range g {
			if _, ok := w[id]; !ok {
				return fmt.Sprintf("load returns a job that was never saved: source_id=%d file=%s streams=%s", id, q([]byte(gj.file)), streamList(gj.streams))
			}
		}
	}
	return ""
}

func streamList(m map[string]int64) string {
	names := make([]string, 0, len(m))
	for n := range m {
		names = append(names, n)
	}
	sort.Strings(names)
	var sb strings.Builder
	for i, n := range names {
		if i > 0 {
			sb.WriteString(", ")
		}
		if i >= 8 {
			sb.WriteString("…")
			break
		}
		fmt.Fprintf(&sb, "%s=%d", q([]byte(n)), m[n])
	}
	return "{" + sb.String() + "}"
}

// ---- name pools ----

// Stream names come from the event's stream field (any JSON string, after
// unescaping) or the constant "not_set"; none of the names in goodStreams
// contains a line feed or is empty.
var goodStreams = []string{
	"not_set", "stdout", "stderr", "default", "a:b", ":", "::", "a:", ":a", "a: 1", "a: b: 12",
	" lead", "trail ", " ", "  ", "    ", "a b c", "- file: z", "-", "--", "-x", "- ", "  streams:", "    s: 5",
	"  inode: 1", "  source_id: 2", "last_read_timestamp: 3", "#", "a#b", "# comment", "x: 9223372036854775807",
	"日本語", "стрим", "😀", "é", "\t", "a\tb", "\r", "a\r", "\r\r", "\"", "\"q\"", "'", "''", "\\", "\\n", "a\\nb", "{}", "[]",
	"null", "~", "0", "-1", "1e9", "true", "%s", "%d%n", "\x00", "a\x00b", "\xff\xfe", "\xc3", "\u2028", "\u0085",
	"\v", "\f", "\x1b[0m", "&a", "*a", "!tag", "|", ">", "@", "`", "k8s_pod/ns/ctr", "stream.with.dots",
}

// Known-bad classes (see FINDINGS.md): empty name, names with a line feed.
var lfStreams = []string{
	"\n", "a\nb", "a\n", "\na", "a\n\nb", "a:\nb", "a: 5\n    b", "x\n- file: y", "a\r\nb", "日本\n語",
}

var goodFiles = []string{
	"/var/log/pods/ns_pod-abc_0f3a/ctr/0.log", "/var/log/containers/app-7d9f_default_main-0123abcd.log",
	"/tmp/with space/a b.log", "/data/a:b.log", "/data/:.log", "/data/#x.log", "/data/x # y.log",
	"/data/日本語/ログ.log", "/data/файл.log", "/data/😀.log", "/data/- file: x", "/data/x  inode: 5", "/data/trailing ",
	"/d/\"q\".log", "/d/'q'.log", "/d/back\\slash.log", "/d/lit\\n.log", "/d/tab\there.log", "/d/cr\rhere.log",
	"relative/path.log", "/d/\xff\xfe.log", "/d/{a}[b].log", "/d/*.log", "/d/%s.log", "/d/a: 1", "/d/  streams:",
	"/", "/x", "/d/.hidden", "/d/double//slash.log", "/d/\x1b[31mred.log", "/d/\u2028sep.log",
}

var lfFiles = []string{
	"/d/new\nline.log", "/d/\n", "/d/x\n  inode: 1\n  source_id: 77\n  streams:\n    forged: 1\n- file: /d/y",
}

var offsetPool = []int64{
	0, 1, 2, 9, 10, 99, 100, 999, 1000, 4095, 4096, 65535, 65536, 1<<31 - 1, 1 << 31, 1<<32 - 1, 1 << 32, 1 << 53, 1<<53 + 1,
	999999999999999999, 1000000000000000000, 1<<63 - 2, 1<<63 - 1, 16 * 1024 * 1024, 16*1024*1024 - 1,
}

var idPool = []uint64{0, 1, 2, 255, 1<<31 - 1, 1 << 31, 1<<32 - 1, 1 << 32, 1<<63 - 1, 1 << 63, 1<<64 - 2, 1<<64 - 1}

var nameAlphabet = []string{"a", "b", "z", "0", "7", ":", " ", "-", "#", "\"", "\\", "é", "日", "\t", ".", "/", "_", "'", "😀", "\r", "%", "{", "[", "\x00", "\xff"}

type genOpt struct {
	hostile   bool // allow the known-bad classes (empty / line-feed names)
	maxJobs   int
	bigProb   float64 // probability of a large table (write buffer beyond its initial 64 KiB)
	safeOnly  bool    // only plain well-behaved names (for the fault/concurrency monitors)
	shortOnly bool    // (set for large tables) no very long names: bounds memory
}

func randName(rng *rand.Rand, lf bool) string {
	n := 1 + rng.Intn(12)
	var sb strings.Builder
	for i := 0; i < n; i++ {
		sb.WriteString(nameAlphabet[rng.Intn(len(nameAlphabet))])
	}
	s := sb.String()
	if lf {
		p := rng.Intn(len(s) + 1)
		s = s[:p] + "\n" + s[p:]
	}
	return s
}

func genStreamName(rng *rand.Rand, o genOpt) string {
	if o.safeOnly {
		return []string{"not_set", "stdout", "stderr", "s1", "s2", "a:b", "日本語", "with space"}[rng.Intn(8)]
	}
	if o.hostile && rng.Intn(4) == 0 {
		switch rng.Intn(3) {
		case 0:
			return ""
		case 1:
			return lfStreams[rng.Intn(len(lfStreams))]
		default:
			return randName(rng, true)
		}
	}
	switch r := rng.Intn(10); {
	case r < 5:
		return goodStreams[rng.Intn(len(goodStreams))]
	case r < 9:
		return randName(rng, false)
	default:
		if o.shortOnly {
			return randName(rng, false)
		}
		n := []int{300, 1023, 1024, 5000, 70000}[rng.Intn(5)]
		return strings.Repeat([]string{"x", "é", ":", " y"}[rng.Intn(4)], n)
	}
}

func genFileName(rng *rand.Rand, o genOpt, i int) string {
	if o.safeOnly {
		return fmt.Sprintf("/var/log/pods/ns_pod-%d/ctr/%d.log", rng.Intn(1000), i)
	}
	if o.hostile && rng.Intn(8) == 0 {
		return lfFiles[rng.Intn(len(lfFiles))]
	}
	switch r := rng.Intn(10); {
	case r < 6:
		return goodFiles[rng.Intn(len(goodFiles))]
	case r < 9:
		return "/d/" + strings.ReplaceAll(randName(rng, false), "\x00", "_")
	default:
		if o.shortOnly {
			return "/" + strings.Repeat("long-dir/", 28) + "f.log"
		}
		return "/" + strings.Repeat("long-dir/", []int{28, 455, 8000}[rng.Intn(3)]) + "f.log"
	}
}

func genOffset(rng *rand.Rand) int64 {
	switch rng.Intn(3) {
	case 0:
		return offsetPool[rng.Intn(len(offsetPool))]
	case 1:
		return rng.Int63()
	default:
		return rng.Int63n(1 << uint(1+rng.Intn(40)))
	}
}

func genID(rng *rand.Rand) uint64 {
	switch rng.Intn(3) {
	case 0:
		return idPool[rng.Intn(len(idPool))]
	case 1:
		return rng.Uint64()
	default:
		return uint64(rng.Int63n(1 << 32))
	}
}

func genTable(rng *rand.Rand, o genOpt) WTable {
	nj := rng.Intn(o.maxJobs + 1)
	maxStreams := 4
	if rng.Float64() < o.bigProb {
		nj = 150 + rng.Intn(600)
		if rng.Intn(3) == 0 {
			maxStreams = 40
		}
		o.shortOnly = true
	}
	used := map[uint64]bool{}
	t := make(WTable, 0, nj)
	for i := 0; i < nj; i++ {
		var id uint64
		for {
			id = genID(rng)
			if !used[id] {
				break
			}
		}
		used[id] = true
		j := WJob{File: []byte(genFileName(rng, o, i)), Inode: genID(rng), Src: id}
		switch rng.Intn(4) {
		case 0:
			j.TS = 0
		case 1:
			j.TS = 1<<63 - 1
		default:
			j.TS = 1700000000000000000 + rng.Int63n(1e18)
		}
		ns := rng.Intn(maxStreams + 1)
		if ns == 0 && rng.Intn(2) == 0 {
			ns = 1
		}
		seen := map[string]bool{}
		for k := 0; k < ns; k++ {
			n := genStreamName(rng, o)
			if seen[n] {
				continue
			}
			seen[n] = true
			j.Streams = append(j.Streams, WStream{Name: []byte(n), Off: genOffset(rng)})
		}
		t = append(t, j)
	}
	return t
}

// ---- structural shape of a name (for signatures) ----

func nameShape(s string) string {
	if s == "" {
		return `""`
	}
	if strings.Contains(s, "\n") {
		return `contains "\n"`
	}
	var f []string
	add := func(c bool, n string) {
		if c {
			f = append(f, n)
		}
	}
	add(s[0] == ' ', "leading-space")
	add(s[len(s)-1] == ' ', "trailing-space")
	add(strings.Contains(s, ":"), "colon")
	add(s[0] == '-', "leading-dash")
	add(strings.Contains(s, "#"), "hash")
	add(strings.ContainsAny(s, "\"'"), "quote")
	add(strings.Contains(s, "\\"), "backslash")
	ctl := false
	for i := 0; i < len(s); i++ {
		if s[i] < 0x20 || s[i] == 0x7f {
			ctl = true
		}
	}
	add(ctl, "control-char")
	if !utf8.ValidString(s) {
		f = append(f, "invalid-utf8")
	} else {
		add(len(s) != utf8.RuneCountInString(s), "non-ascii")
	}
	add(len(s) > 1000, "long")
	if len(f) == 0 {
		return "plain"
	}
	return strings.Join(f, "+")
}

func offsetShape(v int64) string {
	switch {
	case v == 0:
		return "0"
	case v == 1<<63-1:
		return "2^63-1"
	case v < 1<<31:
		return "<2^31"
	case v < 1<<53:
		return "<2^53"
	default:
		return ">=2^53"
	}
}
