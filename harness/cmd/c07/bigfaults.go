package main

// Monitor 2b: the fault matrix over LARGE job tables (several hundred to a few
// thousand jobs, multi-stream, serialised size from just above 64 KiB to
// several hundred KiB), where a save may consist of more than one write call.
//
// Nothing here assumes how many write calls a save issues: a fault-free probe
// save of the same table counts the hits W of the point "offsets.write" and
// measures the size S of the snapshot; then
//
//   - an injected failure is delivered at EVERY one of the W write steps in turn
//     (first, middle, last), once, twice in a row, and "from k on";
//   - the process is killed at every one of the W write steps;
//   - a REAL short write is produced by a soft RLIMIT_FSIZE (SIGXFSZ ignored, so
//     write(2) returns a short count and then EFBIG) at limits that cut the
//     snapshot at the beginning, around 64 KiB and 128 KiB, in the middle, one
//     byte before its end, and at random places - this does not depend on where
//     the hook sits or on how the writer splits its output;
//   - limits S and S+1 must let the save succeed (the file must be N).
//
// Oracle (unchanged): after a failed save a fresh process loads exactly the
// previous snapshot P (nothing, if there was none); after a kill exactly P or
// exactly N; a reader at any protocol point finds P or N.

import (
	"encoding/json"
	"fmt"
	"math/rand"
	"os"
	"path/filepath"
	"sort"
	"strings"
	"time"

	"verifharness/core"
)

// genBigTable makes a table of n jobs with plain but varied names, 0-6 streams
// per job (unique per job), unique source ids.
func genBigTable(rng *rand.Rand, tag string, n int) WTable {
	streams := []string{"not_set", "stdout", "stderr", "s1", "s2", "a:b", "日本語", "with space", "k8s_pod/ns/ctr", "stream.with.dots"}
	t := make(WTable, 0, n)
	used := map[uint64]bool{}
	for i := 0; i < n; i++ {
		var id uint64
		for {
			id = genID(rng)
			if !used[id] {
				break
			}
		}
		used[id] = true
		var name string
		switch rng.Intn(4) {
		case 0:
			name = fmt.Sprintf("/var/log/pods/%s_pod-%d_%08x/ctr/%d.log", tag, rng.Intn(100000), rng.Uint32(), i)
		case 1:
			name = fmt.Sprintf("/var/log/containers/app-%d-%s_default_main-%016x.log", i, tag, rng.Uint64())
		case 2:
			name = fmt.Sprintf("/data/%s/with space/日本語-%d/a:b.log", tag, i)
		default:
			name = fmt.Sprintf("/d/%s/%d", tag, i)
		}
		j := WJob{File: []byte(name), Inode: genID(rng), Src: id, TS: 1700000000000000000 + rng.Int63n(1e17)}
		ns := rng.Intn(7)
		if ns == 0 && rng.Intn(4) != 0 { // a few jobs without any offset stay (they are not written)
			ns = 1
		}
		perm := rng.Perm(len(streams))
		for k := 0; k < ns; k++ {
			j.Streams = append(j.Streams, WStream{Name: []byte(streams[perm[k]]), Off: genOffset(rng)})
		}
		t = append(t, j)
	}
	return t
}

// advance returns the table with every offset moved forward and extra new jobs.
func advance(rng *rand.Rand, P WTable, tag string, extra int) WTable {
	N := make(WTable, 0, len(P)+extra)
	used := map[uint64]bool{}
	for _, j := range P {
		used[j.Src] = true
		nj := j
		nj.Streams = nil
		for _, s := range j.Streams {
			if s.Off < 1<<62 {
				s.Off += 1 + rng.Int63n(1<<20)
			}
			nj.Streams = append(nj.Streams, s)
		}
		if len(nj.Streams) == 0 && rng.Intn(2) == 0 {
			nj.Streams = []WStream{{Name: []byte("stdout"), Off: 1 + rng.Int63n(1000)}}
		}
		N = append(N, nj)
	}
	for _, j := range genBigTable(rng, tag, extra) {
		for used[j.Src] {
			j.Src = rng.Uint64()
		}
		used[j.Src] = true
		N = append(N, j)
	}
	return N
}

type bigCase struct {
	name   string // counter / fingerprint name
	in     save2In
	kind   string // "error" | "crash" | "rlimit" | "rlimit-ok" | "observe"
	k, w   int    // write step k of w (error / crash)
	limit  uint64
	suffix string // strace: the (deterministic) random suffix of the temp file name
}

func posClass(k, w int) string {
	switch {
	case w == 1:
		return "the only write"
	case k == w:
		return "the last write of a multi-write save"
	case k == 1:
		return "the first write of a multi-write save"
	}
	return "a middle write of a multi-write save"
}

func sizeClass(s int64) string {
	switch {
	case s > 128<<10:
		return ">128KiB"
	case s > 64<<10:
		return "64-128KiB"
	}
	return "<=64KiB"
}

func monitorBigFaults(c *core.Ctx) {
	tables := c.N(6, 36)
	// job counts: the first four cover "just above 64 KiB", "between 64 and 128 KiB .. above", "a few chunks", "many chunks"
	base := []int{420, 800, 1500, 3000}
	core.ParallelFor(tables, 4, func(ti int) {
		rng := c.Rand(fmt.Sprintf("bigfault-%d", ti))
		nJobs := base[ti%len(base)] + rng.Intn(base[ti%len(base)]/4)
		tag := fmt.Sprintf("t%d", ti)
		var P *WTable
		var N WTable
		prev := "no previous snapshot"
		switch ti % 3 {
		case 0: // previous snapshot is itself large; N = P advanced + new jobs
			p := genBigTable(rng, tag, nJobs-nJobs/10)
			P = &p
			N = advance(rng, p, tag+"n", nJobs/10)
			prev = "large previous snapshot"
		case 1: // small previous snapshot
			p := genBigTable(rng, tag, 1+rng.Intn(5))
			for len(norm(p)) == 0 {
				p = genBigTable(rng, tag, 1+rng.Intn(5))
			}
			P = &p
			N = advance(rng, p, tag+"n", nJobs)
			prev = "small previous snapshot"
		default:
			N = genBigTable(rng, tag, nJobs)
		}
		streams := 0
		for _, j := range N {
			streams += len(j.Streams)
		}

		// ---- probe: the same two saves without any fault ----
		pdir := scratchDir(fastScratch)
		defer os.RemoveAll(pdir)
		pcur := filepath.Join(pdir, "offsets.yaml")
		pres := runChild("save2", save2In{Cur: pcur, Tmp: pcur + ".atomic", P: P, N: &N}, core.ChildOpt{Timeout: 3 * time.Minute, GOMAXPROCS: 2})
		if !pres.Completed {
			if pres.TimedOut {
				c.Inconclusive("bigfault: probe watchdog")
				return
			}
			msg, fn := core.PanicFunc(pres.Stderr)
			violOnce(c, "file.offsetDB.save without faults (large table): process died: "+core.NormalizeMsg(msg)+" in "+fn, "saving a large table killed the process", map[string]any{"jobs": len(N), "stderr": core.Trunc(pres.Stderr, 1500)})
			return
		}
		var pout save2Out
		_ = json.Unmarshal(pres.Out, &pout)
		st, err := os.Stat(pcur)
		if err != nil {
			c.Inconclusive("bigfault: probe produced no offsets file")
			return
		}
		S := st.Size()
		W := int(pout.HitsN["offsets.write"])
		pl, ok := loadFresh(pcur)
		if !ok {
			c.Inconclusive("bigfault: loader child failed")
			return
		}
		c.Eval(1)
		if w := whichSnapshot(pl, P, &N); w != "N" && w != "P=N" {
			violOnce(c, "file.offsetDB.save without faults: offsets file afterwards is "+describeWhich(w),
				"after a successful save of a large table the file does not load to the saved table: "+pl.Err+pl.Panic+" "+diffTables(N, pl.Loaded),
				map[string]any{"jobs": len(N), "streams": streams, "file_size": S, "file_head": string(pl.Head)})
			return
		}
		if W < 1 {
			c.Inconclusive("bigfault: the probe save never passed offsets.write")
			return
		}
		c.Count("bigfault.tables", 1)
		c.Count("bigfault.tables_"+sizeClass(S), 1)
		c.Count("bigfault.jobs", int64(len(N)))
		c.Count("bigfault.streams", int64(streams))
		c.Count("bigfault.snapshot_bytes", S)
		c.Count("bigfault.write_steps_per_save_total", int64(W))
		if W > 1 {
			c.Count("bigfault.tables_with_multi_write_save", 1)
		}

		// ---- the cases ----
		var cases []bigCase
		for k := 1; k <= W; k++ {
			cases = append(cases,
				bigCase{name: "error@write", kind: "error", k: k, w: W, in: save2In{ErrPoint: "offsets.write", ErrNth: k}},
				bigCase{name: "crash@write", kind: "crash", k: k, w: W, in: save2In{CrashPoint: "offsets.write", CrashNth: k}},
			)
			if k < W {
				cases = append(cases, bigCase{name: "error@write(x2)", kind: "error", k: k, w: W, in: save2In{ErrPoint: "offsets.write", ErrNth: k, ErrCount: 2}})
			}
			if k == 1 || k == (W+1)/2 {
				cases = append(cases, bigCase{name: "error@write(from k on)", kind: "error", k: k, w: W, in: save2In{ErrPoint: "offsets.write", ErrNth: k, ErrCount: -1}})
			}
		}
		cases = append(cases,
			bigCase{name: "error@sync", kind: "error", k: 1, w: 1, in: save2In{ErrPoint: "offsets.sync", ErrNth: 1}},
			bigCase{name: "observe", kind: "observe", in: save2In{ObserveSum: true}},
		)
		// transient failure of ONE write(2) call on the temp file (ENOSPC injected by strace at the k-th write
		// system call to that path, every k in turn): independent of the hook and of how the writer splits its output
		if _, err := os.Stat(stracePath); err == nil {
			suffix, wsys := straceWriteProbe(c, &N)
			c.Count("bigfault.strace.write_syscalls_per_save_total", int64(wsys))
			ks := []int{}
			for k := 1; k <= wsys; k++ {
				if wsys <= 12 || k <= 4 || k > wsys-4 || k%(wsys/4) == 0 {
					ks = append(ks, k)
				}
			}
			for _, k := range ks {
				cases = append(cases, bigCase{name: "write-fails-once(ENOSPC,strace)", kind: "strace", k: k, w: wsys, suffix: suffix, in: save2In{LockThread: true}})
			}
		}
		lim := map[uint64]bool{}
		addLim := func(v int64) {
			if v >= 1 && v < S {
				lim[uint64(v)] = true
			}
		}
		for _, v := range []int64{1, 4096, 65535, 65536, 65537, 65536 + 1 + rng.Int63n(400), 65536 + 400 + rng.Int63n(4000), 2*65536 - 1, 2 * 65536, 2*65536 + 1,
			2*65536 + 1 + rng.Int63n(4000), 3 * 65536, S / 2, S - 65536, S - 4096, S - 1 - rng.Int63n(200), S - 1, 1 + rng.Int63n(S-1), 1 + rng.Int63n(S-1)} {
			addLim(v)
		}
		for m := int64(4); m*65536 < S; m += 1 + rng.Int63n(3) { // some later multiples of 64 KiB and their neighbourhood
			addLim(m*65536 + rng.Int63n(3) - 1)
		}
		lims := make([]uint64, 0, len(lim))
		for v := range lim {
			lims = append(lims, v)
		}
		sort.Slice(lims, func(a, b int) bool { return lims[a] < lims[b] })
		for _, v := range lims {
			cases = append(cases, bigCase{name: "shortwrite(EFBIG)", kind: "rlimit", limit: v, in: save2In{Rlimit: v}})
		}
		cases = append(cases,
			bigCase{name: "limit=size", kind: "rlimit-ok", limit: uint64(S), in: save2In{Rlimit: uint64(S)}},
			bigCase{name: "limit=size+1", kind: "rlimit-ok", limit: uint64(S) + 1, in: save2In{Rlimit: uint64(S) + 1}},
		)

		core.ParallelFor(len(cases), 4, func(ci int) {
			bc := cases[ci]
			dir := scratchDir(fastScratch)
			defer os.RemoveAll(dir)
			cur := filepath.Join(dir, "offsets.yaml")
			in := bc.in
			in.Cur, in.Tmp, in.P, in.N = cur, cur+".atomic", P, &N
			opt := core.ChildOpt{Timeout: 3 * time.Minute, GOMAXPROCS: 2}
			trace := filepath.Join(dir, "trace.txt")
			if bc.kind == "strace" {
				// the previous snapshot is written by an untraced process; the traced one only does the failing save
				if P != nil {
					pre := runChild("save2", save2In{Cur: cur, Tmp: in.Tmp, N: P}, core.ChildOpt{Timeout: 3 * time.Minute, GOMAXPROCS: 2})
					if !pre.Completed {
						c.Inconclusive("bigfault: could not write previous snapshot")
						return
					}
				}
				in.P = nil
				opt.GOMAXPROCS = 1
				opt.Env = []string{"GODEBUG=randautoseed=0"}
				opt.Prefix = []string{stracePath, "-f", "-y", "-o", trace, "-e", "signal=none", "-e", "trace=write", "-P", in.Tmp + "." + bc.suffix,
					"-e", fmt.Sprintf("inject=write:error=ENOSPC:when=%d", bc.k)}
			}
			res := runChild("save2", in, opt)
			if res.TimedOut {
				c.Inconclusive("bigfault child watchdog")
				return
			}
			l, ok := loadFresh(cur)
			if !ok {
				c.Inconclusive("bigfault: loader child failed")
				return
			}
			which := whichSnapshot(l, P, &N)
			var out save2Out
			if res.Completed {
				_ = json.Unmarshal(res.Out, &out)
			}
			wit := func() map[string]any {
				left, _ := filepath.Glob(cur + ".atomic*")
				w := map[string]any{"fault": bc.name, "write_step": bc.k, "write_steps_of_a_faultless_save": W, "rlimit_fsize": bc.limit, "snapshot_bytes_of_N": S,
					"N_jobs": len(N), "N_streams": streams, "previous": prev, "file_exists": l.Exists, "file_size": l.Size, "file_is": which,
					"load_error": l.Err + l.Panic, "hits_during_failed_save": out.HitsN, "injected": out.Injected, "temp_files_left": len(left),
					"child_stderr": core.Trunc(res.Stderr, 1200)}
				if l.Err == "" && l.Panic == "" && which == "neither" {
					w["difference_to_N"] = diffTables(N, l.Loaded)
					w["loaded_jobs"] = len(l.Loaded)
				}
				return w
			}
			fp := fmt.Sprintf("bigfault|%s|%s|table %s", bc.name, prev, sizeClass(S))

			switch bc.kind {
			case "crash":
				if res.Completed || res.Signal != "killed" || !strings.Contains(res.Stderr, "verifhook: crash at") {
					c.Inconclusive("bigfault: crash point not reached")
					return
				}
				c.Eval(1)
				c.Count("bigfault.crash@write->"+which, 1)
				c.Nontrivial(fp + "|" + posClass(bc.k, bc.w) + "|" + which)
				if which == "unloadable" || which == "neither" {
					violOnce(c, "file.offsetDB.save crash@offsets.write: offsets file afterwards is "+describeWhich(which),
						fmt.Sprintf("process killed at write step %d of %d of a save of a %d-byte table (%s): a fresh load gives neither the previous nor the new snapshot: %s", bc.k, bc.w, S, prev, l.Err+l.Panic), wit())
				}
				return
			}
			if !res.Completed {
				msg, fn := core.PanicFunc(res.Stderr)
				violOnce(c, "file.offsetDB.save "+bc.name+": process died: "+core.NormalizeMsg(msg)+" in "+fn, "save of a large table under fault "+bc.name+" killed the process", wit())
				return
			}
			switch bc.kind {
			case "observe":
				seq := ""
				seen := map[string]bool{}
				paths := []string{}
				for k := range out.Observed {
					paths = append(paths, fmt.Sprintf("%s.obs-%d", cur, k))
				}
				lr := runChild("load", loadIn{Paths: paths}, core.ChildOpt{Timeout: 3 * time.Minute, GOMAXPROCS: 2})
				var ls []loadRes
				if !lr.Completed || json.Unmarshal(lr.Out, &ls) != nil || len(ls) != len(paths) {
					c.Inconclusive("bigfault observe: loader failed")
					return
				}
				for k, ob := range out.Observed {
					seen[ob.Point] = true
					w := whichSnapshot(ls[k], P, &N)
					seq += strings.TrimPrefix(ob.Point, "offsets.") + "=" + w + " "
					c.Count("bigfault.observe."+ob.Point+"->"+w, 1)
					bad := w == "unloadable" || w == "neither" || (ob.Point != "offsets.afterRename" && w == "N")
					if bad {
						d := describeWhich(w)
						if w == "N" {
							d = "already the new snapshot (before the rename)"
						}
						violOnce(c, fmt.Sprintf("file.offsetDB.save mid-save at %s: offsets file is %s", ob.Point, d),
							"a reader looking at the offsets file while a save of a large table is at "+ob.Point+" does not find the previous snapshot: "+ls[k].Err+ls[k].Panic,
							map[string]any{"point": ob.Point, "observation": k, "file_head": string(ls[k].Head), "previous": prev, "snapshot_bytes_of_N": S})
					}
				}
				for _, p := range fileSavePoints {
					if !seen[p] {
						c.Inconclusive("bigfault observe: point " + p + " not seen")
						return
					}
				}
				c.Eval(1)
				if which != "N" && which != "P=N" {
					violOnce(c, "file.offsetDB.save without faults: offsets file afterwards is "+describeWhich(which), "after a successful (observed) save of a large table the file does not load to the saved table: "+l.Err+l.Panic, wit())
				}
				c.Nontrivial(fp + "|" + seq)
				return
			case "rlimit-ok":
				// the limit is not smaller than the snapshot: nothing may fail
				c.Eval(1)
				c.Count("bigfault."+bc.name+"->"+which, 1)
				c.Nontrivial(fp + "|" + which)
				if which != "N" && which != "P=N" {
					violOnce(c, "file.offsetDB.save with a file size limit that the snapshot fits in: offsets file afterwards is "+describeWhich(which),
						fmt.Sprintf("RLIMIT_FSIZE=%d, the snapshot has %d bytes: the save had no reason to fail, but the file is %s. %s", bc.limit, S, describeWhich(which), l.Err+l.Panic), wit())
				}
				return
			case "error":
				pt := in.ErrPoint
				if out.Injected < 1 || int(out.HitsN[pt]) < bc.k {
					c.Inconclusive("bigfault: injected failure not delivered: " + bc.name)
					return
				}
			case "strace":
				tb, _ := os.ReadFile(trace)
				if !strings.Contains(string(tb), "ENOSPC (No space left on device) (INJECTED)") {
					c.Inconclusive("bigfault: strace did not inject the write failure")
					return
				}
				c.Count("bigfault.strace.write_injected", 1)
			}
			// a write (or the sync) of the save failed: the offsets file must still be P
			c.Eval(1)
			c.Count("bigfault."+bc.name+"->"+which, 1)
			cls := "" // structural class of the signature (one per mechanism); the finer classes go to the fingerprints
			switch bc.kind {
			case "error", "strace":
				cls = posClass(bc.k, bc.w)
				if bc.name == "error@sync" {
					cls = "sync"
				}
				c.Nontrivial(fp + "|" + cls + "|" + which)
				if bc.w > 1 && bc.k < bc.w {
					c.Count("bigfault.failed_nonfinal_write_cases", 1)
					cls = "a non-final write of a multi-write save"
				}
			case "rlimit":
				cls = "real short write (RLIMIT_FSIZE) of a table >64KiB"
				c.Nontrivial(fp + "|limit " + sizeClass(int64(bc.limit)) + "|" + which)
				c.Count("bigfault.shortwrite_limits", 1)
				if bc.limit > 65536 {
					c.Count("bigfault.shortwrite_limits_above_64KiB", 1)
				}
			}
			if ci == 0 && ti == 0 {
				c.Sample(map[string]any{"monitor": "large-table fault matrix", "fault": bc.name, "write_step": bc.k, "write_steps": W, "N_jobs": len(N), "N_streams": streams,
					"snapshot_bytes": S, "previous": prev, "file_after": describeWhich(which)})
			}
			if which != "P" && which != "P=N" {
				step := "write"
				if bc.name == "error@sync" {
					step = "sync"
				}
				sig := fmt.Sprintf("file.offsetDB.save: offsets file replaced after failed %s (%s)", step, cls)
				if step == "sync" || cls == "the only write" {
					// same mechanism as in the small-table matrix: same signature
					sig = "file.offsetDB.save: offsets file replaced after failed " + step
				}
				violOnce(c, sig,
					fmt.Sprintf("fault %s, write step %d of %d, RLIMIT_FSIZE %d, snapshot of %d bytes / %d jobs (%s): the save could not write the whole snapshot, yet the offsets file is now %s instead of the previous snapshot. %s",
						bc.name, bc.k, bc.w, bc.limit, S, len(N), prev, describeWhich(which), l.Err+l.Panic), wit())
			}
		})
	})

	if c.Counter("bigfault.tables") == 0 {
		c.Fatal("large-table fault matrix: no table was probed")
	}
	if c.Counter("bigfault.tables_>128KiB") == 0 || c.Counter("bigfault.tables_64-128KiB")+c.Counter("bigfault.tables_>128KiB") < c.Counter("bigfault.tables") {
		c.Fatal("large-table fault matrix: tables are not large enough (every one must exceed 64 KiB, some 128 KiB)")
	}
	if _, err := os.Stat(stracePath); err == nil && c.Counter("bigfault.strace.write_injected") == 0 {
		c.Fatal("large-table fault matrix: strace never injected a write failure")
	}
	n := int64(0)
	for _, w := range []string{"P", "N", "P=N", "neither", "unloadable"} {
		n += c.Counter("bigfault.shortwrite(EFBIG)->" + w)
	}
	if n == 0 || c.Counter("bigfault.shortwrite_limits_above_64KiB") == 0 || c.Counter("bigfault.error@write->P")+c.Counter("bigfault.error@write->neither")+c.Counter("bigfault.error@write->unloadable")+c.Counter("bigfault.error@write->N") == 0 {
		c.Fatal("large-table fault matrix: a fault class was never effective")
	}
}

const stracePath = "/usr/bin/strace"

// straceWriteProbe saves N once, without faults, under strace: it returns the
// suffix of the temp file name (math/rand is made deterministic with
// GODEBUG=randautoseed=0, so the same process image draws the same suffix again)
// and the number of write system calls to that file.
func straceWriteProbe(c *core.Ctx, N *WTable) (suffix string, writes int) {
	dir := scratchDir(fastScratch)
	defer os.RemoveAll(dir)
	cur := filepath.Join(dir, "offsets.yaml")
	trace := filepath.Join(dir, "trace.txt")
	res := runChild("save2", save2In{Cur: cur, Tmp: cur + ".atomic", N: N, LockThread: true}, core.ChildOpt{Timeout: 3 * time.Minute, GOMAXPROCS: 1,
		Env:    []string{"GODEBUG=randautoseed=0"},
		Prefix: []string{stracePath, "-f", "-y", "-o", trace, "-e", "signal=none", "-e", "trace=write"}})
	if !res.Completed {
		c.Inconclusive("bigfault: strace probe did not complete")
		return "", 0
	}
	tb, _ := os.ReadFile(trace)
	prefix := cur + ".atomic."
	for _, ev := range parseStrace(string(tb)) {
		if ev.name == "write" && strings.HasPrefix(ev.path, prefix) && ev.ret >= 0 {
			sfx := strings.TrimPrefix(ev.path, prefix)
			if suffix != "" && sfx != suffix {
				c.Inconclusive("bigfault: strace probe saw two temp files")
				return "", 0
			}
			suffix = sfx
			writes++
		}
	}
	return suffix, writes
}
