package main

// Monitor 2b: temp files left behind by earlier process lives.
//
// A save that dies (or whose rename fails) leaves its temp file in the offsets
// directory. Whatever later lives do there - every process numbers, names and
// opens its temp files from scratch - a save that completes without a fault
// must leave exactly the table it was given. Life 1 is the real save killed at
// a protocol point while writing a LARGE table (0 or 1 completed saves before
// it, so the dying save is the first or the second of its process); life 2 is
// a fresh process doing one or two fault-free saves of SMALL tables into the
// same directory; a fresh third process loads the file.

import (
	"fmt"
	"os"
	"path/filepath"
	"strings"
	"time"

	"verifharness/core"
)

func monitorLeftovers(c *core.Ctx) {
	cases := c.N(24, 240)
	points := []string{"offsets.afterOpen", "offsets.write", "offsets.sync", "offsets.beforeRename"}
	core.ParallelFor(cases, 16, func(i int) {
		rng := c.Rand(fmt.Sprintf("leftover-%d", i))
		point := points[i%len(points)]
		savesBeforeCrash := (i / len(points)) % 2 // life 1: the dying save is save #1 or save #2 of its process
		savesInLife2 := 1 + (i/(2*len(points)))%2 // life 2: one or two saves
		small := genOpt{maxJobs: 3, safeOnly: true}
		mkSmall := func() *WTable {
			t := genTable(rng, small)
			for len(norm(t)) == 0 {
				t = genTable(rng, small)
			}
			return &t
		}
		// the large table of the dying save: far longer than anything life 2 writes
		var L WTable
		for k, n := 0, 150+rng.Intn(100); k < n; k++ {
			L = append(L, WJob{File: []byte(fmt.Sprintf("/var/log/pods/old-%d-%d/app.log", i, k)), Inode: uint64(5000 + k), Src: uint64(1)<<41 + uint64(k), TS: 1700000000000000000,
				Streams: []WStream{{Name: []byte("stdout"), Off: genOffset(rng)}, {Name: []byte("stderr"), Off: genOffset(rng)}}})
		}
		dir := scratchDir(fastScratch)
		defer os.RemoveAll(dir)
		cur := filepath.Join(dir, "offsets.yaml")
		tmp := cur + ".atomic"

		// ---- life 1
		in1 := save2In{Cur: cur, Tmp: tmp, N: &L}
		if savesBeforeCrash == 1 {
			in1.P = mkSmall()
		}
		res := runChild("save2", in1, core.ChildOpt{Timeout: 2 * time.Minute, GOMAXPROCS: 2,
			Env: []string{fmt.Sprintf("VERIF_HOOKS=%s=crash:%d", point, savesBeforeCrash+1)}})
		if res.TimedOut || res.Completed || res.Signal != "killed" || !strings.Contains(res.Stderr, "verifhook: crash at") {
			c.Inconclusive("leftover: crash point not reached in life 1: " + point)
			return
		}
		left := 0
		if ents, err := os.ReadDir(dir); err == nil {
			for _, e := range ents {
				if e.Name() != "offsets.yaml" {
					left++
				}
			}
		}
		if left == 0 {
			c.Count("leftover.life1_left_no_temp_file", 1)
		} else {
			c.Count("leftover.life1_left_a_temp_file", 1)
		}

		// ---- life 2: fresh process, fault-free saves of small tables
		in2 := save2In{Cur: cur, Tmp: tmp, N: mkSmall()}
		if savesInLife2 == 2 {
			in2.P = mkSmall()
		}
		res2 := runChild("save2", in2, core.ChildOpt{Timeout: 2 * time.Minute, GOMAXPROCS: 2})
		if res2.TimedOut || !res2.Completed {
			c.Inconclusive("leftover: life 2 did not complete")
			return
		}
		l, ok := loadFresh(cur)
		if !ok {
			c.Inconclusive("leftover: loader child failed")
			return
		}
		which := whichSnapshot(l, nil, in2.N)
		c.Eval(1)
		c.Count("leftover.cases", 1)
		c.Count(fmt.Sprintf("leftover.crash@%s.dying-save-#%d.life2-saves-%d->%s", point, savesBeforeCrash+1, savesInLife2, which), 1)
		c.Nontrivial(fmt.Sprintf("leftover|%s|dying-save-#%d|life2-saves-%d|left=%v|%s", point, savesBeforeCrash+1, savesInLife2, left > 0, which))
		if which != "N" && which != "P=N" {
			violOnce(c, fmt.Sprintf("leftover temp file of an earlier life (save killed at %s): after a fault-free save of a later life the offsets file is %s", point, describeWhich(which)),
				"a save killed at "+point+" left its temp file behind; a fresh process then saved smaller tables into the same directory without any fault, and the offsets file does not load as the table of its last save",
				map[string]any{"crash_point": point, "dying_save_number_in_life_1": savesBeforeCrash + 1, "saves_in_life_2": savesInLife2, "files_left_by_life_1": left,
					"file_size": l.Size, "file_head": string(l.Head), "load_error": l.Err + l.Panic, "expected_jobs": len(*in2.N), "file_is": which})
		}
	})
	monitorRestartSave(c)
	if c.Counter("leftover.life1_left_a_temp_file") == 0 {
		c.Inconclusive("leftover: no life-1 crash left a temp file behind")
	}
}

// monitorRestartSave: a restarted file.d loads the offsets file and then saves
// the table of the jobs it has NOW. Files that went away since (deleted,
// rotated out) have no job any more; files whose offsets moved have new
// values. The file must load back to exactly the table of the last save - an
// entry that survives from the loaded file would make a new file that later
// obtains the same inode number resume at a dead file's offset.
func monitorRestartSave(c *core.Ctx) {
	cases := c.N(24, 300)
	core.ParallelFor(cases, 16, func(i int) {
		rng := c.Rand(fmt.Sprintf("restart-save-%d", i))
		o := genOpt{maxJobs: 6, safeOnly: true}
		A := genTable(rng, o)
		for len(norm(A)) < 2 {
			A = genTable(rng, o)
		}
		// B: some jobs of A gone, some advanced, some untouched, some new
		var B WTable
		gone := 0
		for k, j := range A {
			switch r := rng.Intn(4); {
			case r == 0 || (k == 0 && gone == 0):
				gone++
				continue
			case r == 1:
				nj := j
				nj.Streams = nil
				for _, st := range j.Streams {
					if st.Off < 1<<62 {
						st.Off += 1 + rng.Int63n(1<<20)
					}
					nj.Streams = append(nj.Streams, st)
				}
				B = append(B, nj)
			default:
				B = append(B, j)
			}
		}
		nNew := rng.Intn(3)
		if len(B) == 0 {
			nNew = 1 + rng.Intn(2)
		}
		for k, n := 0, nNew; k < n; k++ {
			B = append(B, WJob{File: []byte(fmt.Sprintf("/var/log/pods/fresh-%d-%d/app.log", i, k)), Inode: uint64(9000 + k), Src: uint64(1)<<42 + uint64(k), TS: 1700000000000000000,
				Streams: []WStream{{Name: []byte("stdout"), Off: genOffset(rng)}}})
		}
		savesInLife2 := 1 + i%2
		dir := scratchDir(fastScratch)
		defer os.RemoveAll(dir)
		cur := filepath.Join(dir, "offsets.yaml")
		tmp := cur + ".atomic"
		if res := runChild("save2", save2In{Cur: cur, Tmp: tmp, N: &A}, core.ChildOpt{Timeout: 2 * time.Minute, GOMAXPROCS: 2}); !res.Completed {
			c.Inconclusive("restart-save: life 1 did not complete")
			return
		}
		in2 := save2In{Cur: cur, Tmp: tmp, N: &B, LoadFirst: true}
		if savesInLife2 == 2 {
			in2.P = &A // the first save after the restart still has every job
		}
		if res := runChild("save2", in2, core.ChildOpt{Timeout: 2 * time.Minute, GOMAXPROCS: 2}); !res.Completed {
			if os.Getenv("VERIF_C07_DEBUG") != "" {
				fmt.Fprintln(os.Stderr, "LIFE2:", res.Signal, res.TimedOut, res.Stderr[max(0, len(res.Stderr)-1500):])
			}
			c.Inconclusive("restart-save: life 2 did not complete")
			return
		}
		l, ok := loadFresh(cur)
		if !ok {
			c.Inconclusive("restart-save: loader child failed")
			return
		}
		which := whichSnapshot(l, &A, &B)
		c.Eval(1)
		c.Count("restart_save.cases", 1)
		c.Count("restart_save.jobs_gone_since_the_load", int64(gone))
		c.Count("restart_save->"+which, 1)
		c.Nontrivial(fmt.Sprintf("restart-save|gone=%d|jobs=%d|life2-saves-%d|%s", min(gone, 3), min(len(B), 4), savesInLife2, which))
		if which != "N" && which != "P=N" {
			d := ""
			if l.Err == "" && l.Panic == "" && l.Exists {
				d = diffTables(B, l.Loaded)
			}
			violOnce(c, "restart: an offsetDB that loaded the offsets file and then saved the table of its present jobs leaves a file that is "+describeWhich(which),
				"life 1 saved table A; life 2 loaded the file, then saved table B (jobs of A that went away since are not in B); a fresh loader does not get exactly B",
				map[string]any{"jobs_A": len(A), "jobs_B": len(B), "jobs_gone": gone, "saves_in_life_2": savesInLife2, "file_is": which, "difference_to_B": core.Trunc(d, 600),
					"file_head": string(l.Head), "load_error": l.Err + l.Panic})
		}
	})
}
