package main

// Monitor 2b: temp files left behind by earlier process lives.
//
// A save that dies (or whose rename fails) leaves its temp file in the offsets
// directory. Whatever later lives do there - every process numbers, names and
// opens its temp files from scratch - a save that completes without a fault
// must leave exactly the table it was given. Life 1 is the real save killed at
// a protocol point while writing a LARGE table (0 or 1 completed saves before
// it, so the dying save is the first or the second of its process); life 2 is
// a fresh process doing one or two fault-free saves of SMALL tables into the
// same directory; a fresh third process loads the file.

import (
	"fmt"
	"os"
	"path/filepath"
	"strings"
	"time"

	"verifharness/core"
)

func monitorLeftovers(c *core.Ctx) {
	cases := c.N(24, 240)
	points := []string{"offsets.afterOpen", "offsets.write", "offsets.sync", "offsets.beforeRename"}
	core.ParallelFor(cases, 16, func(i int) {
		rng := c.Rand(fmt.Sprintf("leftover-%d", i))
		point := points[i%len(points)]
		savesBeforeCrash := (i / len(points)) % 2 // life 1: the dying save is save #1 or save #2 of its process
		savesInLife2 := 1 + (i/(2*len(points)))%2 // life 2: one or two saves
		small := genOpt{maxJobs: 3, safeOnly: true}
		mkSmall := func() *WTable {
			t := genTable(rng, small)
			for len(norm(t)) == 0 {
				t = genTable(rng, small)
			}
			return &t
		}
		// the large table of the dying save: far longer than anything life 2 writes
		var L WTable
		for k, n := 0, 150+rng.Intn(100); k < n; k++ {
			L = append(L, WJob{File: []byte(fmt.Sprintf("/var/log/pods/old-%d-%d/app.log", i, k)), Inode: uint64(5000 + k), Src: uint64(1)<<41 + uint64(k), TS: 1700000000000000000,
				Streams: []WStream{{Name: []byte("stdout"), Off: genOffset(rng)}, {Name: []byte("stderr"), Off: genOffset(rng)}}})
		}
		dir := scratchDir(fastScratch)
		defer os.RemoveAll(dir)
		cur := filepath.Join(dir, "offsets.yaml")
		tmp := cur + ".atomic"

		// ---- life 1
		in1 := save2In{Cur: cur, Tmp: tmp, N: &L}
		if savesBeforeCrash == 1 {
			in1.P = mkSmall()
		}
		res := runChild("save2", in1, core.ChildOpt{Timeout: 2 * time.Minute, GOMAXPROCS: 2,
			Env: []string{fmt.Sprintf("VERIF_HOOKS=%s=crash:%d", point, savesBeforeCrash+1)}})
		if res.TimedOut || res.Completed || res.Signal != "killed" || !strings.Contains(res.Stderr, "verifhook: crash at") {
			c.Inconclusive("leftover: crash point not reached in life 1: " + point)
			return
		}
		left := 0
		if ents, err := os.ReadDir(dir); err == nil {
			for _, e := range ents {
				if e.Name() != "offsets.yaml" {
					left++
				}
			}
		}
		if left == 0 {
			c.Count("leftover.life1_left_no_temp_file", 1)
		} else {
			c.Count("leftover.life1_left_a_temp_file", 1)
		}

		// ---- life 2: fresh process, fault-free saves of small tables
		in2 := save2In{Cur: cur, Tmp: tmp, N: mkSmall()}
		if savesInLife2 == 2 {
			in2.P = mkSmall()
		}
		res2 := runChild("save2", in2, core.ChildOpt{Timeout: 2 * time.Minute, GOMAXPROCS: 2})
		if res2.TimedOut || !res2.Completed {
			c.Inconclusive("leftover: life 2 did not complete")
			return
		}
		l, ok := loadFresh(cur)
		if !ok {
			c.Inconclusive("leftover: loader child failed")
			return
		}
		which := whichSnapshot(l, nil, in2.N)
		c.Eval(1)
		c.Count("leftover.cases", 1)
		c.Count(fmt.Sprintf("leftover.crash@%s.dying-save-#%d.life2-saves-%d->%s", point, savesBeforeCrash+1, savesInLife2, which), 1)
		c.Nontrivial(fmt.Sprintf("leftover|%s|dying-save-#%d|life2-saves-%d|left=%v|%s", point, savesBeforeCrash+1, savesInLife2, left > 0, which))
		if which != "N" && which != "P=N" {
			violOnce(c, fmt.Sprintf("leftover temp file of an earlier life (save killed at %s): after a fault-free save of a later life the offsets file is %s", point, describeWhich(which)),
				"a save killed at "+point+" left its temp file behind; a fresh process then saved smaller tables into the same directory without any fault, and the offsets file does not load as the table of its last save",
				map[string]any{"crash_point": point, "dying_save_number_in_life_1": savesBeforeCrash + 1, "saves_in_life_2": savesInLife2, "files_left_by_life_1": left,
					"file_size": l.Size, "file_head": string(l.Head), "load_error": l.Err + l.Panic, "expected_jobs": len(*in2.N), "file_is": which})
		}
	})
	if c.Counter("leftover.life1_left_a_temp_file") == 0 {
		c.Inconclusive("leftover: no life-1 crash left a temp file behind")
	}
}
