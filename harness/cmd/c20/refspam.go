package main

import (
	"bytes"
	"fmt"
	"sort"
	"strings"
)

// ---------------------------------------------------------------------------
// Configuration of the antispam as data (sent to children as JSON). The real
// objects (antispam.Exceptions / antispam.Rules) and the reference below are
// both built from it.

type mrRule struct {
	Values []string `json:"values"`
	Mode   string   `json:"mode"` // prefix | contains | suffix
	CI     bool     `json:"case_insensitive,omitempty"`
	Invert bool     `json:"invert,omitempty"`
}

type excSpec struct {
	Name            string   `json:"name"`
	Cond            string   `json:"cond"` // and | or
	Rules           []mrRule `json:"rules"`
	CheckSourceName bool     `json:"check_source_name,omitempty"`
}

type condSpec struct {
	Op       string     `json:"op"` // and | or | not | equal | contains | prefix | suffix
	Field    string     `json:"field,omitempty"`
	Values   []string   `json:"values,omitempty"`
	Operands []condSpec `json:"operands,omitempty"`
}

type ruleSpec struct {
	Name      string   `json:"name"`
	Threshold int      `json:"threshold"`
	Cond      condSpec `json:"do_if"`
}

type spamSpec struct {
	Threshold  int        `json:"threshold"` // -1 disabled / unlimited, 0 discard everything
	Unban      int        `json:"unban"`
	Exceptions []excSpec  `json:"exceptions,omitempty"`
	Rules      []ruleSpec `json:"rules,omitempty"`

	// diagnostic hypothesis of Part B.foldlen (foldlen.go), never the reference:
	// exceptions are matched with the size checks / the cut taken before lower-casing
	cutFirst bool
}

// ---------------------------------------------------------------------------
// Reference matchers, written from cfg/matchrule/README.md and
// pipeline/antispam/README.md (+ pipeline/doif/README.md for the four field
// operations used). Plain library calls, no shortcuts.

// "all values and the checking contents are converted to lowercase": the
// library's Unicode lower-casing on both sides (Part B.fold has the non-ASCII
// letters; its alphabet keeps to letters with a 1:1 case pair of equal length)
func (r *mrRule) match(data []byte) bool { return r.matchWith(data, bytes.ToLower) }

// matchWith: the lower-casing as a parameter (B.fold bookkeeping uses a second one)
func (r *mrRule) matchWith(data []byte, lower func([]byte) []byte) bool {
	d := data
	if r.CI {
		d = lower(d)
	}
	res := false
	for _, v := range r.Values {
		vb := []byte(v)
		if r.CI {
			vb = lower(vb)
		}
		switch r.Mode {
		case "prefix":
			res = res || bytes.HasPrefix(d, vb)
		case "suffix":
			res = res || bytes.HasSuffix(d, vb)
		default:
			res = res || bytes.Contains(d, vb)
		}
	}
	if r.Invert {
		return !res
	}
	return res
}

func (e *excSpec) match(name string, event []byte) bool { return e.matchHow(name, event, false) }

func (e *excSpec) matchHow(name string, event []byte, cutFirst bool) bool {
	data := event
	if e.CheckSourceName {
		data = []byte(name)
	}
	if len(e.Rules) == 0 {
		return false
	}
	rm := func(r *mrRule) bool {
		if cutFirst {
			return r.matchCutFirst(data)
		}
		return r.match(data)
	}
	if e.Cond == "or" {
		for i := range e.Rules {
			if rm(&e.Rules[i]) {
				return true
			}
		}
		return false
	}
	for i := range e.Rules {
		if !rm(&e.Rules[i]) {
			return false
		}
	}
	return true
}

func (c *condSpec) eval(name string, event []byte, meta map[string]string) bool {
	switch c.Op {
	case "and":
		for i := range c.Operands {
			if !c.Operands[i].eval(name, event, meta) {
				return false
			}
		}
		return true
	case "or":
		for i := range c.Operands {
			if c.Operands[i].eval(name, event, meta) {
				return true
			}
		}
		return false
	case "not":
		return !c.Operands[0].eval(name, event, meta)
	}
	var data []byte
	present := true
	switch {
	case c.Field == "source_name":
		data = []byte(name)
	case c.Field == "event":
		data = event
	case strings.HasPrefix(c.Field, "meta."):
		v, ok := meta[strings.TrimPrefix(c.Field, "meta.")]
		present = ok
		data = []byte(v)
	}
	if !present {
		return false // an absent field equals / contains no (non-null) value
	}
	for _, v := range c.Values {
		vb := []byte(v)
		switch c.Op {
		case "equal":
			if bytes.Equal(data, vb) {
				return true
			}
		case "contains":
			if bytes.Contains(data, vb) {
				return true
			}
		case "prefix":
			if bytes.HasPrefix(data, vb) {
				return true
			}
		case "suffix":
			if bytes.HasSuffix(data, vb) {
				return true
			}
		}
	}
	return false
}

func (c *condSpec) toMap() map[string]any {
	m := map[string]any{"op": c.Op}
	switch c.Op {
	case "and", "or", "not":
		ops := make([]any, 0, len(c.Operands))
		for i := range c.Operands {
			ops = append(ops, c.Operands[i].toMap())
		}
		m["operands"] = ops
	default:
		m["field"] = c.Field
		vals := make([]any, 0, len(c.Values))
		for _, v := range c.Values {
			vals = append(vals, v)
		}
		m["values"] = vals
	}
	return m
}

func (c *condSpec) usesEvent() bool {
	if c.Field == "event" {
		return true
	}
	for i := range c.Operands {
		if c.Operands[i].usesEvent() {
			return true
		}
	}
	return false
}

// ---------------------------------------------------------------------------
// Classification of one record by the documented rules.

type spamClass int

const (
	clsFree    spamClass = iota // must never be reported as spam
	clsBlocked                  // threshold 0: always spam
	clsCounted                  // limited by threshold T
)

type classified struct {
	cls      spamClass
	T        int
	why      string // disabled | exception | unlimited-rule | unlimited-default | blocked-rule | blocked-default | rule | default
	excMatch bool   // a configured exception matches (whatever else is configured)
}

func (s *spamSpec) classify(name string, event []byte, meta map[string]string) classified {
	excMatch := false
	for i := range s.Exceptions {
		if s.Exceptions[i].matchHow(name, event, s.cutFirst) {
			excMatch = true
			break
		}
	}
	if len(s.Rules) == 0 && s.Threshold == -1 {
		return classified{cls: clsFree, why: "disabled", excMatch: excMatch}
	}
	if excMatch {
		// pipeline README: "If the log matches at least one of the exceptions it
		// is not accounted in antispammer."
		return classified{cls: clsFree, why: "exception", excMatch: true}
	}
	T, why := s.Threshold, "default"
	for i := range s.Rules {
		if s.Rules[i].Cond.eval(name, event, meta) {
			T, why = s.Rules[i].Threshold, "rule"
			break
		}
	}
	switch {
	case T == -1:
		return classified{cls: clsFree, why: "unlimited-" + why}
	case T == 0:
		return classified{cls: clsBlocked, why: "blocked-" + why}
	}
	return classified{cls: clsCounted, T: T, why: why}
}

// ---------------------------------------------------------------------------
// Reference model of the per-source counter, from pipeline/antispam/README.md:
//
//   "the counter for the source is incremented for each incoming log. When
//    the counter is greater or equal to the threshold value, the source is
//    banned and its counter is set to unbanIterations * threshold. The source
//    remains banned until its counter falls below the threshold.
//    Additionally, during each maintenance interval, if the counter is found
//    to be greater than unbanIterations * threshold, it is also reset to this
//    maximum value. The counter value is then decremented by the threshold
//    once per maintenance interval."
//
// Where the documents leave a choice, every reading is kept: the state of a
// source is the SET of counter values some reading allows ("worlds"). An
// observed answer removes the worlds that cannot produce it; an empty set is
// a refutation. Choices kept open:
//   * a record whose event time is a whole maintenance interval (or more) away
//     from the previous record of the source may or may not be counted (the
//     settings text says "threshold or more logs in maintenance_interval time");
//   * a record flagged "new source" may reset the counter and pass, or be
//     counted like any other;
//   * maintenance may clamp before or after subtracting;
//   * records the antispam may never get to see (Part A: partial CRI rows,
//     rows refused before/after the antispam step) may or may not be counted.

type refSrc struct {
	worlds       []int
	curT         map[int]bool // thresholds of the records seen since the previous maintenance round
	prevT        map[int]bool // the last non-empty such set
	allT         map[int]bool // every threshold a record of this source ever had
	hasSeen      bool         // a record certainly seen by the antispam exists
	seenNs       int64        // its event time
	maybeNs      []int64      // event times of later records that may or may not have moved the source's time
	silentRounds int          // maintenance rounds since the last record that may have been counted
	everSpam     bool
}

type refSpam struct {
	spec       spamSpec
	intervalNs int64
	src        map[string]*refSrc
}

func newRefSpam(spec spamSpec, intervalNs int64) *refSpam {
	return &refSpam{spec: spec, intervalNs: intervalNs, src: map[string]*refSrc{}}
}

type option struct {
	spam bool
	next int
}

func normWorlds(w []int) []int {
	sort.Ints(w)
	out := w[:0]
	for i, v := range w {
		if i == 0 || v != w[i-1] {
			out = append(out, v)
		}
	}
	return out
}

// the documented steps of the counter for a counted record: the counter is
// incremented; at or over the threshold the record is spam and the counter
// is "set to unbanIterations * threshold" - certainly when the threshold is
// crossed, and (one reading of the sentence) again on any later record that
// finds the source banned.
func stepCounted(c, T, U int, counted bool) []option {
	c1 := c
	if counted {
		c1 = c + 1
	}
	if c1 < T {
		return []option{{spam: false, next: c1}}
	}
	if counted && c < T {
		return []option{{spam: true, next: U * T}} // the ban is set
	}
	return []option{{spam: true, next: c1}, {spam: true, next: U * T}}
}

type pending struct {
	m        *refSpam
	s        *refSrc
	id       string
	name     string
	cl       classified
	opts     map[int][]option // world -> options
	certain  bool
	isNew    bool
	maySkip  bool
	silentAt int
	tNs      int64
}

// prepare computes what the documents allow for one record of source id.
// maySkip: the antispam may not get to see this record at all.
func (m *refSpam) prepare(id, name string, isNew bool, event []byte, tNs int64, meta map[string]string, maySkip bool) *pending {
	cl := m.spec.classify(name, event, meta)
	p := &pending{m: m, id: id, name: name, cl: cl, isNew: isNew, maySkip: maySkip, tNs: tNs}
	if cl.cls != clsCounted {
		return p
	}
	s := m.src[id]
	if s == nil {
		s = &refSrc{worlds: []int{0}, curT: map[int]bool{}, prevT: map[int]bool{}, allT: map[int]bool{}}
		m.src[id] = s
	}
	p.s = s
	p.silentAt = s.silentRounds
	near := func(ref int64) bool {
		gap := tNs - ref
		if gap < 0 {
			gap = -gap
		}
		return gap < m.intervalNs
	}
	p.certain = !s.hasSeen || near(s.seenNs)
	for _, t := range s.maybeNs {
		p.certain = p.certain && near(t)
	}
	U := m.spec.Unban
	p.opts = map[int][]option{}
	for _, c := range s.worlds {
		var os []option
		os = append(os, stepCounted(c, cl.T, U, true)...)
		if !p.certain {
			os = append(os, stepCounted(c, cl.T, U, false)...)
		}
		if isNew {
			os = append(os, option{spam: false, next: 0})
		}
		if maySkip {
			os = append(os, option{spam: false, next: c})
		}
		p.opts[c] = os
	}
	return p
}

// severalThresholds: records of this source fall under more than one threshold
// (rules on the record text). The documents do not say how one counter serves
// two thresholds, so only "refused too early" is judged for such a source.
func (p *pending) severalThresholds() bool {
	if p.s == nil {
		return false
	}
	return len(p.s.allT) > 1 || (len(p.s.allT) == 1 && !p.s.allT[p.cl.T])
}

// allowed reports whether the documents allow the answer.
func (p *pending) allowed(spam bool) bool {
	switch p.cl.cls {
	case clsFree:
		return !spam
	case clsBlocked:
		return spam || p.maySkip
	}
	for _, os := range p.opts {
		for _, o := range os {
			if o.spam == spam {
				return true
			}
		}
	}
	return false
}

// commit records the observed answer (which must be allowed).
func (p *pending) commit(spam bool) {
	if p.cl.cls != clsCounted {
		return
	}
	var w []int
	for _, os := range p.opts {
		for _, o := range os {
			if o.spam == spam {
				w = append(w, o.next)
			}
		}
	}
	p.finish(w, spam)
}

// commitUnknown: the record was refused but it is not known whether the
// antispam or a later step refused it.
func (p *pending) commitUnknown() {
	if p.cl.cls != clsCounted {
		return
	}
	var w []int
	for _, os := range p.opts {
		for _, o := range os {
			w = append(w, o.next)
		}
	}
	p.finish(w, false)
}

func (p *pending) finish(w []int, spam bool) {
	s := p.s
	s.worlds = normWorlds(w)
	s.silentRounds = 0
	if spam {
		s.everSpam = true
	}
	s.curT[p.cl.T] = true
	s.allT[p.cl.T] = true
	if (p.maySkip || p.isNew) && !spam {
		// a record that was perhaps not seen, or a "new source" record, may or
		// may not have moved the source's event time
		s.maybeNs = append(s.maybeNs, p.tNs)
	} else {
		s.hasSeen, s.seenNs = true, p.tNs
		s.maybeNs = s.maybeNs[:0]
	}
}

// maintenance applies one documented maintenance round to every source:
// "the counter value is decremented by the threshold once per maintenance
// interval" - the threshold of the records the source sent in that interval
// (any of them if they differ; the last known one if it sent nothing).
func (m *refSpam) maintenance() {
	U := m.spec.Unban
	for _, s := range m.src {
		ts := s.curT
		if len(ts) == 0 {
			ts = s.prevT
		}
		var w []int
		for T := range ts {
			for _, c := range s.worlds {
				a := c - T // subtract, then clamp (one reading)
				if a < 0 {
					a = 0
				}
				if a > U*T {
					a = U * T
				}
				b := c // clamp, then subtract (README order)
				if b > U*T {
					b = U * T
				}
				b -= T
				if b < 0 {
					b = 0
				}
				w = append(w, a, b)
			}
		}
		if len(ts) == 0 {
			w = append(w, s.worlds...)
		}
		s.worlds = normWorlds(w)
		if len(s.curT) > 0 {
			s.prevT, s.curT = s.curT, map[int]bool{}
		}
		s.silentRounds++
	}
}

func (s *refSrc) minmax() (int, int) {
	if len(s.worlds) == 0 {
		return 0, 0
	}
	return s.worlds[0], s.worlds[len(s.worlds)-1]
}

// explain builds the structural signature and description of a refuted answer.
func (p *pending) explain(part string, spam bool) (sig, what string) {
	switch p.cl.cls {
	case clsFree:
		return fmt.Sprintf("%s antispam: record that must never be dropped (%s) reported as spam", part, p.cl.why),
			"a record of a class the documents exempt from the antispam was refused"
	case clsBlocked:
		return fmt.Sprintf("%s antispam: record of a threshold-0 rule (%s) not refused", part, p.cl.why),
			"threshold 0 means discard all logs"
	}
	lo, hi := p.s.minmax()
	U := p.m.spec.Unban
	if spam {
		ctx := "source never banned before"
		switch {
		case p.severalThresholds():
			ctx = "source whose records fall under different thresholds"
		case p.cl.T >= 2 && p.silentAt >= U+1:
			ctx = "source silent for unbanIterations+1 or more maintenance rounds"
		case p.s.everSpam:
			ctx = "after an earlier ban"
		}
		return fmt.Sprintf("%s antispam: refused below threshold (%s)", part, ctx),
			fmt.Sprintf("spam=true although every documented counter value (%d..%d, +1 for this record) stays below the threshold %d; unbanIterations=%d, silent maintenance rounds=%d",
				lo, hi, p.cl.T, U, p.silentAt)
	}
	ctx := "threshold reached by this record"
	if lo >= p.cl.T {
		ctx = "source banned"
	}
	return fmt.Sprintf("%s antispam: accepted although the documented counter is at or above the threshold (%s)", part, ctx),
		fmt.Sprintf("spam=false although every documented counter value (%d..%d before this record) puts the source at/over the threshold %d; unbanIterations=%d",
			lo, hi, p.cl.T, U)
}
