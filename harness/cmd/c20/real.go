package main

import (
	"bytes"
	"encoding/json"
	"fmt"
	"time"

	"github.com/ozontech/file.d/metric"
	"github.com/ozontech/file.d/pipeline/antispam"
	"github.com/ozontech/file.d/pipeline/doif"
	"github.com/prometheus/client_golang/prometheus"
	"go.uber.org/zap"
)

// realExceptions builds antispam.Exceptions the way fd/util.go does: from the
// JSON form of the settings, with unknown fields disallowed, then Prepare().
func realExceptions(specs []excSpec) (antispam.Exceptions, error) {
	if len(specs) == 0 {
		return nil, nil
	}
	raw, err := json.Marshal(specs)
	if err != nil {
		return nil, err
	}
	dec := json.NewDecoder(bytes.NewReader(raw))
	dec.DisallowUnknownFields()
	var ex antispam.Exceptions
	if err := dec.Decode(&ex); err != nil {
		return nil, fmt.Errorf("exceptions %s: %w", raw, err)
	}
	ex.Prepare()
	return ex, nil
}

// realRules builds antispam.Rules from the do_if maps (fd/util.go
// extractAntispamRules without the multiplication by the interval seconds).
func realRules(specs []ruleSpec) (antispam.Rules, error) {
	if len(specs) == 0 {
		return nil, nil
	}
	rules := make(antispam.Rules, 0, len(specs))
	for i := range specs {
		ck, err := doif.NewFromMap(specs[i].Cond.toMap())
		if err != nil {
			return nil, fmt.Errorf("rule %d: %w", i, err)
		}
		rules = append(rules, antispam.Rule{Name: specs[i].Name, Threshold: specs[i].Threshold, DoIfChecker: ck})
	}
	return rules, nil
}

func realAntispammer(spec spamSpec, interval time.Duration) (*antispam.Antispammer, error) {
	ex, err := realExceptions(spec.Exceptions)
	if err != nil {
		return nil, err
	}
	rules, err := realRules(spec.Rules)
	if err != nil {
		return nil, err
	}
	return antispam.NewAntispammer(&antispam.Options{
		MaintenanceInterval: interval,
		Threshold:           spec.Threshold,
		UnbanIterations:     spec.Unban,
		Exceptions:          ex,
		Rules:               rules,
		Logger:              zap.NewNop(),
		MetricsController:   metric.NewCtl("c20", prometheus.NewRegistry(), time.Minute, 0),
	}), nil
}
