// C20 — admission control drops only what the settings say, and only that.
//
// Part A drives the real pipeline.Pipeline.In (harness input and output
// plugins) and compares every accept/refuse decision and every delivered
// event with a reference written from pipeline/README.md; Part B drives the
// exported antispam API with sequential histories (explicit Maintenance()
// rounds, synthetic event times) against the counter mechanism described in
// pipeline/antispam/README.md, and with concurrent bursts checked by
// count-based claims. Part A.live drives antispam histories through a started
// pipeline whose own maintenance goroutine does the rounds (logical time =
// wake-ups of that goroutine); Part A.conc pushes one record set through In
// from 2..8 goroutines and compares with the sequential run and the reference.
// Part B.fold (fold.go) is Part B's sequential clause with exceptions, records
// and source names that carry non-ASCII letters in varying case.
// See NOTES.md.
package main

import (
	"encoding/json"
	"fmt"
	"math/rand"
	"os"
	"sort"
	"strings"
	"time"

	"github.com/ozontech/file.d/logger"
	"go.uber.org/zap"

	"verifharness/core"
)

type childIn struct {
	Part  string `json:"part"` // A | Bseq | Bconc
	Start int    `json:"start"`
	Count int    `json:"count"`
	Seed  int64  `json:"seed"`
}

func caseRng(seed int64, part string, i int) *rand.Rand {
	h := uint64(seed)*0x9E3779B97F4A7C15 + uint64(i)*0xBF58476D1CE4E5B9
	for _, c := range part {
		h = (h ^ uint64(c)) * 0x100000001B3
	}
	return rand.New(rand.NewSource(int64(h >> 1)))
}

var bFamilies = []string{"plain", "plain", "plain", "exceptions", "exceptions", "rules", "rules", "disabled", "mixed", "both"}

func childMain(raw json.RawMessage, io *core.ChildIO) (any, error) {
	logger.Level.SetLevel(zap.FatalLevel)
	var in childIn
	if err := json.Unmarshal(raw, &in); err != nil {
		return nil, err
	}
	col := newCollector()
	for i := in.Start; i < in.Start+in.Count; i++ {
		r := caseRng(in.Seed, in.Part, i)
		io.Log(map[string]any{"part": in.Part, "case": i})
		switch in.Part {
		case "A":
			runACase(genACase(r), col, i)
		case "Bseq":
			runBSeq(genBCase(r, bFamilies[i%len(bFamilies)]), col, i)
		case "Bconc":
			runBConc(genCCase(r), col, i)
		case "Alive":
			runLCase(genLCase(r, i), col, i)
		case "Aconc":
			runKCase(genKCase(r), col, i)
		case "Bfold":
			runBFold(genFCase(r), col, i)
		case "Bfoldlen":
			runBFoldLen(genLCaseLen(r), col, i)
		}
		if col.HarnessError != "" {
			col.HarnessError = fmt.Sprintf("%s case %d: %s", in.Part, i, col.HarnessError)
			break
		}
	}
	return col, nil
}

func main() {
	core.RegisterChild("c20", childMain)
	core.Main("C20", "exploration", run)
}

func run(c *core.Ctx) {
	c.SetRule("Part A: one case = one real pipeline (decoder json|raw|cri, pool kind, max_event_size derived from a pivot record, cut-off on/off, mark field, antispam off/threshold/exceptions/rules, source_name_meta_field, saved offsets; sources distinct, or several source ids under one source name, or one id under changing names) fed 20-60 records (lengths max-1..max+2 with/without line feed, blank-tailed and garbage-tailed JSON, multi-byte/escape/control/invalid-UTF-8 text, empty and broken records) through a reused input buffer; fingerprint = decoder x record shape x cut x line feed x mark x meta x length relative to the limit, counted only for delivered events that compared equal; plus per antispam case sources mode x number of antispam keys x threshold x bucketed spam refusals / records of name-sharing ids / records accepted while a namesake is banned. " +
		"Part B: one case = one Antispammer with a generated configuration and a history of IsSpam calls and explicit Maintenance() rounds (bursts around the threshold, silences of unbanIterations-1..+2 rounds, trickles, interleaved sources, event-time gaps, new-source flags), or one concurrent burst; fingerprint = family x threshold x unbanIterations x bucketed numbers of bans/unbans/probes after silence/residue re-bans/new-source/gap/free/blocked records. " +
		"Part B.fold: one case = one Antispammer with 1-3 exceptions (prefix|contains|suffix, case_insensitive on/off, invert on/off, and/or, on the record or on the source name) whose values carry non-ASCII letters (Cyrillic, Latin with diacritics, Greek, Armenian, fullwidth, Deseret, Glagolitic: 2-, 3- and 4-byte letters with a 1:1 case pair of equal length), and a history that bans a source and then shows it every text of the case (the values in the config's spelling, upper, lower, title, mixed, one letter flipped, only ASCII flipped, one letter replaced / missing; at the start / middle / end / alone) with maintenance rounds in between; fingerprint = shape x threshold x unbanIterations x modes x numbers of case-insensitive / inverted / source-name rules x bucketed bans / protected / refused records. " +
		"Part B.foldlen: Part B.fold's drive with the letters it keeps out - letters whose lower-case form has another UTF-8 length (U+0130, U+212A, U+212B, U+1E9E, U+023A, ...) - in exception values and record texts (prefix|suffix mostly, contains, case_insensitive mostly); a case refuted by the reference is replayed against the hypothesis 'size check and cut before lower-casing' and carries one fixed signature if that explains every answer; fingerprint = shape x threshold x unbanIterations x bucketed records on which hypothesis and documents differ / protected records x refuted x explained. " +
		"Part A.live: one case = one started pipeline with an antispam maintenance interval of 1-2 ms (decoder, threshold, quiet-phase mode silent|self-spam|other-spam|blocked-traffic|size-refused|heartbeat, early probe, extra rounds): ban a source, let unbanIterations+1 or more complete rounds of the pipeline's own maintenance goroutine pass in which nothing is admitted, probe; fingerprint = mode x decoder x threshold x interval x early probe x ban order x rounds. " +
		"Part A.conc: one case = one set of tagged records (oversize and in-limit mixed, decoder, pool, capacity, max_event_size, cut-off, mark) pushed through In sequentially and from G=2..8 goroutines with own buffers and source ids; fingerprint = decoder x record shape x cut x line feed x mark x meta x length relative to the limit, and decoder x G x capacity x max_event_size x pool.")
	c.Assume("pipeline/README.md, pipeline/antispam/README.md and cfg/matchrule/README.md are the specification; where they leave a choice every reading is accepted (see NOTES.md)")
	c.Assume("encoding of events at the output is compared with an own RFC 8259 reader (byte-exact strings); decoders other than json/raw/cri are C12's subject")
	c.Assume("the binary is built without -race: the concurrent clauses check counts (B.conc) and events / decisions (A.conc) only")
	c.Assume("A.live: a wake-up of the pipeline's antispam maintenance goroutine (tick observer, build tag verif) is one maintenance interval; the lines of the antispam logger tell which rounds Maintenance() ran in")

	type job struct {
		part  string
		start int
		count int
	}
	var jobs []job
	split := func(part string, total, chunk int) {
		for s := 0; s < total; s += chunk {
			n := chunk
			if s+n > total {
				n = total - s
			}
			jobs = append(jobs, job{part, s, n})
		}
	}
	// development aid: C20_PARTS=Alive,Aconc runs only the named parts (the
	// floors of the other parts are then not demanded)
	only := map[string]bool{}
	for _, p := range strings.Split(os.Getenv("C20_PARTS"), ",") {
		if p != "" {
			only[p] = true
		}
	}
	splitAll := split
	split = func(part string, total, chunk int) {
		if len(only) == 0 || only[part] {
			splitAll(part, total, chunk)
		}
	}
	split("A", c.N(24000, 540000), 300)
	split("Bseq", c.N(120000, 2700000), 3000)
	split("Bconc", c.N(6400, 144000), 200)
	split("Alive", c.N(960, 12800), 40)
	split("Aconc", c.N(800, 16000), 50)
	split("Bfold", c.N(16000, 360000), 1000)
	split("Bfoldlen", c.N(600, 13500), 300)

	results := make([]*collector, len(jobs))
	core.ParallelFor(len(jobs), 16, func(j int) {
		jb := jobs[j]
		in := childIn{Part: jb.part, Start: jb.start, Count: jb.count, Seed: c.Seed}
		res := core.RunChild("c20", in, core.ChildOpt{Timeout: 20 * time.Minute})
		if res.TimedOut {
			c.Inconclusive("watchdog: child did not finish (" + jb.part + ")")
			return
		}
		if res.Crashed() {
			// attribute to the last logged case and re-run it alone
			var last struct {
				Part string `json:"part"`
				Case int    `json:"case"`
			}
			if json.Unmarshal(res.LastLog(), &last) != nil || last.Part == "" {
				c.Inconclusive("child died before its first case: " + core.Trunc(res.Stderr, 300))
				return
			}
			again := core.RunChild("c20", childIn{Part: last.Part, Start: last.Case, Count: 1, Seed: c.Seed}, core.ChildOpt{Timeout: 5 * time.Minute})
			if !again.Crashed() {
				c.Inconclusive("crash not reproduced when the case was re-run alone")
				return
			}
			msg, fn := core.PanicFunc(again.Stderr)
			c.Eval(1)
			c.Violation(fmt.Sprintf("%s crash: %s @ %s", last.Part, core.NormalizeMsg(msg), fn),
				"the process died while admitting a record (panic / fatal)", map[string]any{"part": last.Part, "case": last.Case, "seed": c.Seed, "stderr": core.Trunc(again.Stderr, 3000)})
			return
		}
		var col collector
		if err := json.Unmarshal(res.Out, &col); err != nil {
			c.Inconclusive("child output unreadable: " + err.Error())
			return
		}
		results[j] = &col
	})

	// merge in job order so that everything reported is deterministic
	reported := map[string]bool{}
	sampled := map[string]int{}
	for _, col := range results {
		if col == nil {
			continue
		}
		if col.HarnessError != "" {
			c.Fatal("harness error: %s", col.HarnessError)
		}
		c.Eval(col.Evals)
		keys := make([]string, 0, len(col.Counters))
		for k := range col.Counters {
			keys = append(keys, k)
		}
		sort.Strings(keys)
		for _, k := range keys {
			c.Count(k, col.Counters[k])
		}
		for fp := range col.FPs {
			c.Nontrivial(fp)
		}
		for _, s := range col.Samples {
			// a few samples of every part (the evidence file keeps 8)
			part := "?"
			if m, ok := s.(map[string]any); ok {
				part, _ = m["part"].(string)
			}
			if sampled[part] < map[string]int{"A": 3, "B.seq": 1, "B.conc": 1, "A.live": 1, "A.conc": 2}[part] {
				sampled[part]++
				c.Sample(s)
			}
		}
		for _, r := range col.Inconclusive {
			c.Inconclusive(r)
		}
		for _, v := range col.Violations {
			// one witness per signature is reported; the rest is counted
			c.Count("children reporting: "+v.Sig, 1)
			if !reported[v.Sig] {
				reported[v.Sig] = true
				c.Violation(v.Sig, v.What, v.Witness)
			}
		}
	}

	// a run that did not see the behaviours the property is about decides nothing
	for _, k := range append(append(foldFloors(), foldLenFloors()...),
		"A accepted", "A refused", "A refused as spam", "A class empty record", "A class oversize, no cut-off",
		"A class decodable (oversize, cut)", "A class decodable (within limit)", "A class already committed",
		"A json: cut events delivered intact (prefix + mark)", "A raw: cut events delivered intact (prefix + mark)", "A cri: cut events delivered intact (prefix + mark)",
		"A json: delivered events compared", "A raw: delivered events compared", "A cri: delivered events compared",
		"A counted records of a source id that shares its source name with another active id",
		"A record accepted while another source id with the same source name is banned (own budget kept)",
		"A source id under changing names refused as spam (one budget for the id)",
		"B.seq ban transitions (first refused record)", "B.seq unban transitions (first accepted record after a ban)",
		"B.seq probes of a banned source after unbanIterations+1 silent rounds", "B.seq class exception",
		"B.seq class unlimited-rule", "B.seq class blocked-rule", "B.seq class disabled",
		"B.conc bursts with exactly threshold-1 passes", "B.conc sources banned", "B.conc probes after unbanIterations+1 silent rounds",
		"A.live sources banned through the started pipeline", "A.live wake-ups of the antispam maintenance goroutine (ticks)",
		"A.live Maintenance() runs observed through the antispam logger",
		"A.live probe admitted after unbanIterations+1 complete rounds in which the pipeline admitted nothing",
		"A.live unban of the source observed in the antispam log before the probe",
		"A.live early probes refused (fewer than unbanIterations rounds since the ban)",
		"A.conc events compared with the sequential run", "A.conc records refused in both runs",
		"A.conc json: cut events equal to the sequential run and to the prefix of their own record",
		"A.conc raw: cut events equal to the sequential run and to the prefix of their own record",
		"A.conc cri: cut events equal to the sequential run and to the prefix of their own record",
	) {
		part := map[string]string{"A ": "A", "B.s": "Bseq", "B.c": "Bconc", "A.l": "Alive", "A.c": "Aconc", "B.f": "Bfold"}[k[:3]]
		if strings.HasPrefix(k, "B.foldlen") {
			part = "Bfoldlen"
		}
		if len(only) > 0 && !only[part] {
			continue
		}
		if c.Counter(k) == 0 {
			c.Fatal("expected behaviour never observed: %q", k)
		}
	}
}
