package main

import (
	"fmt"
	"math/rand"
	"sort"
	"strings"
	"time"
	"unicode"
	"unicode/utf8"
)

// ---------------------------------------------------------------------------
// Part B.fold: antispam exceptions whose values, and the records / source
// names they are matched against, contain NON-ASCII letters in varying case.
//
// cfg/matchrule/README.md: "When case_insensitive is set to true all values
// and the checking contents are converted to lowercase"; without it the bytes
// are compared as they are. The reference (mrRule.match in refspam.go) does
// exactly that with the library's Unicode lower-casing on both sides; the
// real Antispammer is driven through IsSpam / Maintenance like in Part B.seq
// and every answer is judged by the counter reference of refspam.go. A
// matching exception shows as "admitted although the source is banned", a
// non-matching one as "refused".
//
// The alphabet is restricted to letters whose case pair is 1:1, round-trips
// and has the same UTF-8 length in both cases (see foldAlphabet). Letters
// whose lower-case form is shorter than the upper-case one ('İ' U+0130,
// Kelvin sign U+212A, 'ẞ' U+1E9E, ...) are kept out: for them the unchanged
// prefix / suffix matcher (cut to the value size first, lower-case then)
// disagrees with "both sides are converted to lowercase" - see NOTES.md.

type foldGroup struct {
	name  string
	lower []rune
}

var (
	foldGroups []foldGroup
	foldUpper  = map[rune]rune{} // lower -> upper
	foldLower  = map[rune]rune{} // upper -> lower
)

// foldOK: l is a lower-case non-ASCII letter with a well-behaved upper-case partner.
func foldOK(l rune) bool {
	if l < 0x80 || !unicode.IsLetter(l) || unicode.ToLower(l) != l {
		return false
	}
	u := unicode.ToUpper(l)
	return u != l && u >= 0x80 && unicode.ToLower(u) == l && unicode.ToUpper(u) == u &&
		unicode.ToTitle(l) == u && utf8.RuneLen(u) == utf8.RuneLen(l)
}

func init() {
	add := func(name string, ranges ...[2]rune) {
		g := foldGroup{name: name}
		for _, rg := range ranges {
			for l := rg[0]; l <= rg[1]; l++ {
				if foldOK(l) {
					g.lower = append(g.lower, l)
					u := unicode.ToUpper(l)
					foldUpper[l] = u
					foldLower[u] = l
				}
			}
		}
		if len(g.lower) < 10 {
			panic("fold alphabet: group " + name + " too small")
		}
		foldGroups = append(foldGroups, g)
	}
	add("cyrillic", [2]rune{0x0400, 0x052F})
	add("cyrillic", [2]rune{0x0430, 0x0451}) // the common letters once more (weight)
	add("latin", [2]rune{0x00C0, 0x024F})
	add("latin-additional", [2]rune{0x1E00, 0x1EFF}) // 3 bytes
	add("greek", [2]rune{0x0370, 0x03FF})            // 2 bytes
	add("greek-extended", [2]rune{0x1F00, 0x1FFF})   // 3 bytes
	add("armenian", [2]rune{0x0531, 0x0587})         // 2 bytes
	add("fullwidth", [2]rune{0xFF21, 0xFF5A})        // 3 bytes
	add("deseret", [2]rune{0x10400, 0x1044F})        // 4 bytes
	add("glagolitic", [2]rune{0x2C00, 0x2C5F})       // 3 bytes
	add("mixed-width", [2]rune{0x0430, 0x044F}, [2]rune{0x1E01, 0x1E40}, [2]rune{0x10428, 0x10440})
	for _, w := range foldPhrases {
		n := 0
		for _, c := range w {
			if c >= 0x80 {
				if _, in := foldUpper[c]; !in {
					panic(fmt.Sprintf("fold phrase %q: letter %q is not in the alphabet", w, c))
				}
				n++
			}
		}
		if n == 0 {
			panic("fold phrase without a non-ASCII letter: " + w)
		}
	}
}

// spellings people would put into a config (lower case here; every letter
// must be ASCII or in the alphabet above - checked in init)
var foldPhrases = []string{
	"критическая ошибка", "паника", "ёлка-сервис", "сбой оплаты", "überlauf", "żółć", "naïve café",
	"þórr", "đặng", "σφαλμα", "κρισιμο", "ошибка db", "платёж ok", "err-отказ", "año nuevo", "çöküş",
}

func foldIsCased(c rune) bool {
	if c < 0x80 {
		return (c >= 'a' && c <= 'z') || (c >= 'A' && c <= 'Z')
	}
	_, lo := foldUpper[c]
	_, up := foldLower[c]
	return lo || up
}

func foldSetCase(c rune, upper bool) rune {
	if c < 0x80 {
		if upper {
			return unicode.ToUpper(c)
		}
		return unicode.ToLower(c)
	}
	if upper {
		if u, ok := foldUpper[c]; ok {
			return u
		}
		return c
	}
	if l, ok := foldLower[c]; ok {
		return l
	}
	return c
}

func foldIsUpper(c rune) bool {
	if c < 0x80 {
		return c >= 'A' && c <= 'Z'
	}
	_, ok := foldLower[c]
	return ok
}

// genFoldWord returns a lower-case word with at least one non-ASCII letter.
func genFoldWord(r *rand.Rand) string {
	if chance(r, 25) {
		return pick(r, foldPhrases)
	}
	g := pick(r, foldGroups)
	var sb strings.Builder
	if chance(r, 20) {
		sb.WriteString(pick(r, []string{"err ", "db-", "svc_", "x", "level=", "a"}))
	}
	n := 1 + r.Intn(6)
	for i := 0; i < n; i++ {
		sb.WriteRune(pick(r, g.lower))
		if chance(r, 8) {
			sb.WriteString(pick(r, []string{"-", " ", "_", "7", "e", "✓"}))
		}
	}
	if chance(r, 20) {
		sb.WriteString(pick(r, []string{" ok", "-1", ".log", "z", "!"}))
	}
	return sb.String()
}

var foldSpellings = []string{"exact", "upper", "lower", "mixed", "flip1", "ascii-flip", "title"}
var foldNear = []string{"subst", "drop"}

// foldSpell writes s in another letter case.
func foldSpell(r *rand.Rand, s, kind string) string {
	rs := []rune(s)
	var cased []int
	for i, c := range rs {
		if c >= 0x80 && foldIsCased(c) {
			cased = append(cased, i)
		}
	}
	switch kind {
	case "exact":
	case "upper", "lower":
		for i, c := range rs {
			rs[i] = foldSetCase(c, kind == "upper")
		}
	case "title":
		start := true
		for i, c := range rs {
			if foldIsCased(c) {
				rs[i] = foldSetCase(c, start)
				start = false
			} else {
				start = true
			}
		}
	case "mixed":
		for i, c := range rs {
			rs[i] = foldSetCase(c, chance(r, 50))
		}
	case "flip1": // the case of exactly one non-ASCII letter differs
		if len(cased) > 0 {
			i := pick(r, cased)
			rs[i] = foldSetCase(rs[i], !foldIsUpper(rs[i]))
		}
	case "ascii-flip": // only the ASCII letters change their case
		for i, c := range rs {
			if c < 0x80 {
				rs[i] = foldSetCase(c, !foldIsUpper(c))
			}
		}
	case "subst": // another letter of the same script at one place, then any case
		if len(cased) > 0 {
			i := pick(r, cased)
			l := foldSetCase(rs[i], false)
			for _, g := range foldGroups {
				if k := sort.Search(len(g.lower), func(j int) bool { return g.lower[j] >= l }); k < len(g.lower) && g.lower[k] == l {
					rs[i] = g.lower[(k+1+r.Intn(len(g.lower)-1))%len(g.lower)]
					break
				}
			}
		}
		return foldSpell(r, string(rs), pick(r, []string{"exact", "upper", "lower", "mixed"}))
	case "drop": // one letter missing, then any case
		if len(rs) > 1 {
			i := r.Intn(len(rs))
			rs = append(rs[:i:i], rs[i+1:]...)
		}
		return foldSpell(r, string(rs), pick(r, []string{"exact", "upper", "lower", "mixed"}))
	}
	return string(rs)
}

func foldFiller(r *rand.Rand) string {
	switch r.Intn(6) {
	case 0:
		return pick(r, []string{"request done", "GET /health 200", "tick", "Noise", "level=info"})
	case 1:
		return pick(r, []string{"✓", "日本語", "№5 —", "→ 42", "“q”"})
	case 2:
		return ""
	}
	return foldSpell(r, genFoldWord(r), pick(r, []string{"exact", "upper", "mixed", "title"}))
}

type fEvent struct {
	Text  string `json:"text"`
	Kind  string `json:"spelling"` // how the generator wrote the value (a label, the oracle does not use it)
	Place string `json:"place"`
	Mode  string `json:"for_mode,omitempty"`
}

func genFoldEvent(r *rand.Rand, value, mode string) fEvent {
	kind := pick(r, foldSpellings)
	if chance(r, 18) {
		kind = pick(r, foldNear)
	}
	v := foldSpell(r, value, kind)
	place := pick(r, []string{"start", "mid", "end", "whole"})
	if mode == "prefix" && chance(r, 70) {
		place = "start"
	}
	if mode == "suffix" && chance(r, 70) {
		place = "end"
	}
	sep := pick(r, []string{" ", "", ": ", "\""})
	var text string
	switch place {
	case "start":
		text = v + sep + foldFiller(r) + pick(r, []string{"", "\n"})
	case "end":
		text = foldFiller(r) + sep + v
	case "mid":
		text = foldFiller(r) + sep + v + sep + foldFiller(r) + pick(r, []string{"", "\n"})
		if chance(r, 40) {
			text = `{"msg":"` + foldFiller(r) + " " + v + `"}` + "\n"
		}
	default:
		text = v
	}
	return fEvent{Text: text, Kind: kind, Place: place, Mode: mode}
}

func genFoldRule(r *rand.Rand, words []string) mrRule {
	rule := mrRule{Mode: pick(r, []string{"prefix", "contains", "suffix"}), CI: chance(r, 65), Invert: chance(r, 20)}
	n := pick(r, []int{1, 1, 1, 2, 3})
	for i := 0; i < n; i++ {
		// the spelling in the config is itself in any case
		rule.Values = append(rule.Values, foldSpell(r, pick(r, words), pick(r, []string{"exact", "upper", "title", "mixed", "exact"})))
	}
	return rule
}

type fCase struct {
	Shape   string   `json:"shape"` // simple: one exception with one rule | complex
	Spec    spamSpec `json:"spec"`
	Sources []srcDef `json:"sources"`
	Events  []fEvent `json:"events"`
	Ops     []bOp    `json:"ops"`
}

func genFCase(r *rand.Rand) fCase {
	c := fCase{Shape: "simple", Spec: spamSpec{Threshold: pick(r, []int{1, 2, 2, 3, 4}), Unban: pick(r, []int{1, 2, 4, 4})}}
	if chance(r, 45) {
		c.Shape = "complex"
	}
	// sources: names with non-ASCII letters
	nsrc := 1 + r.Intn(3)
	var nameParts [][3]string // head, word, tail of every name
	for i := 0; i < nsrc; i++ {
		w := foldSpell(r, genFoldWord(r), pick(r, []string{"exact", "upper", "title", "mixed"}))
		head := pick(r, []string{"/var/log/", "k8s_", "/var/log/pods/", ""})
		tail := pick(r, []string{".log", "/0.log", "", "-" + foldSpell(r, genFoldWord(r), "title") + ".log"})
		nameParts = append(nameParts, [3]string{head, w, tail})
		c.Sources = append(c.Sources, srcDef{ID: fmt.Sprint(i + 1), Name: head + w + tail})
	}
	words := make([]string, 2+r.Intn(3))
	for i := range words {
		words[i] = genFoldWord(r)
	}
	nexc, maxRules := 1, 1
	if c.Shape == "complex" {
		nexc, maxRules = 1+r.Intn(3), 2
	}
	type target struct{ value, mode string }
	var targets []target
	for i := 0; i < nexc; i++ {
		e := excSpec{Name: fmt.Sprintf("exc%d", i), Cond: pick(r, []string{"and", "or", "or"})}
		e.CheckSourceName = chance(r, 18)
		for k := 1 + r.Intn(maxRules); k > 0; k-- {
			var rule mrRule
			if e.CheckSourceName {
				// values taken from the names of the sources, in another spelling
				rule = genFoldRule(r, []string{"x"})
				rule.Values = rule.Values[:0]
				for n := pick(r, []int{1, 1, 2}); n > 0; n-- {
					p := pick(r, nameParts)
					v := p[1]
					switch rule.Mode {
					case "prefix":
						v = p[0] + p[1]
					case "suffix":
						v = p[1] + p[2]
					}
					kind := pick(r, foldSpellings)
					if chance(r, 15) {
						kind = pick(r, foldNear)
					}
					rule.Values = append(rule.Values, foldSpell(r, v, kind))
				}
			} else {
				rule = genFoldRule(r, words)
				for _, v := range rule.Values {
					targets = append(targets, target{v, rule.Mode})
				}
			}
			e.Rules = append(e.Rules, rule)
		}
		c.Spec.Exceptions = append(c.Spec.Exceptions, e)
	}
	// record texts: the values in several spellings and places, near misses, noise
	for _, t := range targets {
		for k := 2 + r.Intn(3); k > 0; k-- {
			c.Events = append(c.Events, genFoldEvent(r, t.value, t.mode))
		}
	}
	c.Events = append(c.Events,
		fEvent{Text: foldFiller(r) + " " + foldFiller(r) + "\n", Kind: "noise"},
		fEvent{Text: pick(r, []string{"noise line\n", `{"message":"noise"}` + "\n", "шум\n", "ШУМ"}), Kind: "noise"},
		fEvent{Text: pick(r, []string{"x", "я", "Я", "ὦ"}), Kind: "short"})
	if len(c.Events) > 16 {
		r.Shuffle(len(c.Events), func(i, j int) { c.Events[i], c.Events[j] = c.Events[j], c.Events[i] })
		c.Events = c.Events[:16]
	}

	foldHistory(r, &c, nsrc)
	return c
}

// foldHistory: ban the hot source, then show it every text while it is banned
func foldHistory(r *rand.Rand, c *fCase, nsrc int) {
	T, U := c.Spec.Threshold, c.Spec.Unban
	hot := r.Intn(nsrc)
	var counted []int
	for i := range c.Events {
		if c.Spec.classify(c.Sources[hot].Name, []byte(c.Events[i].Text), nil).cls == clsCounted {
			counted = append(counted, i)
		}
	}
	rec := func(src, ev int) {
		c.Ops = append(c.Ops, bOp{Src: src, Ev: ev, DtNs: int64(r.Intn(int(bInterval) / 256))})
	}
	for p := 2 + r.Intn(4); p > 0; p-- {
		for i := T + r.Intn(2); i > 0; i-- {
			if len(counted) > 0 {
				rec(hot, pick(r, counted))
			} else {
				rec(hot, r.Intn(len(c.Events)))
			}
		}
		for _, i := range r.Perm(len(c.Events)) {
			if chance(r, 75) {
				rec(hot, i)
			}
			if nsrc > 1 && chance(r, 10) {
				rec(r.Intn(nsrc), r.Intn(len(c.Events)))
			}
		}
		switch r.Intn(4) {
		case 0, 1:
			for i := U + 1 + r.Intn(2); i > 0; i-- {
				c.Ops = append(c.Ops, bOp{Maint: true})
			}
		case 2:
			c.Ops = append(c.Ops, bOp{Maint: true})
		}
	}
}

// lower-casing of the ASCII letters only: used for bookkeeping (which records
// are decided by the folding of NON-ASCII letters), never for a verdict
func asciiOnlyLower(b []byte) []byte {
	out := make([]byte, len(b))
	for i, c := range b {
		if 'A' <= c && c <= 'Z' {
			c += 'a' - 'A'
		}
		out[i] = c
	}
	return out
}

func (s *spamSpec) excMatchWith(name string, event []byte, lower func([]byte) []byte) bool {
	for i := range s.Exceptions {
		e := &s.Exceptions[i]
		data := event
		if e.CheckSourceName {
			data = []byte(name)
		}
		if len(e.Rules) == 0 {
			continue
		}
		all, some := true, false
		for k := range e.Rules {
			if e.Rules[k].matchWith(data, lower) {
				some = true
			} else {
				all = false
			}
		}
		if (e.Cond == "or" && some) || (e.Cond != "or" && all) {
			return true
		}
	}
	return false
}

func runBFold(cs fCase, col *collector, caseNo int) {
	a, err := realAntispammer(cs.Spec, bInterval)
	if err != nil {
		col.HarnessError = err.Error()
		return
	}
	col.Evals++
	ref := newRefSpam(cs.Spec, int64(bInterval))
	clock := time.Unix(1_700_000_000, 0).UnixNano()
	type trace struct {
		Op   string `json:"op"`
		Src  string `json:"src,omitempty"`
		Name string `json:"source_name,omitempty"`
		Ev   string `json:"event,omitempty"`
		Kind string `json:"spelling,omitempty"`
		T    int64  `json:"t_ns,omitempty"`
		Spam *bool  `json:"spam,omitempty"`
		Cls  string `json:"class,omitempty"`
	}
	var tr []trace
	// the same settings with every rule case-insensitive: tells the records
	// whose class depends on the letter case
	allCI := cs.Spec
	allCI.Exceptions = nil
	for _, e := range cs.Spec.Exceptions {
		e2 := e
		e2.Rules = nil
		for _, rl := range e.Rules {
			rl.CI = true
			e2.Rules = append(e2.Rules, rl)
		}
		allCI.Exceptions = append(allCI.Exceptions, e2)
	}
	tag := ""
	byName := false
	if cs.Shape == "simple" {
		rl := cs.Spec.Exceptions[0].Rules[0]
		tag = fmt.Sprintf("mode=%s case_insensitive=%v invert=%v", rl.Mode, rl.CI, rl.Invert)
		byName = cs.Spec.Exceptions[0].CheckSourceName
	}
	T := cs.Spec.Threshold
	var protBanned, refusedFold, refusedCase, bans int
	inRound := map[string]int{} // records of a source since the last maintenance round
	for _, op := range cs.Ops {
		if op.Maint {
			a.Maintenance()
			ref.maintenance()
			tr = append(tr, trace{Op: "maintenance"})
			inRound = map[string]int{}
			continue
		}
		s := cs.Sources[op.Src%len(cs.Sources)]
		ev := cs.Events[op.Ev%len(cs.Events)]
		evb := []byte(ev.Text)
		clock += op.DtNs
		banned := false
		if st := ref.src[s.ID]; st != nil && len(st.worlds) > 0 && st.worlds[0] >= T {
			banned = true // in every documented reading
		}
		got := a.IsSpam(s.ID, s.Name, false, evb, time.Unix(0, clock), nil)
		g := got
		p := ref.prepare(s.ID, s.Name, false, evb, clock, nil, false)
		cl := p.cl
		tr = append(tr, trace{Op: "IsSpam", Src: s.ID, Name: s.Name, Ev: ev.Text, Kind: ev.Kind, T: clock, Spam: &g, Cls: cl.why})
		col.count("B.fold IsSpam calls", 1)
		// bookkeeping: is this record's class decided by folding non-ASCII letters / by the letter case at all
		foldDecides := cl.excMatch != cs.Spec.excMatchWith(s.Name, evb, asciiOnlyLower)
		caseDecides := cl.excMatch != allCI.classify(s.Name, evb, nil).excMatch
		if !p.allowed(got) {
			sig, what := p.explain("B", got)
			// what the documents say about this record (not what the code did)
			how := "exceptions with non-ASCII letters; the record's class does not depend on its letter case"
			switch {
			case foldDecides:
				how = "exceptions with non-ASCII letters; the record's class is decided by case folding of non-ASCII letters"
			case caseDecides:
				how = "exceptions with non-ASCII letters; the record's class depends on its letter case"
			}
			t := tr
			if len(t) > 200 {
				t = t[len(t)-200:]
			}
			col.violate(sig+" [exception values / records / source names with non-ASCII letters in varying case]", what+" ("+how+")", map[string]any{"part": "B.fold", "case": caseNo, "shape": cs.Shape, "spec": cs.Spec,
				"interval_ns": int64(bInterval), "sources": cs.Sources, "events": cs.Events, "history": t})
			return
		}
		p.commit(got)
		if cl.cls == clsCounted && got && !banned {
			bans++
		}
		// an exception on the source name holds for every record of the source:
		// it shows as records admitted beyond the threshold within one interval
		inRound[s.ID]++
		if byName && cl.excMatch && !got && inRound[s.ID] >= T {
			col.count("B.fold records of a source whose name matches an exception admitted at or beyond the threshold-th record of the interval", 1)
			if foldDecides {
				col.count("B.fold records of a source whose name matches an exception only through case folding of non-ASCII letters admitted at or beyond the threshold-th record of the interval", 1)
			}
		}
		if !banned {
			continue
		}
		// answers observed while the source is banned: the exception alone decides
		col.count("B.fold records judged while their source is banned", 1)
		if !got {
			protBanned++
			col.count("B.fold records matching an exception admitted while their source is banned", 1)
			col.count("B.fold admitted while banned, spelling of the value in the record: "+ev.Kind, 1)
		}
		switch {
		case foldDecides && !got:
			col.count("B.fold records protected only through case folding of non-ASCII letters admitted while their source is banned", 1)
			if tag != "" {
				col.count("B.fold ["+tag+"] record protected only through case folding of non-ASCII letters admitted while banned", 1)
			}
		case foldDecides && got:
			refusedFold++
			col.count("B.fold records that an inverted rule excludes only through case folding of non-ASCII letters refused while banned", 1)
			if tag != "" {
				col.count("B.fold ["+tag+"] record excluded only through case folding of non-ASCII letters refused while banned", 1)
			}
		case caseDecides && got:
			refusedCase++
			col.count("B.fold records differing from a case-sensitive value in letter case only refused while banned", 1)
			if tag != "" {
				col.count("B.fold ["+tag+"] record differing in letter case only refused while banned", 1)
			}
		case caseDecides && !got:
			col.count("B.fold records that a case-sensitive inverted rule lets through because of their letter case admitted while banned", 1)
		}
	}
	modes := map[string]bool{}
	ci, inv, name := 0, 0, 0
	for _, e := range cs.Spec.Exceptions {
		if e.CheckSourceName {
			name++
		}
		for _, rl := range e.Rules {
			modes[rl.Mode] = true
			if rl.CI {
				ci++
			}
			if rl.Invert {
				inv++
			}
		}
	}
	ms := make([]string, 0, 3)
	for m := range modes {
		ms = append(ms, m)
	}
	sort.Strings(ms)
	col.fp(fmt.Sprintf("B.fold %s T%d U%d exc%d modes%s ci%d inv%d name%d bans%s protected%s refusedFold%s refusedCase%s",
		cs.Shape, T, cs.Spec.Unban, len(cs.Spec.Exceptions), strings.Join(ms, "+"), ci, inv, name,
		bucket(bans), bucket(protBanned), bucket(refusedFold), bucket(refusedCase)))
}

// the counters a run must have seen (main.go demands them)
func foldFloors() []string {
	ks := []string{
		"B.fold records matching an exception admitted while their source is banned",
		"B.fold records protected only through case folding of non-ASCII letters admitted while their source is banned",
		"B.fold records that an inverted rule excludes only through case folding of non-ASCII letters refused while banned",
		"B.fold records differing from a case-sensitive value in letter case only refused while banned",
		"B.fold records of a source whose name matches an exception only through case folding of non-ASCII letters admitted at or beyond the threshold-th record of the interval",
	}
	for _, k := range []string{"exact", "upper", "lower", "mixed", "flip1", "title"} {
		ks = append(ks, "B.fold admitted while banned, spelling of the value in the record: "+k)
	}
	for _, m := range []string{"prefix", "contains", "suffix"} {
		ks = append(ks,
			fmt.Sprintf("B.fold [mode=%s case_insensitive=true invert=false] record protected only through case folding of non-ASCII letters admitted while banned", m),
			fmt.Sprintf("B.fold [mode=%s case_insensitive=true invert=true] record excluded only through case folding of non-ASCII letters refused while banned", m),
			fmt.Sprintf("B.fold [mode=%s case_insensitive=false invert=false] record differing in letter case only refused while banned", m))
	}
	return ks
}
