package main

import (
	"fmt"
	"math/rand"
	"runtime"
	"strconv"
	"strings"
	"sync"
	"sync/atomic"
	"time"

	"github.com/ozontech/file.d/pipeline"
	"go.uber.org/zap"
	"go.uber.org/zap/zapcore"
)

// ---------------------------------------------------------------------------
// Part A.live: antispam histories through a STARTED pipeline whose own
// maintenance goroutine does the rounds (Settings.Antispam.MaintenanceInterval
// of 1-2 ms). Nothing calls Maintenance() from the harness.
//
// Logical time = wake-ups of the pipeline's antispam maintenance goroutine
// ("ticks", (*Pipeline).VerifAntispamTicks(), the one-line observer after the
// sleep of Pipeline.antispammerMaintenance): one tick = one maintenance
// interval has passed for that goroutine and its round begins. When tick n is
// counted, the rounds of ticks 1..n-1 are complete. No verdict looks at the
// wall clock or at any other sleeper (twin goroutines that sleep the same
// interval were measured to drift apart by hundreds of intervals on the loaded
// machine); the only deadline is a watchdog whose expiry is inconclusive.
//
// What Antispammer.Maintenance() did is observed through the logger handed to
// pipeline.New (a counting core): "there are banned sources" (a round that
// leaves some source banned), "source has been unbanned" id=<key>.
//
// History: ban a source S through In (C1: the first refusal must not come
// before its threshold-th record); then a phase in which the pipeline admits
// NOTHING: everything silent, or S itself keeps spamming (refused), or another
// banned source keeps spamming (refused), or records of a threshold-0 rule
// keep coming (refused), or empty / oversize records keep coming (refused
// before the antispam); a control mode has an unlimited-rule source admitted
// in every interval. Then S is probed:
//   C2  after unbanIterations+2 ticks since the last record of S - i.e.
//       unbanIterations+1 complete maintenance rounds, each begun after that
//       record - the probe must be admitted (pipeline/antispam/README.md:
//       counter set to unbanIterations*threshold by the ban, capped to that in
//       each round, decremented by the threshold per round; the property: "a
//       banned source that falls silent is unbanned within the configured
//       number of maintenance rounds plus one"). documentedUnbanIterations = 4,
//       thresholds >= 2.
// Counted, not judged: an early probe (fewer than unbanIterations rounds begun
// since before the ban) is normally refused; an admitted one is not a drop,
// and the ban can be lost to a round that runs concurrently with the banning
// record (unsynchronised read-modify-write of the counter).

type liveState struct {
	rounds atomic.Int64 // "there are banned sources"
	unbAll atomic.Int64 // "source has been unbanned" (any key)
	mu     sync.Mutex
	unban  map[string]int // "source has been unbanned" per antispam key
}

type liveCore struct{ st *liveState }

func (c liveCore) Enabled(l zapcore.Level) bool      { return l >= zapcore.InfoLevel }
func (c liveCore) With([]zapcore.Field) zapcore.Core { return c }
func (c liveCore) Sync() error                       { return nil }
func (c liveCore) Check(e zapcore.Entry, ce *zapcore.CheckedEntry) *zapcore.CheckedEntry {
	if c.Enabled(e.Level) {
		return ce.AddCore(e, c)
	}
	return ce
}
func (c liveCore) Write(e zapcore.Entry, fields []zapcore.Field) error {
	switch e.Message {
	case "there are banned sources":
		c.st.rounds.Add(1)
	case "source has been unbanned":
		c.st.unbAll.Add(1)
		for _, f := range fields {
			if f.Key == "id" {
				id := f.String
				if id == "" && f.Interface != nil {
					id = fmt.Sprint(f.Interface)
				}
				c.st.mu.Lock()
				c.st.unban[id]++
				c.st.mu.Unlock()
			}
		}
	}
	return nil
}

func (s *liveState) unbans(id string) int {
	s.mu.Lock()
	defer s.mu.Unlock()
	return s.unban[id]
}

type lCase struct {
	Decoder    string `json:"decoder"`
	T          int    `json:"threshold"`
	IntervalUs int    `json:"maintenance_interval_us"`
	Mode       string `json:"mode"` // silent | self-spam | other-spam | blocked-traffic | size-refused | heartbeat
	SelfRounds int    `json:"self_spam_rounds,omitempty"`
	Early      int    `json:"early_probe_after_rounds,omitempty"`
	KFirst     bool   `json:"other_source_banned_first,omitempty"`
	Extra      int    `json:"extra_ticks_before_probe,omitempty"`
}

var liveModes = []string{"silent", "silent", "self-spam", "self-spam", "other-spam", "other-spam", "other-spam", "blocked-traffic", "size-refused", "heartbeat"}

func genLCase(r *rand.Rand, i int) *lCase {
	cs := &lCase{Decoder: pick(r, []string{"raw", "json", "cri"}), T: pick(r, []int{2, 2, 3, 4, 5, 8}), IntervalUs: pick(r, []int{1000, 2000, 2000}),
		Mode: liveModes[i%len(liveModes)]}
	if cs.Mode == "self-spam" {
		cs.SelfRounds = 1 + r.Intn(3)
	}
	if chance(r, 30) && cs.Mode != "self-spam" {
		cs.Early = 1 + r.Intn(2)
	}
	cs.KFirst = chance(r, 50)
	cs.Extra = pick(r, []int{0, 0, 0, 1, 3})
	return cs
}

const (
	liveS = 0 // srcPool indexes: the source under test,
	liveH = 1 // the source of an unlimited rule (heartbeat),
	liveB = 2 // the source of a threshold-0 rule,
	liveK = 3 // the other spammer
)

func runLCase(cs *lCase, col *collector, caseNo int) {
	U := documentedUnbanIterations
	I := time.Duration(cs.IntervalUs) * time.Microsecond
	spec := spamSpec{Threshold: cs.T, Unban: U}
	switch cs.Mode {
	case "blocked-traffic":
		spec.Rules = []ruleSpec{{Name: "blocked", Threshold: 0, Cond: condSpec{Op: "equal", Field: "source_name", Values: []string{srcPool[liveB].Name}}}}
	case "heartbeat":
		spec.Rules = []ruleSpec{{Name: "important", Threshold: -1, Cond: condSpec{Op: "equal", Field: "source_name", Values: []string{srcPool[liveH].Name}}}}
	}
	ac := &aCase{Decoder: cs.Decoder, Pool: "std", Antispam: true, Spam: spec}
	if cs.Mode == "size-refused" {
		ac.Max = 96
	}
	st := &liveState{unban: map[string]int{}}
	g, err := newRigOpt(ac, rigOpt{Interval: I, Logger: zap.New(liveCore{st})})
	if err != nil {
		col.HarnessError = err.Error()
		return
	}
	defer g.p.VerifAntispamTicksForget()
	defer g.p.Stop()
	col.Evals++
	col.count("A.live cases, mode "+cs.Mode, 1)
	ticks := g.p.VerifAntispamTicks
	runs := func() int64 { return st.rounds.Load() + st.unbAll.Load() } // lower bound of the Maintenance() calls that found a banned source

	var trace []string
	note := func(f string, a ...any) {
		if len(trace) < 400 {
			trace = append(trace, fmt.Sprintf("[tick %d, Maintenance() runs seen %d] ", ticks(), runs())+fmt.Sprintf(f, a...))
		}
	}
	witness := func(extra map[string]any) any {
		w := map[string]any{"part": "A.live", "case": caseNo, "config": cs, "antispam": spec, "documented_unban_iterations": U,
			"sources": map[string]any{"S": srcPool[liveS], "K": srcPool[liveK], "B": srcPool[liveB], "H": srcPool[liveH]},
			"history": trace, "ticks_total": ticks(), "maintenance_runs_seen_total": runs(),
			"clock": "tick = wake-up of the pipeline's antispam maintenance goroutine (one per maintenance interval)"}
		for k, v := range extra {
			w[k] = v
		}
		return w
	}

	off, seqNo, criNs, admitted := int64(100), 0, 0, 0
	send := func(src int, data []byte) bool {
		s := srcPool[src]
		sid, _ := strconv.ParseUint(s.ID, 10, 64)
		off += int64(len(data)) + 1
		ok := g.p.In(pipeline.SourceID(sid), s.Name, pipeline.NewOffsets(off, nil), append([]byte(nil), data...), false, nil) != pipeline.EventSeqIDError
		if ok {
			admitted++
		}
		return ok
	}
	rec := func() []byte {
		seqNo++
		switch cs.Decoder {
		case "json":
			return []byte(fmt.Sprintf(`{"m":"live","n":%d}`+"\n", seqNo))
		case "cri":
			criNs += 1 + seqNo%50 // far below the maintenance interval in event time
			return []byte(criTime(777, criNs) + " stdout F live record " + strconv.Itoa(seqNo) + "\n")
		}
		return []byte("live record " + strconv.Itoa(seqNo) + "\n")
	}
	// ban: records of src until the first refusal; -1 if it never comes
	ban := func(src int, label string) int {
		for k := 1; k <= 6*cs.T+8; k++ {
			if !send(src, rec()) {
				note("%s: record %d refused", label, k)
				return k
			}
		}
		note("%s: %d records, none refused", label, 6*cs.T+8)
		return -1
	}
	sID := srcPool[liveS].ID

	// ---- traffic that is never admitted (or, in the control mode, always) ----
	premiseLost := 0 // records of others admitted although they were meant to be refused
	lastBeat := ticks()
	bad := false
	traffic := func() {
		switch cs.Mode {
		case "other-spam":
			for i := 0; i < cs.T; i++ {
				if send(liveK, rec()) {
					premiseLost++
					note("a record of the other spammer K was admitted (K fell out of its ban)")
				}
			}
		case "blocked-traffic":
			for i := 0; i < 2; i++ {
				if send(liveB, rec()) {
					col.violate("A.live antispam: record of a threshold-0 rule (blocked-rule) not refused", "threshold 0 means discard all logs", witness(nil))
					bad = true
				}
			}
		case "size-refused":
			if send(liveK, []byte("\n")) {
				col.violate("A decoder="+cs.Decoder+": empty record accepted", "a lone line feed must be discarded (A.live)", witness(nil))
				bad = true
			}
			big := append(rec(), []byte(strings.Repeat("x", 120)+"\n")...)
			if send(liveK, big) {
				col.violate("A decoder="+cs.Decoder+": oversize record accepted although cut_off_event_by_limit is off", fmt.Sprintf("record of %d bytes, max_event_size %d (A.live)", len(big), ac.Max), witness(nil))
				bad = true
			}
		case "heartbeat":
			if t := ticks(); t != lastBeat {
				lastBeat = t
				if !send(liveH, rec()) {
					col.violate("A.live antispam: record that must never be dropped (unlimited-rule) reported as spam", "a record of a rule with threshold -1 was refused", witness(nil))
					bad = true
				}
			}
		}
	}
	// waitTicks: until the maintenance goroutine has woken up n more times
	// since base. The watchdog is not a verdict.
	waitTicks := func(base, n int64, withTraffic bool) string {
		start := time.Now()
		for {
			if withTraffic {
				traffic()
			}
			switch {
			case bad:
				return "bad"
			case ticks()-base >= n:
				return "ticks"
			case time.Since(start) > 30*time.Second:
				return "watchdog"
			}
			time.Sleep(I / 4)
		}
	}
	finish := func() {
		// let the admitted events reach the output before the pipeline is stopped
		kDrain(g, admitted)
		col.count("A.live wake-ups of the antispam maintenance goroutine (ticks)", ticks())
		col.count("A.live Maintenance() runs observed through the antispam logger", runs())
		if premiseLost > 0 {
			col.count("A.live cases in which a spammer fell out of its ban (premise 'nothing admitted' lost, still judged)", 1)
		}
	}
	giveUp := func(why string) {
		if why == "watchdog" {
			col.Inconclusive = append(col.Inconclusive, "watchdog: could not observe enough maintenance rounds of the started pipeline (A.live)")
		}
		finish()
	}

	// ---- ban ----
	if cs.Mode == "other-spam" && cs.KFirst {
		if ban(liveK, "K") < 0 {
			col.count("A.live ban not reached (not judged)", 1)
			finish()
			return
		}
	}
	before := ticks() // before the first record of S: every round that begins from here on is counted
	k := ban(liveS, "S")
	switch {
	case k < 0:
		col.count("A.live ban not reached (not judged)", 1)
		finish()
		return
	case k < cs.T:
		col.violate("A.live antispam: refused below threshold (source never banned before)",
			fmt.Sprintf("record %d of a source the pipeline had never seen was refused, threshold %d (rounds only lower the counter)", k, cs.T), witness(nil))
		finish()
		return
	case k > cs.T:
		col.count("A.live ban reached later than the threshold-th record (a round fell into the burst; not judged)", 1)
	}
	col.count("A.live sources banned through the started pipeline", 1)
	if cs.Mode == "other-spam" && !cs.KFirst {
		if ban(liveK, "K") < 0 {
			col.count("A.live ban not reached (not judged)", 1)
			finish()
			return
		}
	}
	base := ticks() // read after the last record of S returned

	// ---- S keeps spamming for some rounds: the only traffic is refused spam ----
	if cs.Mode == "self-spam" {
		start := time.Now()
		for ticks()-base < int64(cs.SelfRounds) && time.Since(start) < 30*time.Second {
			for i := 0; i < cs.T; i++ {
				if send(liveS, rec()) {
					premiseLost++
					note("a record of S was admitted while it kept spamming")
				}
			}
			time.Sleep(I / 4)
		}
		note("S falls silent")
		base = ticks()
	}
	admBase := admitted // from here on nothing is meant to be admitted (but in the control mode)

	// ---- early probe: S is normally still banned (counted, not judged) ----
	if cs.Early > 0 {
		why := waitTicks(before, int64(cs.Early), true)
		if why != "ticks" {
			giveUp(why)
			return
		}
		ok := send(liveS, rec())
		begun := ticks() - before
		note("early probe of S: admitted=%v, rounds begun since before the ban=%d", ok, begun)
		switch {
		case !ok && begun <= int64(U-1):
			col.count("A.live early probes refused (fewer than unbanIterations rounds since the ban)", 1)
		case !ok:
			col.count("A.live early probes refused (later than planned)", 1)
		case begun <= int64(U-1) && st.unbans(sID) == 0:
			col.count("A.live early probe admitted although fewer than unbanIterations rounds had begun (not a drop; the ban can be lost to a concurrent round; not judged)", 1)
			finish()
			return
		default:
			col.count("A.live early probe admitted after more rounds than planned (not judged)", 1)
			finish()
			return
		}
		base = ticks() // a refused probe is a record: the silence starts again
	}

	// ---- the silence, then the probe ----
	need := int64(U + 2 + cs.Extra)
	runs0, unb0 := runs(), st.unbans(sID)
	why := waitTicks(base, need, true)
	if why != "ticks" {
		giveUp(why)
		return
	}
	since := ticks() - base
	ranSince, unbSeen := runs()-runs0, st.unbans(sID) > unb0
	ok := send(liveS, rec())
	note("probe of S after %d ticks since its last record (= %d complete rounds begun after it; Maintenance() runs seen meanwhile=%d, unban of S logged=%v): admitted=%v", since, since-1, ranSince, unbSeen, ok)
	if !ok {
		ctx := "Antispammer.Maintenance ran in these rounds"
		if ranSince < int64(U) && !unbSeen {
			// while S is banned every Maintenance() call logs either "there are
			// banned sources" or the unban of S
			ctx = "the maintenance goroutine woke up but Antispammer.Maintenance did not run"
		}
		adm := "nothing admitted meanwhile"
		if admitted > admBase {
			adm = "other sources admitted meanwhile"
		}
		col.violate("A.live antispam: refused below threshold (source silent for unbanIterations+1 or more maintenance rounds of the started pipeline; "+ctx+"; "+adm+")",
			fmt.Sprintf("S was banned at its record %d (threshold %d, unbanIterations %d). Since its last record the pipeline's antispam maintenance goroutine woke up %d times, i.e. %d maintenance rounds were due and over, in which S sent nothing: the documented counter is 0, yet the next record of S was refused. Maintenance() runs observed in that time: %d",
				k, cs.T, U, since, since-1, ranSince), witness(map[string]any{"mode": cs.Mode, "antispam_maintenance_goroutines": maintenanceGoroutines()}))
		finish()
		return
	}
	col.count("A.live probe admitted after unbanIterations+1 complete rounds without a record of the source", 1)
	if admitted-1 == admBase {
		col.count("A.live probe admitted after unbanIterations+1 complete rounds in which the pipeline admitted nothing", 1)
	}
	if unbSeen {
		col.count("A.live unban of the source observed in the antispam log before the probe", 1)
	}
	col.fp(fmt.Sprintf("A.live %s %s T%d I%dus early%d kfirst=%v self%d extra%d banAt%s runs%s", cs.Mode, cs.Decoder, cs.T, cs.IntervalUs, cs.Early, cs.KFirst && cs.Mode == "other-spam",
		cs.SelfRounds, cs.Extra, bucket(k-cs.T), bucket(int(ranSince))))
	col.sample(map[string]any{"part": "A.live", "config": cs, "history": trace})
	finish()
}

// maintenanceGoroutines: where the antispam maintenance goroutines of this
// process are right now (witness only).
func maintenanceGoroutines() []string {
	buf := make([]byte, 1<<20)
	buf = buf[:runtime.Stack(buf, true)]
	var out []string
	for _, blk := range strings.Split(string(buf), "\n\n") {
		if strings.Contains(blk, "antispammerMaintenance") || strings.Contains(blk, "antispam.(*Antispammer).Maintenance") {
			out = append(out, core_trunc(blk, 1200))
		}
	}
	return out
}
