package main

import (
	"bytes"
	"fmt"
	"math/rand"
	"strings"
	"time"
	"unicode"
	"unicode/utf8"
)

// ---------------------------------------------------------------------------
// Part B.foldlen: the letters Part B.fold keeps out - letters whose lower-case
// form has ANOTHER UTF-8 length than the letter itself (U+0130 'İ' -> 'i',
// Kelvin sign U+212A -> 'k', Angstrom sign U+212B -> 'å', U+1E9E 'ẞ' -> 'ß',
// U+023A 'Ⱥ' -> U+2C65, ...) - in exception values and record texts.
//
// The reference is the same as everywhere (cfg/matchrule/README.md: "all
// values and the checking contents are converted to lowercase"). The unchanged
// code is known to refute it here: Rule.match compares the content size with
// the sizes of the lower-cased values, and in prefix / suffix mode cuts the
// content to the largest of them, BEFORE it lower-cases the content. A case
// refuted by the reference is therefore replayed against a diagnostic
// hypothesis - the reference with exactly that order of steps
// (mrRule.matchCutFirst) -: if the hypothesis allows every answer the real
// Antispammer gave in the case, the refutation carries the one fixed signature
// foldLenSignature; anything the hypothesis does not explain keeps the ordinary
// signatures of Part B.

const foldLenSignature = "B antispam: exception with case_insensitive prefix/suffix misses a text whose lower-cased form has another UTF-8 length (cut before lower-casing)"

var (
	lenChangers      []rune // every letter whose lower-case form has another UTF-8 length
	lenChangersNamed = []rune{0x0130, 0x212A, 0x212B, 0x1E9E, 0x023A, 0x2126, 0x023E}
)

func init() {
	for c := rune(0x80); c <= 0x1FFFF; c++ {
		if l := unicode.ToLower(c); l != c && utf8.RuneLen(l) != utf8.RuneLen(c) {
			lenChangers = append(lenChangers, c)
		}
	}
	for _, c := range lenChangersNamed {
		if l := unicode.ToLower(c); l == c || utf8.RuneLen(l) == utf8.RuneLen(c) {
			panic(fmt.Sprintf("foldlen: %U does not change its length", c))
		}
	}
	for _, w := range foldLenPhrases {
		if len(strings.ToLower(w)) == len(w) {
			panic("foldlen phrase keeps its length when lower-cased: " + w)
		}
	}
}

// the hypothesis (NOT the reference): size check against the smallest value
// size and cut to the largest one first, lower-casing of the content
// afterwards; the value sizes are those of the lower-cased values and of the
// first value as written
func (r *mrRule) matchCutFirst(data []byte) bool {
	res := r.matchCutFirstPlain(data)
	if r.Invert {
		return !res
	}
	return res
}

func (r *mrRule) matchCutFirstPlain(data []byte) bool {
	if len(r.Values) == 0 {
		return false
	}
	vals := make([][]byte, len(r.Values))
	// the sizes start from the first value as written in the config (not yet
	// lower-cased) and are then widened by the lower-cased values
	minSize, maxSize := len(r.Values[0]), len(r.Values[0])
	for i, v := range r.Values {
		vals[i] = []byte(v)
		if r.CI {
			vals[i] = bytes.ToLower(vals[i])
		}
		if n := len(vals[i]); n < minSize {
			minSize = n
		}
		if n := len(vals[i]); n > maxSize {
			maxSize = n
		}
	}
	if len(data) < minSize {
		return false
	}
	cut := data
	if len(cut) > maxSize {
		switch r.Mode {
		case "prefix":
			cut = cut[:maxSize]
		case "suffix":
			cut = cut[len(cut)-maxSize:]
		}
	}
	if r.CI {
		cut = bytes.ToLower(cut)
	}
	for _, v := range vals {
		switch r.Mode {
		case "prefix":
			if bytes.HasPrefix(cut, v) {
				return true
			}
		case "suffix":
			if bytes.HasSuffix(cut, v) {
				return true
			}
		default:
			if bytes.Contains(cut, v) {
				return true
			}
		}
	}
	return false
}

var foldLenPhrases = []string{
	"İstanbul", "DİYARBAKIR", "Kelvin", "273 K", "Ångström", "STRAẞE", "groẞ",
	"Ⱥbc", "Ωhm", "Ⱦor", "Ɫab", "ошибка İ", "ẞ",
}

// genLenWord: a word with at least one length-changing letter (in its original form).
func genLenWord(r *rand.Rand) string {
	if chance(r, 35) {
		return pick(r, foldLenPhrases)
	}
	var sb strings.Builder
	n := 1 + r.Intn(5)
	at := r.Intn(n)
	for i := 0; i < n; i++ {
		switch k := r.Intn(10); {
		case i == at || k < 3:
			if chance(r, 65) {
				sb.WriteRune(pick(r, lenChangersNamed))
			} else {
				sb.WriteRune(pick(r, lenChangers))
			}
		case k < 7:
			sb.WriteByte(byte(pick(r, []rune("abekstzIKSX-_ 7"))))
		default:
			sb.WriteRune(foldSetCase(pick(r, pick(r, foldGroups).lower), chance(r, 50)))
		}
	}
	return sb.String()
}

var foldLenSpellings = []string{"exact", "lower", "mixed", "others-upper", "others-lower"}

func lenSpell(r *rand.Rand, s, kind string) string {
	rs := []rune(s)
	isChanger := func(c rune) bool {
		l := unicode.ToLower(c)
		return l != c && utf8.RuneLen(l) != utf8.RuneLen(c)
	}
	switch kind {
	case "exact":
	case "lower":
		return strings.ToLower(s)
	case "mixed":
		for i, c := range rs {
			switch {
			case isChanger(c):
				if chance(r, 40) {
					rs[i] = unicode.ToLower(c)
				}
			case foldIsCased(c):
				rs[i] = foldSetCase(c, chance(r, 50))
			}
		}
	case "others-upper", "others-lower": // the length-changing letters stay, the other letters change
		for i, c := range rs {
			if !isChanger(c) && foldIsCased(c) {
				rs[i] = foldSetCase(c, kind == "others-upper")
			}
		}
	case "drop":
		if len(rs) > 1 {
			i := r.Intn(len(rs))
			rs = append(rs[:i:i], rs[i+1:]...)
		}
		return lenSpell(r, string(rs), pick(r, []string{"exact", "lower", "mixed"}))
	}
	return string(rs)
}

func genLenEvent(r *rand.Rand, value, mode string) fEvent {
	kind := pick(r, foldLenSpellings)
	if chance(r, 12) {
		kind = "drop"
	}
	v := lenSpell(r, value, kind)
	place := pick(r, []string{"start", "mid", "end", "whole", "whole"})
	if mode == "prefix" && chance(r, 65) {
		place = "start"
	}
	if mode == "suffix" && chance(r, 65) {
		place = "end"
	}
	filler := func() string {
		if chance(r, 30) {
			return lenSpell(r, genLenWord(r), pick(r, foldLenSpellings))
		}
		return foldFiller(r)
	}
	sep := pick(r, []string{" ", "", ": "})
	var text string
	switch place {
	case "start":
		text = v + sep + filler() + pick(r, []string{"", "\n"})
	case "end":
		text = filler() + sep + v
	case "mid":
		text = filler() + sep + v + sep + filler() + pick(r, []string{"", "\n"})
	default:
		text = v
	}
	return fEvent{Text: text, Kind: kind, Place: place, Mode: mode}
}

func genLCaseLen(r *rand.Rand) fCase {
	c := fCase{Shape: "simple", Spec: spamSpec{Threshold: pick(r, []int{1, 2, 2, 3}), Unban: pick(r, []int{1, 2, 4})}}
	if chance(r, 35) {
		c.Shape = "complex"
	}
	nsrc := 1 + r.Intn(2)
	for i := 0; i < nsrc; i++ {
		c.Sources = append(c.Sources, srcDef{ID: fmt.Sprint(i + 1), Name: "/var/log/" + lenSpell(r, genLenWord(r), "mixed") + ".log"})
	}
	words := make([]string, 1+r.Intn(3))
	for i := range words {
		words[i] = genLenWord(r)
	}
	nexc, maxRules := 1, 1
	if c.Shape == "complex" {
		nexc, maxRules = 1+r.Intn(2), 2
	}
	type target struct{ value, mode string }
	var targets []target
	for i := 0; i < nexc; i++ {
		e := excSpec{Name: fmt.Sprintf("exc%d", i), Cond: pick(r, []string{"and", "or", "or"})}
		for k := 1 + r.Intn(maxRules); k > 0; k-- {
			rule := mrRule{Mode: pick(r, []string{"prefix", "prefix", "suffix", "suffix", "contains"}), CI: chance(r, 85), Invert: chance(r, 15)}
			for n := pick(r, []int{1, 1, 2, 3}); n > 0; n-- {
				rule.Values = append(rule.Values, lenSpell(r, pick(r, words), pick(r, []string{"exact", "lower", "lower", "mixed", "others-upper"})))
			}
			for _, v := range rule.Values {
				targets = append(targets, target{v, rule.Mode})
			}
			e.Rules = append(e.Rules, rule)
		}
		c.Spec.Exceptions = append(c.Spec.Exceptions, e)
	}
	for _, t := range targets {
		for k := 2 + r.Intn(3); k > 0; k-- {
			c.Events = append(c.Events, genLenEvent(r, t.value, t.mode))
		}
	}
	c.Events = append(c.Events,
		fEvent{Text: foldFiller(r) + " " + foldFiller(r) + "\n", Kind: "noise"},
		fEvent{Text: pick(r, []string{"noise line\n", `{"message":"noise"}` + "\n", "шум\n"}), Kind: "noise"},
		fEvent{Text: pick(r, []string{"x", "İ", "K", "Ⱥ", "i", "k"}), Kind: "short"})
	if len(c.Events) > 16 {
		r.Shuffle(len(c.Events), func(i, j int) { c.Events[i], c.Events[j] = c.Events[j], c.Events[i] })
		c.Events = c.Events[:16]
	}
	foldHistory(r, &c, nsrc)
	return c
}

func runBFoldLen(cs fCase, col *collector, caseNo int) {
	a, err := realAntispammer(cs.Spec, bInterval)
	if err != nil {
		col.HarnessError = err.Error()
		return
	}
	col.Evals++
	ref := newRefSpam(cs.Spec, int64(bInterval))
	hypSpec := cs.Spec
	hypSpec.cutFirst = true
	hyp := newRefSpam(hypSpec, int64(bInterval))
	clock := time.Unix(1_700_000_000, 0).UnixNano()
	type trace struct {
		Op   string `json:"op"`
		Src  string `json:"src,omitempty"`
		Ev   string `json:"event,omitempty"`
		Kind string `json:"spelling,omitempty"`
		T    int64  `json:"t_ns,omitempty"`
		Spam *bool  `json:"spam,omitempty"`
		Cls  string `json:"class_by_the_documents,omitempty"`
		Hyp  string `json:"class_by_the_hypothesis,omitempty"`
	}
	var tr []trace
	refuted, hypOK := false, true
	var sig, what string
	refutedAt := -1
	T := cs.Spec.Threshold
	differ, protBanned := 0, 0
	for _, op := range cs.Ops {
		if op.Maint {
			a.Maintenance()
			if !refuted {
				ref.maintenance()
			}
			if hypOK {
				hyp.maintenance()
			}
			tr = append(tr, trace{Op: "maintenance"})
			continue
		}
		s := cs.Sources[op.Src%len(cs.Sources)]
		ev := cs.Events[op.Ev%len(cs.Events)]
		evb := []byte(ev.Text)
		clock += op.DtNs
		got := a.IsSpam(s.ID, s.Name, false, evb, time.Unix(0, clock), nil)
		g := got
		col.count("B.foldlen IsSpam calls", 1)
		clRef := cs.Spec.classify(s.Name, evb, nil)
		clHyp := hypSpec.classify(s.Name, evb, nil)
		tr = append(tr, trace{Op: "IsSpam", Src: s.ID, Ev: ev.Text, Kind: ev.Kind, T: clock, Spam: &g, Cls: clRef.why, Hyp: clHyp.why})
		if clRef.excMatch != clHyp.excMatch {
			differ++
			col.count("B.foldlen records whose class differs between the documents and the cut-before-lower-casing hypothesis (shown to the real antispam)", 1)
		}
		if hypOK {
			ph := hyp.prepare(s.ID, s.Name, false, evb, clock, nil, false)
			if ph.allowed(got) {
				ph.commit(got)
			} else {
				hypOK = false
			}
		}
		if refuted {
			continue // the real antispam is driven to the end of the history for the hypothesis
		}
		banned := false
		if st := ref.src[s.ID]; st != nil && len(st.worlds) > 0 && st.worlds[0] >= T {
			banned = true
		}
		p := ref.prepare(s.ID, s.Name, false, evb, clock, nil, false)
		if !p.allowed(got) {
			refuted, refutedAt = true, len(tr)-1
			sig, what = p.explain("B", got)
			continue
		}
		p.commit(got)
		if banned && !got {
			protBanned++
			col.count("B.foldlen records matching an exception admitted while their source is banned", 1)
			if bytes.ContainsFunc(evb, func(c rune) bool { l := unicode.ToLower(c); return l != c && utf8.RuneLen(l) != utf8.RuneLen(c) }) {
				col.count("B.foldlen records with a length-changing letter matching an exception admitted while their source is banned", 1)
			}
		}
		if banned && got {
			col.count("B.foldlen records refused while their source is banned", 1)
		}
	}
	col.fp(fmt.Sprintf("B.foldlen %s T%d U%d exc%d differ%s protected%s refuted%v explained%v",
		cs.Shape, T, cs.Spec.Unban, len(cs.Spec.Exceptions), bucket(differ), bucket(protBanned), refuted, refuted && hypOK))
	if !refuted {
		col.count("B.foldlen cases in which every answer is allowed by the documents", 1)
		return
	}
	t := tr
	if len(t) > 200 {
		t = t[len(t)-200:]
	}
	w := map[string]any{"part": "B.foldlen", "case": caseNo, "shape": cs.Shape, "spec": cs.Spec, "interval_ns": int64(bInterval),
		"sources": cs.Sources, "events": cs.Events, "history": t, "first_refuted_answer_at": refutedAt,
		"refutation_by_the_documents": sig + ": " + what}
	if hypOK {
		col.count("B.foldlen cases refuted by the documents and explained by the cut-before-lower-casing hypothesis", 1)
		col.violate(foldLenSignature,
			"every answer of the case is what the documented counter gives when exceptions are matched with the size check / the cut to the value size taken BEFORE the content is lower-cased; by the documents (values and content are converted to lowercase) "+sig+": "+what, w)
		return
	}
	col.count("B.foldlen cases refuted by the documents and NOT explained by the hypothesis", 1)
	col.violate(sig+" [exception values / records with letters whose lower-case form has another UTF-8 length]", what, w)
}

// behaviours a run must have seen in this part (whatever the code answers)
func foldLenFloors() []string {
	return []string{
		"B.foldlen records whose class differs between the documents and the cut-before-lower-casing hypothesis (shown to the real antispam)",
		"B.foldlen records with a length-changing letter matching an exception admitted while their source is banned",
		"B.foldlen records refused while their source is banned",
	}
}
