package main

import (
	"fmt"
	"math/rand"
)

// ---------------------------------------------------------------------------
// shared vocabulary

type srcDef struct {
	ID   string            `json:"id"`
	Name string            `json:"name"`
	Meta map[string]string `json:"meta,omitempty"`
}

var srcPool = []srcDef{
	{ID: "1", Name: "/var/log/app-a.log", Meta: map[string]string{"svc": "billing", "ns": "prod"}},
	{ID: "2", Name: "/var/log/pods/ns_critical-svc_1/c/0.log", Meta: map[string]string{"svc": "critical-svc", "ns": "infra"}},
	{ID: "3", Name: "/var/log/noisy.log", Meta: map[string]string{"svc": "noisy", "ns": "dev"}},
	{ID: "4", Name: "k8s_пода-β.log", Meta: map[string]string{"svc": "кириллица", "ns": "dev"}},
}

// record bodies used by the antispam histories (the antispam only looks at
// the bytes; Part A has its own record generators)
var evPool = []string{
	`{"level":"debug","msg":"tick"}` + "\n",
	`{"level":"error","msg":"boom \"x\""}` + "\n",
	`{"level":"info","msg":"healthcheck ok"}` + "\n",
	`{"level":"INFO","msg":"HealthCheck OK"}` + "\n",
	`{"level":"warn","msg":"ünïcödé ✓ payload"}` + "\n",
	"plain text line without json\n",
	`{"level":"debug"}`,
	"x",
	`{"msg":"audit: login","audit":true}` + "\n",
}

func pick[T any](r *rand.Rand, xs []T) T { return xs[r.Intn(len(xs))] }

func chance(r *rand.Rand, pct int) bool { return r.Intn(100) < pct }

// ---------------------------------------------------------------------------
// antispam configurations

func genException(r *rand.Rand, i int) excSpec {
	e := excSpec{Name: fmt.Sprintf("exc%d", i), Cond: pick(r, []string{"and", "or", "or"})}
	if chance(r, 35) {
		e.CheckSourceName = true
		n := 1 + r.Intn(2)
		for k := 0; k < n; k++ {
			e.Rules = append(e.Rules, pick(r, []mrRule{
				{Values: []string{"critical"}, Mode: "contains"},
				{Values: []string{"/var/log/pods/", "/nonexistent/"}, Mode: "prefix"},
				{Values: []string{"0.log"}, Mode: "suffix"},
				{Values: []string{"CRITICAL-SVC"}, Mode: "contains", CI: true},
				{Values: []string{"/var/log/"}, Mode: "prefix", Invert: true},
				{Values: []string{"β.log", ".txt"}, Mode: "suffix"},
			}))
		}
		return e
	}
	n := 1 + r.Intn(2)
	for k := 0; k < n; k++ {
		e.Rules = append(e.Rules, pick(r, []mrRule{
			{Values: []string{`{"level":"debug"`, `{"level":"trace"`}, Mode: "prefix"},
			{Values: []string{"healthcheck"}, Mode: "contains"},
			{Values: []string{"HEALTHCHECK"}, Mode: "contains", CI: true},
			{Values: []string{"\"}\n"}, Mode: "suffix"},
			{Values: []string{"audit"}, Mode: "contains"},
			{Values: []string{`{"LEVEL":"INFO"`}, Mode: "prefix", CI: true},
			{Values: []string{"{"}, Mode: "prefix", Invert: true},
			{Values: []string{"✓"}, Mode: "contains"},
			{Values: []string{"a-value-much-longer-than-any-of-the-short-records-in-the-pool"}, Mode: "prefix"},
		}))
	}
	return e
}

// a condition that is constant for a source (source_name / meta only)
func genSourceCond(r *rand.Rand, depth int) condSpec {
	if depth < 2 && chance(r, 30) {
		switch r.Intn(3) {
		case 0:
			return condSpec{Op: "and", Operands: []condSpec{genSourceCond(r, depth+1), genSourceCond(r, depth+1)}}
		case 1:
			return condSpec{Op: "or", Operands: []condSpec{genSourceCond(r, depth+1), genSourceCond(r, depth+1)}}
		default:
			return condSpec{Op: "not", Operands: []condSpec{genSourceCond(r, depth+1)}}
		}
	}
	return pick(r, []condSpec{
		{Op: "equal", Field: "source_name", Values: []string{"/var/log/noisy.log"}},
		{Op: "equal", Field: "source_name", Values: []string{"/var/log/app-a.log", "/var/log/zzz.log"}},
		{Op: "contains", Field: "source_name", Values: []string{"critical"}},
		{Op: "prefix", Field: "source_name", Values: []string{"/var/log/pods/"}},
		{Op: "suffix", Field: "source_name", Values: []string{"β.log"}},
		{Op: "equal", Field: "meta.svc", Values: []string{"billing"}},
		{Op: "contains", Field: "meta.svc", Values: []string{"крил", "noisy"}},
		{Op: "equal", Field: "meta.ns", Values: []string{"dev"}},
		{Op: "prefix", Field: "meta.absent", Values: []string{"x"}},
	})
}

func genEventCond(r *rand.Rand) condSpec {
	c := pick(r, []condSpec{
		{Op: "prefix", Field: "event", Values: []string{`{"level":"debug"`}},
		{Op: "contains", Field: "event", Values: []string{"healthcheck", "audit"}},
		{Op: "suffix", Field: "event", Values: []string{"\"}\n"}},
		{Op: "equal", Field: "event", Values: []string{"x"}},
		{Op: "contains", Field: "event", Values: []string{"✓"}},
	})
	if chance(r, 25) {
		return condSpec{Op: "and", Operands: []condSpec{c, genSourceCond(r, 1)}}
	}
	return c
}

var thresholds = []int{1, 2, 2, 3, 3, 4, 5, 5, 7, 10}
var unbans = []int{4, 4, 4, 1, 2, 3, 0}

// genSpamSpec: family is one of plain | exceptions | rules | disabled | mixed | both
func genSpamSpec(r *rand.Rand, family string) spamSpec {
	s := spamSpec{Threshold: pick(r, thresholds), Unban: pick(r, unbans)}
	addExc := func() {
		n := 1 + r.Intn(3)
		for i := 0; i < n; i++ {
			s.Exceptions = append(s.Exceptions, genException(r, i))
		}
	}
	addRules := func(eventThresholds []int) {
		n := 1 + r.Intn(3)
		for i := 0; i < n; i++ {
			rule := ruleSpec{Name: fmt.Sprintf("rule%d", i)}
			if chance(r, 40) {
				rule.Cond = genEventCond(r)
				rule.Threshold = pick(r, eventThresholds)
			} else {
				rule.Cond = genSourceCond(r, 0)
				rule.Threshold = pick(r, []int{-1, 0, 1, 2, 3, 6, 9})
			}
			s.Rules = append(s.Rules, rule)
		}
	}
	switch family {
	case "plain":
	case "exceptions":
		addExc()
	case "rules":
		addRules([]int{-1, 0})
		if chance(r, 20) {
			s.Threshold = -1 // unmatched records are unlimited
		}
		if chance(r, 10) {
			s.Threshold = 0
		}
	case "disabled":
		s.Threshold = -1
		if chance(r, 50) {
			addExc()
		}
	case "mixed":
		// event-content rules with positive thresholds: one source, several thresholds
		s.Threshold = pick(r, []int{8, 12, 20})
		s.Unban = pick(r, []int{4, 4, 2, 1})
		s.Rules = []ruleSpec{{Name: "small", Threshold: pick(r, []int{1, 2, 3}), Cond: condSpec{Op: "prefix", Field: "event", Values: []string{`{"level":"debug"`}}}}
	case "both":
		addExc()
		addRules([]int{-1, 0, 2, 3})
	}
	return s
}
