package main

import (
	"bytes"
	"fmt"
	"math/rand"
	"strconv"
	"strings"
	"sync"
	"time"
	"unicode/utf8"

	"github.com/ozontech/file.d/pipeline"
	"github.com/ozontech/file.d/pipeline/metadata"
)

// ---------------------------------------------------------------------------
// Part A.conc: the size gate of Pipeline.In under concurrent callers.
//
// Pipeline.In is called by the input's workers concurrently (one goroutine per
// file worker, per http request ...). One case = one record set (oversize and
// in-limit records mixed, cut_off_event_by_limit on in most cases, every
// record carries a tag that names it) pushed through two real pipelines with
// the same settings: once by a single goroutine, once by G = 2..8 goroutines
// ("lanes", each with its own reused read buffer, as a file worker has) that
// are released together. The antispam is off and nothing is committed, so
// what happens to a record does not depend on the other records: for every
// (source id, offset) the concurrent run must give the same decision and the
// same event (content, cut mark, source id / name) as the sequential run, and
// that event must be the decode of the first max_event_size bytes of ITS OWN
// record (reference of Part A).

type kRec struct {
	Src    int               `json:"src"` // index into aSrcPool
	Data   []byte            `json:"data"`
	Offset int64             `json:"offset"`
	Tag    string            `json:"tag"`
	Kind   string            `json:"kind"`
	Meta   map[string]string `json:"meta,omitempty"`
}

type kCase struct {
	Decoder  string  `json:"decoder"`
	Pool     string  `json:"pool"`
	Max      int     `json:"max_event_size"`
	Cut      bool    `json:"cut_off_event_by_limit"`
	Mark     string  `json:"cut_off_event_by_limit_field"`
	Capacity int     `json:"capacity"`
	G        int     `json:"goroutines"`
	Lanes    [][]int `json:"lanes"` // goroutine -> record indexes in the order they are passed to In
	Records  []kRec  `json:"records"`
}

const kFill = "abcdefghijklmnopqrstuvwxyzABCDEFGHIJKLMNOPQRSTUVWXYZ0123456789 _-.:;,=+()[]<>"

// kText: n bytes of text that needs no escaping in JSON, mostly one letter
// that depends on the record (foreign bytes stand out), some multi-byte runes.
func kText(r *rand.Rand, n int, recNo int) []byte {
	b := make([]byte, 0, n+8)
	own := kFill[recNo%52]
	for len(b) < n {
		switch k := r.Intn(12); {
		case k < 8: // a run of the record's own letter
			for j := 1 + r.Intn(24); j > 0; j-- {
				b = append(b, own)
			}
		case k < 10:
			b = append(b, kFill[r.Intn(len(kFill))])
		default:
			b = append(b, pick(r, runePool[:10])...)
		}
	}
	for len(b) > n { // do not end inside a rune
		b = b[:len(b)-1]
	}
	for len(b) > 0 && !utf8.Valid(b[max(0, len(b)-4):]) && !utf8.Valid(b) {
		b = b[:len(b)-1]
	}
	for len(b) < n {
		b = append(b, own)
	}
	return b
}

func genKCase(r *rand.Rand) *kCase {
	cs := &kCase{Decoder: pick(r, []string{"json", "raw", "raw", "cri"}), Pool: pick(r, []string{"std", "low_memory"}),
		G: pick(r, []int{2, 2, 3, 4, 4, 6, 8}), Capacity: pick(r, []int{2, 4, 8, 32})}
	switch cs.Decoder {
	case "raw":
		cs.Max = pick(r, []int{16, 24, 64, 64, 100, 100, 256, 256, 1000, 4096})
	default:
		cs.Max = pick(r, []int{72, 72, 100, 100, 128, 128, 256, 256, 1000, 4096})
	}
	cs.Cut = !chance(r, 8)
	if cs.Cut {
		cs.Mark = pick(r, []string{"", "_cropped", "_cropped", "cut off"})
	}
	useMeta := chance(r, 25)

	// sources: every lane has its own source id (a file worker and its file);
	// in a quarter of the cases two lanes also share one (an http-like input)
	nsrc := cs.G
	if nsrc > len(aSrcPool) {
		nsrc = len(aSrcPool)
	}
	laneSrc := make([][]int, cs.G)
	for g := 0; g < cs.G; g++ {
		laneSrc[g] = []int{g % nsrc}
		if chance(r, 25) {
			laneSrc[g] = append(laneSrc[g], r.Intn(nsrc))
		}
	}
	perLane := 15 + r.Intn(35)
	cs.Lanes = make([][]int, cs.G)
	off := int64(1000)
	criNs := 0
	// the share of oversize records decides how often two of them are in flight
	overPct := pick(r, []int{30, 60, 60, 90, 100})
	for g := 0; g < cs.G; g++ {
		for k := 0; k < perLane; k++ {
			no := len(cs.Records)
			rec := kRec{Src: pick(r, laneSrc[g])}
			rec.Tag = fmt.Sprintf("S%sR%04dX", aSrcPool[rec.Src].ID, no)
			nl := !chance(r, 15)
			// target length of the record without its line feed
			var size int
			over := chance(r, overPct)
			if over {
				size = cs.Max + pick(r, []int{1, 2, 3, cs.Max / 2, cs.Max, 3 * cs.Max})
				if nl && chance(r, 30) {
					size = cs.Max // the line feed alone puts it over the limit
				}
			} else {
				size = pick(r, []int{cs.Max - 1, cs.Max - 2, cs.Max / 2, cs.Max/2 + r.Intn(cs.Max/2), 1 + r.Intn(cs.Max)})
				if !nl && chance(r, 30) {
					size = cs.Max
				}
			}
			if size > 16000 {
				size = 16000
			}
			var head string
			switch cs.Decoder {
			case "raw":
				head = rec.Tag + " "
				rec.Kind = "raw"
			case "cri":
				criNs += 1 + r.Intn(1000)
				tag := "F"
				if chance(r, 15) {
					tag = "P"
				}
				head = criTime(4242, criNs) + " " + pick(r, []string{"stdout", "stderr"}) + " " + tag + " " + rec.Tag + " "
				rec.Kind = "cri-" + tag
			default:
				head = `{"tag":"` + rec.Tag + `",`
				if chance(r, 40) {
					head += `"stream":"` + pick(r, []string{"stdout", "stderr"}) + `",`
				}
				head += `"m":"`
				rec.Kind = "json"
			}
			var body []byte
			switch {
			case cs.Decoder != "json":
				if size < len(head)+1 {
					size = len(head) + 1
				}
				body = append([]byte(head), kText(r, size-len(head), no)...)
			case over && chance(r, 75):
				// an object that ends within the limit, blanks up to the size:
				// the first max_event_size bytes stay decodable
				objLen := len(head) + 2 + r.Intn(cs.Max-len(head)-1)
				if chance(r, 30) {
					objLen = cs.Max
				}
				body = append([]byte(head), kText(r, objLen-len(head)-2, no)...)
				body = append(body, `"}`...)
				body = append(body, strings.Repeat(" ", size-len(body))...)
				rec.Kind = "json:blank-tail"
			default:
				if size < len(head)+2 {
					size = len(head) + 2
				}
				body = append([]byte(head), kText(r, size-len(head)-2, no)...)
				body = append(body, `"}`...)
				if over {
					rec.Kind = "json:cut-inside" // undecodable after the cut
				}
			}
			if nl {
				body = append(body, '\n')
			}
			rec.Data = body
			off += int64(len(body)) + int64(r.Intn(3))
			rec.Offset = off
			if useMeta {
				rec.Meta = map[string]string{"svc": aSrcPool[rec.Src].Meta["svc"]}
			}
			cs.Records = append(cs.Records, rec)
			cs.Lanes[g] = append(cs.Lanes[g], no)
		}
	}
	return cs
}

type kOutcome struct {
	accepted bool
	bufSig   string // canary / in-place modification seen around this record
}

// kFeed passes the records of one lane to In through a reused buffer with
// canaries around the record (the lane's read buffer).
func kFeed(g *rig, cs *kCase, lane []int, buf []byte, out []kOutcome) {
	for k, i := range lane {
		rec := &cs.Records[i]
		n := len(rec.Data)
		pos := 64 + (k*37)%512
		copy(buf[pos:], rec.Data)
		arg := buf[pos : pos+n]
		sid, _ := strconv.ParseUint(aSrcPool[rec.Src].ID, 10, 64)
		seq := g.p.In(pipeline.SourceID(sid), aSrcPool[rec.Src].Name, pipeline.NewOffsets(rec.Offset, nil), arg, false, metadata.MetaData(rec.Meta))
		out[i].accepted = seq != pipeline.EventSeqIDError
		for j := 0; j < pos; j++ {
			if buf[j] != canary {
				out[i].bufSig = "A input buffer modified before the record passed to In"
				buf[j] = canary
			}
		}
		for j := pos + n; j < pos+n+64; j++ {
			if buf[j] != canary {
				out[i].bufSig = "A input buffer modified after the record passed to In"
				buf[j] = canary
			}
		}
		if !(cs.Max > 0 && n > cs.Max) && !bytes.Equal(arg, rec.Data) {
			out[i].bufSig = "A input record within the limit modified in place by In"
		}
		for j := pos; j < pos+n; j++ {
			buf[j] = canary // the worker reads the next line into the same buffer
		}
	}
}

func kDrain(g *rig, accepted int) (string, bool) {
	deadline := time.Now().Add(30 * time.Second) // watchdog only
	for spin := 0; g.out.count() < accepted || g.p.VerifPoolInUse() != 0; spin++ {
		if time.Now().After(deadline) {
			return fmt.Sprintf("accepted=%d delivered=%d pool_in_use=%d", accepted, g.out.count(), g.p.VerifPoolInUse()), false
		}
		if spin < 100 {
			time.Sleep(50 * time.Microsecond)
		} else {
			time.Sleep(time.Millisecond)
		}
	}
	return "", true
}

var kBufs [][]byte

func kBuf(i int) []byte {
	for len(kBufs) <= i {
		b := make([]byte, bufSize)
		for j := range b {
			b[j] = canary
		}
		kBufs = append(kBufs, b)
	}
	return kBufs[i]
}

func runKCase(cs *kCase, col *collector, caseNo int) {
	ac := &aCase{Decoder: cs.Decoder, Pool: cs.Pool, Max: cs.Max, Cut: cs.Cut, Mark: cs.Mark}
	seqRig, err := newRigOpt(ac, rigOpt{Capacity: cs.Capacity})
	if err != nil {
		col.HarnessError = err.Error()
		return
	}
	defer seqRig.p.Stop()
	conRig, err := newRigOpt(ac, rigOpt{Capacity: cs.Capacity})
	if err != nil {
		col.HarnessError = err.Error()
		return
	}
	defer conRig.p.Stop()
	// a waiter of a full pool that misses its wake-up sleeps until the pool's
	// heartbeat (5 s by default): not this check's subject, keep the cases short
	seqRig.p.VerifSetPoolWakeup(2 * time.Millisecond)
	conRig.p.VerifSetPoolWakeup(2 * time.Millisecond)
	col.Evals++
	D := "A.conc decoder=" + cs.Decoder
	witness := func(i int, extra map[string]any) any {
		w := map[string]any{"part": "A.conc", "case": caseNo, "settings": map[string]any{"decoder": cs.Decoder, "pool": cs.Pool, "max_event_size": cs.Max,
			"cut_off_event_by_limit": cs.Cut, "cut_off_event_by_limit_field": cs.Mark, "capacity": cs.Capacity, "antispam": "off"},
			"goroutines": cs.G, "records": len(cs.Records)}
		if i >= 0 {
			rec := &cs.Records[i]
			w["record"] = show(rec.Data)
			w["record_len"] = len(rec.Data)
			w["record_tag"] = rec.Tag
			w["record_kind"] = rec.Kind
			w["source"] = aSrcPool[rec.Src]
			w["offset"] = rec.Offset
			w["meta"] = rec.Meta
			for g, lane := range cs.Lanes {
				for _, j := range lane {
					if j == i {
						w["lane"] = g
					}
				}
			}
		}
		for k, v := range extra {
			w[k] = v
		}
		return w
	}

	// ---- sequential run: one goroutine, lane after lane ----
	seqOut := make([]kOutcome, len(cs.Records))
	for _, lane := range cs.Lanes {
		kFeed(seqRig, cs, lane, kBuf(0), seqOut)
	}
	nSeq := 0
	for i := range seqOut {
		if seqOut[i].accepted {
			nSeq++
		}
	}
	if st, ok := kDrain(seqRig, nSeq); !ok {
		col.Inconclusive = append(col.Inconclusive, "watchdog: accepted events did not all reach the output (A.conc, sequential run)")
		col.count("A.conc watchdog state (sequential): "+st, 1)
		return
	}

	// ---- concurrent run: one goroutine per lane, released together ----
	conOut := make([]kOutcome, len(cs.Records))
	var wg sync.WaitGroup
	gate := make(chan struct{})
	for g := range cs.Lanes {
		buf := kBuf(g)
		wg.Add(1)
		go func(g int) {
			defer wg.Done()
			<-gate
			kFeed(conRig, cs, cs.Lanes[g], buf, conOut)
		}(g)
	}
	close(gate)
	wg.Wait()
	nCon := 0
	for i := range conOut {
		if conOut[i].accepted {
			nCon++
		}
	}
	if st, ok := kDrain(conRig, nCon); !ok {
		col.Inconclusive = append(col.Inconclusive, "watchdog: accepted events did not all reach the output (A.conc, concurrent run)")
		col.count("A.conc watchdog state (concurrent): "+st, 1)
		return
	}
	col.count("A.conc records", int64(len(cs.Records)))
	col.count(fmt.Sprintf("A.conc cases with %d goroutines", cs.G), 1)

	seqRig.out.mu.Lock()
	defer seqRig.out.mu.Unlock()
	conRig.out.mu.Lock()
	defer conRig.out.mu.Unlock()
	byOffset := map[int64]int{}
	for i := range cs.Records {
		byOffset[cs.Records[i].Offset] = i
	}
	for off, ds := range conRig.out.got {
		i, known := byOffset[off]
		if !known || !conOut[i].accepted {
			col.violate("A event delivered for a record that In refused (or unknown offset)", "an event reached the output although In returned EventSeqIDError for it (concurrent callers)", witness(-1, map[string]any{"offset": off, "event": core_trunc(ds[0].Enc, 600)}))
			return
		}
		if len(ds) != 1 {
			col.violate("A event delivered more than once", fmt.Sprintf("%d events with the same offset (concurrent callers)", len(ds)), witness(i, nil))
			return
		}
	}
	shapes := map[string]bool{}
	var cutBoth, overInFlight int
	for i := range cs.Records {
		rec := &cs.Records[i]
		n := len(rec.Data)
		over := n > cs.Max
		nl := rec.Data[n-1] == '\n'
		if over {
			overInFlight++
		}
		for _, o := range []kOutcome{seqOut[i], conOut[i]} {
			if o.bufSig != "" {
				col.violate(o.bufSig, "Pipeline.In wrote outside the slice it was given / changed a record within the limit (A.conc)", witness(i, nil))
				return
			}
		}
		// ---- the decision ----
		if over && !cs.Cut {
			col.count("A.conc oversize records, cut-off disabled", 1)
			if conOut[i].accepted {
				col.violate(D+": oversize record accepted although cut_off_event_by_limit is off (concurrent callers)", fmt.Sprintf("record of %d bytes, max_event_size %d", n, cs.Max), witness(i, nil))
				return
			}
		}
		if seqOut[i].accepted != conOut[i].accepted {
			what := "refused by In when other goroutines are inside In, accepted when passed alone"
			sig := D + ": record refused under concurrent callers although the same record is accepted when passed alone"
			if conOut[i].accepted {
				what = "accepted by In when other goroutines are inside In, refused when passed alone"
				sig = D + ": record accepted under concurrent callers although the same record is refused when passed alone"
			}
			if over {
				sig += " (oversize, cut-off on)"
			} else {
				sig += " (within the limit)"
			}
			col.violate(sig, what, witness(i, nil))
			return
		}
		if !conOut[i].accepted {
			col.count("A.conc records refused in both runs", 1)
			continue
		}
		// ---- the event ----
		ds, dc := seqRig.out.got[rec.Offset], conRig.out.got[rec.Offset]
		if len(dc) == 0 || len(ds) == 0 {
			col.violate("A accepted record never delivered", "In returned a sequence id, the pool is idle again, but no event with that offset reached the output (A.conc)", witness(i, nil))
			return
		}
		c, s := dc[0], ds[0]
		col.count("A.conc events compared with the sequential run", 1)
		sid, _ := strconv.ParseUint(aSrcPool[rec.Src].ID, 10, 64)
		if c.Src != pipeline.SourceID(sid) || c.Name != aSrcPool[rec.Src].Name {
			col.violate("A delivered event carries another source id / source name than the record", fmt.Sprintf("got source %d %q (concurrent callers)", c.Src, c.Name), witness(i, nil))
			return
		}
		same := c.Enc == s.Enc
		var ct *jnode
		if !same {
			st, e1 := parseJSON([]byte(s.Enc))
			var e2 error
			ct, e2 = parseJSON([]byte(c.Enc))
			if e1 == nil && e2 == nil {
				same, _ = jsonEqual(st, ct, "")
			}
		}
		cls := "within the limit"
		if over {
			cls = "cut"
		}
		if !same {
			extra := map[string]any{"event_concurrent": core_trunc(c.Enc, 1500), "event_sequential": core_trunc(s.Enc, 1500)}
			// whose bytes are these?
			for j := range cs.Records {
				if j != i && strings.Contains(c.Enc, cs.Records[j].Tag) {
					extra["bytes_of_record"] = map[string]any{"tag": cs.Records[j].Tag, "source": aSrcPool[cs.Records[j].Src], "offset": cs.Records[j].Offset, "len": len(cs.Records[j].Data)}
					col.violate(fmt.Sprintf("%s: %s event delivered with the bytes of another record that was inside In at the same time (own offset and source id kept)", D, cls),
						"under concurrent callers the event of a record is not the decode of (the first max_event_size bytes of) ITS OWN record: it carries the tag of another record", witness(i, extra))
					return
				}
			}
			col.violate(fmt.Sprintf("%s: %s event differs from the event the same record yields when passed alone", D, cls),
				"under concurrent callers the delivered event is not what the sequential run delivers for the same record", witness(i, extra))
			return
		}
		// ---- and the reference of Part A: decode of the first max_event_size bytes of its own record ----
		data := rec.Data
		mark := ""
		if over {
			data = append([]byte(nil), rec.Data[:cs.Max]...)
			if nl {
				data = append(data, '\n')
			}
			mark = cs.Mark
		}
		ev := refDecode(cs.Decoder, data)
		if ev.ok {
			if ct == nil {
				ct, _ = parseJSON([]byte(c.Enc))
			}
			match := false
			why := ""
			if ct != nil {
				for _, cand := range append([]*jnode{ev.tree}, ev.alts...) {
					ok, w := jsonEqual(applyMetaMark(cand, rec.Meta, mark), ct, "")
					if ok {
						match = true
						break
					}
					if why == "" {
						why = w
					}
				}
			} else {
				match = true // not JSON text: C12's subject
				col.count("A.conc delivered event is not valid JSON text (content check skipped)", 1)
			}
			if !match {
				sig := D + ": record within the limit delivered altered"
				if over {
					sig = D + ": cut event is not the decode of the first max_event_size bytes"
				}
				col.violate(sig, "sequential and concurrent runs agree, but the event is not what the documents describe: "+why,
					witness(i, map[string]any{"event": core_trunc(c.Enc, 1500), "data_after_cut": show(data)}))
				return
			}
			if over {
				cutBoth++
				col.count("A.conc "+cs.Decoder+": cut events equal to the sequential run and to the prefix of their own record", 1)
			}
		}
		shapes[fmt.Sprintf("%s %s nl=%v mark=%v meta=%d rel=%s", rec.Kind, cls, nl, mark != "", len(rec.Meta), relLen(n, cs.Max))] = true
		if over {
			col.sample(map[string]any{"part": "A.conc", "decoder": cs.Decoder, "goroutines": cs.G, "max_event_size": cs.Max, "record_len": n, "event": core_trunc(c.Enc, 200)})
		}
	}
	for s := range shapes {
		col.fp("A.conc " + cs.Decoder + " " + s)
	}
	col.fp(fmt.Sprintf("A.conc %s G%d cap%d max%d cut=%v pool=%s over%s cutok%s", cs.Decoder, cs.G, cs.Capacity, cs.Max, cs.Cut, cs.Pool, bucket(overInFlight/8), bucket(cutBoth/8)))
}
