package main

import (
	"bytes"
	"fmt"
	"strconv"
	"unicode/utf16"
	"unicode/utf8"
)

// A small byte-exact JSON reader used only to compare what arrived at the
// output with what was put in. Strings are unescaped to raw bytes (bytes that
// are not valid UTF-8 stay as they are), numbers keep their text. It is
// deliberately independent of insane-json and stricter than it (RFC 8259).

type jkind int

const (
	jNull jkind = iota
	jTrue
	jFalse
	jNum
	jStr
	jArr
	jObj
)

type jnode struct {
	kind jkind
	str  []byte // jStr: unescaped bytes; jNum: literal text
	keys [][]byte
	vals []*jnode
}

func (n *jnode) get(key string) *jnode {
	if n == nil || n.kind != jObj {
		return nil
	}
	var found *jnode
	for i, k := range n.keys {
		if string(k) == key {
			found = n.vals[i]
		}
	}
	return found
}

type jparser struct {
	b   []byte
	pos int
}

func parseJSON(b []byte) (*jnode, error) {
	p := &jparser{b: b}
	p.ws()
	n, err := p.value(0)
	if err != nil {
		return nil, err
	}
	p.ws()
	if p.pos != len(p.b) {
		return nil, fmt.Errorf("trailing data at %d", p.pos)
	}
	return n, nil
}

func (p *jparser) ws() {
	for p.pos < len(p.b) {
		switch p.b[p.pos] {
		case ' ', '\t', '\n', '\r':
			p.pos++
		default:
			return
		}
	}
}

func (p *jparser) value(depth int) (*jnode, error) {
	if depth > 200 {
		return nil, fmt.Errorf("too deep")
	}
	if p.pos >= len(p.b) {
		return nil, fmt.Errorf("unexpected end")
	}
	switch c := p.b[p.pos]; {
	case c == '{':
		p.pos++
		n := &jnode{kind: jObj}
		p.ws()
		if p.pos < len(p.b) && p.b[p.pos] == '}' {
			p.pos++
			return n, nil
		}
		for {
			p.ws()
			if p.pos >= len(p.b) || p.b[p.pos] != '"' {
				return nil, fmt.Errorf("expected key at %d", p.pos)
			}
			k, err := p.str()
			if err != nil {
				return nil, err
			}
			p.ws()
			if p.pos >= len(p.b) || p.b[p.pos] != ':' {
				return nil, fmt.Errorf("expected ':' at %d", p.pos)
			}
			p.pos++
			p.ws()
			v, err := p.value(depth + 1)
			if err != nil {
				return nil, err
			}
			n.keys = append(n.keys, k)
			n.vals = append(n.vals, v)
			p.ws()
			if p.pos >= len(p.b) {
				return nil, fmt.Errorf("unexpected end in object")
			}
			if p.b[p.pos] == ',' {
				p.pos++
				continue
			}
			if p.b[p.pos] == '}' {
				p.pos++
				return n, nil
			}
			return nil, fmt.Errorf("expected ',' or '}' at %d", p.pos)
		}
	case c == '[':
		p.pos++
		n := &jnode{kind: jArr}
		p.ws()
		if p.pos < len(p.b) && p.b[p.pos] == ']' {
			p.pos++
			return n, nil
		}
		for {
			p.ws()
			v, err := p.value(depth + 1)
			if err != nil {
				return nil, err
			}
			n.vals = append(n.vals, v)
			p.ws()
			if p.pos >= len(p.b) {
				return nil, fmt.Errorf("unexpected end in array")
			}
			if p.b[p.pos] == ',' {
				p.pos++
				continue
			}
			if p.b[p.pos] == ']' {
				p.pos++
				return n, nil
			}
			return nil, fmt.Errorf("expected ',' or ']' at %d", p.pos)
		}
	case c == '"':
		s, err := p.str()
		if err != nil {
			return nil, err
		}
		return &jnode{kind: jStr, str: s}, nil
	case c == 't':
		return p.lit("true", jTrue)
	case c == 'f':
		return p.lit("false", jFalse)
	case c == 'n':
		return p.lit("null", jNull)
	case c == '-' || (c >= '0' && c <= '9'):
		return p.num()
	}
	return nil, fmt.Errorf("unexpected byte %q at %d", p.b[p.pos], p.pos)
}

func (p *jparser) lit(s string, k jkind) (*jnode, error) {
	if bytes.HasPrefix(p.b[p.pos:], []byte(s)) {
		p.pos += len(s)
		return &jnode{kind: k}, nil
	}
	return nil, fmt.Errorf("bad literal at %d", p.pos)
}

func (p *jparser) num() (*jnode, error) {
	start := p.pos
	if p.b[p.pos] == '-' {
		p.pos++
	}
	digits := func() int {
		n := 0
		for p.pos < len(p.b) && p.b[p.pos] >= '0' && p.b[p.pos] <= '9' {
			p.pos++
			n++
		}
		return n
	}
	if p.pos < len(p.b) && p.b[p.pos] == '0' {
		p.pos++
	} else if digits() == 0 {
		return nil, fmt.Errorf("bad number at %d", start)
	}
	if p.pos < len(p.b) && p.b[p.pos] == '.' {
		p.pos++
		if digits() == 0 {
			return nil, fmt.Errorf("bad fraction at %d", start)
		}
	}
	if p.pos < len(p.b) && (p.b[p.pos] == 'e' || p.b[p.pos] == 'E') {
		p.pos++
		if p.pos < len(p.b) && (p.b[p.pos] == '+' || p.b[p.pos] == '-') {
			p.pos++
		}
		if digits() == 0 {
			return nil, fmt.Errorf("bad exponent at %d", start)
		}
	}
	return &jnode{kind: jNum, str: append([]byte(nil), p.b[start:p.pos]...)}, nil
}

func hex4(b []byte) (rune, bool) {
	if len(b) < 4 {
		return 0, false
	}
	v, err := strconv.ParseUint(string(b[:4]), 16, 16)
	if err != nil {
		return 0, false
	}
	return rune(v), true
}

func (p *jparser) str() ([]byte, error) {
	p.pos++ // opening quote
	out := []byte{}
	for {
		if p.pos >= len(p.b) {
			return nil, fmt.Errorf("unterminated string")
		}
		c := p.b[p.pos]
		switch {
		case c == '"':
			p.pos++
			return out, nil
		case c == '\\':
			if p.pos+1 >= len(p.b) {
				return nil, fmt.Errorf("unterminated escape")
			}
			e := p.b[p.pos+1]
			p.pos += 2
			switch e {
			case '"', '\\', '/':
				out = append(out, e)
			case 'b':
				out = append(out, '\b')
			case 'f':
				out = append(out, '\f')
			case 'n':
				out = append(out, '\n')
			case 'r':
				out = append(out, '\r')
			case 't':
				out = append(out, '\t')
			case 'u':
				r, ok := hex4(p.b[p.pos:])
				if !ok {
					return nil, fmt.Errorf("bad \\u escape at %d", p.pos)
				}
				p.pos += 4
				if utf16.IsSurrogate(r) {
					if p.pos+6 <= len(p.b) && p.b[p.pos] == '\\' && p.b[p.pos+1] == 'u' {
						if r2, ok := hex4(p.b[p.pos+2:]); ok {
							if d := utf16.DecodeRune(r, r2); d != utf8.RuneError {
								p.pos += 6
								out = utf8.AppendRune(out, d)
								continue
							}
						}
					}
					r = utf8.RuneError
				}
				out = utf8.AppendRune(out, r)
			default:
				return nil, fmt.Errorf("bad escape \\%c at %d", e, p.pos)
			}
		case c < 0x20:
			return nil, fmt.Errorf("control byte 0x%02x in string at %d", c, p.pos)
		default:
			out = append(out, c)
			p.pos++
		}
	}
}

func numEqual(a, b []byte) bool {
	if bytes.Equal(a, b) {
		return true
	}
	fa, ea := strconv.ParseFloat(string(a), 64)
	fb, eb := strconv.ParseFloat(string(b), 64)
	return ea == nil && eb == nil && fa == fb
}

// jsonEqual: same kinds, same values; object members compared as a map
// (no duplicate keys are generated), arrays in order. Returns the path of
// the first difference.
func jsonEqual(a, b *jnode, path string) (bool, string) {
	if a.kind != b.kind {
		return false, path + ": kind differs"
	}
	switch a.kind {
	case jNum:
		if !numEqual(a.str, b.str) {
			return false, path + ": number differs"
		}
	case jStr:
		// bytes that are not valid UTF-8 cannot be carried by JSON text; the
		// encoder writes U+FFFD for each (fidelity of that is C12's subject)
		if !bytes.Equal(a.str, b.str) && !bytes.Equal(fffd(a.str), fffd(b.str)) {
			return false, fmt.Sprintf("%s: string differs (len %d vs %d)", path, len(a.str), len(b.str))
		}
	case jArr:
		if len(a.vals) != len(b.vals) {
			return false, path + ": array length differs"
		}
		for i := range a.vals {
			if ok, w := jsonEqual(a.vals[i], b.vals[i], fmt.Sprintf("%s[%d]", path, i)); !ok {
				return false, w
			}
		}
	case jObj:
		if len(a.keys) != len(b.keys) {
			return false, fmt.Sprintf("%s: member count differs (%d vs %d)", path, len(a.keys), len(b.keys))
		}
		for i, k := range a.keys {
			o := b.get(string(k))
			if o == nil {
				return false, path + "." + string(k) + ": missing"
			}
			if ok, w := jsonEqual(a.vals[i], o, path+"."+string(k)); !ok {
				return false, w
			}
		}
	}
	return true, ""
}

// withMember returns a copy of object n with key set to v (appended or replaced).
func withMember(n *jnode, key string, v *jnode) *jnode {
	c := &jnode{kind: jObj}
	replaced := false
	for i, k := range n.keys {
		if string(k) == key {
			c.keys = append(c.keys, k)
			c.vals = append(c.vals, v)
			replaced = true
			continue
		}
		c.keys = append(c.keys, k)
		c.vals = append(c.vals, n.vals[i])
	}
	if !replaced {
		c.keys = append(c.keys, []byte(key))
		c.vals = append(c.vals, v)
	}
	return c
}

func jstr(b []byte) *jnode { return &jnode{kind: jStr, str: b} }

// fffd replaces every byte that is not part of a valid UTF-8 sequence by U+FFFD.
func fffd(b []byte) []byte {
	if utf8.Valid(b) {
		return b
	}
	out := make([]byte, 0, len(b)+8)
	for len(b) > 0 {
		r, size := utf8.DecodeRune(b)
		if r == utf8.RuneError && size == 1 {
			out = append(out, "\uFFFD"...)
		} else {
			out = append(out, b[:size]...)
		}
		b = b[size:]
	}
	return out
}
