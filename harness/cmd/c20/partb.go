package main

import (
	"fmt"
	"math/rand"
	"sync"
	"sync/atomic"
	"time"
)

// ---------------------------------------------------------------------------
// Part B: the exported antispam API (NewAntispammer / IsSpam / Maintenance)
// driven directly: sequential histories with explicit Maintenance() calls
// checked against the reference of refspam.go, and concurrent bursts checked
// with count-based claims only. No wall clock is involved anywhere: event
// times are synthetic, maintenance rounds are explicit calls.

const bInterval = time.Second

type bOp struct {
	Maint bool  `json:"maint,omitempty"`
	Src   int   `json:"src,omitempty"`
	Ev    int   `json:"ev,omitempty"`
	New   bool  `json:"new,omitempty"`
	DtNs  int64 `json:"dt_ns,omitempty"` // advance of the synthetic event clock before this record
}

type bCase struct {
	Family string   `json:"family"`
	Spec   spamSpec `json:"spec"`
	Ops    []bOp    `json:"ops"`
}

func genBCase(r *rand.Rand, family string) bCase {
	c := bCase{Family: family, Spec: genSpamSpec(r, family)}
	T, U := c.Spec.Threshold, c.Spec.Unban
	if T < 1 {
		T = 3
	}
	nsrc := 1 + r.Intn(len(srcPool))
	gaps := chance(r, 25)  // some records a whole interval (or more) apart
	news := chance(r, 20)  // some records flagged "new source"
	backw := chance(r, 15) // event clock sometimes steps back a little
	hot := r.Intn(nsrc)    // the source that gets the bursts
	hotEv := r.Intn(len(evPool))
	ev := func(src int) {
		op := bOp{Src: src, Ev: hotEv}
		if chance(r, 30) {
			op.Ev = r.Intn(len(evPool))
		}
		op.DtNs = int64(r.Intn(int(bInterval) / 16))
		if gaps && chance(r, 12) {
			op.DtNs = int64(bInterval) * int64(1+r.Intn(3))
		}
		if backw && chance(r, 10) {
			op.DtNs = -int64(r.Intn(int(bInterval) / 4))
		}
		if news && chance(r, 6) {
			op.New = true
		}
		c.Ops = append(c.Ops, op)
	}
	maint := func(k int) {
		for i := 0; i < k; i++ {
			c.Ops = append(c.Ops, bOp{Maint: true})
		}
	}
	phases := 3 + r.Intn(6)
	for p := 0; p < phases; p++ {
		switch r.Intn(7) {
		case 0, 1: // burst around the threshold
			n := pick(r, []int{T - 1, T, T + 1, T + 2, 2 * T, U*T + 1, 1})
			if n < 1 {
				n = 1
			}
			if n > 60 {
				n = 60
			}
			for i := 0; i < n; i++ {
				ev(hot)
			}
		case 2: // silence of a chosen length
			k := pick(r, []int{1, U - 1, U, U + 1, U + 2, 2})
			if k < 1 {
				k = 1
			}
			maint(k)
		case 3: // trickle: one or two records per round
			rounds := 1 + r.Intn(U+3)
			for i := 0; i < rounds; i++ {
				for j := r.Intn(3); j > 0; j-- {
					ev(hot)
				}
				maint(1)
			}
		case 4: // other sources interleaved
			n := 1 + r.Intn(2*T+2)
			for i := 0; i < n; i++ {
				ev(r.Intn(nsrc))
			}
		case 5: // burst cut by a maintenance round in the middle
			a, b := r.Intn(T+1), r.Intn(T+1)
			for i := 0; i < a; i++ {
				ev(hot)
			}
			maint(1)
			for i := 0; i < b; i++ {
				ev(hot)
			}
		default: // ban, then probe after exactly k silent rounds
			for i := 0; i < T+r.Intn(3); i++ {
				ev(hot)
			}
			maint(pick(r, []int{U, U + 1, U + 1, U + 2}))
			ev(hot)
		}
	}
	if family == "mixed" {
		// directed: records of one source fall under two thresholds (a rule on
		// the record text): small for `{"level":"debug"...`, big otherwise
		c.Ops = c.Ops[:0]
		big, small := c.Spec.Threshold, c.Spec.Rules[0].Threshold
		dbg, other := 0, 1 // evPool indexes
		switch r.Intn(3) {
		case 0:
			// first record under the small threshold, then a steady k records per
			// round under the big one, small < k < big/2: never "big or more logs
			// in a maintenance interval"
			c.Ops = append(c.Ops, bOp{Src: 0, Ev: dbg})
			k := small + 1 + r.Intn(2)
			if 2*k >= big {
				k = small + 1
			}
			for round := 0; round < big+4; round++ {
				for i := 0; i < k; i++ {
					c.Ops = append(c.Ops, bOp{Src: 0, Ev: other, DtNs: int64(r.Intn(1000))})
				}
				maint(1)
			}
		case 1:
			// created under the small threshold, banned under the big one, silent
			c.Ops = append(c.Ops, bOp{Src: 0, Ev: dbg})
			for i := 0; i < big+r.Intn(3); i++ {
				c.Ops = append(c.Ops, bOp{Src: 0, Ev: other})
			}
			maint(U + 1 + r.Intn(2))
			c.Ops = append(c.Ops, bOp{Src: 0, Ev: other}, bOp{Src: 0, Ev: dbg})
		default:
			// created under the big threshold, then debug records around the small one
			c.Ops = append(c.Ops, bOp{Src: 0, Ev: other})
			for round := 0; round < 4; round++ {
				for i := r.Intn(small + 2); i > 0; i-- {
					c.Ops = append(c.Ops, bOp{Src: 0, Ev: dbg})
				}
				if chance(r, 50) {
					c.Ops = append(c.Ops, bOp{Src: 0, Ev: other})
				}
				maint(1 + r.Intn(U+2))
			}
		}
	}
	return c
}

type violationRec struct {
	Sig     string `json:"sig"`
	What    string `json:"what"`
	Witness any    `json:"witness"`
}

// collector gathers what a child observed.
type collector struct {
	Evals        int              `json:"evals"`
	Counters     map[string]int64 `json:"counters"`
	FPs          map[string]bool  `json:"fps"`
	Samples      []any            `json:"samples"`
	Violations   []violationRec   `json:"violations"`
	Inconclusive []string         `json:"inconclusive"`
	HarnessError string           `json:"harness_error,omitempty"`
}

func newCollector() *collector {
	return &collector{Counters: map[string]int64{}, FPs: map[string]bool{}}
}
func (c *collector) count(k string, n int64) { c.Counters[k] += n }
func (c *collector) fp(s string)             { c.FPs[s] = true }
func (c *collector) sample(v any) {
	if len(c.Samples) < 3 {
		c.Samples = append(c.Samples, v)
	}
}
func (c *collector) violate(sig, what string, w any) {
	c.count("violations_seen_in_child", 1)
	for _, v := range c.Violations {
		if v.Sig == sig {
			return // one witness per signature per child is enough
		}
	}
	c.Violations = append(c.Violations, violationRec{sig, what, w})
}

func bucket(n int) string {
	switch {
	case n == 0:
		return "0"
	case n == 1:
		return "1"
	case n <= 3:
		return "2-3"
	case n <= 8:
		return "4-8"
	}
	return "9+"
}

// runBSeq replays one sequential history against the real Antispammer.
func runBSeq(cs bCase, col *collector, caseNo int) {
	a, err := realAntispammer(cs.Spec, bInterval)
	if err != nil {
		col.HarnessError = err.Error()
		return
	}
	col.Evals++
	ref := newRefSpam(cs.Spec, int64(bInterval))
	clock := time.Unix(1_700_000_000, 0).UnixNano()
	type trace struct {
		Op   string `json:"op"`
		Src  string `json:"src,omitempty"`
		Ev   string `json:"event,omitempty"`
		New  bool   `json:"new,omitempty"`
		T    int64  `json:"t_ns,omitempty"`
		Spam *bool  `json:"spam,omitempty"`
		Cls  string `json:"class,omitempty"`
	}
	var tr []trace
	lastSpam := map[string]bool{}
	wasBannedSure := map[string]bool{} // every documented reading had the source banned at some point since its last pass
	var bans, unbans, silentProbes, rebansResidue, newEv, gapEv, free, blocked int
	for _, op := range cs.Ops {
		if op.Maint {
			a.Maintenance()
			ref.maintenance()
			tr = append(tr, trace{Op: "maintenance"})
			col.count("B.seq maintenance rounds", 1)
			continue
		}
		s := srcPool[op.Src%len(srcPool)]
		evb := []byte(evPool[op.Ev%len(evPool)])
		clock += op.DtNs
		got := a.IsSpam(s.ID, s.Name, op.New, evb, time.Unix(0, clock), s.Meta)
		g := got
		cl := ref.spec.classify(s.Name, evb, s.Meta)
		tr = append(tr, trace{Op: "IsSpam", Src: s.ID, Ev: evPool[op.Ev%len(evPool)], New: op.New, T: clock, Spam: &g, Cls: cl.why})
		witness := func() any {
			t := tr
			if len(t) > 400 {
				t = t[len(t)-400:]
			}
			return map[string]any{"part": "B.seq", "case": caseNo, "family": cs.Family, "spec": cs.Spec, "interval_ns": int64(bInterval), "sources": srcPool, "history": t}
		}
		col.count("B.seq IsSpam calls", 1)
		col.count("B.seq class "+cl.why, 1)

		if cs.Family == "both" {
			// exceptions and rules configured together: only the claims about
			// the exempt / discarded classes are made
			switch cl.cls {
			case clsFree:
				free++
				if got {
					sig := fmt.Sprintf("B antispam: record that must never be dropped (%s) reported as spam", cl.why)
					if cl.why == "exception" {
						sig = "B antispam: record matching an antispam exception reported as spam when rules are configured too (exceptions ignored)"
					}
					col.violate(sig, "a matching exception / an unlimited rule / a disabled antispam must never drop a record", witness())
					return
				}
			case clsBlocked:
				blocked++
				if !got {
					col.violate("B antispam: record of a threshold-0 rule not refused", "threshold 0 means discard all logs", witness())
					return
				}
			}
			continue
		}

		p := ref.prepare(s.ID, s.Name, op.New, evb, clock, s.Meta, false)
		if !p.allowed(got) && !got && p.severalThresholds() {
			col.count("B.seq record of a source with several thresholds accepted where one reading refuses (not judged)", 1)
			p.commitUnknown()
			continue
		}
		if !p.allowed(got) {
			sig, what := p.explain("B", got)
			col.violate(sig, what, witness())
			return
		}
		switch cl.cls {
		case clsFree:
			free++
		case clsBlocked:
			blocked++
		case clsCounted:
			lo, _ := p.s.minmax()
			if op.New {
				newEv++
			}
			if !p.certain {
				gapEv++
			}
			if got && !lastSpam[s.ID] {
				bans++
				col.count("B.seq ban transitions (first refused record)", 1)
				if p.silentAt == 0 && p.s.everSpam && lo > 0 && lo < cl.T-1 {
					rebansResidue++
					col.count("B.seq re-ban helped by the counter left over from an earlier ban (documented mechanism)", 1)
				}
			}
			if !got && lastSpam[s.ID] {
				unbans++
				col.count("B.seq unban transitions (first accepted record after a ban)", 1)
			}
			if p.silentAt >= cs.Spec.Unban+1 && wasBannedSure[s.ID] && cl.T >= 2 {
				silentProbes++
				col.count("B.seq probes of a banned source after unbanIterations+1 silent rounds", 1)
			}
			if lo >= cl.T {
				wasBannedSure[s.ID] = true
			}
			if !got {
				wasBannedSure[s.ID] = false
			}
			lastSpam[s.ID] = got
		}
		p.commit(got)
		if got {
			col.count("B.seq answers spam=true", 1)
		} else {
			col.count("B.seq answers spam=false", 1)
		}
	}
	col.fp(fmt.Sprintf("B.seq %s T%d U%d rules%d exc%d bans%s unbans%s silent%s residue%s new%s gap%s free%s blocked%s",
		cs.Family, cs.Spec.Threshold, cs.Spec.Unban, len(cs.Spec.Rules), len(cs.Spec.Exceptions),
		bucket(bans), bucket(unbans), bucket(silentProbes), bucket(rebansResidue), bucket(newEv), bucket(gapEv), bucket(free), bucket(blocked)))
	if bans > 0 && unbans > 0 {
		col.sample(map[string]any{"part": "B.seq", "family": cs.Family, "spec": cs.Spec, "ops": len(cs.Ops), "bans": bans, "unbans": unbans})
	}
}

// ---------------------------------------------------------------------------
// concurrent clause

type cCase struct {
	T       int  `json:"threshold"`
	U       int  `json:"unban"`
	G       int  `json:"goroutines"`
	PerG    int  `json:"calls_per_goroutine"`
	Maint   int  `json:"concurrent_maintenance_calls"`
	Sources int  `json:"sources"`
	Free    bool `json:"with_exception_traffic"`
}

func genCCase(r *rand.Rand) cCase {
	c := cCase{T: pick(r, []int{2, 3, 5, 8, 16, 40, 100}), U: pick(r, []int{4, 4, 1, 2}), G: pick(r, []int{2, 4, 8, 16}), Sources: 1 + r.Intn(3)}
	total := pick(r, []int{c.T - 1, c.T, c.T + 1, 2 * c.T, 4 * c.T, c.T / 2})
	if total < 1 {
		total = 1
	}
	c.PerG = (total + c.G - 1) / c.G
	if c.PerG < 1 {
		c.PerG = 1
	}
	if chance(r, 45) {
		c.Maint = 1 + r.Intn(4)
	}
	c.Free = chance(r, 40)
	return c
}

func runBConc(cs cCase, col *collector, caseNo int) {
	spec := spamSpec{Threshold: cs.T, Unban: cs.U}
	if cs.Free {
		spec.Exceptions = []excSpec{{Name: "hc", Cond: "or", Rules: []mrRule{{Values: []string{"healthcheck"}, Mode: "contains"}}}}
	}
	a, err := realAntispammer(spec, bInterval)
	if err != nil {
		col.HarnessError = err.Error()
		return
	}
	col.Evals++
	t0 := time.Unix(1_700_000_000, 0)
	counted := []byte(evPool[1])
	freeEv := []byte(evPool[2])
	N := cs.G * cs.PerG // calls per source
	started := make([]atomic.Int64, cs.Sources)
	falses := make([]atomic.Int64, cs.Sources)
	trues := make([]atomic.Int64, cs.Sources)
	var early, freeSpam atomic.Int64
	var minStartedAtTrue atomic.Int64
	minStartedAtTrue.Store(1 << 40)
	var wg sync.WaitGroup
	gate := make(chan struct{})
	for g := 0; g < cs.G; g++ {
		wg.Add(1)
		go func() {
			defer wg.Done()
			<-gate
			for i := 0; i < cs.PerG; i++ {
				for s := 0; s < cs.Sources; s++ {
					src := srcPool[s]
					if cs.Free && i%2 == 0 {
						if a.IsSpam(src.ID, src.Name, false, freeEv, t0, nil) {
							freeSpam.Add(1)
						}
					}
					started[s].Add(1)
					if a.IsSpam(src.ID, src.Name, false, counted, t0, nil) {
						trues[s].Add(1)
						// calls for this source begun so far bound the counter from above
						n := started[s].Load()
						if n < int64(cs.T) {
							early.Add(1)
						}
						for {
							m := minStartedAtTrue.Load()
							if n >= m || minStartedAtTrue.CompareAndSwap(m, n) {
								break
							}
						}
					} else {
						falses[s].Add(1)
					}
				}
			}
		}()
	}
	if cs.Maint > 0 {
		wg.Add(1)
		go func() {
			defer wg.Done()
			<-gate
			for i := 0; i < cs.Maint; i++ {
				a.Maintenance()
			}
		}()
	}
	close(gate)
	wg.Wait()
	w := map[string]any{"part": "B.conc", "case": caseNo, "config": cs}
	col.count("B.conc IsSpam calls", int64(N*cs.Sources))
	if freeSpam.Load() > 0 {
		col.violate("B.conc antispam: record matching an exception reported as spam", fmt.Sprintf("%d exception-matching records were reported as spam under concurrency", freeSpam.Load()), w)
		return
	}
	if early.Load() > 0 {
		col.violate("B.conc antispam: refused although fewer calls than the threshold had begun for the source",
			fmt.Sprintf("spam=true was returned when only %d < threshold %d calls for that source had even started (fresh antispammer)", minStartedAtTrue.Load(), cs.T), w)
		return
	}
	for s := 0; s < cs.Sources; s++ {
		f, t := falses[s].Load(), trues[s].Load()
		w["falses"], w["trues"], w["source"] = f, t, s
		if cs.Maint == 0 && cs.U >= 1 {
			// without maintenance the documented counter only grows: exactly the
			// first T-1 counted records pass, whatever the interleaving
			want := int64(cs.T - 1)
			if int64(N) < want {
				want = int64(N)
			}
			switch {
			case f > want:
				col.violate("B.conc antispam: more records passed than threshold-1 in one maintenance interval (lost counter updates)",
					fmt.Sprintf("%d of %d concurrent records of one source passed, threshold %d, no maintenance in between", f, N, cs.T), w)
				return
			case f < want:
				col.violate("B.conc antispam: fewer records passed than threshold-1 (refused below the threshold)",
					fmt.Sprintf("only %d of %d concurrent records of one source passed, threshold %d", f, N, cs.T), w)
				return
			}
			col.count("B.conc bursts with exactly threshold-1 passes", 1)
		} else if int64(N) < int64(cs.T) && t > 0 {
			col.violate("B.conc antispam: refused although fewer calls than the threshold had begun for the source", "burst smaller than the threshold produced spam=true", w)
			return
		}
		if t > 0 {
			col.count("B.conc sources banned", 1)
		}
	}
	// quiescent now: a silent banned source must be free again after U+1 rounds
	for i := 0; i < cs.U+1; i++ {
		a.Maintenance()
	}
	if cs.T >= 2 {
		for s := 0; s < cs.Sources; s++ {
			src := srcPool[s]
			if a.IsSpam(src.ID, src.Name, false, counted, t0, nil) {
				w["source"] = s
				col.violate("B.conc antispam: source still banned after unbanIterations+1 silent maintenance rounds",
					"after the concurrent burst ended and unbanIterations+1 maintenance rounds passed without records, the next record is still refused", w)
				return
			}
			col.count("B.conc probes after unbanIterations+1 silent rounds", 1)
		}
	}
	banned := 0
	for s := 0; s < cs.Sources; s++ {
		if trues[s].Load() > 0 {
			banned++
		}
	}
	if cs.Maint > 0 {
		banned = -1 // depends on the schedule: not part of the fingerprint
	}
	col.fp(fmt.Sprintf("B.conc T%d U%d G%d N%d maint%d src%d free%v banned%d", cs.T, cs.U, cs.G, N, cs.Maint, cs.Sources, cs.Free, banned))
	if cs.Maint == 0 && banned > 0 {
		col.sample(map[string]any{"part": "B.conc", "config": cs, "calls_per_source": N, "passed_per_source": falses[0].Load(), "refused_per_source": trues[0].Load()})
	}
}
