package main

import (
	"bytes"
	"fmt"
	"math/rand"
	"strconv"
	"sync"
	"time"

	"github.com/ozontech/file.d/pipeline"
	"github.com/ozontech/file.d/pipeline/metadata"
	"github.com/prometheus/client_golang/prometheus"
	"go.uber.org/zap"
)

// ---------------------------------------------------------------------------
// Part A: the real pipeline.Pipeline.In, a harness input plugin (PassEvent
// says "already committed" from a table of saved offsets, like the file
// input), a recording output plugin.

type aRec struct {
	Src    int               `json:"src"`
	Name   string            `json:"source_name"` // the name handed to In (normally the pool name of Src)
	Data   []byte            `json:"data"`
	Text   string            `json:"text,omitempty"` // Data as text (witness readability only)
	New    bool              `json:"new,omitempty"`
	Meta   map[string]string `json:"meta,omitempty"`
	Offset int64             `json:"offset"`
	Maint  int               `json:"maintenance_rounds_before,omitempty"`
	Kind   string            `json:"kind"` // generator label
}

type aCase struct {
	Decoder   string                      `json:"decoder"`
	Pool      string                      `json:"pool"`
	Max       int                         `json:"max_event_size"`
	Cut       bool                        `json:"cut_off_event_by_limit"`
	Mark      string                      `json:"cut_off_event_by_limit_field"`
	Antispam  bool                        `json:"antispam_enabled"`
	Spam      spamSpec                    `json:"antispam"`
	MetaField string                      `json:"source_name_meta_field,omitempty"`
	SrcMode   string                      `json:"sources"`                 // distinct | namesakes (several ids, one name) | renamed (one id, changing names)
	Saved     map[string]map[string]int64 `json:"saved_offsets,omitempty"` // source id -> stream -> committed offset
	Records   []aRec                      `json:"records"`
}

// Sources of Part A: the antispam sources of Part B plus source ids that share
// their source NAME with another id (a rotated file and its successor, a
// re-created symlink, an input that passes a constant name such as "kafka").
// The antispam key of a record is its source ID (pipeline/README.md: only
// source_name_meta_field replaces it), so namesakes never share a budget.
var aSrcPool = append(append([]srcDef(nil), srcPool...),
	srcDef{ID: "11", Name: srcPool[0].Name, Meta: srcPool[0].Meta},
	srcDef{ID: "12", Name: srcPool[0].Name, Meta: srcPool[0].Meta},
	srcDef{ID: "13", Name: srcPool[2].Name, Meta: srcPool[2].Meta},
	srcDef{ID: "14", Name: "kafka", Meta: map[string]string{"svc": "bus", "ns": "infra"}},
	srcDef{ID: "15", Name: "kafka", Meta: map[string]string{"svc": "bus", "ns": "infra"}},
)

var namesakeSets = [][]int{{0, 4}, {0, 4, 5}, {2, 6}, {7, 8}, {0, 4, 2, 6}, {7, 8, 1}}

// ---- plugins ----

type hInput struct {
	mu    sync.Mutex
	saved map[pipeline.SourceID]map[string]int64
	pass  map[int64]bool // offset -> PassEvent answer given
}

func (h *hInput) Start(_ pipeline.AnyConfig, _ *pipeline.InputPluginParams) {}
func (h *hInput) Stop()                                                     {}
func (h *hInput) Commit(*pipeline.Event)                                    {}
func (h *hInput) PassEvent(e *pipeline.Event) bool {
	h.mu.Lock()
	defer h.mu.Unlock()
	ok := true
	if m := h.saved[e.SourceID]; m != nil {
		if off, has := m[string(e.StreamNameBytes())]; has && e.Offset <= off {
			ok = false
		}
	}
	h.pass[e.Offset] = ok
	return ok
}

type delivered struct {
	Enc    string
	Src    pipeline.SourceID
	Name   string
	Stream string
}

type hOutput struct {
	mu   sync.Mutex
	ctl  pipeline.OutputPluginController
	got  map[int64][]delivered
	n    int
	cond *sync.Cond
}

func (o *hOutput) Start(_ pipeline.AnyConfig, params *pipeline.OutputPluginParams) {
	o.ctl = params.Controller
}
func (o *hOutput) Stop() {}
func (o *hOutput) Out(e *pipeline.Event) {
	d := delivered{Enc: e.Root.EncodeToString(), Src: e.SourceID, Name: e.SourceName, Stream: string(append([]byte(nil), e.StreamNameBytes()...))}
	o.mu.Lock()
	o.got[e.Offset] = append(o.got[e.Offset], d)
	o.n++
	o.mu.Unlock()
	o.ctl.Commit(e)
}
func (o *hOutput) count() int { o.mu.Lock(); defer o.mu.Unlock(); return o.n }

type rig struct {
	p   *pipeline.Pipeline
	in  *hInput
	out *hOutput
}

var rigSeq int

// rigOpt: what the live-maintenance and the concurrent clauses change in the
// rig (zero value = Part A: capacity 32, antispam maintenance timer at 1 h, no
// logger).
type rigOpt struct {
	Capacity int
	Interval time.Duration // Settings.Antispam.MaintenanceInterval (0 = 1 h: rounds are driven explicitly)
	Logger   *zap.Logger
}

func newRig(cs *aCase) (*rig, error) { return newRigOpt(cs, rigOpt{}) }

func newRigOpt(cs *aCase, opt rigOpt) (*rig, error) {
	rigSeq++
	if opt.Capacity == 0 {
		opt.Capacity = 32
	}
	if opt.Interval == 0 {
		opt.Interval = time.Hour
	}
	if opt.Logger == nil {
		opt.Logger = zap.NewNop()
	}
	threshold := pipeline.DefaultAntispamThreshold
	settings := &pipeline.Settings{
		Decoder:                 cs.Decoder,
		Capacity:                opt.Capacity,
		MaintenanceInterval:     time.Hour,
		EventTimeout:            pipeline.DefaultEventTimeout,
		AvgEventSize:            256,
		MetaCacheSize:           32,
		StreamField:             "stream",
		MaxEventSize:            cs.Max,
		CutOffEventByLimit:      cs.Cut,
		CutOffEventByLimitField: cs.Mark,
		SourceNameMetaField:     cs.MetaField,
		Pool:                    pipeline.PoolType(cs.Pool),
		Metric:                  &pipeline.MetricSettings{HoldDuration: pipeline.DefaultMetricHoldDuration, MaxLabelValueLength: pipeline.DefaultMetricMaxLabelValueLength},
	}
	as := pipeline.AntispamSettings{Threshold: threshold, MaintenanceInterval: opt.Interval} // Part A: 1 h, rounds are driven explicitly
	if cs.Antispam {
		ex, err := realExceptions(cs.Spam.Exceptions)
		if err != nil {
			return nil, err
		}
		rules, err := realRules(cs.Spam.Rules)
		if err != nil {
			return nil, err
		}
		as.Threshold, as.Exceptions, as.Rules = cs.Spam.Threshold, ex, rules
	}
	settings.Antispam = as
	p := pipeline.New(fmt.Sprintf("c20_%d", rigSeq), settings, prometheus.NewRegistry(), opt.Logger)
	in := &hInput{saved: map[pipeline.SourceID]map[string]int64{}, pass: map[int64]bool{}}
	for sid, m := range cs.Saved {
		n, _ := strconv.ParseUint(sid, 10, 64)
		in.saved[pipeline.SourceID(n)] = m
	}
	out := &hOutput{got: map[int64][]delivered{}}
	p.SetInput(&pipeline.InputPluginInfo{
		PluginStaticInfo:  &pipeline.PluginStaticInfo{Type: "c20in"},
		PluginRuntimeInfo: &pipeline.PluginRuntimeInfo{Plugin: in},
	})
	p.SetOutput(&pipeline.OutputPluginInfo{
		PluginStaticInfo:  &pipeline.PluginStaticInfo{Type: "c20out"},
		PluginRuntimeInfo: &pipeline.PluginRuntimeInfo{Plugin: out},
	})
	p.Start()
	return &rig{p: p, in: in, out: out}, nil
}

// ---- reference decode ----

type refEvent struct {
	ok     bool   // decodable by the documented format
	tree   *jnode // expected event (before meta / mark)
	stream string // expected stream name
	tNs    int64  // event time the antispam is given (CRI only)
	part   bool   // CRI partial row
	alts   []*jnode
}

func refDecode(dec string, data []byte) refEvent {
	switch dec {
	case "raw":
		msg := data
		if n := len(msg); n > 0 && msg[n-1] == '\n' {
			msg = msg[:n-1]
		}
		t := &jnode{kind: jObj, keys: [][]byte{[]byte("message")}, vals: []*jnode{jstr(msg)}}
		return refEvent{ok: true, tree: t, stream: "not_set"}
	case "cri":
		// "<time> <stream> <tag> <log>", e.g. 2016-10-06T00:17:09.669794203Z stderr F log content
		parts := bytes.SplitN(data, []byte(" "), 4)
		if len(parts) < 4 || len(parts[0]) == 0 || len(parts[1]) == 0 || len(parts[2]) == 0 {
			return refEvent{}
		}
		if s := string(parts[1]); s != "stdout" && s != "stderr" {
			return refEvent{}
		}
		if t := string(parts[2]); t != "F" && t != "P" {
			return refEvent{}
		}
		log := parts[3]
		mk := func(l []byte) *jnode {
			return &jnode{kind: jObj, keys: [][]byte{[]byte("log"), []byte("time"), []byte("stream")},
				vals: []*jnode{jstr(l), jstr(parts[0]), jstr(parts[1])}}
		}
		ev := refEvent{ok: true, tree: mk(log), stream: string(parts[1]), part: string(parts[2]) == "P"}
		// whether the line feed that ends the line belongs to the log text is
		// not documented: both are accepted
		if n := len(log); n > 0 && log[n-1] == '\n' {
			ev.alts = append(ev.alts, mk(log[:n-1]))
		} else if n > 0 && ev.part {
			// a partial row is documented nowhere to come without its line feed
			// (the CRI decoder then drops the last byte; C12's subject)
			ev.alts = append(ev.alts, mk(log[:n-1]))
		}
		if tm, err := time.Parse("2006-01-02T15:04:05.999999999Z", string(parts[0])); err == nil {
			ev.tNs = tm.UnixNano()
		}
		return ev
	default: // json
		t, err := parseJSON(data)
		if err != nil {
			return refEvent{}
		}
		ev := refEvent{ok: true, tree: t, stream: "not_set"}
		if s := t.get("stream"); s != nil && s.kind == jStr {
			ev.stream = string(s.str)
		}
		return ev
	}
}

func applyMetaMark(t *jnode, meta map[string]string, mark string) *jnode {
	if t.kind != jObj {
		return t
	}
	for k, v := range meta {
		t = withMember(t, k, jstr([]byte(v)))
	}
	if mark != "" {
		t = withMember(t, mark, &jnode{kind: jTrue})
	}
	return t
}

// ---- running one case ----

// pipeline/antispam/README.md: "(where unbanIterations = 4)". The reference
// uses the documented number, not the constant of the code.
const documentedUnbanIterations = 4

const bufSize = 1 << 16
const canary = 0xA5

func show(b []byte) string {
	if len(b) > 600 {
		return strconv.Quote(string(b[:600])) + fmt.Sprintf("…(+%d bytes)", len(b)-600)
	}
	return strconv.Quote(string(b))
}

func runACase(cs *aCase, col *collector, caseNo int) {
	g, err := newRig(cs)
	if err != nil {
		col.HarnessError = err.Error()
		return
	}
	defer g.p.Stop()
	col.Evals++
	D := "A decoder=" + cs.Decoder
	var ref *refSpam
	if cs.Antispam {
		ref = newRefSpam(cs.Spam, int64(time.Hour))
	}
	witness := func(i int, extra map[string]any) any {
		w := map[string]any{"part": "A", "case": caseNo, "record_index": i, "settings": map[string]any{
			"decoder": cs.Decoder, "pool": cs.Pool, "max_event_size": cs.Max, "cut_off_event_by_limit": cs.Cut,
			"cut_off_event_by_limit_field": cs.Mark, "antispam_enabled": cs.Antispam, "antispam": cs.Spam,
			"source_name_meta_field": cs.MetaField, "saved_offsets": cs.Saved}}
		if i >= 0 {
			rec := cs.Records[i]
			w["record"] = show(rec.Data)
			w["record_len"] = len(rec.Data)
			w["record_kind"] = rec.Kind
			w["source"] = aSrcPool[rec.Src]
			w["source_name_passed"] = rec.Name
			w["sources_mode"] = cs.SrcMode
			w["meta"] = rec.Meta
			w["offset"] = rec.Offset
			w["new_source"] = rec.New
			// earlier records of the case matter for the antispam: keep them short
			var hist []string
			for j := 0; j < i && len(hist) < 80; j++ {
				hist = append(hist, fmt.Sprintf("id=%s name=%q maint_before=%d len=%d %s", aSrcPool[cs.Records[j].Src].ID, cs.Records[j].Name, cs.Records[j].Maint, len(cs.Records[j].Data), core_trunc(strconv.Quote(string(cs.Records[j].Data)), 120)))
			}
			w["earlier_records"] = hist
		}
		for k, v := range extra {
			w[k] = v
		}
		return w
	}

	type expect struct {
		accepted bool
		ev       refEvent
		data     []byte
		cut      bool
		checkEv  bool
	}
	exp := make([]expect, len(cs.Records))
	buf := make([]byte, bufSize)
	for i := range buf {
		buf[i] = canary
	}
	accepted := 0
	// bookkeeping for the evidence: antispam keys seen per source name, and
	// keys whose latest counted record (since the last maintenance round) was
	// refused as spam
	keysOfName := map[string]map[string]bool{}
	namesOfKey := map[string]map[string]bool{}
	spamNow := map[string]bool{}
	var keptBudget, spamRefusals, sharedRecs int
	// explainA adds the shape of the sources to the antispam signatures
	explainA := func(p *pending, spam bool, name string) (string, string) {
		sig, what := p.explain("A", spam)
		if p.cl.cls == clsCounted {
			switch {
			case spam && len(keysOfName[name]) > 1:
				sig += " [another source id with the same source name is active]"
			case len(namesOfKey[p.id]) > 1:
				sig += " [one source id under changing source names]"
			}
		}
		return sig, what
	}
	for i := range cs.Records {
		rec := &cs.Records[i]
		for k := 0; k < rec.Maint; k++ {
			g.p.VerifAntispamMaintenance()
			if ref != nil {
				ref.maintenance()
			}
			spamNow = map[string]bool{}
			col.count("A maintenance rounds", 1)
		}
		src := aSrcPool[rec.Src]
		src.Name = rec.Name
		sid, _ := strconv.ParseUint(src.ID, 10, 64)

		// ---- what the documents say ----
		n := len(rec.Data)
		mud := n == 0 || (n == 1 && rec.Data[0] == '\n')
		over := cs.Max > 0 && n > cs.Max
		data := rec.Data
		cut := false
		if over && cs.Cut {
			data = append([]byte(nil), rec.Data[:cs.Max]...)
			if rec.Data[n-1] == '\n' {
				data = append(data, '\n')
			}
			cut = true
		}
		var ev refEvent
		var pend *pending
		committed := false
		// the saved offset of the stream named "" lies beyond this record (see FINDINGS.md, F2)
		otherStream := false
		if m := cs.Saved[src.ID]; cs.Antispam && cs.Decoder != "cri" && m != nil {
			if off, has := m[""]; has && off > 0 && rec.Offset < off {
				otherStream = true
			}
		}
		if !mud && !(over && !cs.Cut) {
			ev = refDecode(cs.Decoder, data)
			if ev.ok {
				if m := cs.Saved[src.ID]; m != nil {
					if off, has := m[ev.stream]; has && rec.Offset <= off {
						committed = true
					}
				}
			}
			if ref != nil {
				id, name, isNew := src.ID, src.Name, rec.New
				if cs.MetaField != "" {
					if v, ok := rec.Meta[cs.MetaField]; ok {
						id, name, isNew = v, v, false
					}
				}
				// the antispam may not get to see: partial CRI rows (skipped on
				// purpose), rows refused as already committed before it
				maySkip := (cs.Decoder == "cri" && (!ev.ok || ev.part)) || committed || otherStream
				pend = ref.prepare(id, name, isNew, data, ev.tNs, rec.Meta, maySkip)
				if keysOfName[name] == nil {
					keysOfName[name] = map[string]bool{}
				}
				keysOfName[name][id] = true
				if namesOfKey[id] == nil {
					namesOfKey[id] = map[string]bool{}
				}
				namesOfKey[id][name] = true
			}
		}

		// ---- the real call, on a reused buffer with canaries around the record ----
		pos := 64 + (i*37)%512
		copy(buf[pos:], rec.Data)
		arg := buf[pos : pos+n]
		seq := g.p.In(pipeline.SourceID(sid), src.Name, pipeline.NewOffsets(rec.Offset, pipeline.SliceFromMap(toStreamMap(cs.Saved[src.ID]))), arg, rec.New, metadata.MetaData(rec.Meta))
		got := seq != pipeline.EventSeqIDError
		for j := 0; j < pos; j++ {
			if buf[j] != canary {
				col.violate("A input buffer modified before the record passed to In", "Pipeline.In wrote outside the slice it was given", witness(i, map[string]any{"at": j - pos}))
				return
			}
		}
		for j := pos + n; j < pos+n+64; j++ {
			if buf[j] != canary {
				col.violate("A input buffer modified after the record passed to In", "Pipeline.In wrote outside the slice it was given", witness(i, map[string]any{"at": j - pos}))
				return
			}
		}
		if !over && !bytes.Equal(arg, rec.Data) {
			col.violate("A input record within the limit modified in place by In", "Pipeline.In changed the bytes of a record it was given", witness(i, nil))
			return
		}
		// the input reuses its buffer at once (as the file input does)
		for j := pos; j < pos+n; j++ {
			buf[j] = canary
		}
		col.count("A records", 1)
		if got {
			accepted++
			col.count("A accepted", 1)
		} else {
			col.count("A refused", 1)
		}

		// ---- compare the decision ----
		exp[i] = expect{accepted: got, ev: ev, data: data, cut: cut}
		switch {
		case mud:
			col.count("A class empty record", 1)
			if got {
				col.violate(D+": empty record accepted", "an empty record (or a lone line feed) must be discarded", witness(i, nil))
				return
			}
			continue
		case over && !cs.Cut:
			col.count("A class oversize, no cut-off", 1)
			if got {
				col.violate(D+": oversize record accepted although cut_off_event_by_limit is off", fmt.Sprintf("record of %d bytes, max_event_size %d", n, cs.Max), witness(i, nil))
				return
			}
			continue
		}
		passOK, spamOK := true, false
		if pend != nil {
			passOK, spamOK = pend.allowed(false), pend.allowed(true)
		}
		sizeCls := "within limit"
		if cut {
			sizeCls = "oversize, cut"
		}
		switch {
		case !ev.ok:
			col.count("A class undecodable ("+sizeCls+")", 1)
			// refusal is what the documents ask for; a lenient decoder may accept
			if got {
				col.count("A undecodable-by-reference record accepted by the lenient decoder", 1)
				if !passOK {
					sig, what := explainA(pend, false, pend.name)
					col.violate(sig, what, witness(i, nil))
					return
				}
				if pend != nil {
					pend.commit(false)
				}
			} else if pend != nil {
				pend.commitUnknown()
			}
		case committed:
			col.count("A class already committed", 1)
			if got {
				col.violate(D+": record the input recognises as already committed was accepted", "PassEvent answered false (offset <= saved offset of the stream) but In returned a sequence id", witness(i, nil))
				return
			}
			if pend != nil {
				pend.commitUnknown()
			}
		default:
			col.count("A class decodable ("+sizeCls+")", 1)
			if got && !passOK {
				sig, what := explainA(pend, false, pend.name)
				col.violate(sig, what, witness(i, nil))
				return
			}
			if !got && !spamOK {
				if otherStream && ev.stream != "" {
					col.violate(D+": record refused because of the saved offset of another stream (the stream named \"\")",
						"with the antispam on, In compares the record's offset with the saved offset of stream \"\" whatever the record's own stream is", witness(i, map[string]any{"record_stream": ev.stream}))
					return
				}
				if pend != nil && pend.cl.cls == clsCounted {
					sig, what := explainA(pend, true, pend.name)
					col.violate(sig, what, witness(i, nil))
					return
				}
				if pend != nil && pend.cl.cls == clsFree && pend.cl.why != "disabled" {
					sig, what := explainA(pend, true, pend.name)
					col.violate(sig, what, witness(i, nil))
					return
				}
				sig := D + ": record within the limit refused without a documented reason"
				if cut {
					sig = D + ": oversize record refused although its first max_event_size bytes are decodable (cut-off on)"
				}
				shape := ""
				if n > 0 && rec.Data[n-1] != '\n' {
					shape = " [no trailing line feed]"
				}
				col.violate(sig+shape, "not empty, not over the limit (or cut), decodable, not spam, not committed - yet In returned EventSeqIDError", witness(i, map[string]any{"data_after_cut": show(data)}))
				return
			}
			if pend != nil {
				if !got && otherStream {
					pend.commitUnknown() // refused by the antispam or before it
				} else {
					pend.commit(!got)
				}
				if !got {
					col.count("A refused as spam", 1)
					spamRefusals++
				}
				if pend.cl.cls == clsCounted {
					if len(keysOfName[pend.name]) > 1 {
						sharedRecs++
						col.count("A counted records of a source id that shares its source name with another active id", 1)
						if got {
							for k := range keysOfName[pend.name] {
								if k != pend.id && spamNow[k] {
									keptBudget++
									col.count("A record accepted while another source id with the same source name is banned (own budget kept)", 1)
									break
								}
							}
						}
					}
					if len(namesOfKey[pend.id]) > 1 {
						col.count("A counted records of a source id seen under more than one source name", 1)
						if !got {
							col.count("A source id under changing names refused as spam (one budget for the id)", 1)
						}
					}
					spamNow[pend.id] = !got
				}
			}
			exp[i].checkEv = got
		}
	}

	// ---- wait for the accepted events, then compare contents ----
	deadline := time.Now().Add(30 * time.Second) // watchdog only
	for spin := 0; g.out.count() < accepted || g.p.VerifPoolInUse() != 0; spin++ {
		if time.Now().After(deadline) {
			col.Inconclusive = append(col.Inconclusive, "watchdog: accepted events did not all reach the output")
			col.count(fmt.Sprintf("A watchdog state: accepted=%d delivered=%d pool_in_use=%d", accepted, g.out.count(), g.p.VerifPoolInUse()), 1)
			return
		}
		if spin < 100 {
			time.Sleep(50 * time.Microsecond)
		} else {
			time.Sleep(time.Millisecond)
		}
	}
	g.out.mu.Lock()
	defer g.out.mu.Unlock()
	byOffset := map[int64]int{}
	for i := range cs.Records {
		byOffset[cs.Records[i].Offset] = i
	}
	for off, ds := range g.out.got {
		i, known := byOffset[off]
		if !known || !exp[i].accepted {
			col.violate("A event delivered for a record that In refused (or unknown offset)", "an event reached the output although In returned EventSeqIDError for it", witness(-1, map[string]any{"offset": off, "event": ds[0].Enc}))
			return
		}
		if len(ds) != 1 {
			col.violate("A event delivered more than once", fmt.Sprintf("%d events with the same offset", len(ds)), witness(i, nil))
			return
		}
	}
	shapes := map[string]bool{}
	for i := range cs.Records {
		e := &exp[i]
		rec := &cs.Records[i]
		if !e.accepted {
			continue
		}
		ds := g.out.got[rec.Offset]
		if len(ds) == 0 {
			col.violate("A accepted record never delivered", "In returned a sequence id, the pool is idle again, but no event with that offset reached the output", witness(i, nil))
			return
		}
		if !e.checkEv {
			continue
		}
		col.count("A "+cs.Decoder+": delivered events compared", 1)
		d := ds[0]
		if sid, _ := strconv.ParseUint(aSrcPool[rec.Src].ID, 10, 64); d.Src != pipeline.SourceID(sid) || d.Name != rec.Name {
			col.violate("A delivered event carries another source id / source name than the record", fmt.Sprintf("got source %d %q", d.Src, d.Name), witness(i, nil))
			return
		}
		gt, perr := parseJSON([]byte(d.Enc))
		if perr != nil {
			col.count("A delivered event is not valid JSON text (byte-exact check skipped; C12 territory)", 1)
			continue
		}
		mark := ""
		if e.cut {
			mark = cs.Mark
		}
		cands := append([]*jnode{e.ev.tree}, e.ev.alts...)
		match, why := false, ""
		for _, c := range cands {
			ok, w := jsonEqual(applyMetaMark(c, rec.Meta, mark), gt, "")
			if ok {
				match = true
				break
			}
			if why == "" {
				why = w
			}
		}
		n := len(rec.Data)
		nl := n > 0 && rec.Data[n-1] == '\n'
		if match {
			shapes[fmt.Sprintf("%s cut=%v nl=%v mark=%v meta=%d rel=%s", rec.Kind, e.cut, nl, mark != "", len(rec.Meta), relLen(n, cs.Max))] = true
			if e.cut {
				col.count("A "+cs.Decoder+": cut events delivered intact (prefix + mark)", 1)
			}
			if d.Stream != e.ev.stream {
				col.count("A stream name differs from the reference (not judged)", 1)
			}
			col.sample(map[string]any{"part": "A", "decoder": cs.Decoder, "max_event_size": cs.Max, "cut": e.cut, "record": show(rec.Data), "event": core_trunc(d.Enc, 300)})
			continue
		}
		// classify the difference
		extra := map[string]any{"event": core_trunc(d.Enc, 1500), "first_difference": why, "data_after_cut": show(e.data)}
		if e.cut && cs.Mark != "" {
			// is it only the mark?
			for _, c := range cands {
				if ok, _ := jsonEqual(applyMetaMark(c, rec.Meta, ""), gt, ""); ok {
					col.violate(D+": cut event delivered without the cut_off_event_by_limit_field mark", "the record was cut to max_event_size but the configured field is not set to true", witness(i, extra))
					return
				}
			}
		}
		if !e.cut && cs.Mark != "" {
			for _, c := range cands {
				if ok, _ := jsonEqual(applyMetaMark(c, rec.Meta, cs.Mark), gt, ""); ok {
					col.violate(D+": cut_off_event_by_limit_field mark set on a record that was not cut", "record within the limit delivered with the cut mark", witness(i, extra))
					return
				}
			}
		}
		if cs.Decoder == "raw" && !nl {
			want := e.ev.tree.get("message").str
			if m := gt.get("message"); m != nil && m.kind == jStr && len(want) > 0 && bytes.Equal(fffd(m.str), fffd(want[:len(want)-1])) {
				col.violate("A decoder=raw: record without trailing line feed delivered without its last byte",
					"the raw decoder writes the record into `message`; a record that does not end in a line feed loses its last byte", witness(i, extra))
				continue // keep checking the other records of the case
			}
		}
		if e.cut {
			// does it equal the decode of a prefix of another length?
			for _, dl := range []int{-2, -1, 1, 2} {
				L := cs.Max + dl
				if L < 1 || L > n {
					continue
				}
				alt := append([]byte(nil), rec.Data[:L]...)
				if nl && alt[len(alt)-1] != '\n' {
					alt = append(alt, '\n')
				}
				av := refDecode(cs.Decoder, alt)
				if !av.ok {
					continue
				}
				for _, c := range append([]*jnode{av.tree}, av.alts...) {
					if ok, _ := jsonEqual(applyMetaMark(c, rec.Meta, mark), gt, ""); ok {
						col.violate(fmt.Sprintf("%s: oversize record cut at max_event_size%+d instead of max_event_size", D, dl),
							"the delivered event is the decode of a prefix of another length", witness(i, extra))
						return
					}
				}
			}
			col.violate(D+": cut event is not the decode of the first max_event_size bytes", why, witness(i, extra))
			return
		}
		col.violate(D+": record within the limit delivered altered", why, witness(i, extra))
		return
	}
	for s := range shapes {
		col.fp("A " + cs.Decoder + " " + s)
	}
	if cs.Antispam {
		col.fp(fmt.Sprintf("A sources=%s keys%d T%d rules%d exc%d metafield=%v spam%s shared%s kept%s", cs.SrcMode, len(namesOfKey), cs.Spam.Threshold,
			len(cs.Spam.Rules), len(cs.Spam.Exceptions), cs.MetaField != "", bucket(spamRefusals), bucket(sharedRecs), bucket(keptBudget)))
	}
}

func relLen(n, max int) string {
	switch {
	case max == 0:
		return "nolimit"
	case n == max-1:
		return "max-1"
	case n == max:
		return "max"
	case n == max+1:
		return "max+1"
	case n == max+2:
		return "max+2"
	case n < max:
		return "below"
	}
	return "above"
}

func toStreamMap(m map[string]int64) map[pipeline.StreamName]int64 {
	if m == nil {
		return nil
	}
	out := map[pipeline.StreamName]int64{}
	for k, v := range m {
		out[pipeline.StreamName(k)] = v
	}
	return out
}

func core_trunc(s string, n int) string {
	if len(s) > n {
		return s[:n] + "…"
	}
	return s
}

// ---------------------------------------------------------------------------
// case generator

func genACase(r *rand.Rand) *aCase {
	cs := &aCase{Decoder: pick(r, []string{"json", "json", "raw", "raw", "cri"}), Pool: pick(r, []string{"std", "low_memory"})}
	// antispam family
	switch k := r.Intn(100); {
	case k < 35:
	case k < 60:
		cs.Antispam, cs.Spam = true, genSpamSpec(r, "plain")
	case k < 78:
		cs.Antispam, cs.Spam = true, genSpamSpec(r, "exceptions")
	case k < 95:
		cs.Antispam, cs.Spam = true, genSpamSpec(r, "rules")
		if cs.Spam.Threshold < 0 {
			cs.Spam.Threshold = 3 // Pipeline.In consults the antispam only for threshold >= 0
		}
	default:
		cs.Antispam, cs.Spam = true, spamSpec{Threshold: 0}
		if chance(r, 50) {
			cs.Spam.Exceptions = []excSpec{genException(r, 0)}
		}
	}
	cs.Spam.Unban = documentedUnbanIterations
	if !cs.Antispam {
		cs.Spam = spamSpec{Threshold: -1, Unban: documentedUnbanIterations}
	}
	useMeta := chance(r, 35)
	if cs.Antispam && useMeta && chance(r, 50) {
		cs.MetaField = "svc"
	}
	nsrc := 1 + r.Intn(3)
	srcSet := []int{0, 1, 2}[:nsrc]
	cs.SrcMode = "distinct"
	if cs.Antispam {
		switch k := r.Intn(100); {
		case k < 30:
			cs.SrcMode = "namesakes"
			srcSet = pick(r, namesakeSets)
			nsrc = len(srcSet)
		case k < 42 && len(cs.Spam.Rules) == 0:
			// (with rules on the source name a renamed id would fall under several
			// thresholds: that is FINDINGS.md F4, exercised in Part B)
			cs.SrcMode = "renamed"
		}
	}
	streams := []string{""}
	switch cs.Decoder {
	case "json":
		streams = []string{"", "stdout", "stderr"}
		if chance(r, 10) {
			streams = append(streams, "<empty>")
		}
	case "cri":
		streams = []string{"stdout", "stderr"}
	}
	levels := []string{"", "", "debug", "info", "error"}
	criSec, criNs := r.Intn(100000), 0

	base := func(kind string, body []byte, nl bool) aRec {
		if nl {
			body = append(body, '\n')
		}
		return aRec{Kind: kind, Data: body}
	}
	// one well-formed record body (without the line feed) of the case's format
	body := func(size int) ([]byte, string) {
		switch cs.Decoder {
		case "json":
			b := genJSONRecord(r, pick(r, streams), pick(r, levels))
			if size > len(b) {
				b = padJSON(b, size-len(b))
			}
			return b, "json-object"
		case "raw":
			n := size
			if n <= 0 {
				n = 1 + r.Intn(60)
			}
			if chance(r, 30) {
				return append([]byte(pick(r, evPool[:6])[:1]), fitText(r, n, true)...), "raw-text"
			}
			return fitText(r, n, true), "raw-text"
		default:
			criNs += 1 + r.Intn(1000)
			if chance(r, 8) {
				criSec += 3 * 3600 // a jump of more than the maintenance interval in event time
			}
			if chance(r, 5) {
				criSec -= 1
			}
			tag := "F"
			if chance(r, 20) {
				tag = "P"
			}
			hdr := criTime(criSec, criNs) + " " + pick(r, streams) + " " + tag + " "
			n := size - len(hdr)
			if n <= 0 {
				n = r.Intn(50)
			}
			return append([]byte(hdr), fitText(r, n, true)...), "cri-" + tag
		}
	}

	// the pivot record decides max_event_size
	pivot, pk := body(0)
	L := len(pivot) + 1 // with the line feed
	switch k := r.Intn(100); {
	case k < 15:
		cs.Max = 0
	case k < 75:
		cs.Max = L + pick(r, []int{-2, -1, 0, 0, 1, 2})
	default:
		cs.Max = 8 + r.Intn(120)
	}
	if cs.Max < 0 {
		cs.Max = 0
	}
	if cs.Decoder == "cri" && cs.Antispam && cs.Max > 0 && cs.Max < 48 {
		cs.Max = 48 // keep the CRI header whole when the antispam needs the event time
	}
	if cs.Max > 0 {
		cs.Cut = chance(r, 65)
		if cs.Cut {
			cs.Mark = pick(r, []string{"", "_cropped", "_cropped", "cut off"})
		}
	}

	var recs []aRec
	add := func(rec aRec) { recs = append(recs, rec) }
	add(base(pk+":pivot", append([]byte(nil), pivot...), true))
	add(base(pk+":pivot", append([]byte(nil), pivot...), false))
	if cs.Max > 0 {
		// records whose length sits on the limit: max-1, max, max+1, max+2 with and without line feed
		for _, d := range []int{-1, 0, 1, 2} {
			for _, nl := range []bool{true, false} {
				size := cs.Max + d
				if nl {
					size--
				}
				if size < 1 {
					continue
				}
				b, k := body(size)
				add(base(k+":sized", b, nl))
			}
		}
		if cs.Decoder == "json" {
			// valid JSON followed by blanks (the cut prefix stays decodable), and a
			// valid JSON of exactly max bytes followed by more text
			b, _ := body(0)
			if len(b) < cs.Max {
				p := append(append([]byte(nil), b...), bytes.Repeat([]byte(" "), cs.Max-len(b)+r.Intn(4))...)
				add(base("json-object:blank-tail", p, true))
				add(base("json-object:blank-tail", append([]byte(nil), p...), false))
			}
			b2, _ := body(cs.Max)
			if len(b2) == cs.Max {
				add(base("json-object:max-then-garbage", append(append([]byte(nil), b2...), `{"x":1}`...), true))
				add(base("json-object:max-then-blank", append(append([]byte(nil), b2...), ' '), chance(r, 50)))
			}
		}
	}
	// ordinary traffic
	n := 10 + r.Intn(25)
	for i := 0; i < n; i++ {
		b, k := body(0)
		add(base(k, b, !chance(r, 12)))
	}
	// mud and near-mud
	for _, m := range []string{"", "\n", "\n\n", " \n", "\r\n", " "} {
		if chance(r, 40) {
			add(aRec{Kind: "mud", Data: []byte(m)})
		}
	}
	// broken records
	for i := r.Intn(4); i > 0; i-- {
		b, k := body(0)
		if len(b) > 2 {
			b = b[:1+r.Intn(len(b)-1)]
		}
		if cs.Decoder == "cri" && cs.Antispam {
			continue // see NOTES: the reference cannot know the event time of a broken CRI row
		}
		add(base(k+":truncated", b, chance(r, 70)))
	}
	if cs.Decoder == "json" {
		for _, s := range []string{`[1,{"a":"b"}]`, `"just a string"`, `12`, `{"a":1}}`, `{"a":1} trailing`, `{"a":1,}`, `{}`} {
			if useMeta && s[0] != '{' {
				continue // what meta does to a non-object root is not documented
			}
			if chance(r, 20) {
				add(base("json-other", []byte(s), true))
			}
		}
	}
	r.Shuffle(len(recs), func(i, j int) { recs[i], recs[j] = recs[j], recs[i] })

	// sources, meta, offsets, maintenance rounds, new-source flags
	hot := srcSet[r.Intn(nsrc)]
	suffixes := []string{"", "", ".1", "-20240301.gz"}
	off := int64(100)
	for i := range recs {
		rec := &recs[i]
		rec.Src = hot
		if nsrc > 1 && (chance(r, 35) || cs.SrcMode == "namesakes") {
			rec.Src = srcSet[r.Intn(nsrc)] // namesakes: all ids active in every round
		}
		rec.Name = aSrcPool[rec.Src].Name
		if cs.SrcMode == "renamed" && rec.Src == hot {
			rec.Name += pick(r, suffixes) // one id, changing names (rotation in place)
		}
		off += int64(len(rec.Data)) + 1 + int64(r.Intn(3))
		rec.Offset = off
		if useMeta {
			// meta is constant per antispam source id: always complete, except that
			// with source_name_meta_field some records lack that field (and then
			// fall back to the numeric source id, which never has it)
			rec.Meta = map[string]string{"ns": aSrcPool[rec.Src].Meta["ns"]}
			if cs.MetaField == "" || chance(r, 85) {
				rec.Meta["svc"] = aSrcPool[rec.Src].Meta["svc"]
			}
		}
		if cs.Antispam {
			if chance(r, 4) {
				rec.New = true
			}
			if chance(r, 6) {
				rec.Maint = pick(r, []int{1, 1, 2, cs.Spam.Unban, cs.Spam.Unban + 1, cs.Spam.Unban + 2})
			}
		}
		rec.Text = core_trunc(string(rec.Data), 200)
	}
	// saved offsets: some streams of some sources were committed up to a point
	if chance(r, 30) {
		cs.Saved = map[string]map[string]int64{}
		for _, s := range srcSet {
			if chance(r, 60) {
				m := map[string]int64{}
				names := []string{"not_set"}
				if cs.Decoder != "raw" {
					names = []string{"stdout", "stderr", "not_set"}
					if cs.Decoder == "json" && chance(r, 25) {
						names = append(names, "")
					}
				}
				for _, nme := range names {
					if chance(r, 60) {
						m[nme] = 100 + int64(r.Intn(int(off-100)+1))
					}
				}
				if len(m) > 0 {
					cs.Saved[aSrcPool[s].ID] = m
				}
			}
		}
	}
	cs.Records = recs
	return cs
}
