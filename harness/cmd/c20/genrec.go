package main

import (
	"bytes"
	"fmt"
	"math/rand"
	"strings"
	"unicode/utf8"
)

// ---------------------------------------------------------------------------
// Record generators for Part A. Records are single lines (no raw line feed
// inside), with or without the trailing "\n".

var runePool = []string{"é", "ß", "Ж", "я", "✓", "€", "日", "本", "😀", "🚀", "\u00a0", "\u2028", "ı", "İ"}
var wordPool = []string{"error", "timeout", "GET /api/v1/items?id=1&x=%20", "user=anna", "C:\\temp\\x", "a\"quoted\"b", "tab\there", "{}", "[1,2]", "null", "0", "-1.5e3", "select * from t where a='b'", "<xml/>", "  ", "\\n", "\\u0041"}

// hostile raw text without line feeds
func genText(r *rand.Rand, n int, allowInvalid bool) []byte {
	var b []byte
	for len(b) < n {
		switch k := r.Intn(20); {
		case k < 8:
			b = append(b, pick(r, wordPool)...)
		case k < 12:
			b = append(b, pick(r, runePool)...)
		case k < 14:
			b = append(b, ' ')
		case k == 14:
			b = append(b, byte(1+r.Intn(8))) // control bytes 0x01..0x08
		case k == 15:
			b = append(b, pick(r, []byte{'\t', '\r', 0x1f, 0x7f, 0x00, '"', '\\', '/'}))
		case k == 16 && allowInvalid:
			b = append(b, pick(r, []byte{0xff, 0xc3, 0xe2, 0x80, 0xf0}))
		default:
			b = append(b, byte('a'+r.Intn(26)))
		}
	}
	return b
}

// fitText returns text of exactly n bytes (valid UTF-8 if !allowInvalid).
func fitText(r *rand.Rand, n int, allowInvalid bool) []byte {
	if n <= 0 {
		return nil
	}
	t := genText(r, n, allowInvalid)
	if len(t) > n {
		t = t[:n]
		if !allowInvalid {
			for len(t) > 0 && !utf8.Valid(t) {
				t = t[:len(t)-1]
			}
		}
	}
	for len(t) < n {
		t = append(t, byte('a'+r.Intn(26)))
	}
	return t
}

// jsonString encodes raw (valid UTF-8) text as a JSON string with a random
// but legal choice of escapes.
func jsonString(r *rand.Rand, s []byte) []byte {
	out := []byte{'"'}
	for len(s) > 0 {
		c, size := utf8.DecodeRune(s)
		switch {
		case c == '"':
			out = append(out, '\\', '"')
		case c == '\\':
			out = append(out, '\\', '\\')
		case c == '\n':
			out = append(out, '\\', 'n')
		case c == '\r':
			out = append(out, '\\', 'r')
		case c == '\t':
			out = append(out, '\\', 't')
		case c < 0x20 || c == 0x7f:
			out = append(out, fmt.Sprintf("\\u%04x", c)...)
		case c == '/' && r.Intn(3) == 0:
			out = append(out, '\\', '/')
		case c > 0x7f && c <= 0xffff && r.Intn(4) == 0:
			out = append(out, fmt.Sprintf("\\u%04X", c)...)
		case c > 0xffff && r.Intn(4) == 0:
			c -= 0x10000
			out = append(out, fmt.Sprintf("\\ud%03x\\ud%03x", 0x800+(c>>10), 0xc00+(c&0x3ff))...)
		default:
			out = append(out, s[:size]...)
		}
		s = s[size:]
	}
	return append(out, '"')
}

var keyPool = []string{"level", "msg", "message", "ts", "time", "pod", "k8s_pod", "trace_id", "user", "n", "ok", "data", "ключ", "a b", "x.y", "é"}

func sp(r *rand.Rand) string {
	switch r.Intn(8) {
	case 0:
		return " "
	case 1:
		return "\t"
	case 2:
		return "  "
	}
	return ""
}

func genJSONValue(r *rand.Rand, depth int) []byte {
	switch k := r.Intn(12); {
	case k < 5:
		return jsonString(r, genText(r, r.Intn(24), false))
	case k == 5:
		return []byte(fmt.Sprint(r.Intn(2000000) - 1000000))
	case k == 6:
		return []byte(pick(r, []string{"0", "-0", "1.5", "-12.25e+3", "1E5", "3.14159", "12345678901234567890"}))
	case k == 7:
		return []byte(pick(r, []string{"true", "false", "null"}))
	case k == 8:
		return []byte(`""`)
	case k < 11 && depth < 3:
		return genJSONObject(r, depth+1, "", nil)
	case depth < 3:
		n := r.Intn(4)
		b := []byte("[" + sp(r))
		for i := 0; i < n; i++ {
			if i > 0 {
				b = append(b, ","+sp(r)...)
			}
			b = append(b, genJSONValue(r, depth+1)...)
		}
		return append(b, sp(r)+"]"...)
	}
	return []byte("1")
}

// genJSONObject writes an object. head, if not empty, is a literal first
// member (already encoded, e.g. `"level":"debug"`) written right after the
// brace with no blanks, so that prefix patterns on the record apply; extra
// are further members (key text, encoded value) placed next.
func genJSONObject(r *rand.Rand, depth int, head string, extra [][2][]byte) []byte {
	used := map[string]bool{}
	var b []byte
	n := 0
	if head != "" {
		b = []byte("{" + head)
		n = 1
		used["level"] = true
	} else {
		b = []byte("{" + sp(r))
	}
	add := func(k, v []byte) {
		if n > 0 {
			b = append(b, ","+sp(r)...)
		}
		b = append(b, k...)
		b = append(b, sp(r)+":"+sp(r)...)
		b = append(b, v...)
		n++
	}
	for _, e := range extra {
		used[string(e[0])] = true
		add(jsonString(r, e[0]), e[1])
	}
	m := r.Intn(5)
	if depth == 0 {
		m = 1 + r.Intn(5)
	}
	for i := 0; i < m; i++ {
		k := pick(r, keyPool)
		if used[k] {
			continue
		}
		used[k] = true
		add(jsonString(r, []byte(k)), genJSONValue(r, depth))
	}
	return append(b, sp(r)+"}"...)
}

// genJSONRecord: a top-level JSON object. stream is "" (no stream member), a
// stream name, or "<empty>" for an empty stream value; level, if not empty,
// becomes the literal head `{"level":"<level>"`.
func genJSONRecord(r *rand.Rand, stream string, level string) []byte {
	var extra [][2][]byte
	if stream != "" {
		v := stream
		if v == "<empty>" {
			v = ""
		}
		extra = append(extra, [2][]byte{[]byte("stream"), jsonString(r, []byte(v))})
	}
	head := ""
	if level != "" {
		head = `"level":"` + level + `"`
	}
	return genJSONObject(r, 0, head, extra)
}

// padJSON inserts k filler bytes inside a string member so that the record
// grows by exactly k bytes and stays valid.
func padJSON(rec []byte, k int) []byte {
	if k <= 0 {
		return rec
	}
	i := bytes.LastIndexByte(rec, '}')
	if i < 0 {
		return rec
	}
	pad := `,"pad":"` // 8 bytes + closing quote
	need := len(pad) + 1
	if k < need {
		// too small for a new member: use trailing blanks inside the object
		return append(append(append([]byte{}, rec[:i]...), strings.Repeat(" ", k)...), rec[i:]...)
	}
	body := strings.Repeat("p", k-need)
	if len(bytes.TrimSpace(rec[1:i])) == 0 {
		pad = `"pad":"`
		body = strings.Repeat("p", k-len(pad)-1)
	}
	out := append([]byte{}, rec[:i]...)
	out = append(out, pad...)
	out = append(out, body...)
	out = append(out, '"')
	return append(out, rec[i:]...)
}

var criTimes = []string{"2016-10-06T00:17:09.669794202Z", "2024-02-29T23:59:59.9Z", "2021-06-22T16:24:27Z"}

func criTime(sec int, nanos int) string {
	return fmt.Sprintf("2024-03-%02dT%02d:%02d:%02d.%09dZ", 1+sec/86400%28, sec/3600%24, sec/60%60, sec%60, nanos)
}
