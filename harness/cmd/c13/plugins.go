package main

// every registered action plugin, and the k8s input (it registers the
// k8s-multiline action)
import (
	_ "github.com/ozontech/file.d/plugin/action/add_file_name"
	_ "github.com/ozontech/file.d/plugin/action/add_host"
	_ "github.com/ozontech/file.d/plugin/action/cardinality"
	_ "github.com/ozontech/file.d/plugin/action/convert_date"
	_ "github.com/ozontech/file.d/plugin/action/convert_log_level"
	_ "github.com/ozontech/file.d/plugin/action/convert_utf8_bytes"
	_ "github.com/ozontech/file.d/plugin/action/debug"
	_ "github.com/ozontech/file.d/plugin/action/decode"
	_ "github.com/ozontech/file.d/plugin/action/discard"
	_ "github.com/ozontech/file.d/plugin/action/flatten"
	_ "github.com/ozontech/file.d/plugin/action/hash"
	_ "github.com/ozontech/file.d/plugin/action/join"
	_ "github.com/ozontech/file.d/plugin/action/join_template"
	_ "github.com/ozontech/file.d/plugin/action/json_decode"
	_ "github.com/ozontech/file.d/plugin/action/json_encode"
	_ "github.com/ozontech/file.d/plugin/action/json_extract"
	_ "github.com/ozontech/file.d/plugin/action/keep_fields"
	_ "github.com/ozontech/file.d/plugin/action/mask"
	_ "github.com/ozontech/file.d/plugin/action/modify"
	_ "github.com/ozontech/file.d/plugin/action/move"
	_ "github.com/ozontech/file.d/plugin/action/parse_es"
	_ "github.com/ozontech/file.d/plugin/action/parse_re2"
	_ "github.com/ozontech/file.d/plugin/action/remove_fields"
	_ "github.com/ozontech/file.d/plugin/action/rename"
	_ "github.com/ozontech/file.d/plugin/action/set_time"
	_ "github.com/ozontech/file.d/plugin/action/split"
	_ "github.com/ozontech/file.d/plugin/action/throttle"
	_ "github.com/ozontech/file.d/plugin/input/k8s"
)
