package main

// Chain clause: pairs and triples of actions applied to one event in sequence,
// in particular every action that stores bytes in the event's shared arena
// event.Buf (flatten / json_decode / parse_re2 / decode with a prefix keep the
// NAMES of the members they create there, json_encode keeps its value there,
// k8s-multiline keeps the joined log and the label names there) followed by
// another user of that arena, over a few hundred events through a small pool
// (12 events: every event object and its Buf is reused dozens of times, after
// small and after large events).
//
// Reference = step-by-step evaluation: action 1 alone in its own pipeline on
// the original events; its outputs (encoded, i.e. deep copied: nothing of the
// first action's memory survives) are the input of action 2 alone in its own
// pipeline, and so on. Every step is a single action on a freshly decoded
// event whose Buf is empty - what the main clause of this check exercises.
// The real chain must give, per event (keyed by the offset), a document that
// is semantically equal (encoding/json, UseNumber) to the reference: same
// members, same values, nothing dropped or added; and it must be valid JSON
// whenever the reference is. Where the reference itself is undefined (an
// intermediate document is not valid JSON - the known json_decode laxity - or
// the pipeline's decoder refused it) the event is skipped: a defect of one
// action alone is the main clause's business, this clause reports what only
// the combination does.

import (
	"bytes"
	"encoding/json"
	"fmt"
	"math/rand"
	"os"
	"reflect"
	"sort"
	"strings"
	"sync"
	"unicode/utf8"

	"verifharness/core"
)

type atom struct {
	Name   string
	Action string
	Buf    bool // stores bytes in event.Buf
	K8s    bool // k8s-multiline: only first in a chain (it reads the raw input and needs the source's meta)
}

func k8sChainAct() string {
	return `{"type":"k8s-multiline","offsets_file":"/tmp/verif-c13-unused-offsets.yaml","allowed_pod_labels":["allowed_label","app"],"allowed_node_labels":["zone"]}`
}

// chainAtoms: one representative configuration per covered action type whose
// result is a function of the event alone (no clock, no counters, no hold),
// written so that they meet on the same members.
func chainAtoms() (bufAtoms, others []atom, k8s atom) {
	bufAtoms = []atom{
		{Name: "flatten", Buf: true, Action: `{"type":"flatten","field":"animal","prefix":"pet_"}`},
		{Name: "json_decode-prefix", Buf: true, Action: `{"type":"json_decode","field":"raw","prefix":"p_"}`},
		{Name: "parse_re2-prefix", Buf: true, Action: `{"type":"parse_re2","field":"log","re2":"(?P<w1>\\w+)\\W+(?P<w2>\\w+)","prefix":"re_"}`},
		{Name: "decode-json-prefix", Buf: true, Action: `{"type":"decode","field":"payload","decoder":"json","prefix":"d_"}`},
		{Name: "json_encode", Buf: true, Action: `{"type":"json_encode","field":"server"}`},
		{Name: "json_encode-extra", Buf: true, Action: `{"type":"json_encode","field":"extra"}`},
	}
	others = []atom{
		{Name: "modify", Action: `{"type":"modify","summary":"${message|cut(\"first\",12)}/${level}/${pet_type}","server_copy":"${server}"}`},
		{Name: "mask", Action: `{"type":"mask","masks":[{"re":"(\\d{2,})","groups":[1]}],"mask_applied_field":"masked","mask_applied_value":"yes"}`},
		{Name: "rename", Action: `{"type":"rename","override":true,"pet_type":"kind","message":"msg","p_code":"code","server":"srv"}`},
		{Name: "keep_fields", Action: `{"type":"keep_fields","fields":["pet_type","pet_paws","server","extra","log","raw","payload","animal","level","re_w1","p_code","d_id"]}`},
		{Name: "remove_fields", Action: `{"type":"remove_fields","fields":["ts","pet_paws","server.os","re_w2"]}`},
		{Name: "move", Action: `{"type":"move","mode":"allow","target":"moved","fields":["pet_type","server","level","re_w1","d_id"]}`},
		{Name: "json_extract", Action: `{"type":"json_extract","field":"raw","extract_fields":["code","nested.level"],"prefix":"x_"}`},
		{Name: "json_decode", Action: `{"type":"json_decode","field":"raw"}`},
		{Name: "convert_date", Action: `{"type":"convert_date","field":"ts","source_formats":["rfc3339nano","rfc3339"],"target_format":"unixtimemilli"}`},
		{Name: "convert_log_level", Action: `{"type":"convert_log_level","field":"level","style":"number","default_level":"info"}`},
		{Name: "convert_utf8_bytes", Action: `{"type":"convert_utf8_bytes","fields":["message","log","server"]}`},
		// no built-in patterns: compiling them takes seconds in every child
		{Name: "hash", Action: `{"type":"hash","fields":[{"field":"log","format":"normalize"},{"field":"message","format":"no"}],"result_field":"hash","normalizer":{"builtin_patterns":"no","custom_patterns":[{"placeholder":"<num>","re":"\\d+","priority":"first"}]}}`},
		{Name: "add_file_name", Action: `{"type":"add_file_name","field":"file"}`},
		{Name: "add_host", Action: `{"type":"add_host","field":"host"}`},
		{Name: "debug", Action: `{"type":"debug"}`},
		{Name: "discard", Action: `{"type":"discard","match_fields":{"level":"debug"}}`},
		{Name: "decode-csv", Action: `{"type":"decode","field":"log","decoder":"csv","params":{"prefix":"csv_","delimiter":" "},"keep_origin":true}`},
	}
	k8s = atom{Name: "k8s-multiline", Buf: true, K8s: true, Action: k8sChainAct()}
	return
}

type chainEvents struct {
	id   string
	evs  []genEvent
	tail int // index of the terminating event (k8s list: completes the last line), -1 if none
}

// chainDict: strings for the members the atoms read; JSON texts here are well
// formed or plainly broken (nothing insane-json accepts although it is
// malformed: that laxity is a known finding of json_decode / decode alone).
var chainDict = []string{
	`{"nested":{"level":"error"},"code":2,"list":[1,2,{"k":"v"}],"id":"42"}`, `{"code":500,"id":7}`, `{}`, `{"id":"x","code":null,"nested":7}`, `[1,2]`, `"str"`, `12`, `null`, ``,
	`{"a":`, `{"code":2,"unterminated`, `{"long":"` + strings.Repeat("v", 700) + `","id":1}`, `{"q\"k":1,"é":"ü","id":"é"}`,
	`INFO user=alice took=200ms`, `2024-03-01 ERROR boom 12345`, `a b`, `x`, `Привет мир 4111111111111111`, `one,two three`, strings.Repeat("word 123 ", 150),
}

func chainBenign() map[string]string {
	return map[string]string{
		"animal":  `{"type":"cat","paws":4}`,
		"server":  `{"os":"linux","arch":"amd64"}`,
		"extra":   `{"a":1,"b":[true,null],"c":{"d":"e"}}`,
		"log":     `"INFO user=alice took=200ms"`,
		"raw":     `"{\"nested\":{\"level\":\"error\"},\"code\":2,\"list\":[1,2]}"`,
		"payload": `"{\"id\":\"42\",\"kind\":\"payload\"}"`,
	}
}

func buildChainEvents(c *core.Ctx) *chainEvents {
	g := &evGen{fields: splitPaths([]string{"animal", "server", "extra", "log", "raw", "payload", "level"}), dict: chainDict, dictBias: 45, benign: chainBenign()}
	evs := g.directed()
	rng := rand.New(rand.NewSource(c.SubSeed("chain-events", 0)))
	for i, n := 0, c.N(150, 2500); i < n; i++ {
		evs = append(evs, g.random(rng))
	}
	return &chainEvents{id: "generic", evs: evs, tail: -1}
}

// buildK8sChainEvents: lines of 1-4 chunks (the last one ends with a line
// feed) with members of very different sizes beside the log, no "stream"
// member (one stream: no time-out is ever needed), object roots only; the
// last event completes whatever is pending.
func buildK8sChainEvents(c *core.Ctx) *chainEvents {
	rng := rand.New(rand.NewSource(c.SubSeed("chain-events-k8s", 0)))
	chunks := []string{"hello ", "partial chunk without newline ", "a", "", "Привет ", "tab\\tq\\\"uote\\\\ ", "{\\\"json\\\":\\\"line\\\"} ", strings.Repeat("x", 300), strings.Repeat("y", 1500), "ends with literal backslash-n \\\\n"}
	servers := []string{`{"os":"linux","arch":"amd64"}`, `{}`, `{"os":"` + strings.Repeat("L", 900) + `"}`, `[1,2,3]`, `"plain"`, `{"a":{"b":{"c":[1,2,{"d":"e"}]}}}`, `null`}
	var evs []genEvent
	add := func(log string) {
		o := fmt.Sprintf(`{"log":"%s","server":%s,"extra":%s,"n":%d}`, log, servers[rng.Intn(len(servers))], servers[rng.Intn(len(servers))], len(evs))
		evs = append(evs, genEvent{Raw: []byte(o), Shape: "k8s"})
	}
	lines := func(n int) {
		for l := 0; l < n; l++ {
			for k := rng.Intn(4); k > 0; k-- {
				add(chunks[rng.Intn(len(chunks))])
			}
			add(chunks[rng.Intn(len(chunks))] + `\n`)
		}
	}
	// directed: two chunks + end, for every size of the first chunk
	for _, ch := range chunks {
		add(ch)
		add("second ")
		add(`end\n`)
	}
	lines(c.N(120, 1500))
	add(`terminator\n`)
	return &chainEvents{id: "k8s", evs: evs, tail: len(evs) - 1}
}

type chainJob struct {
	label  string
	atoms  []atom
	events *chainEvents
	k8s    bool
}

func (cj *chainJob) actions() []string {
	var a []string
	for _, at := range cj.atoms {
		a = append(a, at.Action)
	}
	return a
}

func buildChainJobs(c *core.Ctx) []*chainJob {
	bufAtoms, others, k8s := chainAtoms()
	generic := buildChainEvents(c)
	k8sEvents := buildK8sChainEvents(c)
	var jobs []*chainJob
	seen := map[string]bool{}
	add := func(as ...atom) {
		var names []string
		for _, a := range as {
			names = append(names, a.Name)
		}
		label := strings.Join(names, "+")
		if seen[label] {
			return
		}
		seen[label] = true
		cj := &chainJob{label: label, atoms: as, events: generic}
		if as[0].K8s {
			cj.k8s, cj.events = true, k8sEvents
		}
		jobs = append(jobs, cj)
	}
	// every ordered pair of users of event.Buf
	for _, a := range bufAtoms {
		for _, b := range bufAtoms {
			if a.Name != b.Name {
				add(a, b)
			}
		}
	}
	add(k8s, bufAtoms[4])
	add(k8s, bufAtoms[5])
	add(k8s, bufAtoms[4], bufAtoms[5])
	add(k8s, bufAtoms[0])
	// every other action between a writer of Buf and json_encode
	writers := []atom{bufAtoms[0], bufAtoms[1], bufAtoms[2], bufAtoms[3]}
	for i, x := range others {
		last := bufAtoms[4]
		if i%2 == 1 {
			last = bufAtoms[5]
		}
		add(writers[i%len(writers)], x, last)
	}
	// triples of Buf users
	add(bufAtoms[0], bufAtoms[4], bufAtoms[1])
	add(bufAtoms[2], bufAtoms[1], bufAtoms[5])
	add(bufAtoms[3], bufAtoms[0], bufAtoms[4])
	add(bufAtoms[4], bufAtoms[5], bufAtoms[0])
	// seeded chains of any covered action
	rng := c.Rand("chains")
	all := append(append([]atom{}, bufAtoms...), others...)
	for i, n := 0, c.N(12, 220); i < n; i++ {
		k := 2 + rng.Intn(2)
		var as []atom
		for len(as) < k {
			a := all[rng.Intn(len(all))]
			if len(as) > 0 && as[len(as)-1].Name == a.Name {
				continue
			}
			as = append(as, a)
		}
		if rng.Intn(3) > 0 { // most of them end in a user of Buf
			as[len(as)-1] = bufAtoms[rng.Intn(len(bufAtoms))]
			if len(as) > 1 && as[len(as)-2].Name == as[len(as)-1].Name {
				continue
			}
		}
		add(as...)
	}
	return jobs
}

// ---- step-by-step reference, memoised by (event list, action prefix) ----

type stageResult struct {
	once      sync.Once
	ok        bool
	why       string
	outs      map[int][]byte // by event index
	order     []int          // output order
	undefined map[int]bool   // the reference is not defined for these events
	lossy     map[int]bool   // the deep copy between two steps was not exact (invalid UTF-8): a difference proves nothing
}

type chainRef struct {
	mu   sync.Mutex
	memo map[string]*stageResult
}

func (cr *chainRef) entry(key string) *stageResult {
	cr.mu.Lock()
	defer cr.mu.Unlock()
	if cr.memo[key] == nil {
		cr.memo[key] = &stageResult{}
	}
	return cr.memo[key]
}

func chainChildIn(label string, actions []string, k8s bool, events [][]byte, only []int) childIn {
	in := childIn{Label: "chainref/" + label, Only: only, DeferK: 5, KeepOut: true, Events: events}
	for _, a := range actions {
		in.Actions = append(in.Actions, json.RawMessage(a))
	}
	in.Settings.Capacity = 12
	if k8s {
		in.Settings.K8s = true
		in.Meta = k8sItem
		in.OneSource = true
	}
	return in
}

// collect turns a finished child into (outs by index, order); events whose
// output is not valid JSON or that the decoder refused are undefined.
func collectOuts(out *childOut, undefined map[int]bool) (map[int][]byte, []int) {
	outs := map[int][]byte{}
	var order []int
	for _, o := range out.Outs {
		if o.Kind != "" {
			continue
		}
		if _, dup := outs[o.Idx]; dup {
			undefined[o.Idx] = true
			continue
		}
		outs[o.Idx] = o.Enc
		order = append(order, o.Idx)
	}
	for i, oc := range out.Outcomes {
		if oc&ocRejected != 0 {
			undefined[i] = true
		}
	}
	for _, inv := range out.Invalid {
		if inv.Idx >= 0 {
			undefined[inv.Idx] = true
		}
	}
	return outs, order
}

// reference evaluates actions[:n] step by step on the event list.
func (cr *chainRef) reference(cj *chainJob, n int) *stageResult {
	acts := cj.actions()[:n]
	key := cj.events.id + "\x00" + strings.Join(acts, "\x00")
	e := cr.entry(key)
	e.once.Do(func() {
		e.undefined = map[int]bool{}
		e.lossy = map[int]bool{}
		var events [][]byte
		var only []int
		if n == 1 {
			events = make([][]byte, len(cj.events.evs))
			for i := range cj.events.evs {
				events[i] = cj.events.evs[i].Raw
				if lossy(events[i]) {
					e.lossy[i] = true
				}
			}
		} else {
			prev := cr.reference(cj, n-1)
			if !prev.ok {
				e.why = prev.why
				return
			}
			for i := range prev.undefined {
				e.undefined[i] = true
			}
			for i := range prev.lossy {
				e.lossy[i] = true
			}
			events = make([][]byte, len(cj.events.evs))
			for _, i := range prev.order {
				enc := prev.outs[i]
				if checkJSON(enc) != nil {
					e.undefined[i] = true
					continue
				}
				if lossy(enc) {
					e.lossy[i] = true
				}
				events[i] = enc
				only = append(only, i)
			}
			if len(only) == 0 {
				e.ok, e.outs = true, map[int][]byte{}
				return
			}
		}
		k8s := cj.k8s && n == 1
		r, out := runChild(chainChildIn(fmt.Sprintf("%s[%d]", cj.label, n), acts[n-1:n], k8s, events, only))
		if out == nil || out.SetupErr != "" || !out.Quiesced {
			kind, msg, at := crashClass(r)
			e.why = fmt.Sprintf("step %d (%s) alone did not complete: timed-out=%v %s %s at %s", n, cj.atoms[n-1].Name, r.TimedOut, kind, msg, at)
			if out != nil {
				e.why = fmt.Sprintf("step %d (%s) alone: setup error %q quiesced=%v", n, cj.atoms[n-1].Name, out.SetupErr, out.Quiesced)
			}
			return
		}
		e.outs, e.order = collectOuts(out, e.undefined)
		e.ok = true
	})
	return e
}

// lossy: the deep copy by encoding is not exact for this document: insane-json
// writes an invalid UTF-8 byte of a string it has unescaped as \ufffd, so the
// next step would read other bytes than the chain does (hash, mask, regexps).
func lossy(enc []byte) bool {
	return !utf8.Valid(enc) || bytes.Contains(enc, []byte(`\ufffd`)) || bytes.Contains(enc, []byte("\xef\xbf\xbd"))
}

func semEqual(a, b []byte) bool {
	dec := func(x []byte) (any, bool) {
		d := json.NewDecoder(bytes.NewReader(x))
		d.UseNumber()
		var v any
		if d.Decode(&v) != nil {
			return nil, false
		}
		return v, true
	}
	va, ok1 := dec(a)
	vb, ok2 := dec(b)
	return ok1 && ok2 && reflect.DeepEqual(va, vb)
}

// memberOwner names the action type that creates / rewrites a member of the
// chain events (the atoms use distinct prefixes and target members).
func memberOwner(name string, k8s bool) string {
	for _, p := range []struct{ pre, owner string }{
		{"pet_", "flatten"}, {"p_", "json_decode"}, {"re_", "parse_re2"}, {"d_", "decode"}, {"csv_", "decode"}, {"x_", "json_extract"}, {"k8s_", "k8s-multiline"},
	} {
		if strings.HasPrefix(name, p.pre) {
			return p.owner
		}
	}
	switch name {
	case "server", "extra":
		return "json_encode"
	case "log":
		if k8s {
			return "k8s-multiline"
		}
	case "hash":
		return "hash"
	case "summary", "server_copy":
		return "modify"
	case "moved":
		return "move"
	case "file":
		return "add_file_name"
	case "host":
		return "add_host"
	case "masked":
		return "mask"
	case "kind", "msg", "code", "srv":
		return "rename"
	}
	return "other"
}

// chainDiffClass: coarse, seed independent class of a difference: what kind
// (member names / values) and which action's members are hit.
func chainDiffClass(ref, got []byte, k8s bool) string {
	dec := func(x []byte) (map[string]any, bool) {
		d := json.NewDecoder(bytes.NewReader(x))
		d.UseNumber()
		var v any
		if d.Decode(&v) != nil {
			return nil, false
		}
		m, ok := v.(map[string]any)
		return m, ok
	}
	ma, ok1 := dec(ref)
	mb, ok2 := dec(got)
	if !ok1 || !ok2 {
		return "root"
	}
	owners := map[string]bool{}
	names, values := false, false
	for k, va := range ma {
		if vb, ok := mb[k]; !ok {
			names = true
			owners[memberOwner(k, k8s)] = true
		} else if !reflect.DeepEqual(va, vb) {
			values = true
			owners[memberOwner(k, k8s)] = true
		}
	}
	for k := range mb {
		if _, ok := ma[k]; !ok {
			names = true
		}
	}
	var os []string
	for o := range owners {
		os = append(os, o)
	}
	sort.Strings(os)
	cls := "member-values"
	switch {
	case names && values:
		cls = "member-names+values"
	case names:
		cls = "member-names"
	}
	if len(os) == 0 {
		os = []string{"none"}
	}
	return cls + " members-of=" + strings.Join(os, ",")
}

func (rn *runner) runChain(cr *chainRef, cj *chainJob) {
	c := rn.c
	acts := cj.actions()
	events := make([][]byte, len(cj.events.evs))
	for i := range cj.events.evs {
		events[i] = cj.events.evs[i].Raw
	}
	name := "chain:" + cj.label
	wit := func(extra map[string]any) map[string]any {
		w := map[string]any{"chain": cj.label, "actions": acts, "events_in_sequence": len(events), "pool_capacity": 12}
		for k, v := range extra {
			w[k] = v
		}
		return w
	}
	r, out := runChild(chainChildIn(cj.label, acts, cj.k8s, events, nil))
	if r.TimedOut {
		c.Inconclusive("watchdog")
		fmt.Printf("note: %s: watchdog expired\n%s\n", name, core.Trunc(r.Stderr, 1500))
		return
	}
	ref := cr.reference(cj, len(acts))
	if out == nil {
		// the chain died: a defect of one action alone (the step-by-step run dies too) is the main clause's finding
		_, started, n := lastDo(r)
		if !started {
			c.Fatal("chain %s was rejected by a plugin: the chain table must hold accepted configurations only\n%s", cj.label, core.Trunc(tailPanic(r.Stderr), 1500))
			return
		}
		c.Eval(n)
		if !ref.ok {
			c.Count("chains_dying_like_their_steps_alone", 1)
			return
		}
		kind, msg, at := crashClass(r)
		if kind != "panic" && kind != "runtime-fatal" && kind != "fatal-exit" {
			c.Inconclusive("chain-child-died-without-a-go-crash")
			return
		}
		// again, to tell a deterministic death from a flaky one
		r2, out2 := runChild(chainChildIn(cj.label, acts, cj.k8s, events, nil))
		if out2 != nil || r2.TimedOut {
			c.Inconclusive("chain-crash-not-reproduced")
			return
		}
		if poolClassCrash(r.Stderr) {
			rn.notePoolClass("chain clause", cj.label, r.Stderr, wit(nil))
			return
		}
		jj := &job{name: name}
		sig := fmt.Sprintf("plugin=%s crash=%s msg=%s at=%s trigger=chain-only", sigPlugin(jj, r.Stderr, at), kind, msg, at)
		fmt.Printf("finding: %s [chain %s]\n", sig, cj.label)
		c.Violation(sig, fmt.Sprintf("the chain %s dies (%s at %s) on a sequence of events every step of which survives when the actions run one at a time on copies", cj.label, msg, at),
			wit(map[string]any{"stderr": core.Trunc(tailPanic(r.Stderr), 3000)}))
		return
	}
	if out.SetupErr != "" {
		c.Fatal("chain %s was rejected (%s): the chain table must hold accepted configurations only", cj.label, out.SetupErr)
		return
	}
	c.Count("chains_run", 1)
	var entered int
	for _, oc := range out.Outcomes {
		if oc&ocHead != 0 {
			entered++
		}
	}
	c.Eval(entered)
	c.Count("chain_events_entered", int64(entered))
	rn.stats.add("chain", "chainref_entered", int64(entered))
	if !out.Quiesced {
		c.Inconclusive("pipeline-not-quiet-at-end")
		return
	}
	if !ref.ok {
		c.Inconclusive("chain-reference-not-available")
		fmt.Printf("note: %s: no reference: %s\n", name, ref.why)
		return
	}
	realUndef := map[int]bool{}
	realOuts, _ := collectOuts(out, map[int]bool{})
	for _, inv := range out.Invalid {
		if inv.Idx >= 0 && inv.Phase == "immediate" {
			realUndef[inv.Idx] = true
		}
	}
	type diff struct {
		idx       int
		cls       string
		ref, real []byte
	}
	var diffs []diff
	nCompared, nEqual, nUndef, nChanged, nLossy := 0, 0, 0, 0, 0
	for i := range events {
		if ref.undefined[i] {
			nUndef++
			continue
		}
		want, okW := ref.outs[i]
		got, okG := realOuts[i]
		if !okW && !okG {
			continue
		}
		if okW && checkJSON(want) != nil {
			nUndef++
			continue
		}
		nCompared++
		if ref.lossy[i] && !(okW && okG && checkJSON(got) == nil && semEqual(want, got)) {
			nLossy++ // differs, but the reference read other bytes than the chain (invalid UTF-8 re-encoded as U+FFFD)
			continue
		}
		switch {
		case okW && !okG:
			diffs = append(diffs, diff{i, "event-missing", want, nil})
		case !okW && okG:
			diffs = append(diffs, diff{i, "event-extra", nil, got})
		case realUndef[i] || checkJSON(got) != nil:
			tok := "?"
			if err := checkJSON(got); err != nil {
				tok = badToken(got, err.Error())
			}
			diffs = append(diffs, diff{i, "not-valid-json token=" + tok, want, got})
		case semEqual(want, got):
			nEqual++
			if !bytes.Equal(got, events[i]) {
				nChanged++
				if nChanged == 7 && len(cj.label)%5 == 0 {
					c.Sample(map[string]any{"chain": cj.label, "event": core.Trunc(evStr(events[i]), 400), "chain_output_equal_to_step_by_step_reference": core.Trunc(evStr(got), 500)})
				}
			}
			c.NontrivialHash("chain", cj.label, cj.events.evs[i].Shape)
		default:
			diffs = append(diffs, diff{i, chainDiffClass(want, got, cj.k8s), want, got})
		}
	}
	c.Count("chain_outputs_compared_with_reference", int64(nCompared))
	c.Count("chain_outputs_equal_to_reference", int64(nEqual))
	c.Count("chain_events_reference_undefined", int64(nUndef))
	c.Count("chain_outputs_changed_by_the_chain", int64(nChanged))
	c.Count("chain_differences_ignored_lossy_copy_of_invalid_utf8", int64(nLossy))
	rn.stats.add("chain", "chainref_compared", int64(nCompared))
	if os.Getenv("C13_TIMING") != "" {
		fmt.Printf("timing: chainref %s: %d events, compared %d, equal %d, undefined %d, diffs %d, child %.0f ms\n", cj.label, len(events), nCompared, nEqual, nUndef, len(diffs), r.WallS*1000)
	}
	seen := map[string]bool{}
	for _, d := range diffs {
		if seen[d.cls] {
			continue
		}
		seen[d.cls] = true
		// the event alone through a fresh chain: content or history?
		trigger := "history"
		only := []int{d.idx}
		if cj.events.tail >= 0 && d.idx != cj.events.tail {
			only = append(only, cj.events.tail)
		}
		if !cj.k8s {
			if _, o1 := runChild(chainChildIn(cj.label, acts, cj.k8s, events, only)); o1 != nil {
				alone, _ := collectOuts(o1, map[int]bool{})
				g1, ok1 := alone[d.idx]
				switch {
				case d.cls == "event-missing" && !ok1, d.cls == "event-extra" && ok1:
					trigger = "event-alone"
				case ok1 && d.ref != nil && !semEqual(d.ref, g1):
					trigger = "event-alone"
				}
			}
		}
		// the chain is in the witness, not in the signature: one defect shows in many chains
		sig := fmt.Sprintf("plugin=chain output=differs-from-step-by-step-reference diff=%s trigger=%s", d.cls, trigger)
		ev := evStr(events[d.idx])
		fmt.Printf("finding: %s [chain %s]: event %d %s: step by step %s, chain %s\n", sig, cj.label, d.idx, ev, evStr(d.ref), evStr(d.real))
		c.Violation(sig,
			fmt.Sprintf("the chain %s leaves an event that differs from what its actions give one at a time on copies of the event (%s; %d of %d compared events differ)", cj.label, d.cls, len(diffs), nCompared),
			wit(map[string]any{"event": ev, "event_index": d.idx, "step_by_step": evStr(d.ref), "chain_output": evStr(d.real), "events_differing": len(diffs)}))
	}
}
