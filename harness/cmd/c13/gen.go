package main

// Hostile event generator. Events are raw JSON texts (always accepted by
// encoding/json.Valid, so an invalid document at the output is never the
// generator's fault) built around the field names the tested configuration
// refers to: each referenced field absent / null / bool / tiny, huge, float
// numbers / empty, 1-2 byte, long strings / escapes / multi-byte runes /
// invalid UTF-8 / objects / arrays / arrays of objects, a plugin-specific
// dictionary of "interesting" strings (and damaged copies of them), unrelated
// fields of any nesting, non-object roots.

import (
	"fmt"
	"math/rand"
	"sort"
	"strings"
)

// value classes of a referenced field
const (
	vcAbsent = iota
	vcNull
	vcBool
	vcIntTiny
	vcInt
	vcIntHuge
	vcFloat
	vcStrEmpty
	vcStrShort
	vcStrDict
	vcStrDictDamaged
	vcStrLong
	vcStrEsc
	vcStrMulti
	vcStrBadUTF8
	vcObj
	vcArr
	vcArrObj
	vcMidNonObject // a prefix of the path is not an object
	vcCount
)

var vcNames = [...]string{"absent", "null", "bool", "int-tiny", "int", "int-huge", "float", "str-empty", "str-short",
	"str-dict", "str-dict-damaged", "str-long", "str-escapes", "str-multibyte", "str-bad-utf8", "object", "array", "array-of-objects", "mid-non-object"}

// quote renders bytes as a JSON string without touching bytes >= 0x80 (so
// invalid UTF-8 stays invalid - encoding/json would replace it).
func quote(s string) string {
	var b strings.Builder
	b.Grow(len(s) + 2)
	b.WriteByte('"')
	for i := 0; i < len(s); i++ {
		c := s[i]
		switch {
		case c == '"':
			b.WriteString(`\"`)
		case c == '\\':
			b.WriteString(`\\`)
		case c == '\n':
			b.WriteString(`\n`)
		case c == '\t':
			b.WriteString(`\t`)
		case c == '\r':
			b.WriteString(`\r`)
		case c < 0x20:
			fmt.Fprintf(&b, `\u%04x`, c)
		default:
			b.WriteByte(c)
		}
	}
	b.WriteByte('"')
	return b.String()
}

// fixed representatives of every class: used by the directed part (same for
// every seed) and as a pool by the random part.
var (
	repBool     = []string{"true", "false"}
	repIntTiny  = []string{"0", "7", "42", "-1"}
	repInt      = []string{"123", "1700000000", "-2147483649", "9223372036854775807"}
	repIntHuge  = []string{"123456789012345678901234567890", "-9223372036854775809", "18446744073709551616"}
	repFloat    = []string{"3.14", "-0.0", "1e308", "1E400", "1e-400", "0.000000001", "1700000000.123456789"}
	repStrShort = []string{`"a"`, `"ab"`, `" "`, `"\n"`, `"\\"`, `"\""`, `"0"`, `"é"`}
	repStrEsc   = []string{
		`"q\"uo\\te\/s"`, `"tab\there\nnl\r\b\f"`, `"nul\u0000x\u001f"`, `"ls ps "`,
		`"\ud83d\ude00 pair"`, `"lone \ud800 surrogate"`, `"ééé"`, `"ends with backslash \\"`, `"<&>"`, `"abc\\n"`, `"\\x41\\u0041\\101"`,
	}
	repStrMulti = []string{"\"\u212a\"", "\"10 k\u2126\"", "\"\u212b mid \u1e9e\"", "\"\u0130stanbul \u0130\"", "\"\u023a\u023e\"", "\"ends with \u212a\u2126\u212b\u1e9e\u0130\"",
		`"Привет, мир"`, `"日本語のログ"`, `"😀😀"`, `"é combining é"`, `"ǅ İ ß ſ K"`, `"ab cd"`}
	repStrBad = []string{"\"bad \xff\xfe utf8\"", "\"\xc3\"", "\"trunc \xe2\x82\"", "\"\xf0\x9f\x98\"", "\"\xed\xa0\x80 surrogate bytes\"", "\"ok \x80 cont\""}
	repObj    = []string{`{}`, `{"a":1}`, `{"type":"cat","paws":4,"sub":{"x":[1,{"y":null}]}}`, `{"":"empty key","a.b":"dotted","a":{"b":"nested"}}`,
		`{"k":"v","k":"dup"}`, `{"q\"k":"esc key","é":1,"nl\nkey":2}`}
	repArr    = []string{`[]`, `[1,2,3]`, `["a","b"]`, `[1,"a",null,true,{"a":1},[2]]`, `[[],[[]],[[[1]]]]`, `[null]`}
	repArrObj = []string{`[{"message":"go"},{"message":"rust"},{"message":"c++"}]`, `[{}]`, `[{"a":{"b":[{"c":1}]}},{"log":"x","level":"info"}]`, `[{"a":1},2,{"b":"é"}]`}
)

func deepObj(depth int) string {
	return strings.Repeat(`{"d":`, depth) + `1` + strings.Repeat(`}`, depth)
}

func deepArr(depth int) string {
	return strings.Repeat(`[`, depth) + strings.Repeat(`]`, depth)
}

func longStr(rng *rand.Rand, n int) string {
	var b strings.Builder
	words := []string{"lorem", "ipsum", "4111 1111 1111 1111", "user=alice", "пароль", "\\n", "\\\"", "{\\\"a\\\":1}", "10.0.0.1", "2024-01-02T03:04:05Z", "\\u00e9", "😀"}
	b.WriteByte('"')
	for b.Len() < n {
		b.WriteString(words[rng.Intn(len(words))])
		b.WriteByte(' ')
	}
	b.WriteByte('"')
	return b.String()
}

var caseLen = []string{"\u212a", "\u2126", "\u212b", "\u1e9e", "\u0130", "\u023a", "\u023e"}

// damage returns a damaged copy of a dictionary string: cut, doubled, a byte
// removed / replaced / inserted - the shapes that break index arithmetic.
func damage(rng *rand.Rand, s string) string {
	if s == "" {
		return s
	}
	switch rng.Intn(9) {
	case 7: // a rune whose case folding changes its length, at the end
		return s + caseLen[rng.Intn(len(caseLen))]
	case 8: // ... at the start
		return caseLen[rng.Intn(len(caseLen))] + s
	case 0:
		return s[:rng.Intn(len(s))]
	case 1:
		return s[rng.Intn(len(s)):]
	case 2:
		return s + s
	case 3:
		i := rng.Intn(len(s))
		return s[:i] + s[i+1:]
	case 4:
		i := rng.Intn(len(s))
		repl := []string{"\"", "\\", "[", "]", " ", "\n", "\x00", "\xff", "=", ",", ":", "é", "{", "}", "<", ">", "\u212a", "\u2126", "\u0130", "\u023e"}
		return s[:i] + repl[rng.Intn(len(repl))] + s[i+1:]
	case 5:
		i := rng.Intn(len(s) + 1)
		ins := []string{"\"", "\\", "\n", " ", "\t", "😀", "\xc3", "]", "[", "0", "\u212a", "\u2126", "\u212b", "\u1e9e", "\u0130", "\u023a"}
		return s[:i] + ins[rng.Intn(len(ins))] + s[i:]
	default:
		i := rng.Intn(len(s))
		j := i + rng.Intn(len(s)-i)
		return s[:i] + s[j:]
	}
}

// valueOf draws the raw JSON of a value of the class.
func valueOf(rng *rand.Rand, class int, dict []string) string {
	pick := func(p []string) string { return p[rng.Intn(len(p))] }
	switch class {
	case vcNull:
		return "null"
	case vcBool:
		return pick(repBool)
	case vcIntTiny:
		return pick(repIntTiny)
	case vcInt:
		if rng.Intn(2) == 0 {
			return pick(repInt)
		}
		return fmt.Sprint(rng.Int63n(2_000_000_000_000) - 1000)
	case vcIntHuge:
		return pick(repIntHuge)
	case vcFloat:
		return pick(repFloat)
	case vcStrEmpty:
		return `""`
	case vcStrShort:
		return pick(repStrShort)
	case vcStrDict:
		if len(dict) > 0 {
			return quote(pick(dict))
		}
		return `"plain text value"`
	case vcStrDictDamaged:
		if len(dict) > 0 {
			return quote(damage(rng, pick(dict)))
		}
		return quote(damage(rng, "plain text value 12345"))
	case vcStrLong:
		switch rng.Intn(8) {
		case 0:
			return longStr(rng, 70_000)
		case 1:
			return `"` + strings.Repeat("a", 1023+rng.Intn(3)) + `"`
		default:
			return longStr(rng, 200+rng.Intn(4000))
		}
	case vcStrEsc:
		return pick(repStrEsc)
	case vcStrMulti:
		return pick(repStrMulti)
	case vcStrBadUTF8:
		return pick(repStrBad)
	case vcObj:
		switch rng.Intn(10) {
		case 0:
			return deepObj(40)
		case 1:
			if len(dict) > 0 { // an object carrying dictionary strings
				return `{"log":` + quote(pick(dict)) + `,"message":` + quote(pick(dict)) + `}`
			}
		}
		return pick(repObj)
	case vcArr:
		if rng.Intn(10) == 0 {
			return deepArr(40)
		}
		return pick(repArr)
	case vcArrObj:
		if len(dict) > 0 && rng.Intn(3) == 0 {
			return `[{"log":` + quote(pick(dict)) + `},{"message":` + quote(pick(dict)) + `,"level":"error"}]`
		}
		return pick(repArrObj)
	}
	return "null"
}

// ---- a tiny ordered JSON object builder ----

type jnode struct {
	raw  string // leaf when kids == nil
	keys []string
	kids map[string]*jnode
}

func newObj() *jnode { return &jnode{kids: map[string]*jnode{}} }

func (n *jnode) set(path []string, raw string) {
	cur := n
	for i, k := range path {
		if cur.kids == nil { // a leaf on the way: replace by an object
			cur.kids = map[string]*jnode{}
			cur.raw = ""
		}
		next, ok := cur.kids[k]
		if !ok {
			next = &jnode{}
			cur.kids[k] = next
			cur.keys = append(cur.keys, k)
		}
		if i == len(path)-1 {
			next.raw, next.kids, next.keys = raw, nil, nil
			return
		}
		if next.kids == nil {
			next.kids = map[string]*jnode{}
			next.raw = ""
		}
		cur = next
	}
}

func (n *jnode) render(b *strings.Builder) {
	if n.kids == nil {
		b.WriteString(n.raw)
		return
	}
	b.WriteByte('{')
	for i, k := range n.keys {
		if i > 0 {
			b.WriteByte(',')
		}
		b.WriteString(quote(k))
		b.WriteByte(':')
		n.kids[k].render(b)
	}
	b.WriteByte('}')
}

func (n *jnode) String() string {
	var b strings.Builder
	n.render(&b)
	return b.String()
}

func (n *jnode) shuffle(rng *rand.Rand) {
	rng.Shuffle(len(n.keys), func(i, j int) { n.keys[i], n.keys[j] = n.keys[j], n.keys[i] })
}

// ---- events ----

type genEvent struct {
	Raw   []byte
	Shape string // structural class: root kind + class of every referenced field
}

type evGen struct {
	fields   [][]string // referenced field paths
	dict     []string   // interesting strings for the referenced fields
	rootDict []string   // whole events (raw JSON) the plugin reacts to
	dictBias int        // percent of referenced-field values drawn from the dictionary
	benign   map[string]string
}

func pathName(p []string) string { return strings.Join(p, ".") }

// base is the benign event every directed case is a one-field variation of.
func (g *evGen) base() *jnode {
	o := newObj()
	o.set([]string{"level"}, `"info"`)
	o.set([]string{"message"}, `"request served"`)
	o.set([]string{"ts"}, `"2024-03-01T10:49:28.263317941Z"`)
	o.set([]string{"service"}, `"registration"`)
	return o
}

func (g *evGen) benignValue(p []string) string {
	if v, ok := g.benign[pathName(p)]; ok {
		return v
	}
	if len(g.dict) > 0 {
		return quote(g.dict[0])
	}
	return `"value"`
}

// directed returns the deterministic part: for each referenced field each
// class representative alone on the benign base (other referenced fields
// benign), every dictionary string on every field, the root dictionary and
// the non-object roots.
func (g *evGen) directed() []genEvent {
	var out []genEvent
	add := func(raw, shape string) { out = append(out, genEvent{Raw: []byte(raw), Shape: shape}) }
	mk := func(fi int, raw string, shape string) {
		o := g.base()
		for j, f := range g.fields {
			if j != fi {
				o.set(f, g.benignValue(f))
			}
		}
		if raw != "" {
			o.set(g.fields[fi], raw)
		}
		add(o.String(), shape)
	}
	reps := []struct {
		class int
		vals  []string
	}{
		{vcNull, []string{"null"}}, {vcBool, repBool}, {vcIntTiny, repIntTiny}, {vcInt, repInt}, {vcIntHuge, repIntHuge}, {vcFloat, repFloat},
		{vcStrEmpty, []string{`""`}}, {vcStrShort, repStrShort}, {vcStrEsc, repStrEsc}, {vcStrMulti, repStrMulti}, {vcStrBadUTF8, repStrBad},
		{vcObj, append(append([]string{}, repObj...), deepObj(40))}, {vcArr, append(append([]string{}, repArr...), deepArr(40))}, {vcArrObj, repArrObj},
		{vcStrLong, []string{`"` + strings.Repeat("x", 1024) + `"`, `"` + strings.Repeat("long line with 4111111111111111 and \\\"quotes\\\" ", 400) + `"`}},
	}
	for fi, f := range g.fields {
		mk(fi, "", "obj "+pathName(f)+"=absent")
		for _, r := range reps {
			for _, v := range r.vals {
				mk(fi, v, "obj "+pathName(f)+"="+vcNames[r.class])
			}
		}
		for _, d := range g.dict {
			mk(fi, quote(d), "obj "+pathName(f)+"=str-dict")
		}
		// every truncation of every dictionary line (a log line cut off at any
		// byte: inside the pid#tid token, right behind the connection id, inside
		// a quoted value ...), every seventh one also with a trailing newline
		budget := 2500
		for _, d := range g.dict {
			if len(d) < 24 || len(d) > 400 {
				continue
			}
			for cut := 1; cut < len(d) && budget > 0; cut++ {
				if cut > 120 && cut%5 != 0 { // every cut in the head of a line (where the formats keep their structure), every fifth one further on
					continue
				}
				budget--
				mk(fi, quote(d[:cut]), "obj "+pathName(f)+"=str-dict-truncated")
				if cut%7 == 0 {
					mk(fi, quote(d[:cut]+"\n"), "obj "+pathName(f)+"=str-dict-truncated")
				}
			}
		}
		// the field twice (duplicate keys), and the dotted path as one literal key
		if len(f) == 1 {
			o := g.base().String()
			add(o[:len(o)-1]+","+quote(f[0])+":"+g.benignValue(f)+","+quote(f[0])+`:"second \"dup\""}`, "obj "+pathName(f)+"=duplicate-key")
			add(`{`+quote(f[0])+`:{"x":1},`+quote(f[0])+`:null,"level":"info"}`, "obj "+pathName(f)+"=duplicate-key")
		} else {
			o := g.base()
			o.set([]string{pathName(f)}, g.benignValue(f))
			add(o.String(), "obj "+pathName(f)+"=literal-dotted-key")
		}
		if len(f) > 1 { // a prefix of the path that is not an object
			for _, v := range []string{`"str"`, `[{"x":1}]`, `null`, `7`} {
				o := g.base()
				o.set(f[:len(f)-1], v)
				add(o.String(), "obj "+pathName(f)+"=mid-non-object")
			}
		}
	}
	if len(g.fields) == 0 {
		add(g.base().String(), "obj")
	}
	for _, r := range g.rootDict {
		add(r, "root-dict")
	}
	for _, r := range []string{`{}`, `[]`, `[{"a":1},{"b":{"c":2}}]`, `[1,"a",null]`, `"just a string"`, `12345`, `null`, `true`, `{"":""}`, deepObj(60), `{"a":` + deepArr(60) + `}`} {
		add(r, "root "+rootKind(r))
	}
	return out
}

func rootKind(r string) string {
	switch {
	case strings.HasPrefix(r, "{"):
		return "object"
	case strings.HasPrefix(r, "["):
		return "array"
	case strings.HasPrefix(r, `"`):
		return "string"
	}
	return "scalar"
}

var unrelated = []struct{ k, v string }{
	{"stream", `"stdout"`}, {"stream", `"stderr"`}, {"host", `"node-1"`}, {"trace_id", `"4bf92f3577b34da6a3ce929d0e0e4736"`},
	{"k8s_pod", `"from-content"`}, {"extra", `{"n":{"m":[1,2,{"z":"deep"}]}}`}, {"tags", `["a","b"]`}, {"n", `12`}, {"empty", `""`},
	{"unicode", `"Привет 😀"`}, {"time", `"2024-03-01T10:49:28Z"`}, {"level", `"error"`}, {"message", `"panic: something"`}, {"", `"empty key"`},
	{"bad", "\"\xff\""}, {"esc\"key", `"v"`}, {"card", `"4111 1111 1111 1111"`},
}

// random draws one event.
func (g *evGen) random(rng *rand.Rand) genEvent {
	// whole-event dictionary / non-object roots
	if len(g.rootDict) > 0 && rng.Intn(100) < 35 {
		r := g.rootDict[rng.Intn(len(g.rootDict))]
		if rng.Intn(5) == 0 {
			if d := damage(rng, r); jsonValid(d) {
				return genEvent{Raw: []byte(d), Shape: "root-dict-damaged"}
			}
		}
		return genEvent{Raw: []byte(r), Shape: "root-dict"}
	}
	if rng.Intn(100) < 3 {
		roots := []string{`[]`, `[{"a":1},{"log":"x"}]`, `"s"`, `1`, `null`, `false`, `{}`, `[[{"a":1}]]`}
		r := roots[rng.Intn(len(roots))]
		return genEvent{Raw: []byte(r), Shape: "root " + rootKind(r)}
	}
	o := newObj()
	if rng.Intn(4) != 0 {
		o = g.base()
	}
	if rng.Intn(100) == 0 { // a wide object
		for k := 0; k < 300; k++ {
			o.set([]string{fmt.Sprintf("k%d", k)}, fmt.Sprint(k))
		}
	}
	for n := rng.Intn(4); n > 0; n-- {
		u := unrelated[rng.Intn(len(unrelated))]
		o.set([]string{u.k}, u.v)
	}
	shape := make([]string, 0, len(g.fields))
	for _, f := range g.fields {
		class := g.drawClass(rng)
		if class == vcMidNonObject && len(f) < 2 {
			class = vcStrDict
		}
		switch class {
		case vcAbsent:
		case vcMidNonObject:
			o.set(f[:1+rng.Intn(len(f)-1)], valueOf(rng, []int{vcStrShort, vcArrObj, vcNull, vcInt}[rng.Intn(4)], g.dict))
		default:
			o.set(f, valueOf(rng, class, g.dict))
		}
		shape = append(shape, pathName(f)+"="+vcNames[class])
	}
	o.shuffle(rng)
	sort.Strings(shape)
	return genEvent{Raw: []byte(o.String()), Shape: "obj " + strings.Join(shape, " ")}
}

func (g *evGen) drawClass(rng *rand.Rand) int {
	if rng.Intn(100) < g.dictBias {
		if rng.Intn(4) == 0 {
			return vcStrDictDamaged
		}
		return vcStrDict
	}
	return rng.Intn(vcCount)
}
