// C13 - no event content can crash or corrupt an action plugin.
//
// For each of the 27 registered action plugins and the k8s multiline action:
// a table of configurations accepted by the plugin's own validation, each run
// in a child process inside a real pipeline (fd.SetupActions, real processor,
// Propagate / Spawn / time-out delivery are the pipeline's own) against a
// hostile event stream. Oracle: the process must survive every event, and
// every event that reaches the output must encode to a valid JSON document
// that re-parses (encoding/json), at once and again when a batching output
// would send it.
//
// Further clauses: several processors against one (par.go), chains against a
// step-by-step reference (chainref.go), node-pool boundaries of the event's
// JSON tree (pool.go).
package main

import (
	"encoding/json"
	"fmt"
	"math/rand"
	"os"
	"runtime"
	"sort"
	"strconv"
	"strings"
	"sync"
	"time"

	"verifharness/core"
)

type job struct {
	ps     *pluginSpec
	cfg    cfgSpec
	events []genEvent
	// load regenerates the event list of the configuration (deterministic);
	// the list is held only while the job runs, not for the whole run
	load   func() []genEvent
	pauses []int
	name   string // plugin name used in signatures
	nDir   int    // the first nDir events are the directed (seed independent) part
	idxs   []int  // the events this part feeds (indices into events)
	shared *cfgShared
	random bool // a part holding random events only: waits for the directed parts
	part   int
}

// cfgShared is what the parts of one configuration share: which crash /
// invalid-output kinds have been classified already.
type cfgShared struct {
	mu          sync.Mutex
	seenCrash   map[string]int
	seenInvalid map[string]int
	directed    sync.WaitGroup // the parts holding the directed events
	counted     bool
}

// once reports whether the caller is the one that should classify this
// observation (directed part: once per kind and event shape; random part:
// only kinds nobody has seen), within a budget.
func (sh *cfgShared) once(seen map[string]int, key, dkey string, directed bool, budget int) bool {
	sh.mu.Lock()
	defer sh.mu.Unlock()
	seen[key]++
	if dkey != key {
		seen[dkey]++
	}
	if (directed && seen[dkey] > 1 && dkey != key) || (!directed && seen[key] > 1) || seen["#minimized"] >= budget {
		return false
	}
	seen["#minimized"]++
	return true
}

type jobStats struct {
	mu       sync.Mutex
	observed map[string]map[string]int64 // plugin -> class -> count
}

func (s *jobStats) add(plugin, class string, n int64) {
	if n == 0 {
		return
	}
	s.mu.Lock()
	if s.observed[plugin] == nil {
		s.observed[plugin] = map[string]int64{}
	}
	s.observed[plugin][class] += n
	s.mu.Unlock()
}

func (s *jobStats) max(plugin, class string, n int64) {
	s.mu.Lock()
	if s.observed[plugin] == nil {
		s.observed[plugin] = map[string]int64{}
	}
	if n > s.observed[plugin][class] {
		s.observed[plugin][class] = n
	}
	s.mu.Unlock()
}

func jsonValid(s string) bool { return json.Valid([]byte(s)) }

func splitPaths(fs []string) [][]string {
	out := make([][]string, 0, len(fs))
	for _, f := range fs {
		out = append(out, strings.Split(f, "."))
	}
	return out
}

func (j *job) childIn(only []int) childIn {
	in := childIn{Label: j.name + "/" + j.cfg.Label, Settings: j.cfg.Settings, Only: only, DeferK: 5}
	for _, a := range j.cfg.Actions {
		in.Actions = append(in.Actions, json.RawMessage(a))
	}
	in.Events = make([][]byte, len(j.events))
	for i := range j.events {
		in.Events[i] = j.events[i].Raw
	}
	if j.cfg.Stateful {
		in.Settings.EventTimeoutMs = 60
		in.Pauses = j.pauses
	}
	if j.cfg.Settings.K8s {
		in.Meta = k8sItem
	}
	in.Settings.Capacity = 12
	return in
}

var childOpt = core.ChildOpt{Timeout: 6 * time.Minute, GOMAXPROCS: 2, Env: []string{"LOG_LEVEL=fatal"}}

func runChild(in childIn) (*core.ChildResult, *childOut) {
	r := core.RunChild("pipe", in, childOpt)
	if !r.Completed {
		return r, nil
	}
	var out childOut
	if err := json.Unmarshal(r.Out, &out); err != nil {
		return r, nil
	}
	return r, &out
}

// lastDo returns the index of the last event the head probe logged, whether
// the pipeline had started, and the number of events that entered the action.
func lastDo(r *core.ChildResult) (idx int, started bool, n int) {
	idx = -1
	for _, l := range r.Log {
		var c clog
		if json.Unmarshal(l, &c) != nil {
			continue
		}
		switch c.T {
		case "started":
			started = true
		case "do":
			idx = c.I
			n++
		}
	}
	return
}

// crashClass classifies the death of a child: (kind, normalized message, site).
func crashClass(r *core.ChildResult) (kind, msg, at string) {
	m, fn := core.PanicFunc(r.Stderr)
	if strings.HasPrefix(m, "panic: ") || strings.HasPrefix(m, "fatal error: ") {
		kind = "panic"
		if strings.HasPrefix(m, "fatal error: ") {
			kind = "runtime-fatal"
		}
		m = strings.TrimPrefix(strings.TrimPrefix(m, "panic: "), "fatal error: ")
		// zap's Panic re-panics with the message, which may carry event content
		if i := strings.Index(m, " [recovered]"); i > 0 {
			m = m[:i]
		}
		return kind, normMsg(m), fn
	}
	// logger.Fatal: the last fatal entry of the JSON log
	lines := strings.Split(r.Stderr, "\n")
	for i := len(lines) - 1; i >= 0; i-- {
		if !isFatalLine(lines[i]) {
			continue
		}
		var e struct {
			Level   string `json:"level"`
			Message string `json:"message"`
			Caller  string `json:"caller"`
		}
		if json.Unmarshal([]byte(lines[i]), &e) == nil {
			if j := strings.LastIndex(e.Caller, ":"); j > 0 {
				e.Caller = e.Caller[:j]
			}
			return "fatal-exit", normMsg(e.Message), e.Caller
		}
		return "fatal-exit", normMsg(lines[i]), ""
	}
	if r.Signal != "" {
		return "signal", r.Signal, ""
	}
	return "exit", fmt.Sprintf("exit code %d", r.ExitCode), ""
}

// normMsg keeps the constant part of a message: quoted content (event data)
// removed, text after the first ": " dropped unless it is a Go runtime error,
// digits folded.
func normMsg(m string) string {
	m = strings.TrimSpace(m)
	if i := strings.IndexAny(m, "\n"); i >= 0 {
		m = m[:i]
	}
	if a, b := strings.Index(m, "\""), strings.LastIndex(m, "\""); a >= 0 && b > a {
		m = m[:a] + "<...>" + m[b+1:]
	}
	if !strings.HasPrefix(m, "runtime error: ") {
		if i := strings.Index(m, ": "); i > 8 {
			m = m[:i]
		}
	}
	return strings.TrimSpace(foldDigits(m))
}

// foldDigits replaces numbers by N (indices, lengths, addresses differ from
// input to input); digits inside words (k8s, UTF-8) stay.
func foldDigits(m string) string {
	var b strings.Builder
	isLetter := func(c byte) bool { return c >= 'a' && c <= 'z' || c >= 'A' && c <= 'Z' }
	for i := 0; i < len(m); {
		c := m[i]
		if c < '0' || c > '9' {
			b.WriteByte(c)
			i++
			continue
		}
		j := i
		for j < len(m) && m[j] >= '0' && m[j] <= '9' {
			j++
		}
		inWord := i > 0 && (isLetter(m[i-1]) || (m[i-1] == '-' && i > 1 && isLetter(m[i-2])))
		if inWord {
			b.WriteString(m[i:j])
		} else {
			b.WriteByte('N')
		}
		i = j
	}
	return core.Trunc(b.String(), 160)
}

// normJSONErr classifies a syntax error of encoding/json without positions
// and without the offending byte's value (only its class).
func normJSONErr(e string) string {
	if i := strings.Index(e, "invalid character '"); i >= 0 {
		rest := e[i+len("invalid character '"):]
		if j := strings.Index(rest, "' "); j >= 0 {
			ch := rest[:j]
			cls := "punct"
			switch {
			case len(ch) == 1 && ch[0] >= '0' && ch[0] <= '9':
				cls = "digit"
			case len(ch) == 1 && (ch[0] >= 'a' && ch[0] <= 'z' || ch[0] >= 'A' && ch[0] <= 'Z'):
				cls = "letter"
			case strings.HasPrefix(ch, `\`):
				cls = "control"
			case len(ch) > 1:
				cls = "non-ascii"
			case ch == `"` || ch == "{" || ch == "}" || ch == "[" || ch == "]" || ch == "," || ch == ":":
				cls = "'" + ch + "'"
			}
			return e[:i] + "invalid character <" + cls + "> " + rest[j+2:]
		}
	}
	return core.NormalizeMsg(e)
}

// badToken classifies what is wrong with an invalid document: the kind of
// token at the first syntax error (reference: encoding/json's error offset).
func badToken(out []byte, errText string) string {
	var v any
	err := json.Unmarshal(out, &v)
	se, ok := err.(*json.SyntaxError)
	if !ok || se.Offset <= 0 || int(se.Offset) > len(out) {
		return "other(" + normJSONErr(errText) + ")"
	}
	off := int(se.Offset) - 1 // the offending byte
	inStr, esc := false, false
	for i := 0; i < off; i++ {
		switch c := out[i]; {
		case esc:
			esc = false
		case inStr && c == '\\':
			esc = true
		case c == '"':
			inStr = !inStr
		}
	}
	switch {
	case inStr && esc:
		return "string-invalid-escape"
	case inStr && strings.Contains(se.Error(), "escape"):
		return "string-invalid-escape"
	case inStr && out[off] < 0x20:
		return "string-raw-control-character"
	case inStr:
		return "string"
	}
	isNum := func(c byte) bool {
		return c >= '0' && c <= '9' || c == '+' || c == '-' || c == '.' || c == 'e' || c == 'E'
	}
	if isNum(out[off]) || (off > 0 && isNum(out[off-1]) && !strings.Contains(se.Error(), "after top-level")) {
		return "number"
	}
	if out[off] < 0x20 {
		return "control-character-between-tokens"
	}
	return "structure(" + normJSONErr(se.Error()) + ")"
}

// sigPlugin names the plugin a crash belongs to: the first plugin package on
// the panicking stack (so a chain reports the plugin, not the chain), else
// the job's name.
func sigPlugin(j *job, stderr, at string) string {
	pick := func(path string) string {
		for _, pre := range []string{"/repo/plugin/action/", "plugin/action/"} {
			if i := strings.Index(path, pre); i >= 0 {
				rest := path[i+len(pre):]
				if k := strings.IndexAny(rest, "/."); k > 0 {
					return rest[:k]
				}
			}
		}
		if strings.Contains(path, "plugin/input/k8s") || strings.HasPrefix(path, "k8s/") {
			return "k8s-multiline"
		}
		return ""
	}
	if p := pick(at); p != "" {
		return p
	}
	st := tailPanic(stderr)
	if i := strings.Index(st, "\n\ngoroutine "); i >= 0 { // first goroutine = the panicking one
		if k := strings.Index(st[i+2:], "\n\n"); k >= 0 {
			st = st[:i+2+k]
		}
	}
	for _, l := range strings.Split(st, "\n") {
		l = strings.TrimSpace(l)
		if strings.HasPrefix(l, "/repo/plugin/") {
			if p := pick(l); p != "" {
				return p
			}
		}
	}
	return j.name
}

type runner struct {
	c     *core.Ctx
	stats *jobStats
	pool  *poolAgg // node-pool boundary family (pool.go)
}

func (rn *runner) witness(j *job, extra map[string]any) map[string]any {
	w := map[string]any{"plugin": j.name, "config": j.cfg.Label, "actions": j.cfg.Actions, "settings": j.cfg.Settings}
	for k, v := range extra {
		w[k] = v
	}
	return w
}

func evStr(b []byte) string { return strconv.QuoteToASCII(core.Trunc(string(b), 1500)) }

// crashesAlone re-runs one event alone in a fresh child.
func (rn *runner) crashesAlone(j *job, raw []byte) (*core.ChildResult, bool) {
	jj := *j
	jj.events = []genEvent{{Raw: raw}}
	jj.pauses = []int{0}
	in := jj.childIn(nil)
	r, _ := runChild(in)
	_, started, _ := lastDo(r)
	return r, r.Crashed() && started
}

func (rn *runner) invalidAlone(j *job, raw []byte) (*invalidRec, bool) {
	jj := *j
	jj.events = []genEvent{{Raw: raw}}
	jj.pauses = []int{0}
	_, out := runChild(jj.childIn(nil))
	if out != nil && len(out.Invalid) > 0 {
		return &out.Invalid[0], true
	}
	return nil, false
}

func (rn *runner) handleCrash(j *job, r *core.ChildResult, order []int, start, pos int, seen map[string]int) {
	c := rn.c
	kind, msg, at := crashClass(r)
	idx := order[pos]
	raw := j.events[idx].Raw
	// the directed part classifies every (crash, event shape) once; the random
	// part only adds crashes of a kind not seen in this job before
	key := kind + "|" + msg + "|" + at
	dkey := key
	if idx < j.nDir {
		dkey = key + "|" + j.events[idx].Shape
	}
	if !j.shared.once(seen, key, dkey, idx < j.nDir, 60) {
		c.Count("crash_repeats_not_minimized", 1)
		return
	}
	r2, alone := rn.crashesAlone(j, raw)
	if alone && poolClassCrash(r2.Stderr) {
		// the node-pool class (pool.go) has one signature for the whole run, whoever meets it
		rn.notePoolClass("main clause", j.name+"/"+j.cfg.Label, r2.Stderr, rn.witness(j, map[string]any{"event": evStr(raw)}))
		return
	}
	if alone {
		k2, m2, a2 := crashClass(r2)
		if k2 != kind || m2 != msg || a2 != at {
			kind, msg, at = k2, m2, a2 // the single event's own crash is the witness
		}
		min := minimize(raw, func(b []byte) bool {
			rr, ok := rn.crashesAlone(j, b)
			if !ok {
				return false
			}
			k3, m3, a3 := crashClass(rr)
			return k3 == kind && m3 == msg && a3 == at
		})
		sig := fmt.Sprintf("plugin=%s crash=%s msg=%s at=%s trigger=%s", sigPlugin(j, r2.Stderr, at), kind, msg, at, triggerShape(min))
		fmt.Printf("finding: %s [config %s]\n", sig, j.cfg.Label)
		c.Violation(sig,
			fmt.Sprintf("%s (config %q) dies on one event: %s at %s; minimal event %s", j.name, j.cfg.Label, msg, at, evStr(min)),
			rn.witness(j, map[string]any{"event": evStr(raw), "minimal_event": evStr(min), "minimal_event_raw": min, "stderr": core.Trunc(tailPanic(r2.Stderr), 3000)}))
		c.Count("crashes_confirmed_alone", 1)
		return
	}
	// not alone: the same prefix again
	jj := *j
	// the chunk that died, not the whole list: earlier lethal events ended earlier chunks
	in := jj.childIn(order[start : pos+1])
	r3, _ := runChild(in)
	if r3.Crashed() && poolClassCrash(r3.Stderr) {
		rn.notePoolClass("main clause (history)", j.name+"/"+j.cfg.Label, r3.Stderr, rn.witness(j, map[string]any{"last_event": evStr(raw), "sequence_length": pos + 1 - start}))
		return
	}
	if r3.Crashed() {
		k3, m3, a3 := crashClass(r3)
		if k3 == kind && m3 == msg && a3 == at {
			var hist []string
			for _, i := range order[max(start, pos-6) : pos+1] {
				hist = append(hist, evStr(j.events[i].Raw))
			}
			sig := fmt.Sprintf("plugin=%s crash=%s msg=%s at=%s trigger=history", sigPlugin(j, r3.Stderr, at), kind, msg, at)
			fmt.Printf("finding: %s [config %s]\n", sig, j.cfg.Label)
			c.Violation(sig,
				fmt.Sprintf("%s (config %q) dies after a sequence of events (not on the last one alone): %s at %s", j.name, j.cfg.Label, msg, at),
				rn.witness(j, map[string]any{"last_events": hist, "sequence_length": pos + 1 - start, "stderr": core.Trunc(tailPanic(r3.Stderr), 3000)}))
			c.Count("crashes_confirmed_history", 1)
			return
		}
	}
	c.Inconclusive("crash-not-reproduced")
	k3, m3, a3 := crashClass(r3)
	fmt.Printf("note: %s/%s: child died (%s %s at %s) on event %d but neither the event alone nor the prefix reproduced it (prefix run: completed=%v timedout=%v %s %s %s)\n", j.name, j.cfg.Label, kind, msg, at, idx, r3.Completed, r3.TimedOut, k3, m3, a3)
}

func tailPanic(s string) string {
	if i := strings.Index(s, "panic: "); i >= 0 {
		return s[i:]
	}
	if i := strings.Index(s, "fatal error: "); i >= 0 {
		return s[i:]
	}
	if i := strings.LastIndex(s, `"level":"fatal"`); i >= 0 {
		st := strings.LastIndex(s[:i], "\n") + 1
		return s[st:]
	}
	return s
}

// loggedInvalid returns the invalid-output records a child wrote to its log
// (they survive a later death of the child).
func loggedInvalid(r *core.ChildResult) []invalidRec {
	var out []invalidRec
	for _, l := range r.Log {
		var c clog
		if json.Unmarshal(l, &c) == nil && c.T == "invalid" && c.Inv != nil {
			out = append(out, *c.Inv)
		}
	}
	return out
}

func (rn *runner) handleInvalid(j *job, recs []invalidRec, order []int, seen map[string]int) {
	c := rn.c
	for _, rec := range recs {
		nerr := rec.Token
		if rec.Idx < 0 || rec.Idx >= len(j.events) {
			c.Inconclusive("invalid-output-without-event")
			continue
		}
		raw := j.events[rec.Idx].Raw
		key := rec.Phase + "|" + rec.Kind + "|" + nerr
		dkey := key
		if rec.Idx < j.nDir {
			dkey = key + "|" + j.events[rec.Idx].Shape
		}
		if !j.shared.once(seen, key, dkey, rec.Idx < j.nDir, 40) {
			c.Count("invalid_output_repeats_not_minimized", 1)
			continue
		}
		if rec2, ok := rn.invalidAlone(j, raw); ok && rec2.Token == nerr {
			min := minimize(raw, func(b []byte) bool {
				r3, ok := rn.invalidAlone(j, b)
				return ok && r3.Token == nerr
			})
			rec3, _ := rn.invalidAlone(j, min)
			outStr := ""
			if rec3 != nil {
				outStr = evStr(rec3.Out)
			}
			sig := fmt.Sprintf("plugin=%s output=invalid-json phase=%s kind=%s token=%s trigger=%s", j.name, rec.Phase, rec.Kind, nerr, triggerShape(min))
			fmt.Printf("finding: %s [config %s] %s -> %s\n", sig, j.cfg.Label, evStr(min), outStr)
			c.Violation(sig,
				fmt.Sprintf("%s (config %q) turns a valid event into a document that is not valid JSON (%s); minimal event %s -> %s", j.name, j.cfg.Label, nerr, evStr(min), outStr),
				rn.witness(j, map[string]any{"event": evStr(raw), "minimal_event": evStr(min), "minimal_event_raw": min, "output": outStr, "error": rec.Err}))
			c.Count("invalid_outputs_confirmed_alone", 1)
			continue
		}
		// history dependent: the same sequence again
		r2c, _ := runChild(j.childIn(order))
		again := false
		for _, r2 := range loggedInvalid(r2c) {
			if r2.Idx == rec.Idx && r2.Token == nerr {
				again = true
			}
		}
		if again {
			sig := fmt.Sprintf("plugin=%s output=invalid-json phase=%s kind=%s token=%s trigger=history", j.name, rec.Phase, rec.Kind, nerr)
			fmt.Printf("finding: %s [config %s]\n", sig, j.cfg.Label)
			c.Violation(sig,
				fmt.Sprintf("%s (config %q) emits a document that is not valid JSON (%s) after a sequence of events", j.name, j.cfg.Label, nerr),
				rn.witness(j, map[string]any{"event": evStr(raw), "event_index": rec.Idx, "output": evStr(rec.Out), "error": rec.Err}))
			c.Count("invalid_outputs_confirmed_history", 1)
		} else {
			c.Inconclusive("invalid-output-not-reproduced")
		}
	}
}

func (rn *runner) runJob(j *job) {
	c := rn.c
	if j.random {
		j.shared.directed.Wait()
	} else {
		defer j.shared.directed.Done()
	}
	order := j.idxs
	seenCrash := j.shared.seenCrash
	seenInvalid := j.shared.seenInvalid
	start := 0
	crashes := 0
	first := true
	for start < len(order) {
		cur := order[start:]
		r, out := runChild(j.childIn(cur))
		if r.TimedOut {
			c.Inconclusive("watchdog")
			fmt.Printf("note: %s/%s: watchdog expired\n%s\n", j.name, j.cfg.Label, core.Trunc(r.Stderr, 1500))
			return
		}
		if out != nil {
			if out.SetupErr != "" {
				rn.rejected(j, "SetupActions: "+out.SetupErr)
				return
			}
			if first {
				rn.accepted(j)
			}
			rn.account(j, out)
			if os.Getenv("C13_TIMING") != "" {
				fmt.Printf("timing: %s/%s part %d: %d events, started after %d ms, total %d ms, child wall %.0f ms\n", j.name, j.cfg.Label, j.part, len(cur), out.StartedMs, out.TotalMs, r.WallS*1000)
			}
			if len(out.Invalid) > 0 {
				rn.handleInvalid(j, out.Invalid, cur, seenInvalid)
			}
			if !out.Quiesced {
				c.Inconclusive("pipeline-not-quiet-at-end")
				fmt.Printf("note: %s/%s: %d events still in use at the end\n", j.name, j.cfg.Label, out.InUseEnd)
			}
			return
		}
		// the child died
		idx, started, n := lastDo(r)
		if !started {
			kind, msg, at := crashClass(r)
			rn.rejected(j, fmt.Sprintf("Start: %s %s at %s", kind, msg, at))
			if !j.cfg.Variant {
				fmt.Println(core.Trunc(tailPanic(r.Stderr), 1500))
			}
			return
		}
		if first {
			rn.accepted(j)
			first = false
		}
		c.Eval(n)
		c.Count("events_entered_action", int64(n))
		rn.stats.add(j.ps.Name, "entered", int64(n))
		if idx < 0 {
			c.Inconclusive("child-died-before-first-event")
			fmt.Printf("note: %s/%s: child died before any event entered the action\n%s\n", j.name, j.cfg.Label, core.Trunc(tailPanic(r.Stderr), 1500))
			return
		}
		pos := -1
		for k := start; k < len(order); k++ {
			if order[k] == idx {
				pos = k
				break
			}
		}
		if pos < 0 {
			c.Inconclusive("crash-attribution-failed")
			return
		}
		c.Count("child_deaths", 1)
		rn.stats.add(j.ps.Name, "deaths", 1)
		if inv := loggedInvalid(r); len(inv) > 0 {
			c.Count("outputs_invalid", int64(len(inv)))
			rn.handleInvalid(j, inv, order[start:pos+1], seenInvalid)
		}
		rn.handleCrash(j, r, order, start, pos, seenCrash)
		crashes++
		if crashes >= c.N(250, 1500) {
			c.Count("events_skipped_after_many_crashes", int64(len(order)-pos-1))
			return
		}
		start = pos + 1
		first = false
	}
}

func (rn *runner) accepted(j *job) {
	j.shared.mu.Lock()
	defer j.shared.mu.Unlock()
	if !j.shared.counted {
		j.shared.counted = true
		rn.c.Count("configs_accepted", 1)
		rn.stats.add(j.ps.Name, "configs", 1)
	}
}

func (rn *runner) rejected(j *job, why string) {
	if j.part > 0 {
		return // reported by the first part
	}
	c := rn.c
	if j.cfg.Variant {
		c.Count("variant_configs_rejected_by_plugin", 1)
		return
	}
	c.Fatal("hand-written configuration %s/%s was rejected (%s): the table must hold accepted configurations only", j.name, j.cfg.Label, why)
	fmt.Printf("ERROR: %s/%s rejected: %s\n", j.name, j.cfg.Label, why)
}

func (rn *runner) account(j *job, out *childOut) {
	c := rn.c
	p := j.ps.Name
	var nOut, nDrop, nHeld, nChanged, nHead, nRej, nInv int64
	for i, oc := range out.Outcomes {
		if oc == 0 {
			continue
		}
		if oc&ocRejected != 0 {
			nRej++
			continue
		}
		c.Eval(1)
		if oc&ocHead != 0 {
			nHead++
		}
		if oc&ocOutput != 0 {
			nOut++
		}
		if oc&ocDropped != 0 {
			nDrop++
		}
		if oc&ocHeld != 0 {
			nHeld++
		}
		if oc&ocChanged != 0 {
			nChanged++
		}
		if oc&ocInvalid != 0 {
			nInv++
		}
		c.NontrivialHash(p, j.cfg.Label, j.events[i].Shape, strconv.Itoa(int(oc)))
		if i%97 == 3 && oc&ocChanged != 0 {
			c.Sample(map[string]any{"plugin": j.name, "config": j.cfg.Label, "event": core.Trunc(strconv.QuoteToASCII(string(j.events[i].Raw)), 300), "shape": j.events[i].Shape, "outcome": ocString(oc)})
		}
	}
	c.Count("events_entered_action", nHead)
	c.Count("events_reached_output_valid", nOut)
	c.Count("events_dropped_or_collapsed", nDrop)
	c.Count("events_held", nHeld)
	c.Count("events_changed_by_action", nChanged)
	c.Count("events_refused_by_pipeline_decoder", nRej)
	c.Count("outputs_checked", int64(out.Outputs))
	c.Count("outputs_invalid", int64(len(out.Invalid)))
	c.Count("children_at_output", int64(out.Children))
	c.Count("timeout_events_delivered", int64(out.Timeouts))
	c.Count("late_encoding_differs", int64(out.LateDiff))
	c.Count("output_bytes", out.OutBytes)
	rn.stats.add(p, "output", nOut)
	rn.stats.add(p, "dropped", nDrop)
	rn.stats.add(p, "held", nHeld)
	rn.stats.add(p, "changed", nChanged)
	rn.stats.add(p, "timeout", int64(out.Timeouts))
	rn.stats.add(p, "children", int64(out.Children))
	rn.stats.add(p, "entered", nHead)
	rn.stats.add(p, "invalid", nInv)
	rn.stats.add(p, "late_diff", int64(out.LateDiff))
}

func ocString(oc byte) string {
	var s []string
	names := []string{"output", "dropped", "held", "changed", "invalid", "entered", "refused", "children"}
	for i, n := range names {
		if oc&(1<<i) != 0 {
			s = append(s, n)
		}
	}
	return strings.Join(s, "+")
}

// slowStart: hash with the built-in normalizer patterns.
func slowStart(cf cfgSpec) bool {
	for _, a := range cf.Actions {
		if strings.Contains(a, `"normalize"`) && !strings.Contains(a, `"builtin_patterns":"no"`) {
			return true
		}
	}
	return false
}

// badGenerated: event texts of the main clause that encoding/json does not accept.
var badGenerated int

func buildJobs(c *core.Ctx) []*job {
	nRandom := c.N(320, 9000)
	nVariants := c.N(1, 5)
	all := specs()
	var jobs []*job
	for pi := range all {
		ps := &all[pi]
		cfgs := append([]cfgSpec{}, ps.Configs...)
		if !ps.Chain {
			cfgs = append(cfgs, variantsFor(ps, c.Rand("variants/"+ps.Name), nVariants)...)
		}
		for _, cf := range cfgs {
			cf := cf
			nDir := 0
			genEvs := func() ([]genEvent, *rand.Rand) {
				g := &evGen{fields: splitPaths(cf.Fields), dict: ps.Dict, rootDict: ps.RootDict, dictBias: ps.DictBias, benign: ps.Benign}
				var evs []genEvent
				for _, e := range cf.Prologue {
					evs = append(evs, genEvent{Raw: []byte(e), Shape: "prologue"})
				}
				evs = append(evs, g.directed()...)
				nDir = len(evs)
				rng := rand.New(rand.NewSource(c.SubSeed("events/"+ps.Name+"/"+cf.Label, 0)))
				for i := 0; i < nRandom; i++ {
					evs = append(evs, g.random(rng))
				}
				return evs, rng
			}
			// generated once here for the counts, the pauses and the generator's own
			// contract, then dropped: every job regenerates its list when it runs
			evs, rng := genEvs()
			for _, e := range evs {
				if !json.Valid(e.Raw) {
					badGenerated++
					if badGenerated < 5 {
						fmt.Printf("generator bug: %s/%s emits invalid JSON %s\n", ps.Name, cf.Label, evStr(e.Raw))
					}
				}
			}
			nEvs := len(evs)
			evs = nil
			load := func() []genEvent { e, _ := genEvs(); return e }
			name := ps.Name
			if ps.Chain {
				name = "chain:" + cf.Label
			}
			var pauses []int
			if cf.Stateful {
				// time-out windows: after the prologue, a few inside the directed part, then spread over the random part
				if len(cf.Prologue) > 0 {
					pauses = append(pauses, len(cf.Prologue)-1)
				}
				nP := c.N(9, 24)
				if cf.Parts > 1 {
					nP *= cf.Parts / 2
				}
				for k := 1; k <= nP; k++ {
					pauses = append(pauses, nEvs*k/(nP+1)+rng.Intn(7))
				}
			}
			sh := &cfgShared{seenCrash: map[string]int{}, seenInvalid: map[string]int{}}
			mk := func(from, to, part int, random bool) {
				j := &job{ps: ps, cfg: cf, load: load, name: name, nDir: nDir, pauses: pauses, shared: sh, random: random, part: part}
				for i := from; i < to; i++ {
					j.idxs = append(j.idxs, i)
				}
				if !random {
					sh.directed.Add(1)
				}
				jobs = append(jobs, j)
			}
			// configurations on which many events are lethal are fed in several
			// parts (children in parallel); the random parts start after the
			// directed ones so that classification stays seed independent
			parts := cf.Parts
			if parts <= 1 {
				mk(0, nEvs, 0, false)
			} else {
				dParts := (parts + 1) / 2
				for k := 0; k < dParts; k++ {
					mk(nDir*k/dParts, nDir*(k+1)/dParts, k, false)
				}
				nR := nEvs - nDir
				for k := 0; k < parts; k++ {
					mk(nDir+nR*k/parts, nDir+nR*(k+1)/parts, dParts+k, true)
				}
			}
		}
	}
	return jobs
}

func run(c *core.Ctx) {
	c.Assume("the pipeline's JSON decoder (insane-json) is trusted to hand the action the document the generator wrote: the generator only emits texts accepted by encoding/json.Valid, so an invalid document at the output is never input laxity (C12)")
	c.Assume("encoding/json (Valid + Decode with UseNumber) is the reference for 'well-formed JSON that re-parses'; it does not require valid UTF-8 inside strings")
	c.Assume("k8s meta fields (k8s_pod, k8s_namespace, k8s_container, k8s_container_id) come from the file name through the input's meta templates, never from event content: the harness input always supplies them for the k8s multiline action")
	c.SetRule("cases = events; for every (plugin, configuration class) a fixed directed list (each referenced field x each hostile value class alone on a benign event, every dictionary string, non-object roots) followed by seeded random events biased to the referenced field names and to the plugin's dictionary; an evaluated case is an event that entered the tested action in a real pipeline (or was refused nowhere); non-trivial/distinct = (plugin, configuration class, structural shape of the event = root kind + value class of every referenced field, observed outcome set: output/dropped/held/changed/children). Concurrency clause: the same lists once more per configuration through a one-processor and an eight-processor pipeline (eight sources, one feeder each) in one child; distinct = (plugin, configuration, compared or not, processors overlapped inside the action or not). Chain clause: every ordered pair of the actions that store bytes in event.Buf, every other covered stateless action between a Buf writer and json_encode, k8s-multiline in front of json_encode / flatten, a few triples and seeded chains, each over one shared event list through a 12-event pool, compared per event with the step-by-step evaluation; distinct = (chain, event shape) of events equal to the reference. Node-pool boundary family: pipelines X -> Y (X decodes the text of a field into the event's root: json_decode / decode-json with and without prefix; Y adds a field: add_host, set_time, modify, rename, move, flatten) x start size of a root's node pool (16 as cmd/file.d sets it, 128 library default; one child process per job) x the measured lengths the pool takes when it grows x five tails x every member count within 6 of the one that leaves exactly one free node after the pipeline's decode x twelve texts (scalars, containers, not JSON; as a string and as the member itself), each event on a brand-new pool event of a new pipeline and inside a seeded shuffle with fillers and seeded cases through a 4-event pool; distinct = (start size, X, Y, mode, tail, text, pool length before X, room / one node short / exactly full after X, outcome)")
	c.Assume("node-pool boundary family: the length of a root's node pool and the number of nodes in use are unexported; the probes read them through a mirror of insane-json's decoder struct that every child verifies at start against Root.PoolSize and three known node counts. An event whose pool is exactly full after X is run through Y only for a few seeded ordinals per job (on the unchanged tree it kills the process: a death costs a child); the others are discarded behind X and counted. A panic 'index out of range' in insane-json decoder.getNode reached through Node.AddField* has one signature for the whole run")
	c.Assume("concurrency clause: for a plugin whose result does not depend on the clock, on counters shared by streams or on time-outs, the output of an event is a function of the events of its own stream in their order; both phases feed every stream in the same order, so the outputs must be equal as JSON documents (encoding/json with UseNumber; the order of members is not significant: every processor's modify fixes its own order of operations at Start, the syslog / nginx decoders add members in Go map order). Not compared (crash and validity only): set_time, throttle, cardinality, join, join_template, k8s-multiline, parse_es, every hold-capable configuration, modify/trim-filters (its operations read a member another one rewrites)")
	c.Assume("chain clause: the reference for a chain is the composition of its actions run one at a time, each in its own one-action pipeline on the encoded (deep-copied) output of the previous one; events for which some intermediate document is not valid JSON or is refused by the pipeline's decoder have no reference and are skipped; equality is equality of the decoded documents (encoding/json, UseNumber)")
	c.Assume("a configuration that the plugin itself refuses (error from SetupActions, Fatal/panic inside Start before the first event) is discarded; hand-written table entries must all be accepted")

	if c.ReplayArg() != "" {
		fmt.Println("replay: re-running the tier of the recorded witness")
	}
	jobs := buildJobs(c)
	// the generator's own contract
	bad := badGenerated // counted by buildJobs while the lists existed
	if bad > 0 {
		c.Fatal("generator emitted %d texts that encoding/json does not accept", bad)
		return
	}
	// biggest jobs first
	sort.SliceStable(jobs, func(a, b int) bool {
		if jobs[a].random != jobs[b].random {
			return !jobs[a].random
		}
		wa, wb := len(jobs[a].idxs), len(jobs[b].idxs)
		if jobs[a].cfg.Stateful {
			wa *= 3
		}
		if jobs[b].cfg.Stateful {
			wb *= 3
		}
		// hash compiles its built-in patterns for seconds in every child: start those first
		if slowStart(jobs[a].cfg) {
			wa += 1 << 20
		}
		if slowStart(jobs[b].cfg) {
			wb += 1 << 20
		}
		return wa > wb
	})
	rn := &runner{c: c, stats: &jobStats{observed: map[string]map[string]int64{}}, pool: newPoolAgg()}
	workers := runtime.NumCPU()
	if workers > 16 {
		workers = 16
	}
	if v, err := strconv.Atoi(os.Getenv("VERIF_WORKERS")); err == nil && v > 0 {
		workers = v
	}
	only := os.Getenv("C13_ONLY") // debugging aid: plugin name filter
	// the concurrency clause (par.go) and the chain clause (chainref.go) share the workers
	var parJobs []*parJob
	var chainJobs []*chainJob
	var poolJobs []*poolJob
	if os.Getenv("C13_NO_POOL") == "" {
		poolJobs = buildPoolJobs(c)
	}
	for _, pj := range poolJobs {
		for _, e := range pj.cases {
			if !json.Valid(e.Raw) {
				c.Fatal("generator emitted an invalid text for the pool-boundary family: %s", evStr(e.Raw))
				return
			}
		}
	}
	if os.Getenv("C13_NO_PAR") == "" {
		parJobs = buildParJobs(c)
		sort.SliceStable(parJobs, func(a, b int) bool { return parJobs[a].normalize && !parJobs[b].normalize })
	}
	if os.Getenv("C13_NO_CHAINS") == "" {
		chainJobs = buildChainJobs(c)
	}
	if parBadGenerated > 0 { // counted by buildParJobs while the lists existed
		c.Fatal("generator emitted %d invalid texts for the concurrency clause", parBadGenerated)
		return
	}
	for _, cj := range chainJobs {
		for _, e := range cj.events.evs {
			if !json.Valid(e.Raw) {
				c.Fatal("generator emitted an invalid text for the chain clause: %s", evStr(e.Raw))
				return
			}
		}
	}
	cr := &chainRef{memo: map[string]*stageResult{}}
	// one task list for the three clauses. Order: the slow starters (hash compiles
	// its built-in patterns for seconds in every child), the hold-capable
	// concurrency jobs (they wait for time-outs), the main clause in its own order
	// (directed parts before random parts), the other concurrency jobs, the chains.
	var tasks []func()
	mainTask := func(j *job) func() {
		return func() {
			if only != "" && !strings.Contains(j.name+"/"+j.cfg.Label, only) {
				if !j.random {
					j.shared.directed.Done()
				}
				return
			}
			t0 := time.Now()
			if j.load != nil && j.events == nil {
				j.events = j.load()
			}
			rn.runJob(j)
			if j.load != nil {
				j.events = nil
			}
			if d := time.Since(t0); d > 20*time.Second {
				fmt.Printf("note: slow job %s/%s part %d: %.1fs (%d events)\n", j.name, j.cfg.Label, j.part, d.Seconds(), len(j.idxs))
			}
		}
	}
	timed := func(what string, fn func()) func() {
		return func() {
			if only != "" && !strings.Contains(what, only) {
				return
			}
			t0 := time.Now()
			fn()
			if d := time.Since(t0); d > 20*time.Second {
				fmt.Printf("note: slow job %s: %.1fs\n", what, d.Seconds())
			}
		}
	}
	parTask := func(pj *parJob) func() {
		return timed("par "+pj.name+"/"+pj.cfg.Label, func() {
			if pj.load != nil && pj.events == nil {
				pj.events = pj.load()
			}
			rn.runPar(pj)
			if pj.load != nil {
				pj.events = nil
			}
		})
	}
	for _, pj := range parJobs {
		if pj.normalize {
			tasks = append(tasks, parTask(pj))
		}
	}
	for _, j := range jobs { // sorted: the slow starters lead
		if !j.random && slowStart(j.cfg) {
			tasks = append(tasks, mainTask(j))
		}
	}
	for _, pj := range parJobs {
		if !pj.normalize && pj.cfg.Stateful {
			tasks = append(tasks, parTask(pj))
		}
	}
	for _, pj := range poolJobs { // several children each (a death per armed event let through)
		pj := pj
		tasks = append(tasks, timed(pj.label(), func() { rn.runPool(pj) }))
	}
	for _, j := range jobs {
		if !(!j.random && slowStart(j.cfg)) {
			tasks = append(tasks, mainTask(j))
		}
	}
	for _, pj := range parJobs {
		if !pj.normalize && !pj.cfg.Stateful {
			tasks = append(tasks, parTask(pj))
		}
	}
	for _, cj := range chainJobs {
		cj := cj
		tasks = append(tasks, timed("chainref "+cj.label, func() { rn.runChain(cr, cj) }))
	}
	core.ParallelFor(len(tasks), workers, func(i int) { tasks[i]() })
	// the getNode class is reported once per run, whoever saw it
	rn.poolFinish(len(poolJobs) > 0)
	if only == "" && len(poolJobs) > 0 {
		if c.Counter("pool_events_one_node_short_of_the_pool_before_X") == 0 {
			c.Fatal("pool-boundary family: no event left the pipeline's decoder one node short of its root's pool: the sweep does not reach the boundaries (insane-json's node accounting differs from the generator's?)")
		}
		if c.Counter("pool_events_reached_output_valid") == 0 {
			c.Fatal("pool-boundary family: no event reached the output")
		}
	}

	// per plugin: what was observed; a run that never saw an expected behaviour is void
	perPlugin := map[string]any{}
	all := specs()
	for i := range all {
		ps := &all[i]
		obs := rn.stats.observed[ps.Name]
		perPlugin[ps.Name] = obs
		if only != "" {
			continue
		}
		for _, e := range ps.Expect {
			if obs[e] == 0 {
				c.Fatal("plugin %s: expected behaviour %q was never observed (observed: %v)", ps.Name, e, obs)
			}
		}
		if obs["configs"] < int64(len(ps.Configs)) && c.Violations() == 0 {
			c.Fatal("plugin %s: only %d of %d hand-written configurations ran", ps.Name, obs["configs"], len(ps.Configs))
		}
	}
	if only == "" && len(parJobs) > 0 && c.Violations() == 0 {
		if c.Counter("par_jobs_with_processors_overlapping_in_action") == 0 {
			c.Fatal("concurrency clause: no job ever had two processors inside the tested action at once")
		}
		if c.Counter("par_outputs_compared_with_single_processor") == 0 {
			c.Fatal("concurrency clause: no output was compared with the one-processor pipeline")
		}
	}
	if only == "" && len(chainJobs) > 0 && c.Violations() == 0 {
		if c.Counter("chain_outputs_equal_to_reference") == 0 || c.Counter("chain_outputs_changed_by_the_chain") == 0 {
			c.Fatal("chain clause: no chain output was compared with the step-by-step reference")
		}
	}
	c.Extra("per_plugin", perPlugin)
	c.Extra("child_jobs", len(jobs))
	c.Extra("par_jobs", len(parJobs))
	c.Extra("chain_jobs", len(chainJobs))
	c.Extra("pool_boundary_jobs", len(poolJobs))
}

func main() {
	registerHead()
	core.RegisterChild("pipe", childMain)
	core.RegisterChild("par", parMain)
	registerPoolProbes()
	core.RegisterChild("pool", poolMain)
	core.Main("C13", "exploration", run)
}
