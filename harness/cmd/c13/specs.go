package main

// The configuration tables: for each of the 27 registered action plugins and
// the k8s multiline action a list of hand-written configurations (written
// from the plugins' README files, one per option / mode) plus seeded
// variations, the field paths each configuration refers to (the generator is
// biased to them) and a dictionary of strings the plugin reacts to.

import (
	"encoding/json"
	"fmt"
	"math/rand"
	"strings"
)

type cfgSpec struct {
	Label    string   // configuration class (stable name)
	Actions  []string // raw JSON of the action(s); usually one
	Fields   []string // referenced field paths, dot separated
	Settings childSettings
	Stateful bool // the action may hold/collapse: short event time-out and feeder pauses
	Variant  bool // seeded variation: the plugin may reject it
	// Prologue is a fixed sequence fed first, followed by a time-out window:
	// an earlier action stops an event while a later action is waiting for
	// the next one, so the time-out event has to find the waiting action.
	Prologue []string
	Parts    int // > 1: feed the events in several children in parallel (many lethal events)
}

type pluginSpec struct {
	Name     string
	Dict     []string
	RootDict []string
	DictBias int
	Benign   map[string]string
	Configs  []cfgSpec
	Expect   []string // outcome classes that must be observed for this plugin (else the run is void)
	Chain    bool
}

func one(label, action string, fields ...string) cfgSpec {
	return cfgSpec{Label: label, Actions: []string{action}, Fields: fields}
}

var timeDict = []string{
	"2024-03-01T10:49:28.263317941Z", "2024-03-01T10:49:28Z", "2024-03-01T10:49:28+03:00", "0001-01-01T00:00:00Z", "9999-12-31T23:59:59.999999999Z",
	"1709290168", "1709290168123", "1709290168.123456789", "1709290168.1", "-1", "9223372036854775807", "1.2.3", "17e8", ".", "1.", ".5",
	"Mon Jan  2 15:04:05 2006", "Mon Jan 2 15:04:05 MST 2006", "02 Jan 06 15:04 MST", "Mon, 02 Jan 2006 15:04:05 -0700", "3:04PM", "Jan  2 15:04:05",
	"2006/01/02 15:04:05", "2024-13-45T99:99:99Z", "2024-03-01", "10:49:28", "now", "",
}

var jsonTextDict = []string{
	`{"level":"error","message":"error occurred","error":{"code":2,"args":[]},"meta":{"service":"my-service","pod":"p-1"},"flags":["flag1","flag2"]}`,
	`{"a":1}`, `{}`, `[]`, `[1,2]`, `"str"`, `12`, `null`, `true`, ``, ` `, `{`, `}`, `{"a":`, `{"a":"unterminated`, `{"a":1}{"b":2}`, `{"a":1} trailing`,
	`{"level":"error","extract1":"data1","extract2":"long message ...`, `{"error":{"code":`, `{"error":{"code":2},"level":`,
	`{"a":-}`, `{"a":1.2.3}`, `{"a":+1}`, `{"a":01}`, `{"a":1e}`, `{"a":.5}`, `{"a":"\x"}`, `{"a":"\u12"}`, "{\"a\":\"tab\there\"}", "{\"a\"\x01:1}",
	`{"a":"\ud800"}`, `{"a":1e999}`, `{"a":123456789012345678901234567890}`, `{"a":-0.0}`, `{"a":{"b":{"c":{"d":{"e":[[[[{"f":1}]]]]}}}}}`,
	`{"":1}`, `{"a.b":1}`, `{"q\"k":1}`, `{"k":1,"k":2}`, `{"error.code":5}`, `{"level":null}`, `{"level":{"x":1}}`, `{"message":"Привет 😀"}`, "{\"bad\":\"\xff\"}",
	`{"log":"{\"nested\":\"json\"}"}`, `{"a":nul}`, `{"a":tru}`, `{'a':1}`, `{a:1}`, `{"a":1,}`, `[1,]`, `{"a" 1}`, `{"a":"b" "c":1}`,
	`{"time":"2024-01-01T00:00:00Z","level":"info","message":"m","extract1":{"x":[1,2,{"y":"z"}]},"code":1.5e3}`,
}

// Runes whose lower- or upper-casing changes the UTF-8 length: code that
// measures a string before folding its case and indexes after (or the other
// way round) goes out of bounds only on these. Shrinking when lowered:
// U+212A KELVIN SIGN (3 -> 1 byte), U+2126 OHM SIGN (3 -> 2), U+212B ANGSTROM
// SIGN (3 -> 2), U+1E9E CAPITAL SHARP S (3 -> 2), U+0130 I WITH DOT ABOVE
// (2 -> 1); growing: U+023A (2 -> 3), U+023E (2 -> 3).
var caseLenRunes = []string{"\u212a", "\u2126", "\u212b", "\u1e9e", "\u0130", "\u023a", "\u023e"}

// matchRuleValues are the values of the generated mask match rules: several
// lengths, plain and with a length-changing rune at the start / middle / end.
var matchRuleValues = []string{"a", "token", "10 k\u2126", "\u2126", "\u212a", "\u212aelvin 300", "stra\u1e9ee", "\u0130stanbul", "5 \u212b", "\u023a\u023e", "x\u023ey", "\u043f\u0430\u0440\u043e\u043b\u044c", "SECRET value", "\u2126\u2126\u2126"}

// caseLenDict places every rule value and every length-changing rune at the
// start, in the middle and at the end of a value.
func caseLenDict() []string {
	var d []string
	for _, v := range matchRuleValues {
		d = append(d, v, "measured "+v, v+" measured", "x"+v, v+"x", "abc "+v+" def", strings.ToUpper(v), strings.ToLower(v))
	}
	for _, r := range caseLenRunes {
		d = append(d, r, r+r, r+r+r+r, r+"tail", "head"+r, "mid"+r+"dle", "value 10 k"+r, "10 "+r+" k", r+" 10 k", "token"+r, r+"token", "SECRET VALUE"+r, "a"+r, r+"a")
	}
	// tails made of several different shrinking runes, around the rule values
	d = append(d, "10 K\u2126", "10 \u212a\u2126", "\u212a\u2126\u212b\u1e9e\u0130", "r = 10 k\u2126", "R = 10 K\u2126", "T = 300 \u212aELVIN 300", "STRA\u1e9eE", "\u0130STANBUL", "istanbul \u0130", "\u023a\u023e\u023a\u023e", "x \u2126\u2126\u2126", "\u2126\u2126")
	return d
}

// matchRuleConfigs: one mask configuration per (mode, case_insensitive); each
// holds two masks with a single-rule ruleset (invert false / true) so that no
// rule is short-circuited by another, with and without a regexp.
func matchRuleConfigs() []cfgSpec {
	vals, _ := json.Marshal(matchRuleValues)
	var out []cfgSpec
	for _, mode := range []string{"prefix", "contains", "suffix"} {
		for _, ci := range []bool{false, true} {
			rule := func(invert bool, values string) string {
				return fmt.Sprintf(`{"values":%s,"mode":%q,"case_insensitive":%v,"invert":%v}`, values, mode, ci, invert)
			}
			act := fmt.Sprintf(`{"type":"mask","masks":[`+
				`{"match_rules":[{"rules":[%s]}],"applied_field":"m1","applied_value":"1"},`+
				`{"match_rules":[{"rules":[%s]}],"applied_field":"m2","applied_value":"1"},`+
				`{"match_rules":[{"cond":"or","rules":[%s,%s]},{"cond":"and","rules":[%s,%s]}],"re":"(\\d+)","groups":[1],"applied_field":"m3","applied_value":"1"}`+
				`]}`,
				rule(false, string(vals)), rule(true, string(vals)),
				rule(false, `["10 k\u2126"]`), rule(false, `["\u212a","a","token"]`), rule(true, `["\u0130stanbul","x"]`), rule(false, `["\u2126\u2126\u2126","stra\u1e9ee","5 \u212b"]`))
			label := "match-rules-" + mode
			if ci {
				label += "-case-insensitive"
			}
			out = append(out, one(label, act, "message", "meta.note"))
		}
	}
	return out
}

func specs() []pluginSpec {
	var s []pluginSpec

	s = append(s, pluginSpec{
		Name: "add_file_name", Expect: []string{"output", "changed"},
		Configs: []cfgSpec{
			one("default", `{"type":"add_file_name"}`, "file_name"),
			one("explicit", `{"type":"add_file_name","field":"file_name"}`, "file_name"),
			one("nested", `{"type":"add_file_name","field":"a.b.c"}`, "a.b.c", "a.b", "a"),
			one("overwrite-existing", `{"type":"add_file_name","field":"message"}`, "message"),
			one("escaped-dot", `{"type":"add_file_name","field":"k8s\\.file"}`, "k8s"),
		},
	})

	s = append(s, pluginSpec{
		Name: "add_host", Expect: []string{"output", "changed"},
		Configs: []cfgSpec{
			one("default", `{"type":"add_host"}`, "host"),
			one("explicit", `{"type":"add_host","field":"hostname"}`, "hostname"),
			one("overwrite-existing", `{"type":"add_host","field":"message"}`, "message"),
			one("dotted-name", `{"type":"add_host","field":"a.b"}`, "a.b", "a"),
			one("unicode-name", `{"type":"add_host","field":"хост \"q\""}`, "host"),
		},
	})

	s = append(s, pluginSpec{
		Name: "cardinality", Expect: []string{"output", "dropped", "changed"},
		Dict: []string{"registration", "auth", "1", "2", "3", "4", "5", "client-6", "", " ", "a b", "x:y", "[z]"}, DictBias: 55,
		Configs: []cfgSpec{
			one("nothing", `{"type":"cardinality","limit":2,"action":"nothing","ttl":"1m","key":["service"],"fields":["client_id"]}`, "service", "client_id"),
			one("discard", `{"type":"cardinality","limit":2,"action":"discard","ttl":"1m","metric_prefix":"service_client","key":["service"],"fields":["client_id"]}`, "service", "client_id"),
			one("remove_fields", `{"type":"cardinality","limit":2,"action":"remove_fields","ttl":"1m","key":["service"],"fields":["client_id","meta.id"]}`, "service", "client_id", "meta.id"),
			one("nested-multi-key", `{"type":"cardinality","limit":3,"action":"remove_fields","ttl":"1h","key":["service","k.ns"],"fields":["a.b.c","client_id"]}`, "service", "k.ns", "a.b.c", "client_id"),
			one("short-ttl-limit1", `{"type":"cardinality","limit":1,"action":"discard","ttl":"20ms","key":["service"],"fields":["client_id"]}`, "service", "client_id"),
			one("no-limit", `{"type":"cardinality","limit":-1,"action":"discard","key":["service"],"fields":["client_id"]}`, "service", "client_id"),
			{Label: "max-label-value-length", Fields: []string{"service", "client_id"}, Settings: childSettings{MetricMaxLabelLen: 5}, Actions: []string{`{"type":"cardinality","limit":50,"action":"nothing","key":["service"],"fields":["client_id"]}`}},
			one("empty-key", `{"type":"cardinality","limit":2,"action":"discard","key":[],"fields":["client_id"]}`, "client_id"),
		},
	})

	s = append(s, pluginSpec{
		Name: "convert_date", Expect: []string{"output", "changed"}, Dict: timeDict, DictBias: 50,
		Configs: []cfgSpec{
			one("default", `{"type":"convert_date"}`, "time"),
			one("unix-to-rfc3339", `{"type":"convert_date","field":"ts","source_formats":["unixtime","unixtimemilli","unixtimenano"],"target_format":"rfc3339nano"}`, "ts"),
			one("many-sources-remove", `{"type":"convert_date","field":"ts","source_formats":["rfc3339nano","rfc3339","ansic","unixdate","rubydate","rfc822","rfc822z","rfc850","rfc1123","rfc1123z","kitchen","stamp","stampmilli","stampmicro","stampnano","nginx_errorlog","unixtimemicro"],"target_format":"unixtimemilli","remove_on_fail":true}`, "ts"),
			one("custom-layouts", `{"type":"convert_date","field":"meta.when","source_formats":["2006-01-02","15:04:05","Jan _2 2006"],"target_format":"Monday, 02-Jan-06 15:04:05.000000000 MST"}`, "meta.when", "meta"),
			one("to-micro-nano", `{"type":"convert_date","field":"ts","source_formats":["rfc3339nano","unixtime"],"target_format":"unixtimenano","remove_on_fail":true}`, "ts"),
			one("to-unixmicro", `{"type":"convert_date","field":"ts","source_formats":["rfc3339","unixtimemilli"],"target_format":"unixtimemicro"}`, "ts"),
		},
	})

	s = append(s, pluginSpec{
		Name: "convert_log_level", Expect: []string{"output", "changed"}, DictBias: 50,
		Dict: []string{"info", "INFO", "Warn", "warning", "err", "error", "ERROR", "crit", "fatal", "panic", "emerg", "alert", "notice", "debug", "trace", "0", "3", "7", "8", "-1", "informational", "", " info ", "İNFO", "unknown"},
		Configs: []cfgSpec{
			one("default", `{"type":"convert_log_level"}`, "level"),
			one("string-style", `{"type":"convert_log_level","style":"string"}`, "level"),
			one("default-level", `{"type":"convert_log_level","field":"lvl","style":"number","default_level":"info"}`, "lvl"),
			one("remove-on-fail", `{"type":"convert_log_level","style":"string","remove_on_fail":true}`, "level"),
			one("nested-default-remove", `{"type":"convert_log_level","field":"log.level","style":"string","default_level":"bogus","remove_on_fail":true}`, "log.level", "log"),
		},
	})

	s = append(s, pluginSpec{
		Name: "convert_utf8_bytes", Expect: []string{"output", "changed"}, DictBias: 60,
		Dict: []string{
			`\xD0\xA1\xD0\x98\xD0\xA1\xD0\xA2\xD0\x95\xD0\x9C\xD0\x90.xml`, `$\110\145\154\154\157\054\040\146\151\154\145\056\144!`,
			`$\u0048\u0065\u006C\u006C\u006F\u002C\u0020\ud801\udc01!`, `{"Dir":"C:\\Users\\username\\.prog\\120.67.0\\x86_64\\x64","File":"$Storage$\xD0\x9F\xD1\x80.xml"}`,
			`\`, `\\`, `\x`, `\x4`, `\xZZ`, `\x41\x`, `\x41\x4`, `\x41\xZZ`, `\u`, `\u00`, `\u12G4`, `\ud800`, `\ud800\u`, `\ud800\u12`, `\ud800\uZZZZ`, `\ud800\udc00`, `\udc00\ud800`,
			`\U0001F600`, `\U0001F60`, `\UFFFFFFFF`, `\U00110000`, `\uFFFF`, `\u0000`, `\x00\x1f`, `\1`, `\12`, `\400`, `\377`, `\000`, `\08`, `tail\`, `a\qb`, `\xff\xfe`, `\xc3`, `\u202e\u0007`,
		},
		Configs: []cfgSpec{
			one("one-field", `{"type":"convert_utf8_bytes","fields":["obj.field"]}`, "obj.field", "obj"),
			one("two-fields", `{"type":"convert_utf8_bytes","fields":["message","obj.field"]}`, "message", "obj.field"),
			one("replace-non-graphic", `{"type":"convert_utf8_bytes","fields":["message","log"],"replace_non_graphic":true}`, "message", "log"),
			one("same-field-twice", `{"type":"convert_utf8_bytes","fields":["message","message"]}`, "message"),
			one("many-fields", `{"type":"convert_utf8_bytes","fields":["a","b","c.d","message"],"replace_non_graphic":false}`, "a", "b", "c.d", "message"),
		},
	})

	s = append(s, pluginSpec{
		Name: "debug", Expect: []string{"output"},
		Configs: []cfgSpec{
			one("default", `{"type":"debug"}`, "message"),
			one("sampled", `{"type":"debug","interval":"1s","first":10,"thereafter":5}`, "message"),
			one("message", `{"type":"debug","message":"sample \"quoted\" %s"}`, "message"),
			one("tight-sampling", `{"type":"debug","interval":"1ms","first":1,"thereafter":1000000}`, "message"),
			one("zero-thereafter", `{"type":"debug","interval":"10ms","first":2,"thereafter":0}`, "message"),
		},
	})

	protoInline := `syntax = \"proto3\"; package example; message Data { string string_data = 1; int32 int_data = 2; } message MyMessage { message InternalData { repeated string my_strings = 1; bool is_valid = 2; } Data data = 1; InternalData internal_data = 2; uint64 version = 3; }`
	s = append(s, pluginSpec{
		Name: "decode", Expect: []string{"output", "changed"}, DictBias: 65,
		Dict: append(append([]string{}, jsonTextDict...),
			`2021-06-22 16:24:27 GMT [7291] => [3-1] client=test_client,db=test_db,user=test_user LOG:  listening on IPv4 address "0.0.0.0", port 5432`,
			`2021-06-22 16:24:27 GMT [7291] => [3-1] client=,db=,user= LOG:`, `a b c ]`, `a b c [1] [2],=`, `a b c [1] [2]=,=,= x `, `2021-06-22 16:24:27 GMT [`,
			`2022/08/17 10:49:27 [error] 2725122#2725122: *792412315 lua udp socket read timed out, context: ngx.timer`,
			`2022/08/18 09:29:37 [error] 844935#844935: *44934601 upstream timed out (110: Operation timed out) while connecting to upstream, client: 10.125.172.251, server: , request: "POST /download HTTP/1.1", upstream: "http://10.117.246.15:84/download", host: "mpm-youtube-downloader-38.name.tldn:84"`,
			`2022/08/17 10:49:27 [error] 2725122#`, `2022/08/17 10:49:27 [`, `2022/08/17 10:49:27 [error] 1#1: *1 m, client: , server: ,`, `2022/08/17 10:49:27 [error] x#y: `,
			`<34>Oct  5 22:14:15 mymachine.example.com myproc[10]: 'myproc' failed on /dev/pts/8`, `<34>Oct 11 22:14:15 h a[1]`, `<34>Oct 11 22:14:15 h a[`, `<34>Oct 11 22:14:15 h a:`, `<999>Oct 11 22:14:15 h a: m`, `<>`, `<34`, `<34>`, `<34>Oct`,
			`<165>1 2003-10-11T22:14:15.003Z mymachine.example.com myproc 10 ID47 [exampleSDID iut="3" eventSource="Application" eventID="1011"] An application event log`,
			`<165>1 2003-10-11T22:14:15.003Z mymachine.example.com myproc - ID47 [exampleSDID iut="3"][second x="y"]`, `<1>1 - - - - - [ab ]`, `<1>1 - - - - - [ab "`, `<1>1 - - - - - [ab k="a\]b"]`, `<1>1 - - - - - [a k="v"]`, `<1>1 - - - - - [ab k="c:\\"]`, `<1>1 - - - - - [`, `<1>1 - - - - - -`, `<1>1 - - - - - [x]`, `<1>1 - - - - - [x y]`, `<1>1 - - - - - [x y=]`, `<1>1 - - - - - [x y="]`,
			`error,error occurred,2023-10-30T13:35:33.638720813Z,stderr`, `a,`, `"a"`, `"a`, `a"b,c`, `,`, `,,,,`, `"a""b",c`, `"a",`, `a;b;c`, `error "error occurred" x y`, `"`, `""`, `"",""`, `a,"b`, "a,b\r\n", "a\tb",
			"\n\x0bmy_string\x10\x7b", "\x0a", "\x0a\xff", "\x12\x0d\n\x04str1\n\x04str2\x10\x01", "\x18\x0a", "\x18", "\xff\xff\xff\xff\xff\xff\xff\xff\xff\xff\x01", "\x0a\x7f",
		),
		Configs: []cfgSpec{
			one("json", `{"type":"decode","field":"log","decoder":"json"}`, "log"),
			one("json-prefix-keep", `{"type":"decode","field":"log","decoder":"json","prefix":"p_","keep_origin":true}`, "log"),
			one("json-max-fields-size", `{"type":"decode","field":"log","decoder":"json","params":{"json_max_fields_size":{"message":5,"error.code":1,"a":1,"meta.service":3}}}`, "log"),
			one("json-log-withnode", `{"type":"decode","field":"meta.log","decoder":"json","log_decode_error_mode":"withnode"}`, "meta.log", "meta"),
			one("postgres", `{"type":"decode","field":"log","decoder":"postgres","prefix":"pg_"}`, "log"),
			one("nginx_error", `{"type":"decode","field":"log","decoder":"nginx_error"}`, "log"),
			one("nginx_error-custom", `{"type":"decode","field":"log","decoder":"nginx_error","params":{"nginx_with_custom_fields":true},"keep_origin":true}`, "log"),
			one("syslog_rfc3164", `{"type":"decode","field":"log","decoder":"syslog_rfc3164"}`, "log"),
			one("syslog_rfc3164-string", `{"type":"decode","field":"log","decoder":"syslog_rfc3164","params":{"syslog_facility_format":"string","syslog_severity_format":"string"},"prefix":"s_"}`, "log"),
			one("syslog_rfc5424", `{"type":"decode","field":"log","decoder":"syslog_rfc5424"}`, "log"),
			one("syslog_rfc5424-string", `{"type":"decode","field":"log","decoder":"syslog_rfc5424","params":{"syslog_facility_format":"string","syslog_severity_format":"string"},"keep_origin":true}`, "log"),
			one("csv", `{"type":"decode","field":"log","decoder":"csv"}`, "log"),
			one("csv-columns-continue", `{"type":"decode","field":"log","decoder":"csv","params":{"columns":["a","b","c","d"],"invalid_line_mode":"continue"}}`, "log"),
			one("csv-prefix-delimiter", `{"type":"decode","field":"log","decoder":"csv","params":{"prefix":"csv_","delimiter":" "},"keep_origin":true}`, "log"),
			one("csv-columns-default", `{"type":"decode","field":"log","decoder":"csv","params":{"columns":["a","b"],"delimiter":";"},"log_decode_error_mode":"erronly"}`, "log"),
			one("protobuf", `{"type":"decode","field":"log","decoder":"protobuf","params":{"proto_file":"`+protoInline+`","proto_message":"MyMessage"},"prefix":"pb_"}`, "log"),
		},
	})

	s = append(s, pluginSpec{
		Name: "discard", Expect: []string{"dropped", "output"}, Dict: append([]string{"info", "debug", "error"}, caseLenDict()...), DictBias: 60,
		Configs: []cfgSpec{
			one("all", `{"type":"discard"}`, "level"),
			one("match-fields", `{"type":"discard","match_fields":{"level":"/info|debug/"}}`, "level"),
			one("match-or-prefix", `{"type":"discard","match_fields":{"level":"err","message":"panic"},"match_mode":"or_prefix"}`, "level", "message"),
			one("match-invert", `{"type":"discard","match_fields":{"level":["info","debug"]},"match_invert":true}`, "level"),
			one("do-if", `{"type":"discard","do_if":{"op":"or","operands":[{"op":"contains","field":"message","values":["panic","é"]},{"op":"regex","field":"level","values":["^(inf|deb)"]},{"op":"byte_len_cmp","field":"message","cmp_op":"gt","value":100}]}}`, "level", "message"),
			one("do-if-case-insensitive", `{"type":"discard","do_if":{"op":"or","operands":[{"op":"suffix","field":"message","case_sensitive":false,"values":["10 k\u2126","\u212a","token"]},{"op":"prefix","field":"message","case_sensitive":false,"values":["\u0130stanbul","\u2126\u2126\u2126"]},{"op":"contains","field":"level","case_sensitive":false,"values":["stra\u1e9ee","\u023a\u023e"]},{"op":"equal","field":"level","case_sensitive":false,"values":["5 \u212b","INFO"]}]}}`, "message", "level"),
			one("metric-labels", `{"type":"discard","match_fields":{"level":"debug"},"metric_name":"dropped_debug","metric_labels":["service","level"]}`, "level", "service"),
		},
	})

	s = append(s, pluginSpec{
		Name: "flatten", Expect: []string{"output", "changed"},
		Configs: []cfgSpec{
			one("prefix", `{"type":"flatten","field":"animal","prefix":"pet_"}`, "animal"),
			one("no-prefix", `{"type":"flatten","field":"animal"}`, "animal"),
			one("nested", `{"type":"flatten","field":"a.b","prefix":"ab."}`, "a.b", "a"),
			one("collide-with-root", `{"type":"flatten","field":"extra","prefix":""}`, "extra", "message"),
			one("weird-prefix", `{"type":"flatten","field":"animal","prefix":"\"quoted\\ пре\n"}`, "animal"),
		},
		Benign: map[string]string{"animal": `{"type":"cat","paws":4}`, "extra": `{"message":"clash","level":{"x":1}}`, "a.b": `{"c":1,"d":{"e":2}}`},
	})

	s = append(s, pluginSpec{
		Name: "hash", Expect: []string{"output", "changed"}, DictBias: 50,
		Dict: []string{
			"unauthenticated", "bad token format",
			`2023-10-30T13:35:33.638720813Z error occurred, client: 10.125.172.251, upstream: "http://10.117.246.15:84/download", host: "mpm-youtube-downloader-38.name.com:84"`,
			`request from "ivanivanov", signed on 19.03.2025`, `2006/01/02 15:04:05 error occurred, params: [param1, param2]`,
			`user@example.com 550e8400-e29b-41d4-a716-446655440000 0xdeadbeef 3.14 -12 1e5 ff:ff:ff:ff:ff:ff ::1 fe80::1%eth0 https://a.b/c?d=e#f 'single' "double" (round) {curly} [square] <angle> 5s 10ms 1h2m 0x`,
			`d41d8cd98f00b204e9800998ecf8427e da39a3ee5e6b4b0d3255bfef95601890afd80709 e3b0c44298fc1c149afbf4c8996fb92427ae41e4649b934ca495991b7852b855`,
			`"unterminated`, `'unterminated`, `[unterminated`, `{{{{`, `]]]]`, `((((`, `"""`, `[[a] [b]]`, `<<a>>`, `"a\"b"`, `1.2.3.4.5`, `999.999.999.999`, `:::::`, `Mon Jan  2 15:04:05 2006`, `Jan  2 15:04:05`, `02/Jan/2006:15:04:05 -0700`,
		},
		Configs: []cfgSpec{
			one("plain", `{"type":"hash","fields":[{"field":"error.code","format":"no"},{"field":"level","format":"no"}],"result_field":"hash"}`, "error.code", "level", "error"),
			one("max-size", `{"type":"hash","fields":[{"field":"message","format":"no","max_size":10}],"result_field":"hash"}`, "message"),
			one("normalize-builtin", `{"type":"hash","fields":[{"field":"error.code","format":"no"},{"field":"message","format":"normalize"}],"result_field":"hash"}`, "error.code", "message"),
			one("normalize-custom-only", `{"type":"hash","fields":[{"field":"message","format":"normalize","max_size":64}],"result_field":"meta.hash","normalizer":{"builtin_patterns":"no","custom_patterns":[{"placeholder":"<quoted_str>","re":"\"[^\"]*\"","priority":"first"},{"placeholder":"<date>","re":"\\d\\d.\\d\\d.\\d\\d\\d\\d","priority":"first"}]}}`, "message", "meta"),
			one("normalize-all-plus-custom", `{"type":"hash","fields":[{"field":"message","format":"normalize"}],"result_field":"hash","normalizer":{"builtin_patterns":"all","custom_patterns":[{"placeholder":"<nginx_datetime>","re":"\\d\\d\\d\\d/\\d\\d/\\d\\d\\ \\d\\d:\\d\\d:\\d\\d","priority":"last"}]}}`, "message"),
			one("normalize-partial", `{"type":"hash","fields":[{"field":"message","format":"normalize","max_size":3}],"result_field":"message","normalizer":{"builtin_patterns":"square_bracketed|ip"}}`, "message"),
		},
	})

	joinDict := []string{
		"panic: runtime error: invalid memory address or nil pointer dereference", "[signal SIGSEGV: segmentation violation code=0x1 addr=0x0 pc=0x4a1c3d]", "",
		"goroutine 1 [running]:", "main.main()", "\t/app/main.go:10 +0x1d", "created by main.run in goroutine 1", "http: panic serving 10.0.0.1:1234: boom", "exit status 2", "plain line",
		"panic: ", "panic:", " ", "\n", "goroutine 12 [chan receive, 5 minutes]:", "main.(*T).f(0xc000010000, 0x1)", "panic: \xff bad utf8", "panic: Привет 😀",
		"==================", "WARNING: DATA RACE", "Read at 0x00c0000b4010 by goroutine 7:", "Previous write at 0x00c0000b4010 by main goroutine:", "  main.main.func1()", "      /app/race.go:9 +0x3a", "Goroutine 7 (running) created at:",
		"Unhandled exception. System.NullReferenceException: Object reference not set to an instance of an object.", "   at Program.Main() in /app/Program.cs:line 5", "   --- End of inner exception stack trace ---", " ---> System.Exception: inner", "fatal error: all goroutines are asleep - deadlock!",
	}
	s = append(s, pluginSpec{
		Name: "join", Expect: []string{"output", "dropped", "held", "changed", "timeout"}, Dict: joinDict, DictBias: 80,
		Configs: []cfgSpec{
			{Label: "go-panic", Stateful: true, Fields: []string{"log"}, Actions: []string{`{"type":"join","field":"log","start":"/^(panic:)|(http: panic serving)/","continue":"/(^\\s*$)|(goroutine [0-9]+ \\[)|(\\([0-9]+x[0-9,a-f]+)|(\\.go:[0-9]+ \\+[0-9]x)|(\\/.*\\.go:[0-9]+)|(\\(...\\))|(main\\.main\\(\\))|(created by .*\\/.*\\.)|(^\\[signal)|(panic.+[0-9]x[0-9,a-f]+)|(panic:)/"}`}},
			{Label: "negate", Stateful: true, Fields: []string{"log"}, Actions: []string{`{"type":"join","field":"log","start":"/^panic:/","continue":"/^plain/","negate":true}`}},
			{Label: "max-event-size", Stateful: true, Fields: []string{"log"}, Actions: []string{`{"type":"join","field":"log","start":"/^(panic|goroutine)/","continue":"/.*/","max_event_size":64}`}},
			{Label: "nested-field", Stateful: true, Fields: []string{"k.log", "k"}, Actions: []string{`{"type":"join","field":"k.log","start":"/panic/","continue":"/^\\s|^$|goroutine/"}`}},
			{Label: "match-fields-stderr", Stateful: true, Fields: []string{"log", "stream"}, Actions: []string{`{"type":"join","field":"log","start":"/^panic:/","continue":"/^(\\s|goroutine|main\\.|$)/","match_fields":{"stream":"stderr"}}`}},
			{Label: "everything-starts", Stateful: true, Fields: []string{"log"}, Actions: []string{`{"type":"join","field":"log","start":"/.*/","continue":"/^$/"}`}},
		},
		Benign: map[string]string{"stream": `"stderr"`, "log": `"plain line"`, "k.log": `"plain line"`},
	})

	s = append(s, pluginSpec{
		Name: "join_template", Expect: []string{"output", "dropped", "held", "changed", "timeout"}, Dict: joinDict, DictBias: 80,
		Configs: []cfgSpec{
			{Label: "go_panic", Stateful: true, Fields: []string{"log"}, Actions: []string{`{"type":"join_template","template":"go_panic","field":"log"}`}},
			{Label: "cs_exception", Stateful: true, Fields: []string{"log"}, Actions: []string{`{"type":"join_template","template":"cs_exception"}`}},
			{Label: "go_data_race", Stateful: true, Fields: []string{"log"}, Actions: []string{`{"type":"join_template","templates":["go_data_race"],"field":"log"}`}},
			{Label: "all-templates", Stateful: true, Fields: []string{"log"}, Actions: []string{`{"type":"join_template","templates":["go_panic","cs_exception","go_data_race"],"field":"log","max_event_size":200}`}},
			{Label: "both-template-keys", Stateful: true, Fields: []string{"m.log", "m"}, Actions: []string{`{"type":"join_template","template":"cs_exception","templates":["go_data_race","go_panic"],"field":"m.log"}`}},
		},
		Benign: map[string]string{"log": `"plain line"`, "m.log": `"plain line"`},
	})

	s = append(s, pluginSpec{
		Name: "json_decode", Expect: []string{"output", "changed"}, Dict: jsonTextDict, DictBias: 70,
		Configs: []cfgSpec{
			one("plain", `{"type":"json_decode","field":"log"}`, "log"),
			one("prefix", `{"type":"json_decode","field":"log","prefix":"p_"}`, "log"),
			one("erronly", `{"type":"json_decode","field":"log","log_json_parse_error_mode":"erronly"}`, "log"),
			one("withnode-nested", `{"type":"json_decode","field":"meta.payload","prefix":"\"x\\","log_json_parse_error_mode":"withnode"}`, "meta.payload", "meta"),
			one("field-message", `{"type":"json_decode","field":"message"}`, "message"),
		},
	})

	s = append(s, pluginSpec{
		Name: "json_encode", Expect: []string{"output", "changed"}, Dict: jsonTextDict, DictBias: 20,
		Configs: []cfgSpec{
			one("object-field", `{"type":"json_encode","field":"server"}`, "server"),
			one("nested", `{"type":"json_encode","field":"a.b"}`, "a.b", "a"),
			one("message", `{"type":"json_encode","field":"message"}`, "message"),
			one("escaped-dot", `{"type":"json_encode","field":"a\\.b"}`, "a"),
			one("twice", `{"type":"json_encode","field":"server"}`, "server"),
		},
		Benign: map[string]string{"server": `{"os":"linux","arch":"amd64"}`, "a.b": `{"c":[1,2,{"d":"e"}]}`},
	})
	s[len(s)-1].Configs[4].Actions = []string{`{"type":"json_encode","field":"server"}`, `{"type":"json_encode","field":"server"}`}

	s = append(s, pluginSpec{
		Name: "json_extract", Expect: []string{"output", "changed"}, Dict: jsonTextDict, DictBias: 70,
		Configs: []cfgSpec{
			one("fields", `{"type":"json_extract","field":"log","extract_fields":["error.code","level","meta","flags"]}`, "log"),
			one("single-deprecated", `{"type":"json_extract","field":"log","extract_field":"level"}`, "log"),
			one("prefix", `{"type":"json_extract","field":"log","extract_fields":["extract1","extract2"],"prefix":"ext_"}`, "log"),
			one("both-and-deep", `{"type":"json_extract","field":"meta.raw","extract_field":"a","extract_fields":["a","a.b.c.d.e","error.code","error.args","k"],"prefix":"\"q\""}`, "meta.raw", "meta"),
			one("overwrite-source", `{"type":"json_extract","field":"log","extract_fields":["log","message","level","a"]}`, "log", "message"),
		},
	})

	s = append(s, pluginSpec{
		Name: "keep_fields", Expect: []string{"output", "changed"},
		Configs: []cfgSpec{
			one("flat", `{"type":"keep_fields","fields":["message","level"]}`, "message", "level"),
			one("nested", `{"type":"keep_fields","fields":["a.b.f1","c"]}`, "a.b.f1", "a.b", "a", "c"),
			one("overlapping", `{"type":"keep_fields","fields":["a.b","a","a.b.c","message"]}`, "a.b", "a", "message"),
			one("escaped-dot-deep", `{"type":"keep_fields","fields":["exception\\.type","a.b.c.d.e","extra.n.m"]}`, "a.b.c.d.e", "extra", "a"),
		},
		Benign: map[string]string{"a.b.f1": `1`, "a.b": `{"f1":1,"f2":2,"c":{"x":1}}`, "a": `{"b":{"f1":1,"f2":2},"z":0}`, "c": `0`, "a.b.c.d.e": `"deep"`, "extra": `{"n":{"m":[1,2],"k":3},"o":1}`},
	})

	s = append(s, pluginSpec{
		Name: "mask", Expect: []string{"output", "changed"}, DictBias: 55,
		Dict: []string{"4111 1111 1111 1111", "card 4111-1111-1111-1111 and 5500 0000 0000 0004", "1234", "12345678901234567890", "test", "user=alice password=secret", "пароль=секрет 1234 5678", "token: abcdef", "a1b2c3d4", "1", "", "9999 8888 7777 6666 5555", "1234\n5678 9012 3456", "\xff1234 5678 9012 3456\xff", "😀1234😀5678", "email a.b@c.de"},
		Configs: []cfgSpec{
			one("cards-groups-123", `{"type":"mask","masks":[{"re":"\\b(\\d{1,4})\\D?(\\d{1,4})\\D?(\\d{1,4})\\D?(\\d{1,4})\\b","groups":[1,2,3]}]}`, "message", "card"),
			one("whole-match-max-count", `{"type":"mask","masks":[{"re":"(\\d+)","groups":[0],"max_count":3}],"mask_applied_field":"masked","mask_applied_value":"yes"}`, "message", "card"),
			one("replace-word", `{"type":"mask","masks":[{"re":"(password|пароль)=(\\S+)","groups":[2],"replace_word":"<redacted \"x\">"}],"process_fields":["message","meta.note"]}`, "message", "meta.note"),
			one("cut-values-ignore", `{"type":"mask","masks":[{"re":"(test|token: )(\\w*)","groups":[2],"cut_values":true}],"ignore_fields":["trace_id","extra.n"]}`, "message", "trace_id", "extra"),
			one("match-rules-only", `{"type":"mask","masks":[{"match_rules":[{"cond":"or","rules":[{"values":["card","пароль"],"mode":"contains"},{"values":["USER"],"mode":"prefix","case_insensitive":true}]}],"applied_field":"has_secret","applied_value":"1","metric_name":"secrets_total","metric_labels":["service"]}],"applied_metric_labels":["level"]}`, "message", "service", "level"),
			one("two-masks-per-mask-fields", `{"type":"mask","masks":[{"re":"(\\d{4}) (\\d{4})","groups":[1,2]},{"re":"(test)","groups":[1],"process_fields":["message"]},{"re":"([a-z]+)@[a-z.]+","groups":[0],"ignore_fields":["card"],"do_if":{"op":"equal","field":"level","values":["info","error"]}}],"skip_mismatched":true}`, "message", "card", "level"),
		},
		Benign: map[string]string{"card": `"4111 1111 1111 1111"`, "message": `"user=alice password=secret card 4111 1111 1111 1111 test"`},
	})

	{
		m := &s[len(s)-1] // mask: match rules in every mode x case_insensitive x invert
		m.Dict = append(m.Dict, caseLenDict()...)
		m.Configs = append(m.Configs, matchRuleConfigs()...)
	}

	s = append(s, pluginSpec{
		Name: "modify", Expect: []string{"output", "changed"}, DictBias: 50,
		Dict: []string{"info: something happened", "re1 re2 re3 re4", "service=service-test-1 exec took 200ms", "message without matching re", "{\"service\":\"service-test-1\",\"took\":\"200ms\"}\n", "some data {\"service\":\"s\"} some data", "some looooooooooooong data", "test-pod-abc,test-pod-def", "", "é", "ééééééééééé", "\xff\xfe", "}{", "a"},
		Configs: []cfgSpec{
			one("substitute", `{"type":"modify","my_object.field.subfield":"value is ${another_object.value}."}`, "another_object.value", "my_object", "another_object"),
			one("re-filter", `{"type":"modify","level":"${message|re(\"(\\\\w+):.*\",-1,[1],\",\")}","extracted":"${message|re(\"(re\\\\d+)\",2,[1],\",\")}","took":"${message|re(\"took (\\\\d+\\\\.?\\\\d*(?:ms|s|m|h))\",-1,[1],\",\",true)}"}`, "message"),
			one("trim-filters", `{"type":"modify","message":"${message|trim(\"right\",\"\\n\")}","json":"${message|trim_to(\"left\",\"{\")|trim_to(\"right\",\"}\")}","t":"${message|trim(\"all\",\"s\")|trim(\"left\",\"i\")}"}`, "message"),
			one("cut-filters", `{"type":"modify","first":"${message|cut(\"first\",10)}","last":"${message|cut(\"last\",5)}","big":"${message|cut(\"last\",100000)}"}`, "message"),
			one("skip-empty-chain", `{"type":"modify","_skip_empty":"true","pods":"${message|re(\"(test-pod-\\\\w+)\",-1,[1],\",\")|re(\"test-pod-(\\\\w+)\",-1,[1],\",\")}","copy":"${level}${missing.field}","const":"static \"text\""}`, "message", "level"),
			one("re-optional-group", `{"type":"modify","kv":"${message|re(\"(\\\\w+)(?: (\\\\d+))?(=\\\\S*)?\",-1,[1,2,3],\"-\")}","first":"${message|re(\"^(\\\\S+)|(\\\\d+)$\",1,[2,1],\"\")}"}`, "message"),
			one("self-and-nested-target", `{"type":"modify","message":"${message}${message}","a.b.c":"${a.b} and ${a}"}`, "message", "a.b", "a"),
		},
		Benign: map[string]string{"another_object.value": `666`},
	})

	s = append(s, pluginSpec{
		Name: "move", Expect: []string{"output", "changed"},
		Configs: []cfgSpec{
			one("allow", `{"type":"move","mode":"allow","target":"other","fields":["log.stream","zone"]}`, "log.stream", "log", "zone", "other"),
			one("block", `{"type":"move","mode":"block","target":"other","fields":["log"]}`, "log", "other"),
			one("allow-same-leaf-names", `{"type":"move","mode":"allow","target":"other","fields":["log.message","error.message","zone"]}`, "log.message", "error.message", "zone", "other"),
			one("allow-nested-target", `{"type":"move","mode":"allow","target":"a.b.c","fields":["message","a.b","a","level",""]}`, "message", "a.b", "a"),
			one("block-target-listed", `{"type":"move","mode":"block","target":"message","fields":["message","level","x.y"]}`, "message", "level"),
			one("allow-target-is-field", `{"type":"move","mode":"allow","target":"zone","fields":["zone","zone.a","message"]}`, "zone", "message"),
		},
		Benign: map[string]string{"log": `{"level":"error","message":"m","stream":"stderr"}`, "log.stream": `"stderr"`, "other": `{"user":"ivanivanov"}`, "zone": `"z501"`},
	})

	s = append(s, pluginSpec{
		Name: "parse_es", Expect: []string{"output", "dropped"}, DictBias: 30,
		RootDict: []string{
			`{"index":{"_index":"test","_id":"1"}}`, `{"field1":"value1"}`, `{"delete":{"_index":"test","_id":"2"}}`, `{"create":{"_index":"test","_id":"3"}}`, `{"field1":"value3"}`,
			`{"update":{"_id":"1","_index":"test"}}`, `{"doc":{"field2":"value2"}}`, `{"index":{}}`, `{"index":null}`, `{"index":1,"update":2,"delete":3}`, `{"create":"x","index":"y"}`, `{"message":"no action"}`, `{"update":{}}`, `{"update":{}}`, `{"index":{}}`, `{"index":{}}`,
		},
		Configs: []cfgSpec{
			{Label: "default", Stateful: true, Fields: []string{"index"}, Actions: []string{`{"type":"parse_es"}`}},
			{Label: "do-if", Stateful: true, Fields: []string{"index", "level"}, Actions: []string{`{"type":"parse_es","do_if":{"op":"not","operands":[{"op":"equal","field":"level","values":["debug"]}]}}`}},
			{Label: "match-fields", Stateful: true, Fields: []string{"index", "stream"}, Actions: []string{`{"type":"parse_es","match_fields":{"stream":"stdout"},"match_mode":"or"}`}},
			{Label: "metric", Stateful: true, Fields: []string{"index"}, Actions: []string{`{"type":"parse_es","metric_name":"es_events","metric_labels":["index"]}`}},
			{Label: "after-discard", Stateful: true, Fields: []string{"index", "level"}, Actions: []string{`{"type":"discard","match_fields":{"level":"debug"}}`, `{"type":"parse_es"}`}},
		},
	})

	s = append(s, pluginSpec{
		Name: "parse_re2", Expect: []string{"output", "changed"}, DictBias: 60,
		Dict: []string{"2024-03-01 INFO user=alice took=200ms", "2024-03-01 ERROR boom", "INFO", " ", "", "a=b c=d", "Привет=мир x=😀", "k=\xff", "2024-03-01 WARN " + strings.Repeat("x=y ", 50)},
		Configs: []cfgSpec{
			one("named-groups", `{"type":"parse_re2","field":"log","re2":"(?P<date>[\\d-]+)\\s+(?P<level>\\w+)\\s+(?P<rest>.*)"}`, "log"),
			one("prefix", `{"type":"parse_re2","field":"log","re2":"(?P<level>[A-Z]+)","prefix":"re_"}`, "log"),
			one("optional-and-unnamed", `{"type":"parse_re2","field":"message","re2":"^(\\S+)(?: (?P<opt>\\d+))?(?P<tail>.*)$","prefix":"\"p\\"}`, "message"),
			one("nested-field-clash", `{"type":"parse_re2","field":"meta.line","re2":"(?P<message>\\w+)=(?P<level>\\S*)"}`, "meta.line", "meta"),
			one("no-named-groups", `{"type":"parse_re2","field":"log","re2":"\\d+"}`, "log"),
			one("empty-match", `{"type":"parse_re2","field":"log","re2":"(?P<empty>)(?P<all>(?s).*)"}`, "log"),
		},
	})

	s = append(s, pluginSpec{
		Name: "remove_fields", Expect: []string{"output", "changed"},
		Configs: []cfgSpec{
			one("flat", `{"type":"remove_fields","fields":["message","level"]}`, "message", "level"),
			one("nested", `{"type":"remove_fields","fields":["a.b.c"]}`, "a.b.c", "a.b", "a"),
			one("escaped-dot", `{"type":"remove_fields","fields":["exception\\.type","message"]}`, "message"),
			one("overlapping", `{"type":"remove_fields","fields":["a","a.b","a.b.c","extra.n.m","ts"]}`, "a.b", "a", "extra"),
		},
		Benign: map[string]string{"a.b.c": `100`, "a.b": `{"c":100,"d":"some"}`, "a": `{"b":{"c":100,"d":"some"}}`, "extra": `{"n":{"m":[1,2],"k":3}}`},
	})

	s = append(s, pluginSpec{
		Name: "rename", Expect: []string{"output", "changed"},
		Configs: []cfgSpec{
			one("nested-no-override", `{"type":"rename","override":false,"my_object.field.subfield":"new_sub_field"}`, "my_object.field.subfield", "my_object.field", "my_object", "new_sub_field"),
			one("journalctl-underscores", `{"type":"rename","override":false,"__HOSTNAME":"host","___REALTIME_TIMESTAMP":"ts"}`, "_HOSTNAME", "__REALTIME_TIMESTAMP", "host", "ts"),
			one("override", `{"type":"rename","override":true,"message":"msg","level":"message","msg":"level"}`, "message", "level", "msg"),
			one("default-override-key-absent", `{"type":"rename","message":"level","a.b":"a"}`, "message", "level", "a.b", "a"),
			one("to-self-and-weird-names", `{"type":"rename","override":true,"message":"message","level":"","ts":"q\"uote\\","service":"a.b"}`, "message", "level", "ts", "service"),
			one("escaped-dot", `{"type":"rename","override":true,"exception\\.type":"etype","a.b":"ab"}`, "a.b", "a"),
		},
		Benign: map[string]string{"my_object.field.subfield": `"value"`, "_HOSTNAME": `"example-host"`, "__REALTIME_TIMESTAMP": `"1739797379239590"`},
	})

	s = append(s, pluginSpec{
		Name: "set_time", Expect: []string{"output", "changed"}, Dict: timeDict, DictBias: 30,
		Configs: []cfgSpec{
			one("default", `{"type":"set_time"}`, "time"),
			one("unixtime-no-override", `{"type":"set_time","field":"ts","format":"unixtime","override":false}`, "ts"),
			one("milli-micro-nano", `{"type":"set_time","field":"t","format":"unixtimenano"}`, "t"),
			one("legacy-timestampmilli", `{"type":"set_time","field":"message","format":"timestampmilli"}`, "message"),
			one("custom-layout", `{"type":"set_time","field":"when","format":"2006-01-02 \"at\" 15:04:05.000 \\ MST"}`, "when"),
			one("named-layout", `{"type":"set_time","field":"time","format":"rfc1123z","override":true}`, "time"),
		},
	})

	s = append(s, pluginSpec{
		Name: "split", Expect: []string{"output", "children"},
		RootDict: []string{`[{"message":"go"},{"message":"rust"},{"message":"c++"}]`, `[{"a":1},2,"x",{"b":{"c":[{"d":1}]}}]`, `[]`, `[[{"a":1}]]`, `[{}]`, `[{"data":[{"x":1}]},{"data":"y"}]`},
		Configs: []cfgSpec{
			one("field", `{"type":"split","field":"data"}`, "data"),
			one("root-array", `{"type":"split"}`, "data"),
			one("nested-field", `{"type":"split","field":"payload.items"}`, "payload.items", "payload"),
			{Label: "children-into-join", Stateful: true, Fields: []string{"data"}, Actions: []string{`{"type":"split","field":"data"}`, `{"type":"join","field":"message","start":"/^go/","continue":"/^ru/"}`}},
			{Label: "children-into-modify-mask", Fields: []string{"data"}, Actions: []string{`{"type":"split","field":"data"}`, `{"type":"modify","lang":"${message}-${level}"}`, `{"type":"mask","masks":[{"re":"(\\w+)","groups":[0]}],"process_fields":["message"]}`}},
			{Label: "split-twice", Fields: []string{"data"}, Actions: []string{`{"type":"split","field":"data"}`, `{"type":"split","field":"data"}`}},
		},
		Benign: map[string]string{"data": `[{"message":"go"},{"message":"rust"},{"message":"c++"}]`, "payload.items": `[{"id":1},{"id":2,"data":[{"n":1}]}]`},
	})

	s = append(s, pluginSpec{
		Name: "throttle", Expect: []string{"output", "dropped"}, DictBias: 55,
		Dict: append([]string{"registration", "auth", "pod-1", "pod-2", "error", "info", "", "default", "a:b", "é", "\xff"}, timeDict...),
		Configs: []cfgSpec{
			one("default-count", `{"type":"throttle","default_limit":20,"throttle_field":"k8s_pod","bucket_interval":"1s","buckets_count":4}`, "k8s_pod", "time"),
			one("size-kind", `{"type":"throttle","default_limit":2000,"limit_kind":"size","throttle_field":"service","time_field":"ts","time_field_format":"rfc3339nano","bucket_interval":"1m","buckets_count":3}`, "service", "ts"),
			one("rules", `{"type":"throttle","default_limit":10,"throttle_field":"k8s_pod","time_field":"","rules":[{"limit":3,"limit_kind":"count","conditions":{"level":"error"}},{"limit":-1,"limit_kind":"count","conditions":{"service":"auth","level":"info"}},{"limit":50,"limit_kind":"size","conditions":{"k8s_pod":"pod-1"}}],"bucket_interval":"100ms","buckets_count":2}`, "k8s_pod", "level", "service"),
			one("unix-time-field", `{"type":"throttle","default_limit":5,"throttle_field":"service","time_field":"ts","time_field_format":"unixtime","bucket_interval":"1h","buckets_count":60,"limiter_expiration":"1s"}`, "service", "ts"),
			one("distribution", `{"type":"throttle","default_limit":10,"throttle_field":"service","time_field":"","limit_distribution":{"field":"level","ratios":[{"ratio":0.5,"values":["error"]},{"ratio":0.3,"values":["warn","info"]}],"metric_labels":["service","k8s_pod"]},"bucket_interval":"1s","buckets_count":2}`, "service", "level", "k8s_pod"),
			one("rule-distribution-nested", `{"type":"throttle","default_limit":4,"throttle_field":"meta.key","time_field":"meta.ts","time_field_format":"unixtimemilli","rules":[{"limit":6,"limit_kind":"count","conditions":{"level":"error"},"limit_distribution":{"field":"meta.kind","ratios":[{"ratio":1,"values":["a"]}]}}],"bucket_interval":"1s","buckets_count":1}`, "meta.key", "meta.ts", "meta.kind", "level"),
			one("zero-limit", `{"type":"throttle","default_limit":0,"throttle_field":"service","time_field":"","bucket_interval":"1s","buckets_count":1}`, "service"),
		},
		Benign: map[string]string{"k8s_pod": `"pod-1"`, "service": `"registration"`, "time": `"2024-03-01T10:49:28.263317941Z"`, "ts": `"2024-03-01T10:49:28.263317941Z"`, "level": `"error"`, "meta.key": `"k"`, "meta.ts": `"1709290168123"`, "meta.kind": `"a"`},
	})

	k8sAct := func(extra string) string {
		return `{"type":"k8s-multiline","offsets_file":"/tmp/verif-c13-unused-offsets.yaml"` + extra + `}`
	}
	k8sDict := []string{"hello", "world\n", "  ", "\n", "", "a", "ab", "abc", "a\n", "partial chunk without newline ", "Привет\n", "é", "\xff\n", "tab\tq\"uote\\ end\n", "ends with literal backslash-n \\n", "\\", "\\n", "n", "{\"json\":\"line\"}\n", strings.Repeat("x", 5000), strings.Repeat("y", 300) + "\n"}
	s = append(s, pluginSpec{
		Name: "k8s-multiline", Expect: []string{"output", "dropped", "changed"}, Dict: k8sDict, DictBias: 75,
		Configs: []cfgSpec{
			{Label: "default", Stateful: true, Parts: 4, Fields: []string{"log"}, Settings: childSettings{K8s: true}, Actions: []string{k8sAct(``)}},
			{Label: "split-small", Stateful: true, Parts: 4, Fields: []string{"log"}, Settings: childSettings{K8s: true}, Actions: []string{k8sAct(`,"split_event_size":132000`)}},
			{Label: "allowed-labels", Stateful: true, Parts: 4, Fields: []string{"log"}, Settings: childSettings{K8s: true}, Actions: []string{k8sAct(`,"allowed_pod_labels":["allowed_label","nope"],"allowed_node_labels":["zone"]`)}},
			{Label: "only-node", Stateful: true, Parts: 4, Fields: []string{"log"}, Settings: childSettings{K8s: true}, Actions: []string{k8sAct(`,"only_node":true`)}},
			{Label: "max-event-size-discard", Stateful: true, Parts: 4, Fields: []string{"log"}, Settings: childSettings{K8s: true, MaxEventSize: 600}, Actions: []string{k8sAct(``)}},
			{Label: "max-event-size-cutoff", Stateful: true, Parts: 4, Fields: []string{"log"}, Settings: childSettings{K8s: true, MaxEventSize: 600, CutOffEventByLimit: true, CutOffEventByLimitField: "cutoff"}, Actions: []string{k8sAct(``)}},
		},
		Benign: map[string]string{"log": `"world\n"`},
	})

	// chains: an earlier action discards / rewrites while a later one holds,
	// so time-out events and flushed events meet several actions
	s = append(s, pluginSpec{
		Name: "chain", Chain: true, Expect: []string{"output", "dropped", "held", "timeout", "changed"}, Dict: joinDict, DictBias: 75,
		Configs: []cfgSpec{
			{Label: "discard+join", Stateful: true, Fields: []string{"log", "level"}, Prologue: []string{`{"level":"info","log":"panic: boom"}`, `{"level":"info","log":"goroutine 1 [running]:"}`, `{"level":"debug","log":"main.main()"}`}, Actions: []string{`{"type":"discard","match_fields":{"level":"debug"}}`, `{"type":"join","field":"log","start":"/^panic:/","continue":"/^(\\s|goroutine|main\\.|$)/"}`}},
			{Label: "throttle+join_template", Stateful: true, Fields: []string{"log", "service"}, Prologue: throttlePrologue(), Actions: []string{`{"type":"throttle","default_limit":25,"throttle_field":"service","time_field":"","bucket_interval":"1m","buckets_count":2}`, `{"type":"join_template","template":"go_panic","field":"log"}`}},
			{Label: "cardinality+join+modify", Stateful: true, Fields: []string{"log", "service"}, Prologue: []string{`{"service":"s1","log":"panic: boom"}`, `{"service":"s1","log":"goroutine 1 [running]:"}`, `{"service":"s1","log":"main.main()"}`, `{"service":"s1","log":"created by x"}`}, Actions: []string{`{"type":"cardinality","limit":2,"action":"discard","key":["service"],"fields":["log"]}`, `{"type":"join","field":"log","start":"/^panic:/","continue":"/^(\\s|goroutine|$)/"}`, `{"type":"modify","len":"${log|cut(\"first\",20)}"}`}},
			{Label: "json_decode+join+json_encode", Stateful: true, Fields: []string{"raw", "log"}, Actions: []string{`{"type":"json_decode","field":"raw"}`, `{"type":"join","field":"log","start":"/^panic:/","continue":"/^(\\s|goroutine|$)/"}`, `{"type":"json_encode","field":"extra"}`}},
			{Label: "buf-users", Fields: []string{"log", "animal", "server"}, Actions: []string{`{"type":"json_encode","field":"server"}`, `{"type":"flatten","field":"animal","prefix":"pet_"}`, `{"type":"parse_re2","field":"log","re2":"(?P<w1>\\w+)\\W+(?P<w2>\\w+)","prefix":"re_"}`, `{"type":"json_decode","field":"server","prefix":"srv_"}`, `{"type":"decode","field":"message","decoder":"json","prefix":"d_"}`, `{"type":"add_file_name"}`, `{"type":"rename","override":true,"re_w1":"pet_type"}`, `{"type":"keep_fields","fields":["pet_type","srv_os","re_w2","file_name","level"]}`}},
			{Label: "k8s+discard", Stateful: true, Parts: 4, Fields: []string{"log", "level"}, Settings: childSettings{K8s: true}, Actions: []string{`{"type":"discard","match_fields":{"level":"debug"}}`, k8sAct(``)}},
		},
		Benign: map[string]string{"log": `"plain line"`, "raw": `{"log":"panic: from raw","extra":{"a":1}}`, "animal": `{"type":"cat","paws":4}`, "server": `{"os":"linux","arch":"amd64"}`},
	})
	return s
}

// throttlePrologue: 24 plain events use up the limit of 25, the start line is
// the 25th (held by join_template), the next one is throttled.
func throttlePrologue() []string {
	var p []string
	for i := 0; i < 24; i++ {
		p = append(p, fmt.Sprintf(`{"service":"s1","log":"plain line %d"}`, i))
	}
	return append(p, `{"service":"s1","log":"panic: boom"}`, `{"service":"s1","log":"goroutine 1 [running]:"}`)
}

// variants: seeded variations of field paths, regexps and numeric options.
func variantsFor(ps *pluginSpec, rng *rand.Rand, n int) []cfgSpec {
	paths := []string{"message", "log", "a.b", "a.b.c", "level", "meta.x", "x", "ts", "k8s_pod", "extra.n.m", "tags"}
	p := func() string { return paths[rng.Intn(len(paths))] }
	num := func() int { return []int{0, 1, 2, 3, 7, 16, 64, 1000}[rng.Intn(8)] }
	res := []string{`\\d+`, `(\\w+)=(\\w+)`, `^(a|b)*$`, `(?P<k>\\S+) (?P<v>.*)`, `[^ ]+`, `(?i)panic`, `\\s`, `.`, `$`, `(é+)`}
	re := func() string { return res[rng.Intn(len(res))] }
	var out []cfgSpec
	for i := 0; i < n; i++ {
		f, f2 := p(), p()
		var act string
		fields := []string{f, f2}
		st := false
		switch ps.Name {
		case "add_file_name":
			act = fmt.Sprintf(`{"type":"add_file_name","field":%q}`, f)
		case "add_host":
			act = fmt.Sprintf(`{"type":"add_host","field":%q}`, f)
		case "cardinality":
			act = fmt.Sprintf(`{"type":"cardinality","limit":%d,"action":%q,"ttl":"%dms","key":[%q],"fields":[%q]}`, num(), []string{"discard", "remove_fields", "nothing"}[rng.Intn(3)], 1+num(), f, f2)
		case "convert_date":
			fm := strings.Split("ansic|unixdate|rubydate|rfc822|rfc822z|rfc850|rfc1123|rfc1123z|rfc3339|rfc3339nano|kitchen|stamp|stampmilli|stampmicro|stampnano|unixtime|unixtimemilli|unixtimemicro|unixtimenano|nginx_errorlog", "|")
			act = fmt.Sprintf(`{"type":"convert_date","field":%q,"source_formats":[%q,%q],"target_format":%q,"remove_on_fail":%v}`, f, fm[rng.Intn(len(fm))], fm[rng.Intn(len(fm))], fm[rng.Intn(len(fm))], rng.Intn(2) == 0)
		case "convert_log_level":
			act = fmt.Sprintf(`{"type":"convert_log_level","field":%q,"style":%q,"default_level":%q,"remove_on_fail":%v}`, f, []string{"number", "string"}[rng.Intn(2)], []string{"", "info", "3", "x"}[rng.Intn(4)], rng.Intn(2) == 0)
		case "convert_utf8_bytes":
			act = fmt.Sprintf(`{"type":"convert_utf8_bytes","fields":[%q,%q],"replace_non_graphic":%v}`, f, f2, rng.Intn(2) == 0)
		case "debug":
			act = fmt.Sprintf(`{"type":"debug","interval":"%dms","first":%d,"thereafter":%d}`, num(), num(), num())
		case "decode":
			d := []string{"json", "postgres", "nginx_error", "syslog_rfc3164", "syslog_rfc5424", "csv"}[rng.Intn(6)]
			act = fmt.Sprintf(`{"type":"decode","field":%q,"decoder":%q,"prefix":%q,"keep_origin":%v}`, f, d, []string{"", "p_", "a."}[rng.Intn(3)], rng.Intn(2) == 0)
		case "flatten":
			act = fmt.Sprintf(`{"type":"flatten","field":%q,"prefix":%q}`, f, []string{"", "p_", "."}[rng.Intn(3)])
		case "hash":
			act = fmt.Sprintf(`{"type":"hash","fields":[{"field":%q,"max_size":%d,"format":%q},{"field":%q,"format":"no"}],"result_field":%q}`, f, num(), []string{"no", "normalize"}[rng.Intn(2)], f2, p())
		case "join":
			st = true
			act = fmt.Sprintf(`{"type":"join","field":%q,"start":"/%s/","continue":"/%s/","max_event_size":%d,"negate":%v}`, f, re(), re(), num(), rng.Intn(3) == 0)
		case "join_template":
			st = true
			act = fmt.Sprintf(`{"type":"join_template","field":%q,"template":%q,"max_event_size":%d}`, f, []string{"go_panic", "cs_exception", "go_data_race"}[rng.Intn(3)], num())
		case "json_decode":
			act = fmt.Sprintf(`{"type":"json_decode","field":%q,"prefix":%q}`, f, []string{"", "p_"}[rng.Intn(2)])
		case "json_encode":
			act = fmt.Sprintf(`{"type":"json_encode","field":%q}`, f)
		case "json_extract":
			act = fmt.Sprintf(`{"type":"json_extract","field":%q,"extract_fields":[%q,%q,"level"],"prefix":%q}`, f, f2, p(), []string{"", "e_"}[rng.Intn(2)])
		case "keep_fields":
			act = fmt.Sprintf(`{"type":"keep_fields","fields":[%q,%q,%q]}`, f, f2, p())
		case "mask":
			act = fmt.Sprintf(`{"type":"mask","masks":[{"re":"(%s)","groups":[0],"max_count":%d}],"process_fields":[%q,%q]}`, re(), num(), f, f2)
		case "modify":
			act = fmt.Sprintf(`{"type":"modify",%q:"${%s|cut(\"first\",%d)}-${%s|re(\"%s\",%d,[0],\"|\")}"}`, p(), f, num(), f2, strings.ReplaceAll(re(), `\\`, `\\\\`), rng.Intn(4)-1)
		case "move":
			act = fmt.Sprintf(`{"type":"move","mode":"allow","target":%q,"fields":[%q,%q]}`, p(), f, f2)
		case "parse_re2":
			act = fmt.Sprintf(`{"type":"parse_re2","field":%q,"re2":"%s","prefix":%q}`, f, re(), []string{"", "r_"}[rng.Intn(2)])
		case "remove_fields":
			act = fmt.Sprintf(`{"type":"remove_fields","fields":[%q,%q,%q]}`, f, f2, p())
		case "rename":
			act = fmt.Sprintf(`{"type":"rename","override":%v,%q:%q}`, rng.Intn(2) == 0, f, p())
			if f == f2 {
				fields = []string{f}
			}
		case "set_time":
			act = fmt.Sprintf(`{"type":"set_time","field":%q,"format":%q,"override":%v}`, strings.ReplaceAll(f, ".", "_"), []string{"unixtime", "rfc3339", "timestampnano", "stamp", "2006"}[rng.Intn(5)], rng.Intn(2) == 0)
		case "split":
			act = fmt.Sprintf(`{"type":"split","field":%q}`, f)
		case "throttle":
			act = fmt.Sprintf(`{"type":"throttle","default_limit":%d,"limit_kind":%q,"throttle_field":%q,"time_field":%q,"time_field_format":%q,"bucket_interval":"%dms","buckets_count":%d}`,
				num(), []string{"count", "size"}[rng.Intn(2)], f, []string{"", f2}[rng.Intn(2)], []string{"rfc3339nano", "unixtime", "unixtimemilli"}[rng.Intn(3)], 1+num(), 1+rng.Intn(5))
		default:
			continue
		}
		out = append(out, cfgSpec{Label: fmt.Sprintf("variant-%d", i), Actions: []string{act}, Fields: fields, Stateful: st, Variant: true})
	}
	return out
}
