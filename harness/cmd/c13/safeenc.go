package main

// Bounded encode (copied from cmd/c18/safeenc.go). A corrupted node chain
// inside insane-json can contain a cycle that Encode follows; Encode then never
// returns and appends to its buffer until the machine is out of memory. The
// pool-boundary family (pool.go) drives actions into the library's node-pool
// limits, so the output of its child does a dry run of Encode's walk with a
// step budget before every Encode. The dry run reads the node chain through a
// mirror of insane-json's Node struct (v0.1.9 layout, verified at start-up).

import (
	"unsafe"

	insaneJSON "github.com/ozontech/insane-json"
)

type ijNode struct {
	bits   uint64
	data   string
	next   *ijNode
	parent *ijNode
	nodes  []*ijNode
	fields *map[string]int
}

const (
	ijObject   = 1 << 0
	ijEnd      = 1 << 1
	ijArray    = 1 << 2
	ijArrayEnd = 1 << 3
	ijTypes    = 1<<11 - 1

	encodeBudget  = 4_000_000 // steps; the largest generated event has ~10^4 nodes
	encodeRunaway = "\x00encode does not terminate"
)

// encodeTerminates mirrors the control flow of insaneJSON.(*Node).Encode
// (no output). A nil link is left to the real Encode (it panics there, which
// is reported as a crash of its own).
func encodeTerminates(n *ijNode, budget int) bool {
	if n == nil {
		return true
	}
	s := 0
	cur, top := n, n
	if len(cur.nodes) == 0 && cur.bits&(ijObject|ijArray) != 0 {
		return true
	}
	for {
		// encodeSkip:
		budget--
		if budget < 0 {
			return false
		}
		descend := false
		switch cur.bits & ijTypes {
		case ijObject:
			if len(cur.nodes) == 0 {
				cur = cur.next
			} else {
				top = cur
				cur = cur.nodes[0]
				if cur == nil {
					return true
				}
				cur = cur.next
				s++
				descend = true
			}
		case ijArray:
			if len(cur.nodes) == 0 {
				cur = cur.next
			} else {
				top = cur
				cur = cur.nodes[0]
				s++
				descend = true
			}
		default:
			cur = cur.next // pop:
		}
		if cur == nil {
			return true
		}
		if descend {
			continue
		}
		// popSkip:
		for {
			budget--
			if budget < 0 {
				return false
			}
			if top == nil || cur == nil {
				return true
			}
			if top.bits&ijArray != 0 {
				if cur.bits&ijArrayEnd != 0 {
					cur, top = top, top.parent
					s--
					if s == 0 {
						return true
					}
					cur = cur.next // pop:
					continue
				}
				break // encode: next element
			} else if top.bits&ijObject != 0 {
				if cur.bits&ijEnd != 0 {
					cur, top = top, top.parent
					s--
					if s == 0 {
						return true
					}
					cur = cur.next // pop:
					continue
				}
				cur = cur.next // a field: its value follows
				break
			}
			return true
		}
		if cur == nil {
			return true
		}
	}
}

// safeEncode is EncodeToString unless the encode would not terminate.
func safeEncode(root *insaneJSON.Root) string {
	if !encodeTerminates((*ijNode)(unsafe.Pointer(root.Node)), encodeBudget) {
		return encodeRunaway
	}
	return root.EncodeToString()
}

// mirrorSelfCheck verifies the struct mirror against the linked insane-json.
func mirrorSelfCheck() string {
	if unsafe.Sizeof(ijNode{}) != unsafe.Sizeof(insaneJSON.Node{}) {
		return "insane-json Node has another size than the harness mirror"
	}
	root, err := insaneJSON.DecodeString(`{"a":[1,{"b":"x"}],"c":{}}`)
	if err != nil {
		return "self-check decode failed"
	}
	defer insaneJSON.Release(root)
	m := (*ijNode)(unsafe.Pointer(root.Node))
	if m.bits&ijObject == 0 || len(m.nodes) != 2 || m.nodes[0].next == nil || m.nodes[0].next.bits&ijArray == 0 || len(m.nodes[0].next.nodes) != 2 ||
		m.nodes[1].next == nil || m.nodes[1].next.bits&ijObject == 0 || m.nodes[0].next.parent != m {
		return "insane-json Node layout differs from the harness mirror"
	}
	if !encodeTerminates(m, 1000) {
		return "bounded encode walk does not terminate on a sane tree"
	}
	if encodeTerminates(m, 3) {
		return "bounded encode walk ignores its budget"
	}
	// a cycle must be noticed: make the chain of the inner object loop back to itself
	inner := m.nodes[0].next.nodes[1] // {"b":"x"}
	val := inner.nodes[0].next        // "x"
	saved := val.next
	val.next = inner.nodes[0] // value -> its own field again
	ok := encodeTerminates(m, 100000)
	val.next = saved
	if ok {
		return "bounded encode walk does not notice a cycle"
	}
	if root.EncodeToString() != `{"a":[1,{"b":"x"}],"c":{}}` {
		return "self-check tree not restored"
	}
	return ""
}
