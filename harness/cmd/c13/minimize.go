package main

// Witness minimisation and structural classification. Works on raw JSON text
// (the events may hold invalid UTF-8, huge numbers and duplicate keys, which a
// decode/encode round trip through encoding/json would destroy).

import (
	"sort"
	"strings"
	"unicode/utf8"
)

type member struct{ key, val string } // raw key (with quotes), raw value

// skipString returns the index just after the JSON string starting at s[i].
func skipString(s string, i int) int {
	i++
	for i < len(s) && s[i] != '"' {
		if s[i] == '\\' {
			i++
		}
		i++
	}
	return i + 1
}

// skipValue returns the index just after the JSON value starting at s[i].
func skipValue(s string, i int) int {
	if i >= len(s) {
		return i
	}
	switch s[i] {
	case '"':
		return skipString(s, i)
	case '{', '[':
		depth := 0
		for i < len(s) {
			switch c := s[i]; {
			case c == '"':
				i = skipString(s, i)
				continue
			case c == '{' || c == '[':
				depth++
			case c == '}' || c == ']':
				depth--
				if depth == 0 {
					return i + 1
				}
			}
			i++
		}
		return len(s)
	}
	j := i
	for j < len(s) && !strings.ContainsRune(",}] \n\t\r:", rune(s[j])) {
		j++
	}
	return j
}

func skipWS(s string, i int) int {
	for i < len(s) && (s[i] == ' ' || s[i] == '\n' || s[i] == '\t' || s[i] == '\r') {
		i++
	}
	return i
}

// splitObject splits the members of a JSON object text; ok=false when s is
// not an object.
func splitObject(s string) (ms []member, ok bool) {
	i := skipWS(s, 0)
	if i >= len(s) || s[i] != '{' {
		return nil, false
	}
	i = skipWS(s, i+1)
	for i < len(s) && s[i] != '}' {
		if s[i] == ',' {
			i = skipWS(s, i+1)
			continue
		}
		if s[i] != '"' {
			return nil, false
		}
		ke := skipValue(s, i)
		key := s[i:ke]
		i = skipWS(s, ke)
		if i >= len(s) || s[i] != ':' {
			return nil, false
		}
		i = skipWS(s, i+1)
		ve := skipValue(s, i)
		ms = append(ms, member{key, s[i:ve]})
		i = skipWS(s, ve)
	}
	return ms, true
}

func joinObject(ms []member) string {
	var b strings.Builder
	b.WriteByte('{')
	for i, m := range ms {
		if i > 0 {
			b.WriteByte(',')
		}
		b.WriteString(m.key)
		b.WriteByte(':')
		b.WriteString(m.val)
	}
	b.WriteByte('}')
	return b.String()
}

// minimize removes members of the event (recursively, three levels) while the
// predicate still holds. The predicate runs a child process, so the number of
// attempts is bounded.
func minimize(raw []byte, still func([]byte) bool) []byte {
	budget := 40
	var rec func(s string, rebuild func(string) string, depth int) string
	rec = func(s string, rebuild func(string) string, depth int) string {
		ms, ok := splitObject(s)
		if !ok {
			return s
		}
		for changed := true; changed; { // to a fixpoint: a removal may enable an earlier one
			changed = false
			for i := 0; i < len(ms) && budget > 0; {
				cand := append(append([]member{}, ms[:i]...), ms[i+1:]...)
				budget--
				if still([]byte(rebuild(joinObject(cand)))) {
					ms = cand
					changed = len(ms) > 0
					continue
				}
				i++
			}
		}
		if depth < 3 {
			for i := range ms {
				if strings.HasPrefix(ms[i].val, "{") {
					i := i
					ms[i].val = rec(ms[i].val, func(inner string) string {
						c2 := append([]member{}, ms...)
						c2[i].val = inner
						return rebuild(joinObject(c2))
					}, depth+1)
				}
			}
		}
		return joinObject(ms)
	}
	out := rec(string(raw), func(s string) string { return s }, 0)
	if out != string(raw) && !jsonValid(out) {
		return raw
	}
	return []byte(out)
}

// valueShape is the structural class of a raw JSON value (coarse on purpose:
// a signature names a defect, not an input).
func valueShape(v string) string {
	switch {
	case v == "null":
		return "null"
	case v == "true" || v == "false":
		return "bool"
	case strings.HasPrefix(v, `"`):
		body := v[1 : len(v)-1]
		if !utf8.ValidString(body) {
			return "str+bad-utf8"
		}
		switch len(body) {
		case 0:
			return "str:empty"
		case 1:
			return "str:1b"
		case 2:
			return "str:2b"
		}
		return "str"
	case strings.HasPrefix(v, "["):
		if strings.HasPrefix(strings.TrimSpace(v[1:]), "{") {
			return "array-of-objects"
		}
		return "array"
	case strings.HasPrefix(v, "{"):
		return "object"
	default:
		d := strings.TrimLeft(v, "-")
		if len(d) <= 2 {
			return "num:1-2digits"
		}
		return "num"
	}
}

// triggerShape classifies a (minimised) event: "root=non-object", "{}" or the
// sorted set of value classes of the leaves that had to stay (field names are
// configuration, not defect, and are left out).
func triggerShape(raw []byte) string {
	s := strings.TrimSpace(string(raw))
	ms, ok := splitObject(s)
	if !ok {
		if strings.HasPrefix(s, "[") && strings.HasPrefix(strings.TrimSpace(s[1:]), "{") {
			return "root=array-of-objects"
		}
		return "root=non-object"
	}
	if len(ms) == 0 {
		return "{}"
	}
	set := map[string]bool{}
	var walk func(ms []member, depth int)
	walk = func(ms []member, depth int) {
		for _, m := range ms {
			if sub, ok := splitObject(m.val); ok && len(sub) > 0 && depth < 3 {
				walk(sub, depth+1)
				continue
			}
			set[valueShape(m.val)] = true
		}
	}
	walk(ms, 0)
	parts := make([]string, 0, len(set))
	for k := range set {
		parts = append(parts, k)
	}
	sort.Strings(parts)
	if len(parts) > 4 {
		parts = append(parts[:4], "...")
	}
	return strings.Join(parts, ",")
}
