package main

// Concurrency clause: the action instances of one pipeline run on several
// processors at once and may share state (hash: one normalizer per pipeline
// and action index in a package-level cache; throttle: the limiters map;
// cardinality: the cache; mask / discard: metrics; k8s: the meta store).
//
// Child "par", one process per (plugin, configuration):
//
//	phase ref: the event list through a ONE-processor pipeline, event i from
//	           source 1 + i mod K, one feeder, in index order;
//	phase par: the same list through a pipeline with the default number of
//	           processors (2 x GOMAXPROCS = 8), K feeder goroutines (one per
//	           source, each feeding its own events in the same order), the
//	           list fed `Rounds` times.
//
// Both phases keep the per-stream order of events, so for an action whose
// result is a function of the event (and of earlier events of the same
// stream) the output of event i must be byte-identical in both phases.
// Oracle: the process survives the parallel phase (the same list survived the
// one-processor phase a moment earlier in the same process), every output is
// valid JSON that re-parses, and - for plugins whose result does not depend on
// the clock or on the order of events of OTHER streams - per event the
// parallel output equals the one-processor output (children of split: equal
// as a multiset). Race-detector reports with plugin frames are violations
// when the binary is built with -race (run.sh does not do that for C13).

import (
	"bytes"
	"encoding/json"
	"fmt"
	"math/rand"
	"os"
	"reflect"
	"sort"
	"strings"
	"sync"
	"time"

	"github.com/ozontech/file.d/pipeline"
	"github.com/ozontech/file.d/pipeline/metadata"

	"verifharness/core"
)

type parDiff struct {
	Idx  int    `json:"idx"`
	Kind string `json:"kind"` // differs | missing | extra | children
	Ref  []byte `json:"ref,omitempty"`
	Par  []byte `json:"par,omitempty"`
}

type parOut struct {
	SetupErr      string       `json:"setup_err,omitempty"`
	RefOutputs    int          `json:"ref_outputs"`
	ParOutputs    int          `json:"par_outputs"`
	ParEntered    int64        `json:"par_entered"`
	Compared      int          `json:"compared"`
	OrderOnly     int          `json:"order_only"` // equal up to the order of members
	Changed       int          `json:"changed"`    // reference outputs that differ from the untouched event
	Children      int          `json:"children"`
	Diffs         []parDiff    `json:"diffs,omitempty"`
	NDiffs        int          `json:"n_diffs"`
	Invalid       []invalidRec `json:"invalid,omitempty"` // parallel phase only, where the one-processor output was valid
	RefInvalid    int          `json:"ref_invalid"`
	ParInvalid    int          `json:"par_invalid"`
	Quiesced      bool         `json:"quiesced"`
	MaxConcurrent int64        `json:"max_concurrent"` // processors inside the tested action(s) at once
	RefMs         int64        `json:"ref_ms"`
	ParMs         int64        `json:"par_ms"`
}

// parCollector is the output of both phases: encodes every event at once on
// the processor's goroutine, checks it, keeps the encoding by event index.
type parCollector struct {
	ctl      pipeline.OutputPluginController
	mu       sync.Mutex
	n        int
	outs     [][][]byte // by index: the encodings seen (one per round)
	bad      []bool     // by index: some encoding of it was invalid
	children [][]byte
	invalid  []invalidRec
	nInvalid int
	pend     []*pipeline.Event
}

func (o *parCollector) Start(_ pipeline.AnyConfig, p *pipeline.OutputPluginParams) {
	o.ctl = p.Controller
}
func (o *parCollector) Stop() {}

func (o *parCollector) Out(e *pipeline.Event) {
	if e.IsChildParentKind() {
		o.mu.Lock()
		o.pend = append(o.pend, e)
		o.mu.Unlock()
		return
	}
	enc := e.Root.Encode(nil)
	err := checkJSON(enc)
	idx := int(e.Offset)
	o.mu.Lock()
	o.n++
	if e.IsChildKind() {
		idx = -1
		o.children = append(o.children, enc)
	} else if idx >= 0 && idx < len(o.outs) {
		o.outs[idx] = append(o.outs[idx], enc)
	}
	if err != nil {
		o.nInvalid++
		if idx >= 0 && idx < len(o.bad) {
			o.bad[idx] = true
		}
		if len(o.invalid) < 10 {
			e2 := enc
			if len(e2) > 2048 {
				e2 = e2[:2048]
			}
			kind := "regular"
			if idx < 0 {
				kind = "child"
			}
			o.invalid = append(o.invalid, invalidRec{Idx: idx, Phase: "immediate", Kind: kind, Err: err.Error(), Token: badToken(enc, err.Error()), Out: append([]byte(nil), e2...)})
		}
	}
	o.pend = append(o.pend, e)
	var commit []*pipeline.Event
	if len(o.pend) > 4 {
		commit, o.pend = o.pend, nil
	}
	o.mu.Unlock()
	for _, ev := range commit {
		o.ctl.Commit(ev)
	}
}

func (o *parCollector) flush() {
	o.mu.Lock()
	commit := o.pend
	o.pend = nil
	o.mu.Unlock()
	for _, ev := range commit {
		o.ctl.Commit(ev)
	}
}

// runParPhase runs one phase: a fresh pipeline, the events of `order`.
func runParPhase(in *childIn, single bool, order []int, sources, rounds int, cio *core.ChildIO, phase string) (col *parCollector, setupErr string, quiesced bool, err error) {
	col = &parCollector{outs: make([][][]byte, len(in.Events)), bad: make([]bool, len(in.Events))}
	p, input, evTimeout, setupErr, err := buildPipeline(in, single, col)
	if err != nil || setupErr != "" {
		return nil, setupErr, false, err
	}
	p.Start()
	cio.Log(clog{T: "started"})
	cio.Log(clog{T: "phase", P: phase})
	var meta metadata.MetaData
	if len(in.Meta) > 0 {
		meta = metadata.MetaData(in.Meta)
	}
	settle := func(limit time.Duration) bool {
		deadline := time.Now().Add(limit)
		for {
			col.flush()
			if p.VerifPoolInUse() == 0 {
				return true
			}
			if time.Now().After(deadline) {
				return false
			}
			time.Sleep(2 * time.Millisecond)
		}
	}
	stopFlusher := make(chan struct{})
	var flusher sync.WaitGroup
	flusher.Add(1)
	go func() {
		defer flusher.Done()
		t := time.NewTicker(3 * time.Millisecond)
		defer t.Stop()
		for {
			select {
			case <-stopFlusher:
				return
			case <-t.C:
				col.flush()
			}
		}
	}()
	feed := func(i int) {
		input.ctl.In(pipeline.SourceID(1+i%sources), "c13.log", pipeline.NewOffsets(int64(i), nil), in.Events[i], false, meta)
	}
	if single {
		for _, i := range order {
			feed(i)
		}
	} else {
		var wg sync.WaitGroup
		for k := 0; k < sources; k++ {
			wg.Add(1)
			go func(k int) {
				defer wg.Done()
				for r := 0; r < rounds; r++ {
					for _, i := range order {
						if i%sources == k {
							feed(i)
						}
					}
				}
			}(k)
		}
		wg.Wait()
	}
	quiesced = settle(evTimeout + 20*time.Second)
	close(stopFlusher)
	flusher.Wait()
	if quiesced {
		p.Stop()
	}
	col.flush()
	return col, "", quiesced, nil
}

func parMain(raw json.RawMessage, cio *core.ChildIO) (any, error) {
	var in childIn
	if err := json.Unmarshal(raw, &in); err != nil {
		return nil, err
	}
	res := &parOut{}
	curIO = cio
	cio.Log(clog{T: "start"})
	order := in.Only
	if order == nil {
		order = make([]int, len(in.Events))
		for i := range order {
			order[i] = i
		}
	}
	sources, rounds := in.Sources, in.Rounds
	if sources < 1 {
		sources = 8
	}
	if rounds < 1 {
		rounds = 1
	}
	curHead.Store(-1)
	base := baseEncodings(&in, order)

	// phase ref: one processor
	t0 := time.Now()
	ref, setupErr, q1, err := runParPhase(&in, true, order, sources, 1, cio, "ref")
	if err != nil {
		return nil, err
	}
	if setupErr != "" {
		res.SetupErr = setupErr
		return res, nil
	}
	res.RefMs = time.Since(t0).Milliseconds()
	res.RefOutputs, res.RefInvalid = ref.n, ref.nInvalid
	for i, o := range ref.outs {
		if len(o) > 0 && !bytes.Equal(o[0], base[i]) {
			res.Changed++
		}
	}

	// phase par: the default number of processors, one feeder per source
	t1 := time.Now()
	headMute.Store(true)
	headSeen.Store(0)
	gaugeOn.Store(true)
	par, _, q2, err := runParPhase(&in, false, order, sources, rounds, cio, "par")
	gaugeOn.Store(false)
	if err != nil {
		return nil, err
	}
	cio.Log(clog{T: "phase", P: "compare"})
	res.ParMs = time.Since(t1).Milliseconds()
	res.ParOutputs, res.ParInvalid = par.n, par.nInvalid
	res.ParEntered = headSeen.Load()
	res.MaxConcurrent = gaugeMax.Load()
	res.Quiesced = q1 && q2
	res.Children = len(par.children)

	for _, rec := range par.invalid {
		// an output that is invalid with one processor as well is the main clause's business
		if rec.Idx >= 0 && ref.bad[rec.Idx] {
			continue
		}
		if rec.Idx < 0 && ref.nInvalid > 0 {
			continue
		}
		if !in.Compare && ref.nInvalid > 0 {
			continue
		}
		res.Invalid = append(res.Invalid, rec)
	}

	if in.Compare && res.Quiesced {
		add := func(d parDiff) {
			res.NDiffs++
			if len(res.Diffs) < 8 {
				if len(d.Ref) > 4096 {
					d.Ref = d.Ref[:4096]
				}
				if len(d.Par) > 4096 {
					d.Par = d.Par[:4096]
				}
				res.Diffs = append(res.Diffs, d)
			}
		}
		for _, i := range order {
			var r []byte
			if len(ref.outs[i]) > 0 {
				r = ref.outs[i][0]
			}
			pl := par.outs[i]
			res.Compared += len(pl)
			for _, e := range pl {
				switch {
				case r == nil:
					add(parDiff{Idx: i, Kind: "extra", Par: e})
				case bytes.Equal(r, e):
				case semEqual(r, e):
					// same members and values in another order (plugins that walk a Go map)
					res.OrderOnly++
				default:
					add(parDiff{Idx: i, Kind: "differs", Ref: r, Par: e})
				}
			}
			if r != nil && len(pl) < rounds {
				add(parDiff{Idx: i, Kind: "missing", Ref: r})
			}
		}
		// children carry no offset: equal as multisets
		var want, got [][]byte
		for r := 0; r < rounds; r++ {
			for _, ch := range ref.children {
				want = append(want, canon(ch))
			}
		}
		for _, ch := range par.children {
			got = append(got, canon(ch))
		}
		sort.Slice(want, func(a, b int) bool { return bytes.Compare(want[a], want[b]) < 0 })
		sort.Slice(got, func(a, b int) bool { return bytes.Compare(got[a], got[b]) < 0 })
		if len(want) != len(got) {
			add(parDiff{Idx: -1, Kind: "children", Ref: []byte(fmt.Sprint(len(want))), Par: []byte(fmt.Sprint(len(got)))})
		} else {
			for k := range want {
				if !bytes.Equal(want[k], got[k]) {
					add(parDiff{Idx: -1, Kind: "children", Ref: want[k], Par: got[k]})
					break
				}
			}
		}
	}
	cio.Log(clog{T: "done"})
	return res, nil
}

// ---- parent side ----

type parJob struct {
	ps        *pluginSpec
	cfg       cfgSpec
	name      string
	events    []genEvent
	load      func() []genEvent // regenerates events (deterministic); held only while the job runs
	compare   bool
	rounds    int
	normalize bool // hash with a normalizer: slow to start (the lexer is compiled), shared by all processors
}

// plugins whose result depends on the clock or on the order of events of
// other streams (shared counters): no per-event comparison.
var parNoCompare = map[string]bool{
	"set_time": true, "throttle": true, "cardinality": true, // clock / shared counters
	"join": true, "join_template": true, "k8s-multiline": true, "parse_es": true, // hold: the result depends on time-outs
}

// configurations whose result is not a function of the event.
var parNoCompareCfg = map[string]string{
	"modify/trim-filters": "one operation rewrites `message`, two others read it; every processor's modify.Start fixes its own order of operations (Go map order), so the result depends on the processor",
}

func actionTypes(actions []string) []string {
	var out []string
	for _, a := range actions {
		var t struct {
			Type string `json:"type"`
		}
		_ = json.Unmarshal([]byte(a), &t)
		out = append(out, t.Type)
	}
	return out
}

// parBadGenerated: event texts of the concurrency clause that encoding/json does not accept.
var parBadGenerated int

func buildParJobs(c *core.Ctx) []*parJob {
	nRandom := c.N(200, 3000)
	nVariants := c.N(1, 3)
	all := specs()
	var jobs []*parJob
	for pi := range all {
		ps := &all[pi]
		cfgs := append([]cfgSpec{}, ps.Configs...)
		if !ps.Chain {
			cfgs = append(cfgs, variantsFor(ps, c.Rand("par-variants/"+ps.Name), nVariants)...)
		}
		for _, cf := range cfgs {
			cf := cf
			load := func() []genEvent {
				g := &evGen{fields: splitPaths(cf.Fields), dict: ps.Dict, rootDict: ps.RootDict, dictBias: ps.DictBias, benign: ps.Benign}
				var evs []genEvent
				for _, e := range cf.Prologue {
					evs = append(evs, genEvent{Raw: []byte(e), Shape: "prologue"})
				}
				dir := g.directed()
				n := nRandom
				if cf.Stateful {
					// hold-capable: no comparison (crash / validity only) and every stalled
					// stream costs a 60 ms time-out: a third of the directed list, a quarter of the random part
					for k := 0; k < len(dir); k += 3 {
						evs = append(evs, dir[k])
					}
					n /= 4
				} else {
					evs = append(evs, dir...)
				}
				rng := rand.New(rand.NewSource(c.SubSeed("par-events/"+ps.Name+"/"+cf.Label, 0)))
				for i := 0; i < n; i++ {
					evs = append(evs, g.random(rng))
				}
				if cf.Settings.K8s {
					// the known fatal exit on a non-object root would end the one-processor phase
					kept := evs[:0]
					for _, e := range evs {
						if len(e.Raw) > 0 && e.Raw[0] == '{' {
							kept = append(kept, e)
						}
					}
					evs = kept
				}
				return evs
			}
			// generated once for the generator's own contract, then dropped: the job
			// regenerates its list when it runs
			for _, e := range load() {
				if !json.Valid(e.Raw) {
					parBadGenerated++
					if parBadGenerated < 5 {
						fmt.Printf("generator bug (concurrency clause): %s/%s emits invalid JSON %s\n", ps.Name, cf.Label, evStr(e.Raw))
					}
				}
			}
			name := ps.Name
			if ps.Chain {
				name = "chain:" + cf.Label
			}
			compare := !cf.Stateful
			normalize := false
			for _, t := range actionTypes(cf.Actions) {
				if parNoCompare[t] {
					compare = false
				}
			}
			for _, a := range cf.Actions {
				if strings.Contains(a, `"normalize"`) {
					normalize = true
				}
			}
			rounds := c.N(1, 2)
			if normalize { // one normalizer for all processors
				rounds = c.N(6, 12)
			}
			if why, ok := parNoCompareCfg[ps.Name+"/"+cf.Label]; ok && why != "" {
				compare = false
			}
			jobs = append(jobs, &parJob{ps: ps, cfg: cf, name: name, load: load, compare: compare, rounds: rounds, normalize: normalize})
		}
	}
	return jobs
}

var parOpt = core.ChildOpt{Timeout: 6 * time.Minute, GOMAXPROCS: 4, Env: []string{"LOG_LEVEL=fatal"}}

func (pj *parJob) childIn(only []int) childIn {
	in := childIn{Label: pj.name + "/" + pj.cfg.Label, Settings: pj.cfg.Settings, Only: only, Sources: 8, Rounds: pj.rounds, Compare: pj.compare}
	for _, a := range pj.cfg.Actions {
		in.Actions = append(in.Actions, json.RawMessage(a))
	}
	in.Events = make([][]byte, len(pj.events))
	for i := range pj.events {
		in.Events[i] = pj.events[i].Raw
	}
	if pj.cfg.Stateful {
		in.Settings.EventTimeoutMs = 60
	}
	if pj.cfg.Settings.K8s {
		in.Meta = k8sItem
	}
	in.Settings.Capacity = 32
	if pj.normalize {
		in.PipeName = "c13_par"
	}
	return in
}

// lastPhase: the phase the child was in when its log ends.
func lastPhase(r *core.ChildResult) (phase string, started bool) {
	for _, l := range r.Log {
		var cl clog
		if json.Unmarshal(l, &cl) != nil {
			continue
		}
		switch cl.T {
		case "started":
			started = true
		case "phase":
			phase = cl.P
		}
	}
	return
}

// diffClass names what differs between two encodings of an event: the top
// level members whose values differ (structural, seed independent).
func diffClass(ref, got []byte) string {
	dec := func(b []byte) (any, bool) {
		d := json.NewDecoder(bytes.NewReader(b))
		d.UseNumber()
		var v any
		if d.Decode(&v) != nil {
			return nil, false
		}
		return v, true
	}
	a, ok1 := dec(ref)
	b, ok2 := dec(got)
	switch {
	case !ok1 && !ok2:
		return "both-unparsable"
	case !ok2:
		return "unparsable"
	case !ok1:
		return "reference-unparsable"
	}
	if reflect.DeepEqual(a, b) {
		return "encoding-only"
	}
	ma, oka := a.(map[string]any)
	mb, okb := b.(map[string]any)
	if !oka || !okb {
		return "root"
	}
	var vals, names []string
	for k, va := range ma {
		if vb, ok := mb[k]; !ok {
			names = append(names, k)
		} else if !reflect.DeepEqual(va, vb) {
			vals = append(vals, k)
		}
	}
	extra := 0
	for k := range mb {
		if _, ok := ma[k]; !ok {
			extra++
		}
	}
	sort.Strings(vals)
	sort.Strings(names)
	var parts []string
	if len(vals) > 0 {
		if len(vals) > 3 {
			vals = append(vals[:3], "...")
		}
		parts = append(parts, "value-of:"+strings.Join(vals, ","))
	}
	if len(names) > 0 || extra > 0 {
		if len(names) > 3 {
			names = append(names[:3], "...")
		}
		s := "members"
		if len(names) > 0 {
			s += "-lost:" + strings.Join(names, ",")
		}
		if extra > 0 {
			s += "-unexpected"
		}
		parts = append(parts, s)
	}
	return strings.Join(parts, " ")
}

// coarseDiffClass: member-names | member-values | member-names+values | root.
func coarseDiffClass(ref, got []byte) string {
	cls := diffClass(ref, got)
	n, v := strings.Contains(cls, "members"), strings.Contains(cls, "value-of")
	switch {
	case n && v:
		return "member-names+values"
	case n:
		return "member-names"
	case v:
		return "member-values"
	}
	return cls
}

// canon: the document with sorted members (children of split are compared as a multiset).
func canon(b []byte) []byte {
	d := json.NewDecoder(bytes.NewReader(b))
	d.UseNumber()
	var v any
	if d.Decode(&v) != nil {
		return b
	}
	c, err := json.Marshal(v)
	if err != nil {
		return b
	}
	return c
}

func isPluginRace(report string) bool {
	return strings.Contains(report, "/repo/plugin/") || strings.Contains(report, "file.d/plugin/")
}

func (rn *runner) parRaces(pj *parJob, r *core.ChildResult, seen map[string]bool) {
	for _, rep := range r.RaceReports {
		if !isPluginRace(rep) {
			rn.c.Count("par_race_reports_outside_plugins", 1)
			continue
		}
		key := core.RaceKey(rep)
		if seen[key] {
			continue
		}
		seen[key] = true
		p := pj.name
		if i := strings.Index(rep, "plugin/action/"); i >= 0 {
			rest := rep[i+len("plugin/action/"):]
			if k := strings.IndexAny(rest, "/."); k > 0 {
				p = rest[:k]
			}
		}
		sig := fmt.Sprintf("plugin=%s concurrency=data-race at=%s", p, foldDigits(key))
		fmt.Printf("finding: %s [config %s]\n", sig, pj.cfg.Label)
		rn.c.Violation(sig, fmt.Sprintf("%s (config %q): the race detector reports a data race in plugin code while several processors run the action", pj.name, pj.cfg.Label),
			map[string]any{"plugin": pj.name, "config": pj.cfg.Label, "actions": pj.cfg.Actions, "report": core.Trunc(rep, 4000)})
	}
}

func (rn *runner) runPar(pj *parJob) {
	c := rn.c
	alive := make([]int, len(pj.events))
	for i := range alive {
		alive[i] = i
	}
	races := map[string]bool{}
	wit := func(extra map[string]any) map[string]any {
		w := map[string]any{"plugin": pj.name, "config": pj.cfg.Label, "actions": pj.cfg.Actions, "settings": pj.cfg.Settings, "processors": 8, "sources": 8, "rounds": pj.rounds}
		for k, v := range extra {
			w[k] = v
		}
		return w
	}
	for attempt := 0; attempt < 12; attempt++ {
		r := core.RunChild("par", pj.childIn(alive), parOpt)
		if r.TimedOut {
			c.Inconclusive("watchdog")
			fmt.Printf("note: par %s/%s: watchdog expired\n%s\n", pj.name, pj.cfg.Label, core.Trunc(r.Stderr, 1500))
			return
		}
		rn.parRaces(pj, r, races)
		if r.Completed {
			var out parOut
			if err := json.Unmarshal(r.Out, &out); err != nil {
				c.Inconclusive("par-child-output-unreadable")
				return
			}
			if out.SetupErr != "" {
				c.Count("par_configs_rejected_by_plugin", 1)
				return
			}
			rn.parAccount(pj, &out, len(alive))
			if !out.Quiesced {
				c.Inconclusive("pipeline-not-quiet-at-end")
				fmt.Printf("note: par %s/%s: pipeline not quiet at the end of a phase\n", pj.name, pj.cfg.Label)
				return
			}
			seen := map[string]bool{}
			for k, d := range out.Diffs {
				if k > 0 {
					break // the first differing event in index order classifies the job (the directed part is the same for every seed)
				}
				cls, detail := d.Kind, d.Kind
				if d.Kind == "differs" {
					cls, detail = coarseDiffClass(d.Ref, d.Par), diffClass(d.Ref, d.Par)
				}
				sig := fmt.Sprintf("plugin=%s concurrency=output-differs-from-single-processor diff=%s", pj.name, cls)
				if seen[sig] {
					continue
				}
				seen[sig] = true
				cls = detail
				ev := ""
				if d.Idx >= 0 && d.Idx < len(pj.events) {
					ev = evStr(pj.events[d.Idx].Raw)
				}
				fmt.Printf("finding: %s [config %s] %s: one processor %s, several %s\n", sig, pj.cfg.Label, ev, evStr(d.Ref), evStr(d.Par))
				c.Violation(sig,
					fmt.Sprintf("%s (config %q): with several processors the output of an event differs from what the one-processor pipeline gives for the same stream (%s; %d of %d outputs differ)", pj.name, pj.cfg.Label, cls, out.NDiffs, out.Compared),
					wit(map[string]any{"event": ev, "event_index": d.Idx, "one_processor_output": evStr(d.Ref), "several_processors_output": evStr(d.Par), "outputs_differing": out.NDiffs}))
			}
			for _, rec := range out.Invalid {
				sig := fmt.Sprintf("plugin=%s concurrency=invalid-json kind=%s token=%s", pj.name, rec.Kind, rec.Token)
				if seen[sig] {
					continue
				}
				seen[sig] = true
				fmt.Printf("finding: %s [config %s] -> %s\n", sig, pj.cfg.Label, evStr(rec.Out))
				c.Violation(sig,
					fmt.Sprintf("%s (config %q): with several processors an event leaves as a document that is not valid JSON (%s) while the one-processor pipeline emits valid documents for the same stream", pj.name, pj.cfg.Label, rec.Token),
					wit(map[string]any{"event_index": rec.Idx, "output": evStr(rec.Out), "error": rec.Err}))
			}
			return
		}
		// the child died
		phase, started := lastPhase(r)
		if !started {
			c.Count("par_configs_rejected_by_plugin", 1)
			return
		}
		kind, msg, at := crashClass(r)
		switch phase {
		case "ref":
			// content that is lethal with one processor is the main clause's finding: drop the event, go on
			idx, _, _ := lastDo(r)
			pos := -1
			for k, i := range alive {
				if i == idx {
					pos = k
				}
			}
			if pos < 0 {
				c.Count("par_jobs_skipped_reference_phase_died", 1)
				return
			}
			c.Count("par_lethal_events_removed", 1)
			alive = append(append([]int{}, alive[:pos]...), alive[pos+1:]...)
			continue
		case "par":
			if kind != "panic" && kind != "runtime-fatal" && kind != "fatal-exit" {
				c.Inconclusive("par-child-died-without-a-go-crash")
				fmt.Printf("note: par %s/%s: child died in the parallel phase (%s %s)\n", pj.name, pj.cfg.Label, kind, msg)
				return
			}
			if poolClassCrash(r.Stderr) {
				rn.notePoolClass("concurrency clause", pj.name+"/"+pj.cfg.Label, r.Stderr, wit(map[string]any{"events": len(alive)}))
				return
			}
			jj := &job{name: pj.name}
			sig := fmt.Sprintf("plugin=%s concurrency=crash kind=%s msg=%s at=%s", sigPlugin(jj, r.Stderr, at), kind, msg, at)
			fmt.Printf("finding: %s [config %s]\n", sig, pj.cfg.Label)
			c.Violation(sig,
				fmt.Sprintf("%s (config %q) dies when several processors run the action at once (%s at %s); the same events passed the one-processor pipeline in the same process just before", pj.name, pj.cfg.Label, msg, at),
				wit(map[string]any{"events": len(alive), "stderr": core.Trunc(tailPanic(r.Stderr), 3000)}))
			c.Count("par_crashes", 1)
			return
		default:
			c.Inconclusive("par-child-died-outside-the-phases")
			fmt.Printf("note: par %s/%s: child died in phase %q (%s %s at %s)\n", pj.name, pj.cfg.Label, phase, kind, msg, at)
			return
		}
	}
	c.Count("par_jobs_skipped_too_many_lethal_events", 1)
}

func (rn *runner) parAccount(pj *parJob, out *parOut, nEvents int) {
	c := rn.c
	c.Eval(int(out.ParEntered))
	c.Count("par_jobs", 1)
	c.Count("par_events_entered_action", out.ParEntered)
	c.Count("par_outputs_checked", int64(out.ParOutputs))
	c.Count("par_outputs_compared_with_single_processor", int64(out.Compared))
	c.Count("par_outputs_differing", int64(out.NDiffs))
	c.Count("par_outputs_equal_up_to_member_order", int64(out.OrderOnly))
	c.Count("par_reference_outputs_changed_by_action", int64(out.Changed))
	if out.MaxConcurrent >= 2 {
		c.Count("par_jobs_with_processors_overlapping_in_action", 1)
	}
	rn.stats.add(pj.ps.Name, "par_entered", out.ParEntered)
	rn.stats.add(pj.ps.Name, "par_compared", int64(out.Compared))
	rn.stats.max(pj.ps.Name, "par_max_concurrent", out.MaxConcurrent)
	if out.Compared > 0 && out.MaxConcurrent >= 2 && len(pj.cfg.Label)%7 == 0 {
		c.Sample(map[string]any{"concurrency_clause": pj.name + "/" + pj.cfg.Label, "events": nEvents, "rounds": pj.rounds, "outputs_compared_with_one_processor": out.Compared, "differing": out.NDiffs, "equal_up_to_member_order": out.OrderOnly, "max_processors_inside_the_action_at_once": out.MaxConcurrent})
	}
	c.NontrivialHash("par", pj.ps.Name, pj.cfg.Label, fmt.Sprint(pj.compare), fmt.Sprint(out.MaxConcurrent >= 2), fmt.Sprint(out.Changed > 0))
	if os.Getenv("C13_TIMING") != "" {
		fmt.Printf("timing: par %s/%s: %d events x %d rounds, ref %d ms, par %d ms, max concurrent %d, compared %d\n", pj.name, pj.cfg.Label, nEvents, pj.rounds, out.RefMs, out.ParMs, out.MaxConcurrent, out.Compared)
	}
}
