package main

// Child workload: ONE (plugin, configuration) - or one chain of actions - in a
// real pipeline:
//
//	harness input -> [verif_c13_head, <tested action(s)>] -> harness output
//
// The actions array goes through fd.SetupActions (-> pipeline.GetConfig ->
// cfg.DecodeConfig / cfg.Parse) and the plugins are started by the real
// processor (Plugin.Start), so a configuration the plugin itself refuses
// (error from SetupActions, logger.Fatal / panic in Start) is recognised by
// the parent as "rejected" (the child logs "started" only after
// Pipeline.Start returned).
//
// verif_c13_head is a pass-through probe in front of the tested action: it
// runs on the processor goroutine right before the tested action's Do and
// writes the index of the event to the on-disk command log first, so a death
// of the process is attributed to the exact event being processed.
//
// The harness output is the oracle's observation point: every event it
// receives (children of split included, parents of split excluded exactly
// like pipeline.Batch.ForEach does) is encoded at once and must be valid
// JSON that re-parses; it is then kept for a few more events - like an
// output with a batcher does - encoded again and only then committed.

import (
	"bytes"
	"encoding/json"
	"fmt"
	"io"
	"os"
	"strings"
	"sync"
	"sync/atomic"
	"time"
	"unsafe"

	simplejson "github.com/bitly/go-simplejson"
	"github.com/ozontech/file.d/fd"
	"github.com/ozontech/file.d/pipeline"
	"github.com/ozontech/file.d/pipeline/metadata"
	k8smeta "github.com/ozontech/file.d/plugin/input/k8s/meta"
	insaneJSON "github.com/ozontech/insane-json"
	"github.com/prometheus/client_golang/prometheus"
	"go.uber.org/zap"
	"go.uber.org/zap/zapcore"
	corev1 "k8s.io/api/core/v1"
	metav1 "k8s.io/apimachinery/pkg/apis/meta/v1"

	"verifharness/core"
)

const headType = "verif_c13_head"

// outcome bits per fed event
const (
	ocOutput   = 1 << iota // reached the output with a valid encoding
	ocDropped              // finalized without reaching the output (discard / collapse)
	ocHeld                 // held by the action (ActionHold)
	ocChanged              // its encoding at the output differs from the untouched event
	ocInvalid              // reached the output with an invalid encoding
	ocHead                 // the head probe saw it (the tested action's Do was entered)
	ocRejected             // the pipeline's decoder refused the bytes (not an event)
	ocChildren             // children spawned while it was processed reached the output
)

type childSettings struct {
	EventTimeoutMs          int    `json:"event_timeout_ms"`
	Capacity                int    `json:"capacity"`
	AvgEventSize            int    `json:"avg_event_size"`
	MaxEventSize            int    `json:"max_event_size"`
	CutOffEventByLimit      bool   `json:"cut_off"`
	CutOffEventByLimitField string `json:"cut_off_field"`
	IsStrict                bool   `json:"is_strict"`
	K8s                     bool   `json:"k8s"`                  // install pod meta for the k8s multiline action
	MetricMaxLabelLen       int    `json:"metric_max_label_len"` // pipeline setting metric.max_label_value_length
}

type childIn struct {
	Label    string            `json:"label"`
	Actions  []json.RawMessage `json:"actions"`
	Settings childSettings     `json:"settings"`
	Events   [][]byte          `json:"events"`
	Only     []int             `json:"only,omitempty"`   // feed only these indices, in this order
	Pauses   []int             `json:"pauses,omitempty"` // pause (time-out window) after feeding these indices
	Meta     map[string]string `json:"meta,omitempty"`
	DeferK   int               `json:"defer_k"`
	// KeepOut: return the encoding of every event at the output (chain clause:
	// the parent compares it with the step-by-step reference evaluation)
	KeepOut bool `json:"keep_out,omitempty"`
	// OneSource: feed every event from one source (deterministic order for a
	// holding action); default: two sources taking turns
	OneSource bool `json:"one_source,omitempty"`
	// concurrency clause (child "par")
	Sources int  `json:"sources,omitempty"` // number of sources = feeder goroutines of the parallel phase
	Rounds  int  `json:"rounds,omitempty"`  // the parallel phase feeds the list this many times
	Compare bool `json:"compare,omitempty"` // per event outputs of the phases must be equal
	// PipeName: both phases use this pipeline name (hash keeps one normalizer
	// per pipeline name and action index; compiling the built-in patterns
	// takes seconds, the second phase finds it in the plugin's cache)
	PipeName string `json:"pipe_name,omitempty"`
}

// outRec is one event at the output (KeepOut).
type outRec struct {
	Idx  int    `json:"i"`
	Kind string `json:"k,omitempty"` // "" regular | child
	Enc  []byte `json:"e"`
}

type invalidRec struct {
	Idx   int    `json:"idx"`   // event index the output belongs to
	Phase string `json:"phase"` // immediate | late
	Kind  string `json:"kind"`  // regular | child
	Err   string `json:"err"`
	Token string `json:"token"` // class of the offending token (computed on the full encoding)
	Out   []byte `json:"out"`   // encoding (truncated)
}

type childOut struct {
	SetupErr  string       `json:"setup_err,omitempty"`
	Fed       int          `json:"fed"`
	Outcomes  []byte       `json:"outcomes"` // per index of Events
	Outputs   int          `json:"outputs"`
	Children  int          `json:"children"`
	Parents   int          `json:"parents"`
	Timeouts  int          `json:"timeouts"`
	LateDiff  int          `json:"late_diff"`
	Invalid   []invalidRec `json:"invalid,omitempty"`
	Quiesced  bool         `json:"quiesced"`
	InUseEnd  int64        `json:"in_use_end"`
	OutBytes  int64        `json:"out_bytes"`
	StartedMs int64        `json:"started_ms"`
	TotalMs   int64        `json:"total_ms"`
	Outs      []outRec     `json:"outs,omitempty"` // KeepOut: in output order
}

// log lines of the child
type clog struct {
	T   string      `json:"t"`           // start | started | do | invalid | done | phase
	P   string      `json:"p,omitempty"` // phase name (child "par")
	I   int         `json:"i,omitempty"` // event index for "do"
	Inv *invalidRec `json:"inv,omitempty"`
}

// ---- head probe ----

type headCfg struct{}
type headPlugin struct {
	inside bool // this processor is between the head probe and the tail probe (gauge on only)
}

// gauge of the concurrency clause: how many processors are inside the tested
// action(s) at once. The head probe (one instance per processor) enters, the
// tail probe behind the tested actions leaves; an event that never reaches
// the tail (dropped, held) leaves when its processor enters again.
var (
	gaugeOn     atomic.Bool
	gaugeInside atomic.Int64
	gaugeMax    atomic.Int64
	gaugeOwner  sync.Map // *pipeline.Event -> *headPlugin
)

const tailType = "verif_c13_tail"

type tailPlugin struct{}

func (t *tailPlugin) Start(pipeline.AnyConfig, *pipeline.ActionPluginParams) {}
func (t *tailPlugin) Stop()                                                  {}
func (t *tailPlugin) Do(e *pipeline.Event) pipeline.ActionResult {
	if gaugeOn.Load() {
		if h, ok := gaugeOwner.LoadAndDelete(e); ok {
			hp := h.(*headPlugin)
			if hp.inside { // same processor goroutine as the head probe that set it
				hp.inside = false
				gaugeInside.Add(-1)
			}
		}
	}
	return pipeline.ActionPass
}

var (
	curIO    *core.ChildIO
	headMute atomic.Bool  // parallel phase: no write to the command log per event (it would serialise the processors)
	curHead  atomic.Int64 // index of the event most recently seen by the head probe
	headSeen atomic.Int64
	outcomes []atomic.Uint32
)

func (h *headPlugin) Start(pipeline.AnyConfig, *pipeline.ActionPluginParams) {}
func (h *headPlugin) Stop()                                                  {}
func (h *headPlugin) Do(e *pipeline.Event) pipeline.ActionResult {
	if e.IsTimeoutKind() {
		return pipeline.ActionPass
	}
	i := int(e.Offset)
	if gaugeOn.Load() {
		if !h.inside {
			h.inside = true
			n := gaugeInside.Add(1)
			for {
				m := gaugeMax.Load()
				if n <= m || gaugeMax.CompareAndSwap(m, n) {
					break
				}
			}
		}
		gaugeOwner.Store(e, h)
	}
	if !headMute.Load() {
		var b [40]byte
		line := append(b[:0], `{"t":"do","i":`...)
		line = appendInt(line, i)
		line = append(line, '}', '\n')
		curIO.LogRaw(line)
	}
	curHead.Store(int64(i))
	headSeen.Add(1)
	mark(i, ocHead)
	return pipeline.ActionPass
}

func appendInt(b []byte, i int) []byte { return append(b, fmt.Sprint(i)...) }

func mark(i int, bit uint32) {
	if i >= 0 && i < len(outcomes) {
		for {
			old := outcomes[i].Load()
			if old&bit == bit || outcomes[i].CompareAndSwap(old, old|bit) {
				return
			}
		}
	}
}

func registerHead() {
	fd.DefaultPluginRegistry.RegisterAction(&pipeline.PluginStaticInfo{
		Type:    headType,
		Factory: func() (pipeline.AnyPlugin, pipeline.AnyConfig) { return &headPlugin{}, &headCfg{} },
	})
	fd.DefaultPluginRegistry.RegisterAction(&pipeline.PluginStaticInfo{
		Type:    tailType,
		Factory: func() (pipeline.AnyPlugin, pipeline.AnyConfig) { return &tailPlugin{}, &headCfg{} },
	})
}

// ---- harness input ----

type hInput struct {
	ctl pipeline.InputPluginController
}

func (h *hInput) Start(_ pipeline.AnyConfig, p *pipeline.InputPluginParams) { h.ctl = p.Controller }
func (h *hInput) Stop()                                                     {}
func (h *hInput) Commit(*pipeline.Event)                                    {}
func (h *hInput) PassEvent(*pipeline.Event) bool                            { return true }

// ---- harness output ----

type pendingEv struct {
	ev   *pipeline.Event
	idx  int
	kind string
	enc  []byte
}

type hOutput struct {
	ctl    pipeline.OutputPluginController
	mu     sync.Mutex
	pend   []pendingEv
	deferK int
	base   [][]byte
	res    *childOut
	buf    []byte
	keep   bool
	// safe: dry-run every Encode with a step budget first (safeenc.go); an
	// encode that would not terminate is an invalid output, not a hung child
	safe bool
}

func (o *hOutput) Start(_ pipeline.AnyConfig, p *pipeline.OutputPluginParams) { o.ctl = p.Controller }
func (o *hOutput) Stop()                                                      {}

func (o *hOutput) Out(e *pipeline.Event) {
	o.mu.Lock()
	defer o.mu.Unlock()
	if e.IsChildParentKind() {
		// outputs skip the parent of split children (Batch.ForEach); it is only committed
		o.res.Parents++
		o.pend = append(o.pend, pendingEv{ev: e, idx: int(e.Offset), kind: "parent"})
	} else {
		idx, kind := int(e.Offset), "regular"
		if e.IsChildKind() {
			idx, kind = int(curHead.Load()), "child"
			o.res.Children++
			mark(idx, ocChildren)
		}
		if o.safe && !encodeTerminates((*ijNode)(unsafe.Pointer(e.Root.Node)), encodeBudget) {
			o.res.Outputs++
			o.invalid(idx, "immediate", kind, fmt.Errorf("the encode of the event does not terminate (cycle in the node chain)"), []byte(encodeRunaway))
			o.ctl.Commit(e)
			return
		}
		o.buf = e.Root.Encode(o.buf[:0])
		enc := append([]byte(nil), o.buf...)
		if o.keep {
			k := ""
			if kind == "child" {
				k = kind
			}
			o.res.Outs = append(o.res.Outs, outRec{Idx: idx, Kind: k, Enc: enc})
		}
		o.res.Outputs++
		o.res.OutBytes += int64(len(enc))
		if err := checkJSON(enc); err != nil {
			o.invalid(idx, "immediate", kind, err, enc)
		} else if kind == "regular" {
			mark(idx, ocOutput)
			if idx >= 0 && idx < len(o.base) && !bytes.Equal(enc, o.base[idx]) {
				mark(idx, ocChanged)
			}
		}
		o.pend = append(o.pend, pendingEv{ev: e, idx: idx, kind: kind, enc: enc})
	}
	if len(o.pend) > o.deferK {
		o.flushLocked()
	}
}

func (o *hOutput) invalid(idx int, phase, kind string, err error, enc []byte) {
	mark(idx, ocInvalid)
	if len(o.res.Invalid) < 40 {
		token := badToken(enc, err.Error())
		if string(enc) == encodeRunaway {
			token = "encode-does-not-terminate"
		}
		if len(enc) > 2048 {
			enc = enc[:2048]
		}
		rec := invalidRec{Idx: idx, Phase: phase, Kind: kind, Err: err.Error(), Token: token, Out: append([]byte(nil), enc...)}
		o.res.Invalid = append(o.res.Invalid, rec)
		curIO.Log(clog{T: "invalid", Inv: &rec}) // survives a later death of the process
	}
}

func (o *hOutput) flushLocked() {
	for _, p := range o.pend {
		if p.kind != "parent" && o.safe && !encodeTerminates((*ijNode)(unsafe.Pointer(p.ev.Root.Node)), encodeBudget) {
			o.res.LateDiff++
			o.invalid(p.idx, "late", p.kind, fmt.Errorf("the encode of the event does not terminate (cycle in the node chain)"), []byte(encodeRunaway))
		} else if p.kind != "parent" {
			// what a batching output would send: the encoding at flush time
			o.buf = p.ev.Root.Encode(o.buf[:0])
			if !bytes.Equal(o.buf, p.enc) {
				o.res.LateDiff++
				if err := checkJSON(o.buf); err != nil {
					o.invalid(p.idx, "late", p.kind, err, o.buf)
				}
			}
		}
		o.ctl.Commit(p.ev)
	}
	o.pend = o.pend[:0]
}

func (o *hOutput) flush() {
	o.mu.Lock()
	o.flushLocked()
	o.mu.Unlock()
}

// ---- logger: fatal/panic entries to stderr (JSON, like file.d's own logger),
// everything else encoded and thrown away (so that logging plugins do their work) ----

func newLogger() *zap.Logger {
	ec := zapcore.EncoderConfig{
		TimeKey: "ts", LevelKey: "level", NameKey: "logger", CallerKey: "caller", MessageKey: "message",
		LineEnding: zapcore.DefaultLineEnding, EncodeLevel: zapcore.LowercaseLevelEncoder,
		EncodeTime: zapcore.RFC3339NanoTimeEncoder, EncodeDuration: zapcore.StringDurationEncoder,
		EncodeCaller: zapcore.ShortCallerEncoder,
	}
	// fatal messages may embed the whole event (70 KB): keep the entry short so
	// that it stays inside the tail of stderr the parent classifies
	loud := shortMsgCore{zapcore.NewCore(zapcore.NewJSONEncoder(ec), zapcore.AddSync(os.Stderr), zap.NewAtomicLevelAt(zap.DPanicLevel))}
	quiet := zapcore.NewCore(zapcore.NewJSONEncoder(ec), zapcore.AddSync(io.Discard), zap.NewAtomicLevelAt(zap.DebugLevel))
	return zap.New(zapcore.NewTee(loud, quiet), zap.AddCaller())
}

// shortMsgCore trims the message (and drops the fields) of what it writes.
type shortMsgCore struct{ zapcore.Core }

func (c shortMsgCore) With(f []zapcore.Field) zapcore.Core { return shortMsgCore{c.Core.With(f)} }
func (c shortMsgCore) Check(e zapcore.Entry, ce *zapcore.CheckedEntry) *zapcore.CheckedEntry {
	if c.Enabled(e.Level) {
		return ce.AddCore(e, c)
	}
	return ce
}
func (c shortMsgCore) Write(e zapcore.Entry, f []zapcore.Field) error {
	if len(e.Message) > 400 {
		e.Message = e.Message[:400]
	}
	return c.Core.Write(e, nil)
}

// ---- k8s meta for the multiline action ----

var k8sItem = map[string]string{
	"k8s_namespace":    "sre",
	"k8s_pod":          "advanced-logs-checker-1111111111-trtrq",
	"k8s_container":    "duty-bot",
	"k8s_container_id": "4e0301b633eaa2bfdcafdeba59ba0c72a3815911a6a820bf273534b0f32d98e0",
}

func installK8sMeta() {
	k8smeta.DisableMetaUpdates = true
	k8smeta.EnableGatherer(zap.NewNop().Sugar()) // creates the deleted-pods cache; no API access with updates disabled
	k8smeta.MetaWaitTimeout = 50 * time.Millisecond
	k8smeta.SelfNodeName = "node_1"
	k8smeta.MetaData.NodeLabels = map[string]string{"zone": "z34", "bad\"label": "v\\\"\n"}
	k8smeta.PutMeta(&corev1.Pod{
		ObjectMeta: metav1.ObjectMeta{
			Name:      k8sItem["k8s_pod"],
			Namespace: k8sItem["k8s_namespace"],
			Labels:    map[string]string{"allowed_label": "allowed_value", "app": "duty \"bot\"\n", "пример": "значение"},
		},
		Status: corev1.PodStatus{ContainerStatuses: []corev1.ContainerStatus{{
			Name:        k8sItem["k8s_container"],
			ContainerID: "containerd://" + k8sItem["k8s_container_id"],
		}}},
	})
}

// ---- the workload ----

var pipeSeq atomic.Int64

func childMain(raw json.RawMessage, cio *core.ChildIO) (any, error) {
	var in childIn
	if err := json.Unmarshal(raw, &in); err != nil {
		return nil, err
	}
	t0 := time.Now()
	res := &childOut{}
	curIO = cio
	cio.Log(clog{T: "start"})

	order := in.Only
	if order == nil {
		order = make([]int, len(in.Events))
		for i := range order {
			order[i] = i
		}
	}
	outcomes = make([]atomic.Uint32, len(in.Events))
	curHead.Store(-1)

	base := baseEncodings(&in, order)
	output := &hOutput{deferK: in.DeferK, base: base, res: res, keep: in.KeepOut}
	p, input, evTimeout, setupErr, err := buildPipeline(&in, true, output)
	if err != nil {
		return nil, err
	}
	if setupErr != "" {
		res.SetupErr = setupErr
		return res, nil
	}

	var timeouts atomic.Int64
	pipeline.VerifSetFinalizeObserver(func(_ *pipeline.Pipeline, e *pipeline.Event, notifyInput, backEvent bool) {
		switch {
		case e.IsTimeoutKind():
			timeouts.Add(1)
		case e.IsChildKind():
		case notifyInput:
		case backEvent:
			mark(int(e.Offset), ocDropped)
		default:
			mark(int(e.Offset), ocHeld)
		}
	})

	p.Start()
	cio.Log(clog{T: "started"})
	res.StartedMs = time.Since(t0).Milliseconds()

	var meta metadata.MetaData
	if len(in.Meta) > 0 {
		meta = metadata.MetaData(in.Meta)
	}
	pause := map[int]bool{}
	for _, i := range in.Pauses {
		pause[i] = true
	}
	settle := func(limit time.Duration) bool {
		deadline := time.Now().Add(limit)
		for {
			output.flush()
			if p.VerifPoolInUse() == 0 {
				return true
			}
			if time.Now().After(deadline) {
				return false
			}
			time.Sleep(2 * time.Millisecond)
		}
	}
	stopFlusher := make(chan struct{})
	go func() { // like a batcher's time-out flush: nothing stays pending for long
		t := time.NewTicker(3 * time.Millisecond)
		defer t.Stop()
		for {
			select {
			case <-stopFlusher:
				return
			case <-t.C:
				output.flush()
			}
		}
	}()

	for _, i := range order {
		src := pipeline.SourceID(1 + (i/32)%2)
		if in.OneSource {
			src = 1
		}
		seq := input.ctl.In(src, "c13.log", pipeline.NewOffsets(int64(i), nil), in.Events[i], false, meta)
		if seq == pipeline.EventSeqIDError {
			mark(i, ocRejected)
		} else {
			res.Fed++
		}
		if pause[i] {
			// let the stream time out while an action waits for the next event
			settle(evTimeout + 1500*time.Millisecond)
		}
	}
	res.Quiesced = settle(evTimeout + 20*time.Second)
	res.InUseEnd = p.VerifPoolInUse()
	close(stopFlusher)
	if res.Quiesced {
		p.Stop()
	}
	pipeline.VerifSetFinalizeObserver(nil)
	output.flush()

	res.Timeouts = int(timeouts.Load())
	res.Outcomes = make([]byte, len(outcomes))
	for i := range outcomes {
		res.Outcomes[i] = byte(outcomes[i].Load())
	}
	res.TotalMs = time.Since(t0).Milliseconds()
	cio.Log(clog{T: "done"})
	return res, nil
}

// baseEncodings: the untouched encoding of every event (decode + encode, no action).
func baseEncodings(in *childIn, order []int) [][]byte {
	base := make([][]byte, len(in.Events))
	r := insaneJSON.Spawn()
	for _, i := range order {
		if err := r.DecodeBytes(in.Events[i]); err == nil {
			base[i] = r.Encode(nil)
		}
	}
	insaneJSON.Release(r)
	return base
}

// buildPipeline sets up harness input -> [head, actions...] -> output; single:
// one processor (DisableParallelism), else the pipeline's default (2 x GOMAXPROCS).
func buildPipeline(in *childIn, single bool, output pipeline.AnyPlugin) (p *pipeline.Pipeline, input *hInput, evTimeout time.Duration, setupErr string, err error) {
	// the actions array as it would stand in a pipeline config
	acts := []json.RawMessage{json.RawMessage(`{"type":"` + headType + `"}`)}
	acts = append(acts, in.Actions...)
	if gaugeOn.Load() {
		acts = append(acts, json.RawMessage(`{"type":"`+tailType+`"}`))
	}
	actsJSON, _ := json.Marshal(acts)
	sj, err := simplejson.NewJson(actsJSON)
	if err != nil {
		return nil, nil, 0, "", fmt.Errorf("actions json: %w", err)
	}

	s := in.Settings
	if s.Capacity == 0 {
		s.Capacity = 16
	}
	if s.AvgEventSize == 0 {
		s.AvgEventSize = 128 // small on purpose: buffers must grow and are reused
	}
	evTimeout = pipeline.DefaultEventTimeout
	if s.EventTimeoutMs > 0 {
		evTimeout = time.Duration(s.EventTimeoutMs) * time.Millisecond
	}
	settings := &pipeline.Settings{
		Capacity:            s.Capacity,
		MaintenanceInterval: 5 * time.Second,
		EventTimeout:        evTimeout,
		// the production default interval: with 0 the pipeline's antispam maintenance goroutine spins on a core
		Antispam:                pipeline.AntispamSettings{Threshold: pipeline.DefaultAntispamThreshold, MaintenanceInterval: pipeline.DefaultMaintenanceInterval},
		AvgEventSize:            s.AvgEventSize,
		MaxEventSize:            s.MaxEventSize,
		CutOffEventByLimit:      s.CutOffEventByLimit,
		CutOffEventByLimitField: s.CutOffEventByLimitField,
		MetaCacheSize:           32,
		StreamField:             "stream",
		Decoder:                 "json",
		IsStrict:                s.IsStrict,
		Pool:                    pipeline.PoolTypeStd,
		Metric: &pipeline.MetricSettings{
			HoldDuration:        pipeline.DefaultMetricHoldDuration,
			MaxLabelValueLength: s.MetricMaxLabelLen,
		},
	}
	if s.K8s {
		installK8sMeta()
	}
	name := fmt.Sprintf("c13_%d", pipeSeq.Add(1))
	if in.PipeName != "" {
		name = in.PipeName
	}
	p = pipeline.New(name, settings, prometheus.NewRegistry(), newLogger())
	if single {
		p.DisableParallelism()
	}
	input = &hInput{}
	p.SetInput(&pipeline.InputPluginInfo{
		PluginStaticInfo:  &pipeline.PluginStaticInfo{Type: "verif_c13_in"},
		PluginRuntimeInfo: &pipeline.PluginRuntimeInfo{Plugin: input},
	})
	p.SetOutput(&pipeline.OutputPluginInfo{
		PluginStaticInfo:  &pipeline.PluginStaticInfo{Type: "verif_c13_out"},
		PluginRuntimeInfo: &pipeline.PluginRuntimeInfo{Plugin: output},
	})
	if err := fd.SetupActions(p, fd.DefaultPluginRegistry, sj, map[string]int{"capacity": s.Capacity, "gomaxprocs": 1}); err != nil {
		return nil, nil, 0, err.Error(), nil
	}
	return p, input, evTimeout, "", nil
}

// checkJSON is the reference for "a well-formed JSON document that encodes and
// re-parses": the standard library's validator and a full decode.
func checkJSON(b []byte) error {
	if !json.Valid(b) {
		var v any
		err := json.Unmarshal(b, &v)
		if err == nil {
			err = fmt.Errorf("json.Valid=false")
		}
		return err
	}
	dec := json.NewDecoder(bytes.NewReader(b))
	dec.UseNumber()
	var v any
	if err := dec.Decode(&v); err != nil {
		return err
	}
	if dec.More() {
		return fmt.Errorf("trailing data after the document")
	}
	return nil
}

func isFatalLine(l string) bool {
	return strings.Contains(l, `"level":"fatal"`) || strings.Contains(l, `"level":"panic"`) || strings.Contains(l, `"level":"dpanic"`)
}
