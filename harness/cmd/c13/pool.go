package main

// Node-pool boundary family.
//
// insane-json keeps the nodes of a Root in a pool ([]*Node) that the decoder
// doubles at check points; file.d reuses the Root (and its pool) of a pooled
// event for thousands of events. Some actions decode the TEXT of a field into
// the event's own Root (Root.DecodeBytesAdditional: json_decode, decode with
// the json decoder), others add fields to it (AddFieldNoAlloc -> getNode:
// add_host, set_time, modify, rename, move, flatten, MergeToRoot ...). Whether
// the bookkeeping of the two agrees at the pool's limits depends on the exact
// number of nodes of the event and on how large the pool of the recycled Root
// has grown - content + history, nothing a random event stream hits reliably.
//
// This family sweeps the boundaries on purpose. Pipelines
//
//	verif_c13_head -> pb_pre -> X -> pb_mid -> Y -> harness output
//
// X = an action that decodes a field's text into the root, Y = an action that
// adds a field. Events: {"j":<text>,"k0":0,...,"k<n-1>":n-1[,<tail>]} for all
// n in a window of +-6 around the value that makes the pipeline's decode end
// one node short of a pool boundary B. The boundaries are MEASURED with the
// real decoder (poolChain): the lengths a pool takes when it grows from its
// start size S - S, 2S, 4S while the Go runtime doubles the slice, then
// whatever append gives: 16 32 64 128 271 for S=16 (what cmd/file.d sets at
// start-up; a package variable of the library, hence a dedicated child process
// per job) and 128 256 543 for S=128 (library default).
// Every event is fed (mode fresh) on a brand-new pool event of a just started
// pipeline and (mode history) inside a seeded shuffle with filler events of
// other sizes through a 4-event pool, so that every Root is recycled hundreds
// of times after small, medium and large events.
//
// pb_pre / pb_mid are pass-through probes that read the Root's pool length and
// node count (unexported: through a mirror of the decoder struct, verified at
// child start). pb_mid logs an event whose pool is EXACTLY FULL after X
// (node count == pool length: "armed" - the next getNode indexes one past the
// pool) before Y sees it. Armed events die in Y on the unchanged tree; a death
// costs a process, so only a few armed events per job (chosen by their ordinal,
// seeded) are let through - the child dies, the parent attributes the death to
// the last logged event, confirms it with the event alone in a fresh child,
// restarts behind it and goes on - and the others are discarded by pb_mid and
// counted (the hazard state is observed, Y is not run on them). Every other
// event goes through X and Y and the usual oracles: the process survives, the
// output is valid JSON at once and when a batching output would send it.
//
// Signatures: the class "index out of range in insane-json getNode reached
// through AddField*" gets ONE signature for the whole run (poolClassSig; X, Y,
// S, n, tail, text, event, stack and the table of where it fired are in the
// witness); every other death keeps the normal
// plugin=<p> crash=<kind> msg=<m> at=<fn> trigger=<shape|history> signature.

import (
	"encoding/json"
	"errors"
	"fmt"
	"math/rand"
	"os"
	"runtime"
	"runtime/debug"
	"sort"
	"strconv"
	"strings"
	"sync"
	"sync/atomic"
	"time"
	"unsafe"

	"github.com/ozontech/file.d/fd"
	"github.com/ozontech/file.d/pipeline"
	insaneJSON "github.com/ozontech/insane-json"

	"verifharness/core"
)

const poolClassSig = "plugin=chain crash=panic at=insane-json.(*decoder).getNode trigger=field-added-after-a-scalar-was-decoded-into-an-exactly-full-node-pool"

const (
	pbPreType  = "verif_c13_pb_pre"
	pbMidType  = "verif_c13_pb_mid"
	memExit    = 98                // exit code of the child's memory watchdog
	memSoft    = int64(1536) << 20 // debug.SetMemoryLimit
	memHardRSS = int64(2048) << 20 // the watchdog ends the child above this
)

// ---------------------------------------------------------------------------
// crash classification (shared with the other clauses)

// panicFrames returns the panic message and the function names of the
// panicking goroutine (innermost first, arguments stripped).
func panicFrames(stderr string) (msg string, fns []string) {
	st := tailPanic(stderr)
	if !strings.HasPrefix(st, "panic: ") && !strings.HasPrefix(st, "fatal error: ") {
		return "", nil
	}
	lines := strings.Split(st, "\n")
	msg = lines[0]
	i := 1
	for i < len(lines) && !strings.HasPrefix(lines[i], "goroutine ") {
		i++
	}
	for i++; i < len(lines); i++ {
		l := lines[i]
		if strings.TrimSpace(l) == "" {
			break
		}
		if strings.HasPrefix(l, "\t") || strings.HasPrefix(l, "created by ") {
			continue
		}
		if k := strings.LastIndex(l, "("); k > 0 {
			l = l[:k]
		}
		fns = append(fns, l)
	}
	return msg, fns
}

// poolClassCrash: an index-out-of-range panic whose innermost frame is
// insane-json's decoder.getNode, reached through Node.AddField / AddFieldNoAlloc.
func poolClassCrash(stderr string) bool {
	msg, fns := panicFrames(stderr)
	if !strings.HasPrefix(msg, "panic: ") || !strings.Contains(msg, "index out of range") {
		return false
	}
	i := 0
	for i < len(fns) && (fns[i] == "panic" || strings.HasPrefix(fns[i], "runtime.")) {
		i++
	}
	if i >= len(fns) || !strings.HasSuffix(fns[i], "insane-json.(*decoder).getNode") {
		return false
	}
	for _, f := range fns[i+1:] {
		if !strings.Contains(f, "insane-json.") {
			return false
		}
		if strings.Contains(f, "insane-json.(*Node).AddField") {
			return true
		}
	}
	return false
}

// ---------------------------------------------------------------------------
// mirror of insane-json's Root / decoder (v0.1.9), verified at child start

type ijDecoderMirror struct {
	buf       []byte
	rootNode  unsafe.Pointer
	rootDec   unsafe.Pointer
	nodePool  []unsafe.Pointer
	nodeCount int
}

type ijRootMirror struct {
	node unsafe.Pointer
	dec  *ijDecoderMirror
}

// poolState: length of the Root's node pool and the number of nodes in use.
func poolState(r *insaneJSON.Root) (poolLen, nodes int) {
	m := (*ijRootMirror)(unsafe.Pointer(r))
	return len(m.dec.nodePool), m.dec.nodeCount
}

func poolMirrorSelfCheck() string {
	if unsafe.Sizeof(ijRootMirror{}) != unsafe.Sizeof(insaneJSON.Root{}) {
		return "insane-json Root has another size than the harness mirror"
	}
	r, err := insaneJSON.DecodeString(`{"a":1}`) // never released: its pool must not reach a pipeline
	if err != nil {
		return "self-check decode failed"
	}
	pl, n := poolState(r)
	if pl != r.PoolSize() || pl != insaneJSON.StartNodePoolSize {
		return fmt.Sprintf("mirror reads pool length %d, library says %d (start size %d)", pl, r.PoolSize(), insaneJSON.StartNodePoolSize)
	}
	if n != 4 { // object, field, value, end
		return fmt.Sprintf("mirror reads %d nodes for {\"a\":1}, expected 4", n)
	}
	if _, err := r.DecodeStringAdditional("7"); err != nil {
		return "self-check additional decode failed"
	}
	if _, n = poolState(r); n != 5 {
		return fmt.Sprintf("mirror reads %d nodes after an additional scalar, expected 5", n)
	}
	r.AddFieldNoAlloc(r, "b")
	if _, n = poolState(r); n != 7 {
		return fmt.Sprintf("mirror reads %d nodes after AddFieldNoAlloc, expected 7", n)
	}
	if s := r.EncodeToString(); s != `{"a":1,"b":null}` {
		return "self-check document changed: " + s
	}
	return ""
}

// ---------------------------------------------------------------------------
// child "pool"

type poolIn struct {
	Label     string   `json:"label"`
	StartPool int      `json:"start_pool"` // insaneJSON.StartNodePoolSize for this process; 0 = leave the library default
	Actions   []string `json:"actions"`    // X..., then Y... ; pb_mid stands between them
	NX        int      `json:"nx"`         // the first NX actions are X
	Events    [][]byte `json:"events"`
	Only      []int    `json:"only,omitempty"`
	Fresh     bool     `json:"fresh"` // a new pipeline for every Capacity events: each event on a brand-new pool event
	Capacity  int      `json:"capacity"`
	DeferK    int      `json:"defer_k"`
	// armed events (pool exactly full after X): the one whose ordinal (counted
	// over the whole job, ArmedBase = armed events of earlier children) is in
	// Let - or every one with LetAll - goes on into Y, the others are discarded
	ArmedBase int   `json:"armed_base"`
	Let       []int `json:"let,omitempty"`
	LetAll    bool  `json:"let_all,omitempty"`
}

type armedRec struct {
	I        int  `json:"i"`
	Ord      int  `json:"ord"`
	Pool     int  `json:"pool"`
	Nodes    int  `json:"nodes"`
	PrePool  int  `json:"pre_pool"`
	PreNodes int  `json:"pre_nodes"`
	Let      bool `json:"let"`
}

type poolOut struct {
	SetupErr  string       `json:"setup_err,omitempty"`
	Fed       int          `json:"fed"`
	Pipelines int          `json:"pipelines"`
	Outcomes  []byte       `json:"outcomes"`
	PrePool   []int32      `json:"pre_pool"` // by event index; 0 = not seen
	PreNodes  []int32      `json:"pre_nodes"`
	MidPool   []int32      `json:"mid_pool"`
	MidNodes  []int32      `json:"mid_nodes"`
	Armed     []armedRec   `json:"armed,omitempty"`
	Outputs   int          `json:"outputs"`
	LateDiff  int          `json:"late_diff"`
	Invalid   []invalidRec `json:"invalid,omitempty"`
	Quiesced  bool         `json:"quiesced"`
	InUseEnd  int64        `json:"in_use_end"`
	StartSize int          `json:"start_size"` // insaneJSON.StartNodePoolSize in the child
	TotalMs   int64        `json:"total_ms"`
}

// log line of the pool child (superset of clog)
type plog struct {
	T   string      `json:"t"` // start | started | do | armed | invalid | mem | done
	I   int         `json:"i,omitempty"`
	A   *armedRec   `json:"a,omitempty"`
	Inv *invalidRec `json:"inv,omitempty"`
	RSS int64       `json:"rss,omitempty"`
}

// probe state (one processor: no concurrent writers)
var pb struct {
	prePool, preNodes, midPool, midNodes []int32
	armedBase, armedHere                 int
	let                                  map[int]bool
	letAll                               bool
	armed                                []armedRec
	// one processor: when the next event reaches pb_mid, the previous one is through Y.
	// Armed events that were let into Y and came out alive are counted; after two of
	// them (a library in which a full pool is harmless) every armed event is let through
	lastLet  bool
	survived int
}

type pbPre struct{}

func (*pbPre) Start(pipeline.AnyConfig, *pipeline.ActionPluginParams) {}
func (*pbPre) Stop()                                                  {}
func (*pbPre) Do(e *pipeline.Event) pipeline.ActionResult {
	if e.IsTimeoutKind() {
		return pipeline.ActionPass
	}
	if i := int(e.Offset); i >= 0 && i < len(pb.prePool) {
		pl, n := poolState(e.Root)
		pb.prePool[i], pb.preNodes[i] = int32(pl), int32(n)
	}
	return pipeline.ActionPass
}

type pbMid struct{}

func (*pbMid) Start(pipeline.AnyConfig, *pipeline.ActionPluginParams) {}
func (*pbMid) Stop()                                                  {}
func (*pbMid) Do(e *pipeline.Event) pipeline.ActionResult {
	if e.IsTimeoutKind() {
		return pipeline.ActionPass
	}
	if pb.lastLet {
		pb.lastLet = false
		pb.survived++
	}
	i := int(e.Offset)
	pl, n := poolState(e.Root)
	if i >= 0 && i < len(pb.midPool) {
		pb.midPool[i], pb.midNodes[i] = int32(pl), int32(n)
	}
	if n < pl {
		return pipeline.ActionPass
	}
	// exactly full (or beyond): the next getNode indexes past the pool
	ord := pb.armedBase + pb.armedHere
	pb.armedHere++
	rec := armedRec{I: i, Ord: ord, Pool: pl, Nodes: n, Let: pb.letAll || pb.let[ord] || (len(pb.let) > 0 && pb.survived >= 2)}
	if i >= 0 && i < len(pb.prePool) {
		rec.PrePool, rec.PreNodes = int(pb.prePool[i]), int(pb.preNodes[i])
	}
	pb.armed = append(pb.armed, rec)
	curIO.Log(plog{T: "armed", I: i, A: &rec}) // before Y: survives the death of the process
	if !rec.Let {
		return pipeline.ActionDiscard
	}
	pb.lastLet = true
	return pipeline.ActionPass
}

func registerPoolProbes() {
	fd.DefaultPluginRegistry.RegisterAction(&pipeline.PluginStaticInfo{
		Type:    pbPreType,
		Factory: func() (pipeline.AnyPlugin, pipeline.AnyConfig) { return &pbPre{}, &headCfg{} },
	})
	fd.DefaultPluginRegistry.RegisterAction(&pipeline.PluginStaticInfo{
		Type:    pbMidType,
		Factory: func() (pipeline.AnyPlugin, pipeline.AnyConfig) { return &pbMid{}, &headCfg{} },
	})
}

func rssBytes() int64 {
	b, err := os.ReadFile("/proc/self/statm")
	if err != nil {
		var ms runtime.MemStats
		runtime.ReadMemStats(&ms)
		return int64(ms.Sys)
	}
	f := strings.Fields(string(b))
	if len(f) < 2 {
		return 0
	}
	pages, _ := strconv.ParseInt(f[1], 10, 64)
	return pages * int64(os.Getpagesize())
}

// memGuard: soft limit for the collector, and a watchdog that ends the child
// (exit memExit, reported as inconclusive) before it can eat the machine.
func memGuard(cio *core.ChildIO) {
	debug.SetMemoryLimit(memSoft)
	go func() {
		for {
			time.Sleep(50 * time.Millisecond)
			if rss := rssBytes(); rss > memHardRSS {
				cio.Log(plog{T: "mem", RSS: rss})
				os.Exit(memExit)
			}
		}
	}()
}

func poolMain(raw json.RawMessage, cio *core.ChildIO) (any, error) {
	var in poolIn
	if err := json.Unmarshal(raw, &in); err != nil {
		return nil, err
	}
	memGuard(cio)
	t0 := time.Now()
	if in.StartPool > 0 {
		// exactly what cmd/file.d/file.d.go does before it builds its pipelines
		insaneJSON.StartNodePoolSize = in.StartPool
	}
	if msg := poolMirrorSelfCheck(); msg != "" {
		return nil, errors.New("pool mirror: " + msg)
	}
	if msg := mirrorSelfCheck(); msg != "" {
		return nil, errors.New("node mirror: " + msg)
	}
	curIO = cio
	cio.Log(plog{T: "start"})

	order := in.Only
	if order == nil {
		order = make([]int, len(in.Events))
		for i := range order {
			order[i] = i
		}
	}
	n := len(in.Events)
	outcomes = make([]atomic.Uint32, n)
	curHead.Store(-1)
	pb.prePool, pb.preNodes, pb.midPool, pb.midNodes = make([]int32, n), make([]int32, n), make([]int32, n), make([]int32, n)
	pb.armedBase, pb.armedHere, pb.letAll, pb.armed = in.ArmedBase, 0, in.LetAll, nil
	pb.lastLet, pb.survived = false, 0
	pb.let = map[int]bool{}
	for _, o := range in.Let {
		pb.let[o] = true
	}

	cres := &childOut{}
	output := &hOutput{deferK: in.DeferK, res: cres, safe: true}
	res := &poolOut{StartSize: insaneJSON.StartNodePoolSize}

	var acts []json.RawMessage
	acts = append(acts, json.RawMessage(`{"type":"`+pbPreType+`"}`))
	for i, a := range in.Actions {
		if i == in.NX {
			acts = append(acts, json.RawMessage(`{"type":"`+pbMidType+`"}`))
		}
		acts = append(acts, json.RawMessage(a))
	}
	capacity := in.Capacity
	if capacity <= 0 {
		capacity = 4
	}
	cin := &childIn{Label: in.Label, Actions: acts, Settings: childSettings{Capacity: capacity}}

	pipeline.VerifSetFinalizeObserver(func(_ *pipeline.Pipeline, e *pipeline.Event, notifyInput, backEvent bool) {
		switch {
		case e.IsTimeoutKind(), e.IsChildKind(), notifyInput:
		case backEvent:
			mark(int(e.Offset), ocDropped)
		default:
			mark(int(e.Offset), ocHeld)
		}
	})

	groups := [][]int{order}
	if in.Fresh {
		groups = nil
		for k := 0; k < len(order); k += capacity {
			groups = append(groups, order[k:min(k+capacity, len(order))])
		}
	}
	res.Quiesced = true
	started := false
	for _, g := range groups {
		p, input, _, setupErr, err := buildPipeline(cin, true, output)
		if err != nil {
			return nil, err
		}
		if setupErr != "" {
			res.SetupErr = setupErr
			return res, nil
		}
		p.Start()
		res.Pipelines++
		if !started {
			started = true
			cio.Log(plog{T: "started"})
		}
		settle := func(limit time.Duration) bool {
			deadline := time.Now().Add(limit)
			for spin := 0; ; spin++ {
				output.flush()
				if p.VerifPoolInUse() == 0 {
					return true
				}
				if time.Now().After(deadline) {
					return false
				}
				if spin < 200 {
					runtime.Gosched()
				} else {
					time.Sleep(200 * time.Microsecond)
				}
			}
		}
		for k, i := range g {
			// never let the feeder wait inside the event pool (a wake-up lost there costs
			// the pool's 5 s heartbeat): feed only when an event is free
			for spin := 0; p.VerifPoolInUse() >= int64(capacity); spin++ {
				if spin < 100 {
					runtime.Gosched()
				} else {
					output.flush()
					time.Sleep(50 * time.Microsecond)
				}
			}
			seq := input.ctl.In(pipeline.SourceID(1), "c13.log", pipeline.NewOffsets(int64(i), nil), in.Events[i], false, nil)
			if seq == pipeline.EventSeqIDError {
				mark(i, ocRejected)
			} else {
				res.Fed++
			}
			if !in.Fresh && k%64 == 63 {
				output.flush()
			}
		}
		if !settle(20 * time.Second) {
			res.Quiesced = false
			res.InUseEnd = p.VerifPoolInUse()
			break // a wedged pipeline is not stopped (Stop would hang)
		}
		p.Stop()
	}
	pipeline.VerifSetFinalizeObserver(nil)
	output.flush()

	res.Outcomes = make([]byte, len(outcomes))
	for i := range outcomes {
		res.Outcomes[i] = byte(outcomes[i].Load())
	}
	res.PrePool, res.PreNodes, res.MidPool, res.MidNodes = pb.prePool, pb.preNodes, pb.midPool, pb.midNodes
	res.Armed = pb.armed
	res.Outputs, res.LateDiff, res.Invalid = cres.Outputs, cres.LateDiff, cres.Invalid
	res.TotalMs = time.Since(t0).Milliseconds()
	cio.Log(plog{T: "done"})
	return res, nil
}

// ---------------------------------------------------------------------------
// cases

type poolTail struct {
	Name  string
	Text  string // member(s) appended behind the scalars
	Nodes int    // nodes the decoder takes for it
}

var poolTails = []poolTail{
	{"none", ``, 0},
	{`"o":{}`, `"o":{}`, 3},
	{`"a":[]`, `"a":[]`, 3},
	{`"o":{"x":1}`, `"o":{"x":1}`, 5},
	{`"a":[1,2]`, `"a":[1,2]`, 5},
}

type poolText struct {
	Name  string // the text X decodes
	Value string // the JSON value of member j
	Kind  string // scalar | container | not-json
}

var poolTexts = []poolText{
	{`1`, `"1"`, "scalar"},
	{`true`, `"true"`, "scalar"},
	{`null`, `"null"`, "scalar"},
	{`"x"`, `"\"x\""`, "scalar"},
	{`1.5`, `"1.5"`, "scalar"},
	{`{}`, `"{}"`, "container"},
	{`{"a":1}`, `"{\"a\":1}"`, "container"},
	{`[1]`, `"[1]"`, "container"},
	{`not json`, `"not json"`, "not-json"},
	// the member itself is a scalar (a number / true / null field: its text is what X decodes)
	{`7 (number member)`, `7`, "scalar"},
	{`true (bool member)`, `true`, "scalar"},
	{`null (null member)`, `null`, "scalar"},
}

// texts of the seeded part
var poolSeededTexts = []poolText{
	{`-1`, `"-1"`, "scalar"}, {`0`, `"0"`, "scalar"}, {`false`, `"false"`, "scalar"}, {`1e5`, `"1e5"`, "scalar"},
	{` 1 `, `" 1 "`, "scalar"}, {`"é"`, `"\"é\""`, "scalar"}, {`""`, `"\"\""`, "scalar"}, {`12345678901234567890`, `12345678901234567890`, "scalar"},
	{`[]`, `"[]"`, "container"}, {`[[1],{"q":2}]`, `"[[1],{\"q\":2}]"`, "container"}, {`{"b":{"c":[1]}}`, `"{\"b\":{\"c\":[1]}}"`, "container"},
	{`{"unterminated`, `"{\"unterminated"`, "not-json"}, {``, `""`, "not-json"}, {`nul`, `"nul"`, "not-json"}, {`x`, `"x"`, "not-json"},
}

type poolCase struct {
	B      int // the boundary the sweep is around (0: filler / seeded)
	N      int // scalar members k0..k<n-1>
	Tail   string
	Text   string
	Kind   string // of the text
	Class  string // directed | seeded | filler
	Raw    []byte
	nodes0 int // nodes the pipeline's decode takes (generator's own count, only used for the sweep window)
}

func poolEvent(text string, n int, tail string) []byte {
	var b strings.Builder
	b.WriteString(`{"j":`)
	b.WriteString(text)
	for i := 0; i < n; i++ {
		fmt.Fprintf(&b, `,"k%d":%d`, i, i)
	}
	if tail != "" {
		b.WriteString(",")
		b.WriteString(tail)
	}
	b.WriteString("}")
	return []byte(b.String())
}

// poolChain measures the first k lengths a Root's node pool takes when it
// starts at s and grows (s, 2s, 4s ... only while the Go runtime doubles the
// slice: 16 32 64 128 271 558 ... / 128 256 543 1150 ... with go1.25): the real
// decoder decodes ever larger events into one Root that is never released.
// Runs in the parent before any child is started; nothing else in the parent
// uses insane-json.
func poolChain(s, k int) ([]int, error) {
	old := insaneJSON.StartNodePoolSize
	insaneJSON.StartNodePoolSize = s
	defer func() { insaneJSON.StartNodePoolSize = old }()
	r := insaneJSON.Spawn()
	if r.PoolSize() != s {
		return nil, fmt.Errorf("a new Root has a pool of %d nodes with StartNodePoolSize=%d", r.PoolSize(), s)
	}
	chain := []int{s}
	for n := 0; len(chain) < k; n++ {
		if n > 200000 {
			return nil, fmt.Errorf("the pool of a Root stays at %d nodes for an event of %d members", r.PoolSize(), n)
		}
		if err := r.DecodeBytes(poolEvent(`1`, n, "")); err != nil {
			return nil, err
		}
		if p := r.PoolSize(); p != chain[len(chain)-1] {
			chain = append(chain, p)
		}
	}
	return chain, nil
}

// poolDirected: the seed independent sweep for start size s.
func poolDirected(bs []int) []poolCase {
	var out []poolCase
	for _, b := range bs {
		for _, t := range poolTails {
			// root object + its end + member j (name, value) + 2 per scalar + tail = b-1
			n0 := (b - 1 - 4 - t.Nodes) / 2
			for n := max(0, n0-6); n <= n0+6; n++ {
				for _, x := range poolTexts {
					out = append(out, poolCase{B: b, N: n, Tail: t.Name, Text: x.Name, Kind: x.Kind, Class: "directed",
						Raw: poolEvent(x.Value, n, t.Text), nodes0: 4 + 2*n + t.Nodes})
				}
			}
		}
	}
	return out
}

// poolSeeded: composite tails and other texts, n near a boundary or anywhere.
func poolSeeded(bs []int, rng *rand.Rand, count int) []poolCase {
	var out []poolCase
	for len(out) < count {
		var tails []string
		nodes := 4
		for k := rng.Intn(4); k > 0; k-- {
			t := poolTails[1+rng.Intn(len(poolTails)-1)]
			name := fmt.Sprintf("t%d", len(tails))
			tails = append(tails, `"`+name+`"`+t.Text[strings.Index(t.Text, ":"):])
			nodes += t.Nodes
		}
		if rng.Intn(4) == 0 {
			tails = append(tails, `"deep":{"l1":{"l2":[{"l3":null},"s"]}}`)
			nodes += 12
		}
		x := poolTexts[rng.Intn(len(poolTexts))]
		if rng.Intn(2) == 0 {
			x = poolSeededTexts[rng.Intn(len(poolSeededTexts))]
		}
		b := bs[rng.Intn(len(bs))]
		n := (b-1-nodes)/2 + rng.Intn(7) - 3
		if rng.Intn(5) == 0 {
			n = rng.Intn(2*bs[len(bs)-1]/3 + 1)
		}
		if n < 0 {
			n = 0
		}
		tail := strings.Join(tails, ",")
		out = append(out, poolCase{N: n, Tail: tail, Text: x.Name, Kind: x.Kind, Class: "seeded", Raw: poolEvent(x.Value, n, tail), nodes0: nodes + 2*n})
	}
	return out
}

// poolFiller: an event of m members that only gives a Root its history.
func poolFiller(m int) poolCase {
	var b strings.Builder
	b.WriteString(`{"j":"{\"h\":1}"`)
	for i := 0; i < m; i++ {
		fmt.Fprintf(&b, `,"f%d":"v%d"`, i, i)
	}
	b.WriteString("}")
	return poolCase{N: m, Class: "filler", Kind: "container", Text: `{"h":1}`, Raw: []byte(b.String())}
}

type poolAtom struct{ Name, Action string }

var poolXs = []poolAtom{
	{"json_decode", `{"type":"json_decode","field":"j"}`},
	{"json_decode-prefix", `{"type":"json_decode","field":"j","prefix":"p_"}`},
	{"decode-json", `{"type":"decode","field":"j","decoder":"json"}`},
	{"decode-json-prefix", `{"type":"decode","field":"j","decoder":"json","prefix":"d_"}`},
}

var poolYs = []poolAtom{
	{"add_host", `{"type":"add_host","field":"host"}`},
	{"set_time", `{"type":"set_time","field":"stamp","format":"rfc3339nano"}`},
	{"modify", `{"type":"modify","added":"v-${k0}"}`},
	{"rename", `{"type":"rename","k0":"renamed0"}`},
	{"move", `{"type":"move","mode":"allow","target":"moved","fields":["k0","k1"]}`},
	{"flatten", `{"type":"flatten","field":"o","prefix":"o_"}`},
}

type poolJob struct {
	S      int
	X, Y   poolAtom
	xi, yi int
	Mode   string // fresh | history
	cases  []poolCase
	let    []int
	budget int // armed events let through (process deaths) per job
}

func (pj *poolJob) label() string {
	return fmt.Sprintf("pool S=%d %s->%s %s", pj.S, pj.X.Name, pj.Y.Name, pj.Mode)
}

func (pj *poolJob) in(only []int, armedBase int, let []int) poolIn {
	in := poolIn{Label: pj.label(), Actions: []string{pj.X.Action, pj.Y.Action}, NX: 1, Only: only, ArmedBase: armedBase, Let: let, DeferK: 2}
	if pj.S == pipeline.DefaultJSONNodePoolSize {
		in.StartPool = pj.S
	}
	in.Events = make([][]byte, len(pj.cases))
	for i := range pj.cases {
		in.Events[i] = pj.cases[i].Raw
	}
	if pj.Mode == "fresh" {
		in.Fresh, in.Capacity = true, 8
	} else {
		in.Capacity = 4
	}
	return in
}

func buildPoolJobs(c *core.Ctx) []*poolJob {
	sizes := []int{pipeline.DefaultJSONNodePoolSize, insaneJSON.StartNodePoolSize} // 16 (cmd/file.d), 128 (library default; untouched in the parent)
	if sizes[0] == sizes[1] {
		sizes = sizes[:1]
	}
	nSeeded := c.N(150, 2500)
	budget := c.N(2, 10)
	var jobs []*poolJob
	for _, s := range sizes {
		// S=16: 16 32 64 128 271 (a pool of 128 is what an event of ~60 members gets in production,
		// 271 is the first length that is not a power of two); S=128: 128 256 543
		k := 3
		if s < 64 {
			k = 5
		}
		chain, err := poolChain(s, k+1)
		if err != nil {
			c.Fatal("pool-boundary family: cannot measure the pool lengths for start size %d: %v", s, err)
			return nil
		}
		bs := chain[:k]
		directed := poolDirected(bs)
		for xi, x := range poolXs {
			for yi, y := range poolYs {
				// quick: every X with the first Y and the first X with every Y; thorough: all pairs
				if !c.Thorough() && xi != 0 && yi != 0 {
					continue
				}
				for _, mode := range []string{"fresh", "history"} {
					pj := &poolJob{S: s, X: x, Y: y, xi: xi, yi: yi, Mode: mode, budget: budget}
					rng := rand.New(rand.NewSource(c.SubSeed("pool/"+pj.label(), 0)))
					if mode == "fresh" {
						pj.cases = append(pj.cases, directed...)
					} else {
						// history: the sweep and the seeded cases shuffled, fillers of five sizes between them
						cs := append(append([]poolCase{}, directed...), poolSeeded(chain, rng, nSeeded)...)
						rng.Shuffle(len(cs), func(a, b int) { cs[a], cs[b] = cs[b], cs[a] })
						fill := []int{0, 8, 20, 36, 150}
						for _, cse := range cs {
							pj.cases = append(pj.cases, cse)
							if rng.Intn(3) == 0 {
								pj.cases = append(pj.cases, poolFiller(fill[rng.Intn(len(fill))]))
							}
						}
					}
					// which armed events are let through: the first ordinal early (nearly every job
					// reaches it), the others spread over the first few dozen
					pj.let = []int{rng.Intn(6)}
					for k := 1; k < budget; k++ {
						pj.let = append(pj.let, 6+rng.Intn(60))
					}
					jobs = append(jobs, pj)
				}
			}
		}
	}
	return jobs
}

// ---------------------------------------------------------------------------
// parent

// GOTRACEBACK=single: a child that has started thousands of pipelines has thousands of parked
// goroutines; with "all" (core's default) their dump pushes the panic message out of the tail
// of stderr the parent reads
var poolChildOpt = core.ChildOpt{Timeout: 4 * time.Minute, GOMAXPROCS: 2, Env: []string{"LOG_LEVEL=fatal", "GOTRACEBACK=single"}}

type poolCrash struct {
	job       *poolJob
	idx       int
	armed     *armedRec
	stderr    string
	confirmed string // alone | not-alone | not-tried
	source    string // which clause saw it
	extra     map[string]any
}

type poolAgg struct {
	mu      sync.Mutex
	crashes []*poolCrash
	// where the pool was exactly full after X: key -> count
	armed   map[string]int
	crashed map[string]int
	jobs    map[string]map[string]int // job label -> counters
	law     map[string]map[int]bool   // "S=.. pool=.. tail=.." -> n values armed (directed cases)
	texts   map[string]map[string]int // text -> armed / not
	preFull int64
}

func newPoolAgg() *poolAgg {
	return &poolAgg{armed: map[string]int{}, crashed: map[string]int{}, jobs: map[string]map[string]int{}, law: map[string]map[int]bool{}, texts: map[string]map[string]int{}}
}

func (a *poolAgg) jobCount(pj *poolJob, name string, n int) {
	a.mu.Lock()
	if a.jobs[pj.label()] == nil {
		a.jobs[pj.label()] = map[string]int{}
	}
	a.jobs[pj.label()][name] += n
	a.mu.Unlock()
}

func (a *poolAgg) noteArmed(pj *poolJob, rec armedRec) {
	cse := &pj.cases[rec.I]
	a.mu.Lock()
	a.armed[fmt.Sprintf("S=%d pool=%d X=%s text=%s", pj.S, rec.Pool, pj.X.Name, cse.Text)]++
	if cse.Class == "directed" {
		k := fmt.Sprintf("S=%d pool=%d tail=%s", pj.S, rec.Pool, cse.Tail)
		if a.law[k] == nil {
			a.law[k] = map[int]bool{}
		}
		a.law[k][cse.N] = true
	}
	a.mu.Unlock()
}

func (a *poolAgg) noteText(text string, armed bool) {
	a.mu.Lock()
	if a.texts[text] == nil {
		a.texts[text] = map[string]int{}
	}
	if armed {
		a.texts[text]["pool_exactly_full_after_X"]++
	} else {
		a.texts[text]["pool_was_one_short_before_X_but_not_full_after"]++
	}
	a.mu.Unlock()
}

// parsePoolLog: last event that entered the pipeline, whether the pipeline
// had started, how many events entered, the armed records, the watchdog line.
func parsePoolLog(r *core.ChildResult) (idx int, started bool, n int, armed []armedRec, mem bool) {
	idx = -1
	for _, l := range r.Log {
		var p plog
		if json.Unmarshal(l, &p) != nil {
			continue
		}
		switch p.T {
		case "started":
			started = true
		case "do":
			idx = p.I
			n++
		case "armed":
			if p.A != nil {
				armed = append(armed, *p.A)
			}
		case "mem":
			mem = true
		}
	}
	return
}

func runPoolChild(in poolIn) (*core.ChildResult, *poolOut) {
	r := core.RunChild("pool", in, poolChildOpt)
	if !r.Completed {
		return r, nil
	}
	var out poolOut
	if err := json.Unmarshal(r.Out, &out); err != nil {
		return r, nil
	}
	return r, &out
}

// poolAlone: the event alone, first event of a fresh pipeline in a fresh
// process with the same start size, armed events let through.
func (pj *poolJob) alone(raw []byte) (*core.ChildResult, *poolOut) {
	in := pj.in(nil, 0, nil)
	in.Events = [][]byte{raw}
	in.Fresh, in.Capacity, in.LetAll = true, 8, true
	return runPoolChild(in)
}

func (rn *runner) poolWitness(pj *poolJob, idx int, extra map[string]any) map[string]any {
	cse := &pj.cases[idx]
	w := map[string]any{
		"start_pool_size_S": pj.S, "X": pj.X.Name, "Y": pj.Y.Name, "actions": []string{pj.X.Action, pj.Y.Action}, "mode": pj.Mode,
		"n_scalar_members": cse.N, "tail": cse.Tail, "text_decoded_by_X": cse.Text, "case_class": cse.Class,
		"event": evStr(cse.Raw), "event_index_in_job": idx,
	}
	if cse.B > 0 {
		w["swept_boundary_B"] = cse.B
	}
	for k, v := range extra {
		w[k] = v
	}
	return w
}

func (rn *runner) runPool(pj *poolJob) {
	c := rn.c
	ag := rn.pool
	order := make([]int, len(pj.cases))
	for i := range order {
		order[i] = i
	}
	seenOther := map[string]bool{}
	start, armedBase, deaths, classDeaths := 0, 0, 0, 0
	for start < len(order) {
		let := pj.let
		if classDeaths >= pj.budget {
			let = nil
		}
		r, out := runPoolChild(pj.in(order[start:], armedBase, let))
		if r.TimedOut {
			c.Inconclusive("watchdog")
			fmt.Printf("note: %s: watchdog expired\n%s\n", pj.label(), core.Trunc(r.Stderr, 1500))
			return
		}
		idx, started, n, armed, mem := parsePoolLog(r)
		if mem || r.ExitCode == memExit {
			c.Inconclusive("child-memory-watchdog")
			fmt.Printf("note: %s: the child was ended by its memory watchdog (last event %d)\n", pj.label(), idx)
			return
		}
		if out != nil {
			if out.SetupErr != "" {
				c.Fatal("pool-boundary pipeline %s was rejected (%s): the table must hold accepted configurations only", pj.label(), out.SetupErr)
				return
			}
			if out.StartSize != pj.S {
				c.Fatal("pool-boundary child ran with start pool size %d, wanted %d", out.StartSize, pj.S)
				return
			}
			rn.poolAccount(pj, out)
			if len(out.Invalid) > 0 {
				rn.poolInvalid(pj, out.Invalid)
			}
			if !out.Quiesced {
				c.Inconclusive("pipeline-not-quiet-at-end")
				fmt.Printf("note: %s: %d events still in use at the end\n", pj.label(), out.InUseEnd)
			}
			return
		}
		// the child died
		if !started {
			kind, msg, at := crashClass(r)
			c.Fatal("pool-boundary child %s died before its pipeline started (%s %s at %s)", pj.label(), kind, msg, at)
			fmt.Println(core.Trunc(r.Stderr, 2000))
			return
		}
		c.Eval(n)
		c.Count("pool_events_entered", int64(n))
		ag.jobCount(pj, "events_entered", n)
		for _, a := range armed {
			ag.noteArmed(pj, a)
		}
		c.Count("pool_events_pool_exactly_full_after_X", int64(len(armed)))
		ag.jobCount(pj, "pool_exactly_full_after_X", len(armed))
		armedBase += len(armed)
		pos := -1
		for k := start; k < len(order); k++ {
			if order[k] == idx {
				pos = k
				break
			}
		}
		if pos < 0 {
			c.Inconclusive("crash-attribution-failed")
			fmt.Printf("note: %s: child died, last logged event %d is not in the fed list\n%s\n", pj.label(), idx, core.Trunc(tailPanic(r.Stderr), 1500))
			return
		}
		deaths++
		c.Count("pool_child_deaths", 1)
		if inv := loggedInvalid(r); len(inv) > 0 {
			rn.poolInvalid(pj, inv)
		}
		var arec *armedRec
		if len(armed) > 0 && armed[len(armed)-1].I == idx {
			arec = &armed[len(armed)-1]
		}
		if poolClassCrash(r.Stderr) {
			classDeaths++
			cr := &poolCrash{job: pj, idx: idx, armed: arec, stderr: core.Trunc(tailPanic(r.Stderr), 3000), confirmed: "not-tried", source: "pool-boundary family"}
			if arec == nil {
				c.Count("pool_class_crashes_without_armed_observation", 1)
				fmt.Printf("note: %s: getNode crash on event %d although the probe did not see the pool full\n", pj.label(), idx)
			}
			if classDeaths == 1 {
				// the single command alone in a fresh process
				r2, _ := pj.alone(pj.cases[idx].Raw)
				if r2.Crashed() && poolClassCrash(r2.Stderr) {
					cr.confirmed = "alone"
					c.Count("pool_class_crashes_confirmed_alone", 1)
				} else {
					cr.confirmed = "not-alone"
					c.Count("pool_class_crashes_not_reproduced_alone", 1)
				}
			}
			c.Count("pool_class_crashes", 1)
			ag.jobCount(pj, "class_crashes", 1)
			ag.mu.Lock()
			ag.crashes = append(ag.crashes, cr)
			pl := 0
			if arec != nil {
				pl = arec.Pool
			}
			ag.crashed[fmt.Sprintf("S=%d pool=%d X=%s Y=%s", pj.S, pl, pj.X.Name, pj.Y.Name)]++
			ag.mu.Unlock()
		} else {
			rn.poolOtherCrash(pj, r, order, start, pos, armedBase-len(armed), let, seenOther)
		}
		if deaths >= pj.budget+c.N(40, 200) {
			c.Count("pool_events_skipped_after_many_crashes", int64(len(order)-pos-1))
			return
		}
		start = pos + 1
	}
}

// poolOtherCrash: a death that is not the getNode class keeps the normal signature.
func (rn *runner) poolOtherCrash(pj *poolJob, r *core.ChildResult, order []int, start, pos, armedBase int, let []int, seen map[string]bool) {
	c := rn.c
	kind, msg, at := crashClass(r)
	idx := order[pos]
	raw := pj.cases[idx].Raw
	key := kind + "|" + msg + "|" + at
	if seen[key] {
		c.Count("crash_repeats_not_minimized", 1)
		return
	}
	seen[key] = true
	jj := &job{name: "chain:" + pj.X.Name + "->" + pj.Y.Name}
	same := func(rr *core.ChildResult) bool {
		if !rr.Crashed() {
			return false
		}
		_, st, _, _, _ := parsePoolLog(rr)
		k, m, a := crashClass(rr)
		return st && k == kind && m == msg && a == at
	}
	if r2, _ := pj.alone(raw); same(r2) {
		min := minimize(raw, func(b []byte) bool { rr, _ := pj.alone(b); return same(rr) })
		sig := fmt.Sprintf("plugin=%s crash=%s msg=%s at=%s trigger=%s", sigPlugin(jj, r2.Stderr, at), kind, msg, at, triggerShape(min))
		fmt.Printf("finding: %s [%s]\n", sig, pj.label())
		c.Violation(sig,
			fmt.Sprintf("%s dies on one event: %s at %s; minimal event %s", pj.label(), msg, at, evStr(min)),
			rn.poolWitness(pj, idx, map[string]any{"minimal_event": evStr(min), "minimal_event_raw": min, "stderr": core.Trunc(tailPanic(r2.Stderr), 3000)}))
		c.Count("crashes_confirmed_alone", 1)
		return
	}
	// not alone: the chunk that died again, with the same armed events let through
	r3, _ := runPoolChild(pj.in(order[start:pos+1], armedBase, let))
	if same(r3) {
		var hist []string
		for _, i := range order[max(start, pos-6) : pos+1] {
			hist = append(hist, evStr(pj.cases[i].Raw))
		}
		sig := fmt.Sprintf("plugin=%s crash=%s msg=%s at=%s trigger=history", sigPlugin(jj, r3.Stderr, at), kind, msg, at)
		fmt.Printf("finding: %s [%s]\n", sig, pj.label())
		c.Violation(sig,
			fmt.Sprintf("%s dies after a sequence of events (not on the last one alone): %s at %s", pj.label(), msg, at),
			rn.poolWitness(pj, idx, map[string]any{"last_events": hist, "sequence_length": pos + 1 - start, "stderr": core.Trunc(tailPanic(r3.Stderr), 3000)}))
		c.Count("crashes_confirmed_history", 1)
		return
	}
	c.Inconclusive("crash-not-reproduced")
	fmt.Printf("note: %s: child died (%s %s at %s) on event %d but neither the event alone nor the chunk reproduced it\n", pj.label(), kind, msg, at, idx)
}

// poolInvalid: an output that is not valid JSON (same signature scheme as the main clause).
func (rn *runner) poolInvalid(pj *poolJob, recs []invalidRec) {
	c := rn.c
	seen := map[string]bool{}
	for _, rec := range recs {
		c.Count("outputs_invalid", 1)
		if rec.Idx < 0 || rec.Idx >= len(pj.cases) {
			c.Inconclusive("invalid-output-without-event")
			continue
		}
		key := rec.Phase + "|" + rec.Kind + "|" + rec.Token
		if seen[key] {
			c.Count("invalid_output_repeats_not_minimized", 1)
			continue
		}
		seen[key] = true
		raw := pj.cases[rec.Idx].Raw
		trigger := "history"
		if _, o2 := pj.alone(raw); o2 != nil && len(o2.Invalid) > 0 && o2.Invalid[0].Token == rec.Token {
			trigger = triggerShape(raw)
		}
		sig := fmt.Sprintf("plugin=chain:%s->%s output=invalid-json phase=%s kind=%s token=%s trigger=%s", pj.X.Name, pj.Y.Name, rec.Phase, rec.Kind, rec.Token, trigger)
		fmt.Printf("finding: %s [%s] %s -> %s\n", sig, pj.label(), evStr(raw), evStr(rec.Out))
		c.Violation(sig,
			fmt.Sprintf("%s turns a valid event into a document that is not valid JSON (%s): %s -> %s", pj.label(), rec.Token, evStr(raw), evStr(rec.Out)),
			rn.poolWitness(pj, rec.Idx, map[string]any{"output": evStr(rec.Out), "error": rec.Err}))
	}
}

func (rn *runner) poolAccount(pj *poolJob, out *poolOut) {
	c := rn.c
	ag := rn.pool
	var entered, nOut, nDrop, nRej, preFull int64
	isArmed := map[int]*armedRec{}
	for i := range out.Armed {
		isArmed[out.Armed[i].I] = &out.Armed[i]
		ag.noteArmed(pj, out.Armed[i])
	}
	var letSurvived int64
	for i, oc := range out.Outcomes {
		if oc == 0 {
			continue
		}
		if oc&ocRejected != 0 {
			nRej++
			continue
		}
		c.Eval(1)
		cse := &pj.cases[i]
		if oc&ocHead != 0 {
			entered++
		}
		if oc&ocOutput != 0 {
			nOut++
		}
		if oc&ocDropped != 0 {
			nDrop++
		}
		a := isArmed[i]
		if a != nil && a.Let && oc&ocOutput != 0 {
			letSurvived++
		}
		full := out.PrePool[i] > 0 && out.PreNodes[i] == out.PrePool[i]-1
		if full {
			preFull++
			ag.noteText(cse.Text, a != nil)
		}
		state := "room"
		switch {
		case a != nil:
			state = "full-after-X"
		case full:
			state = "one-short-before-X"
		}
		if cse.Class != "filler" {
			c.NontrivialHash("pool", strconv.Itoa(pj.S), pj.X.Name, pj.Y.Name, pj.Mode, cse.Tail, cse.Text, strconv.Itoa(int(out.PrePool[i])), state, strconv.Itoa(int(oc)))
		}
		if i%499 == 7 && cse.Class != "filler" {
			c.Sample(map[string]any{"family": "pool-boundary", "job": pj.label(), "n": cse.N, "tail": cse.Tail, "text": cse.Text,
				"pool_before_X": out.PrePool[i], "nodes_before_X": out.PreNodes[i], "pool_after_X": out.MidPool[i], "nodes_after_X": out.MidNodes[i], "outcome": ocString(oc)})
		}
	}
	c.Count("pool_events_entered", entered)
	c.Count("pool_events_reached_output_valid", nOut)
	c.Count("pool_events_refused_by_pipeline_decoder", nRej)
	c.Count("pool_events_one_node_short_of_the_pool_before_X", preFull)
	c.Count("pool_events_pool_exactly_full_after_X", int64(len(out.Armed)))
	c.Count("pool_armed_events_let_into_Y_that_survived", letSurvived)
	c.Count("pool_outputs_checked", int64(out.Outputs))
	c.Count("pool_pipelines_started", int64(out.Pipelines))
	c.Count("late_encoding_differs", int64(out.LateDiff))
	ag.jobCount(pj, "events_entered", int(entered))
	ag.jobCount(pj, "pool_exactly_full_after_X", len(out.Armed))
	ag.jobCount(pj, "armed_let_into_Y_survived", int(letSurvived))
	ag.mu.Lock()
	ag.preFull += preFull
	ag.mu.Unlock()
	rn.stats.add("chain", "pool_entered", entered)
}

// notePoolClass: another clause (main, concurrency, chain) met the getNode class.
func (rn *runner) notePoolClass(source, label string, stderr string, extra map[string]any) {
	rn.c.Count("pool_class_crashes_seen_by_other_clauses", 1)
	rn.pool.mu.Lock()
	rn.pool.crashes = append(rn.pool.crashes, &poolCrash{idx: -1, stderr: core.Trunc(tailPanic(stderr), 3000), confirmed: "by-" + source, source: source + " " + label, extra: extra})
	rn.pool.mu.Unlock()
}

// poolFinish reports the class once per run, with a seed independent choice of
// the leading witness and the table of where it fired.
func (rn *runner) poolFinish(ranFamily bool) {
	c := rn.c
	ag := rn.pool
	ag.mu.Lock()
	defer ag.mu.Unlock()
	law := map[string][]int{}
	for k, ns := range ag.law {
		for n := range ns {
			law[k] = append(law[k], n)
		}
		sort.Ints(law[k])
	}
	summary := map[string]any{
		"pool_exactly_full_after_X_by_S_pool_X_text":   ag.armed,
		"class_crashes_by_S_pool_X_Y":                  ag.crashed,
		"directed_n_that_fill_the_pool_by_S_pool_tail": law,
		"texts_on_events_one_node_short_before_X":      ag.texts,
		"per_job": ag.jobs,
	}
	if ranFamily {
		c.Extra("pool_boundary", summary)
	}
	if len(ag.crashes) == 0 {
		return
	}
	sort.SliceStable(ag.crashes, func(a, b int) bool {
		x, y := ag.crashes[a], ag.crashes[b]
		if (x.job == nil) != (y.job == nil) {
			return x.job != nil
		}
		if x.job == nil {
			return x.source < y.source
		}
		if x.job.S != y.job.S {
			return x.job.S < y.job.S
		}
		if x.job.xi != y.job.xi {
			return x.job.xi < y.job.xi
		}
		if x.job.yi != y.job.yi {
			return x.job.yi < y.job.yi
		}
		if x.job.Mode != y.job.Mode {
			return x.job.Mode < y.job.Mode
		}
		return x.idx < y.idx
	})
	first := ag.crashes[0]
	var others []string
	confirmed := 0
	for _, cr := range ag.crashes {
		if cr.confirmed == "alone" {
			confirmed++
		}
		if cr.job != nil {
			cse := &cr.job.cases[cr.idx]
			pl := 0
			if cr.armed != nil {
				pl = cr.armed.Pool
			}
			others = append(others, fmt.Sprintf("%s: n=%d tail=%s text=%s pool=%d confirmed=%s", cr.job.label(), cse.N, cse.Tail, cse.Text, pl, cr.confirmed))
		} else {
			others = append(others, cr.source)
		}
	}
	var w map[string]any
	what := ""
	if first.job != nil {
		extra := map[string]any{"stderr": first.stderr, "confirmed": first.confirmed, "crashes_in_this_run": others, "where_it_fires": summary}
		if first.armed != nil {
			extra["pool_length_after_X"] = first.armed.Pool
			extra["nodes_after_X"] = first.armed.Nodes
			extra["pool_length_before_X"] = first.armed.PrePool
			extra["nodes_before_X"] = first.armed.PreNodes
		}
		w = rn.poolWitness(first.job, first.idx, extra)
		cse := &first.job.cases[first.idx]
		what = fmt.Sprintf("%d process deaths in %d pool-boundary jobs (%d confirmed with the event alone in a fresh process): %s decodes the scalar %s into a root whose node pool has exactly one free node, %s then adds a field and insane-json's getNode indexes nodePool[len]; first witness S=%d n=%d tail=%s event %s",
			len(ag.crashes), len(ag.jobs), confirmed, first.job.X.Name, cse.Text, first.job.Y.Name, first.job.S, cse.N, cse.Tail, evStr(cse.Raw))
	} else {
		w = map[string]any{"seen_by": first.source, "stderr": first.stderr, "crashes_in_this_run": others, "details": first.extra}
		what = fmt.Sprintf("index out of range in insane-json getNode reached through AddField*, seen by: %s", first.source)
	}
	fmt.Printf("finding: %s [%d deaths]\n", poolClassSig, len(ag.crashes))
	c.Violation(poolClassSig, what, w)
}
