package main

import (
	"fmt"
	"math/rand"
	"time"
)

// The "many" clause: configurations with a LONG rule list (dozens of rules,
// counts around 26/27 and 52/53 favoured, a few up to 110), every rule with a
// limit of its own, and a sequential history in which the same throttle key
// value is routed through many different rules inside one bucket. The verdict
// is the one of the seq clause: every decision against the dictionary model
// per (rule, key, bucket), the order-independent safety sums, and a model-free
// replay (the decisions of one rule must not change when the events of all
// other rules are removed — budgets are never shared between rules).
//
// The plugin encodes the rule index in one byte in front of the throttle key
// ('a'+index, truncated to a byte); the family stays far below the 256
// positions one byte can tell apart.
const manyMaxRules = 110

func manyRuleCount(r *rand.Rand) int {
	switch x := r.Intn(100); {
	case x < 45:
		return 20 + r.Intn(41) // 20..60
	case x < 75:
		// around the sizes at which a one-letter / small-table index runs out
		return pick(r, []int{25, 26, 27, 28, 31, 32, 33, 51, 52, 53, 54, 63, 64, 65})
	case x < 93:
		return 61 + r.Intn(manyMaxRules-60) // 61..110
	default:
		return 4 + r.Intn(16) // 4..19: the short lists of the other clauses, same generator
	}
}

var manyCountLimits = []int64{0, 1, 1, 2, 2, 3, 4, 5, 7, 10}

func genManyConfig(r *rand.Rand) Config {
	iv := pick(r, intervals)
	c := Config{Interval: iv.s, IntervalNs: iv.ns, Buckets: pick(r, []int{1, 1, 2, 3, 5}), TimeField: "time"}
	switch r.Intn(12) {
	case 0:
		c.ThrottleField = ""
	case 1, 2:
		c.ThrottleField = "meta.k"
	default:
		c.ThrottleField = "k"
	}
	if r.Intn(5) < 4 {
		c.Kind = "count"
		c.OmitKind = r.Intn(2) == 0
		c.DefaultLimit = pick(r, manyCountLimits)
	} else {
		c.Kind = "size"
		c.DefaultLimit = pick(r, sizeLimits)
	}
	if r.Intn(100) < 15 {
		c.Dist = genDist(r, "lvl", c.DefaultLimit, c.Kind == "size")
	}
	n := manyRuleCount(r)
	for i := 0; i < n; i++ {
		ru := Rule{Kind: "count", Cond: map[string]string{}}
		if r.Intn(5) == 0 {
			ru.Kind = "size"
			ru.Limit = pick(r, sizeLimits)
		} else {
			ru.Limit = pick(r, manyCountLimits)
		}
		switch x := r.Intn(100); {
		case x < 78:
			ru.Cond["a"] = fmt.Sprintf("v%d", i)
		case x < 90 && i > 0:
			// shares its `a` value with an earlier rule: first match decides
			ru.Cond["a"] = fmt.Sprintf("v%d", r.Intn(i))
			if r.Intn(3) > 0 {
				ru.Cond["b"] = pick(r, []string{"x", "y"})
			}
		default:
			ru.Cond["a"] = fmt.Sprintf("v%d", i)
			ru.Cond["b"] = pick(r, []string{"x", "y"})
		}
		if r.Intn(100) < 12 {
			ru.Dist = genDist(r, "lvl", ru.Limit, ru.Kind == "size")
		}
		c.Rules = append(c.Rules, ru)
	}
	return c
}

// genManyCase draws one sequential history for a long rule list.
func genManyCase(seed int64) *Case {
	r := rand.New(rand.NewSource(seed))
	cs := &Case{Seed: seed, Clause: "many", Cfg: genManyConfig(r)}
	c := &cs.Cfg
	n := len(c.Rules)
	keys := hostileKeys(r)[:1+r.Intn(3)]
	listed := listedValues(c)
	iv := c.IntervalNs
	win := iv * int64(c.Buckets)

	// hot rules: a few positions of the list that get most of the traffic;
	// either scattered or evenly spaced with a random stride
	var hot []int
	if r.Intn(2) == 0 {
		for k := 2 + r.Intn(5); k > 0; k-- {
			hot = append(hot, r.Intn(n))
		}
	} else {
		stride := 1 + r.Intn(64)
		for i := r.Intn(stride); i < n; i += stride {
			hot = append(hot, i)
		}
		if len(hot) == 0 {
			hot = append(hot, r.Intn(n))
		}
	}

	now := virtualBase + r.Int63n(int64(300*24*time.Hour))
	if r.Intn(4) == 0 {
		now = floorDiv(now, iv) * iv
	}
	pads := []int{0, 0, 7, 64}
	total := 250 + r.Intn(350)
	idx := 0
	for idx < total {
		switch x := r.Intn(100); {
		case len(cs.Steps) == 0:
		case x < 55:
		case x < 72:
			now += r.Int63n(iv)
		case x < 82:
			now = (floorDiv(now, iv) + 1) * iv
		case x < 94:
			now += r.Int63n(win + 1)
		default:
			now += win + r.Int63n(4*win+1)
		}
		st := Step{Now: now}
		k := 1 + r.Intn(20)
		for j := 0; j < k && idx < total; j++ {
			e := Ev{Idx: idx}
			idx++
			ki := r.Intn(len(keys))
			if r.Intn(2) == 0 {
				ki = 0
			}
			switch x := r.Intn(60); {
			case x == 0:
				e.Key = nil
			case x == 1:
				e.Key = sp("")
			default:
				e.Key = sp(keys[ki])
			}
			switch x := r.Intn(100); {
			case x < 45:
				e.A = sp(fmt.Sprintf("v%d", pick(r, hot)))
			case x < 85:
				e.A = sp(fmt.Sprintf("v%d", r.Intn(n)))
			case x < 93:
				e.A = sp(pick(r, []string{"w", "v", "v-1", fmt.Sprintf("v%d", n), "V0"})) // no rule: default limit
			}
			if r.Intn(2) == 0 {
				e.B = sp(pick(r, []string{"x", "y", "q"}))
			}
			e.Lvl = genLvl(r, listed)
			genTime(r, &e, now, c)
			e.Pad = pick(r, pads)
			e.render(c, cs.distFields())
			st.Evs = append(st.Evs, e)
		}
		cs.Steps = append(cs.Steps, st)
	}
	cs.NEvents = idx
	return cs
}

// ruleBand names the part of the rule list an index lies in (coverage only).
func ruleBand(c *Config, rule int) string {
	switch {
	case rule == len(c.Rules):
		return "default"
	case rule < 26:
		return "idx_0-25"
	case rule < 52:
		return "idx_26-51"
	case rule < 78:
		return "idx_52-77"
	}
	return "idx_78plus"
}

type keyBkt struct {
	key string
	id  int64
}

// evalManyExtras adds the coverage counters of the long-rule-list family and
// the model-free rule isolation replay.
func evalManyExtras(cs *Case, res *caseResult, m *model, dec []bool, infos []evInfo,
	rulesAt, rejAt map[keyBkt]map[int]bool, evOfRule map[int]int, withIsolation bool) {
	n := len(cs.Cfg.Rules)
	res.count("rules_configured", int64(n))
	switch {
	case n >= 79:
		res.count("cases_rules_79plus", 1)
	case n >= 53:
		res.count("cases_rules_53-78", 1)
	case n >= 27:
		res.count("cases_rules_27-52", 1)
	case n >= 20:
		res.count("cases_rules_20-26", 1)
	default:
		res.count("cases_rules_lt20", 1)
	}
	res.count("rules_reached", int64(len(evOfRule)))
	maxRules := 0
	for k, rs := range rulesAt {
		if len(rs) >= 2 {
			res.count("key_bucket_seen_through_several_rules", 1)
		}
		if len(rs) > maxRules {
			maxRules = len(rs)
		}
		if len(rejAt[k]) >= 2 {
			res.count("key_bucket_rejections_by_several_rules", 1)
		}
		// the same key and bucket through rules with different limits
		lims := map[int64]bool{}
		for ru := range rs {
			lims[m.specs[ru].limit] = true
		}
		if len(lims) >= 2 {
			res.count("key_bucket_under_several_distinct_limits", 1)
		}
	}
	if maxRules >= 10 {
		res.count("cases_one_key_bucket_through_10plus_rules", 1)
	}
	if !withIsolation || len(evOfRule) < 2 {
		return
	}
	// budgets are never shared between rules, checked without the model: the
	// decisions for the events of one rule must not change when the events
	// that matched any other rule are removed. (Rule matching does not depend
	// on the history, so the rule of an event is the same in both runs.)
	best, bn := -1, -1
	for ru := 0; ru <= n; ru++ {
		if evOfRule[ru] > bn {
			best, bn = ru, evOfRule[ru]
		}
	}
	dec2, sent, err := runSeq(cs, func(e *Ev) bool { return infos[e.Idx].Rule == best })
	if err == errWatchdog {
		res.count("rule_isolation_watchdog", 1)
		return
	}
	if err != nil {
		return
	}
	res.count("rule_isolation_replays", 1)
	res.count("rule_isolation_events_compared", int64(bn))
	for i := range dec2 {
		if sent[i] && dec2[i] != dec[i] {
			in := infos[i]
			res.Violations = append(res.Violations, viol{
				Sig:  fmt.Sprintf("many isolation: a rule's decisions change when the events of the other rules are removed; kind=%s limiter=%s", m.specs[in.Rule].kind, in.Limiter),
				What: fmt.Sprintf("event %d (rule %d of %d, key %q): passed=%v with all rules' events, passed=%v alone", i, in.Rule, n, in.Key, dec[i], dec2[i]),
				Witness: map[string]any{"alone": dec2[i], "with_others": dec[i], "rule": best,
					"detail": witness(cs, i, infos, dec, limKey{in.Rule, in.Key})},
			})
			break
		}
	}
}
