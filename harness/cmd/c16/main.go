// C16 — throttle never passes more than the limit per key and time bucket,
// never rejects below it, keys never share a budget, distribution shares.
//
// The real throttle action (in-memory backend) is configured from JSON through
// fd.SetupActions and runs inside a real pipeline (fake input, devnull
// output); its clock is virtual. Generated histories of (key, event time,
// wall clock) are fed through it and every pass/discard decision is compared
// with a dictionary-based reference model (model.go). See NOTES.md.
package main

import (
	"encoding/json"
	"fmt"
	"os"
	"sort"
	"sync"
	"sync/atomic"
	"time"

	"verifharness/core"
)

type childIn struct {
	Clause string  `json:"clause"`
	Seeds  []int64 `json:"seeds"`
	IsoMod int     `json:"iso_mod"` // every IsoMod-th seq case also runs the isolation replay
}

type childOut struct {
	Results []*caseResult `json:"results"`
}

func runCases(in childIn, log func(any)) []*caseResult {
	var out []*caseResult
	for i, s := range in.Seeds {
		if log != nil {
			log(map[string]any{"clause": in.Clause, "case_seed": s, "pos": i})
		}
		switch in.Clause {
		case "seq":
			out = append(out, evalSeq(genSeqCase(s), in.IsoMod > 0 && i%in.IsoMod == 0))
		case "conc":
			out = append(out, evalConc(genConcCase(s)))
		case "multi":
			out = append(out, evalMulti(genMultiCase(s)))
		case "many":
			out = append(out, evalSeq(genManyCase(s), in.IsoMod > 0 && i%in.IsoMod == 0))
		}
	}
	return out
}

func main() {
	core.RegisterChild("cases", func(raw json.RawMessage, io *core.ChildIO) (any, error) {
		var in childIn
		if err := json.Unmarshal(raw, &in); err != nil {
			return nil, err
		}
		return childOut{Results: runCases(in, func(v any) { io.Log(v) })}, nil
	})
	core.Main("C16", "exploration", run)
}

func run(c *core.Ctx) {
	c.SetRule("seq: one generated throttle config (interval, buckets_count 1..60, count/size limits incl. 0, 0-3 rules, optional limit_distribution per limit, hostile keys) and a history of 120-250 events in steps of 1-12 under a virtual wall clock that stays, creeps, hits bucket boundaries or jumps up to 10 windows; event times in/at the edges of/outside the window, unusable or absent; fed in order through one processor of a real pipeline; every decision compared with a dictionary model (all documented stealing choices kept). conc: bursts of 100-400 events per step from 2-8 sources into a parallel pipeline (2*GOMAXPROCS processors sharing the limiters), order-independent sums. multi: a seq history through a pipeline with two throttle actions, compared with the same actions in separate pipelines and with two models. non-trivial = the case has both passed and discarded events; fingerprint = config shape + set of (event-time class, limiter type, decision) and clock-jump behaviours reached")
	c.Assume("the virtual clock installed with limitersMap.setNowFn (the hook the package's own tests use) is the only wall-clock source that decides the window; the wall clock never goes backwards")
	c.Assume("fake input with one source + one processor delivers events to the action in the order they were fed (per-stream FIFO of the pipeline)")
	c.Assume("event size = number of bytes handed to the input (no trailing newline is sent)")
	c.Assume("shares are ratio*limit rounded to the nearest integer (as the package's own test expects for 0.3*12); exact .5 ties are not generated")

	if c.ReplayArg() != "" {
		replay(c)
		return
	}

	nSeq := c.N(20000, 400000)
	nConc := c.N(2500, 40000)
	nMulti := c.N(400, 6000)
	nMany := c.N(900, 15000)
	// debugging aid for mutant experiments only: VERIF_C16_ONLY=seq|conc|multi|many
	only := os.Getenv("VERIF_C16_ONLY")
	switch only {
	case "seq":
		nConc, nMulti, nMany = 0, 0, 0
	case "conc":
		nSeq, nMulti, nMany = 0, 0, 0
	case "multi":
		nSeq, nConc, nMany = 0, 0, 0
	case "many":
		nSeq, nConc, nMulti = 0, 0, 0
	}
	chunkSeq, chunkConc := 30, 8
	if c.Thorough() {
		chunkSeq, chunkConc = 100, 20
	}
	type job struct {
		clause string
		seeds  []int64
		iso    int
	}
	var jobs []job
	for i := 0; i < nSeq; i += chunkSeq {
		j := job{clause: "seq", iso: 4}
		for k := i; k < i+chunkSeq && k < nSeq; k++ {
			j.seeds = append(j.seeds, c.SubSeed("seq", k))
		}
		jobs = append(jobs, j)
	}
	for i := 0; i < nConc; i += chunkConc {
		j := job{clause: "conc"}
		for k := i; k < i+chunkConc && k < nConc; k++ {
			j.seeds = append(j.seeds, c.SubSeed("conc", k))
		}
		jobs = append(jobs, j)
	}
	for i := 0; i < nMulti; i += chunkSeq {
		j := job{clause: "multi"}
		for k := i; k < i+chunkSeq && k < nMulti; k++ {
			if k == 0 {
				j.seeds = append(j.seeds, 0) // the directed minimal case
				continue
			}
			j.seeds = append(j.seeds, c.SubSeed("multi", k))
		}
		jobs = append(jobs, j)
	}
	// long rule lists (own PRNG stream "many"; the other clauses' cases are unchanged)
	for i := 0; i < nMany; i += chunkSeq {
		j := job{clause: "many", iso: 4}
		for k := i; k < i+chunkSeq && k < nMany; k++ {
			j.seeds = append(j.seeds, c.SubSeed("many", k))
		}
		jobs = append(jobs, j)
	}
	// the (heavier) concurrent chunks first, so that they do not all end up last
	sort.SliceStable(jobs, func(a, b int) bool { return jobs[a].clause == "conc" && jobs[b].clause != "conc" })

	// once a few crashes are confirmed the rest of the run is skipped (every
	// further chunk would pay two child start-ups per case)
	var crashes atomic.Int32
	const maxCrashes = 3
	core.ParallelFor(len(jobs), 24, func(ji int) {
		j := jobs[ji]
		seeds := j.seeds
		for len(seeds) > 0 {
			if crashes.Load() >= maxCrashes {
				c.Inconclusive("skipped-after-confirmed-crashes")
				return
			}
			gm := 0
			if j.clause != "conc" {
				gm = 4
			}
			r := core.RunChild("cases", childIn{Clause: j.clause, Seeds: seeds, IsoMod: j.iso}, core.ChildOpt{Timeout: 20 * time.Minute, GOMAXPROCS: gm})
			if r.Completed {
				var out childOut
				if err := json.Unmarshal(r.Out, &out); err != nil {
					c.Fatal("cannot decode child output: %v", err)
					return
				}
				for _, cr := range out.Results {
					merge(c, cr)
				}
				return
			}
			if r.TimedOut {
				c.Inconclusive("child-watchdog")
				return
			}
			// crashed: attribute to the last logged case, confirm it alone
			var last struct {
				Seed int64 `json:"case_seed"`
				Pos  int   `json:"pos"`
			}
			if r.LastLog() == nil || json.Unmarshal(r.LastLog(), &last) != nil {
				c.Inconclusive("child-crash-unattributed")
				fmt.Println("child crashed before logging a case:", core.Trunc(r.Stderr, 800))
				return
			}
			r2 := core.RunChild("cases", childIn{Clause: j.clause, Seeds: []int64{last.Seed}, IsoMod: j.iso}, core.ChildOpt{Timeout: 10 * time.Minute, GOMAXPROCS: gm})
			c.Eval(1)
			if r2.Crashed() {
				msg, site := core.PanicSite(r2.Stderr)
				c.Violation(fmt.Sprintf("%s crash: %s @%s", j.clause, core.NormalizeMsg(msg), site),
					"the process running the throttle action died while processing a generated history",
					map[string]any{"clause": j.clause, "case_seed": last.Seed, "stderr": core.Trunc(r2.Stderr, 3000)})
				crashes.Add(1)
			} else {
				c.Inconclusive("child-crash-not-reproduced")
			}
			if last.Pos+1 >= len(seeds) {
				return
			}
			seeds = seeds[last.Pos+1:]
		}
	})

	// a run that never saw an expected behaviour class must not pass
	need := []string{
		"events_passed", "events_discarded",
		"ev_in-window_pass", "ev_in-window_rej", "ev_outside-past_pass", "ev_outside-past_rej",
		"ev_outside-future_pass", "ev_outside-future_rej", "ev_unusable_pass", "ev_unusable_rej",
		"ev_older_bucket_pass", "ev_older_bucket_rej",
		"ev_plain_pass", "ev_plain_rej", "ev_dist-listed_pass", "ev_dist-listed_rej", "ev_dist-unlisted_pass", "ev_dist-unlisted_rej",
		"ev_stole_listed_share", "budget_reused_after_full_window_jump", "budget_reused_after_partial_shift",
		"clock_shift_gt_window", "clock_shift_lt_window", "clock_same_bucket",
		"isolation_replays", "multi_events_passed", "multi_events_discarded_by_first", "multi_events_discarded_by_second", "multi_events_same_rule_index_in_both",
		"conc_exact_count_checks", "conc_dist_bucket_checks", "conc_size_reject_checks",
		"many_events_passed", "many_events_discarded", "many_cases_rules_20-26", "many_cases_rules_27-52", "many_cases_rules_53-78", "many_cases_rules_79plus",
		"many_ev_rule_idx_0-25_pass", "many_ev_rule_idx_0-25_rej", "many_ev_rule_idx_26-51_pass", "many_ev_rule_idx_26-51_rej",
		"many_ev_rule_idx_52-77_pass", "many_ev_rule_idx_52-77_rej", "many_ev_rule_idx_78plus_pass", "many_ev_rule_idx_78plus_rej",
		"many_ev_rule_default_pass", "many_ev_rule_default_rej",
		"many_key_bucket_seen_through_several_rules", "many_key_bucket_rejections_by_several_rules", "many_key_bucket_under_several_distinct_limits",
		"many_cases_one_key_bucket_through_10plus_rules", "many_rule_isolation_replays",
		"many_ev_plain_pass", "many_ev_plain_rej", "many_ev_dist-listed_rej", "many_ev_dist-unlisted_rej", "many_ev_older_bucket_rej",
	}
	for _, n := range need {
		cl := "seq"
		if len(n) > 5 && n[:5] == "conc_" {
			cl = "conc"
		} else if len(n) > 6 && n[:6] == "multi_" {
			cl = "multi"
		} else if len(n) > 5 && n[:5] == "many_" {
			cl = "many"
		}
		if only != "" && only != cl {
			continue
		}
		if c.Counter(n) == 0 && c.Violations() == 0 {
			c.Fatal("expected behaviour class never observed: %s", n)
		}
	}
}

var (
	sigMu   sync.Mutex
	sigSeen = map[string]int{}
)

func merge(c *core.Ctx, cr *caseResult) {
	if cr.Inconclusive != "" {
		c.Inconclusive(cr.Clause + "-" + cr.Inconclusive)
		if cr.Inconclusive == "config-refused" || cr.Inconclusive == "pipeline" {
			c.Fatal("harness problem: %s-%s for case seed %d", cr.Clause, cr.Inconclusive, cr.Seed)
		}
		return
	}
	c.Eval(1)
	c.Count("cases_"+cr.Clause, 1)
	for k, v := range cr.Counters {
		if cr.Clause == "conc" && len(k) > 3 && k[:3] == "ev_" {
			k = "conc_" + k
		}
		if cr.Clause == "conc" && (k == "events" || k == "events_passed" || k == "events_discarded" || k == "budgets_rule_key_bucket") {
			k = "conc_" + k
		}
		if cr.Clause == "multi" {
			k = "multi_" + k
		}
		if cr.Clause == "many" {
			k = "many_" + k
		}
		c.Count(k, v)
	}
	if cr.Nontrivial {
		c.Nontrivial(cr.Fingerprint)
	} else {
		c.Count("cases_trivial_"+cr.Clause, 1)
	}
	if cr.Sample != nil {
		c.Sample(cr.Sample)
	}
	for _, v := range cr.Violations {
		// at most 3 witnesses per signature reach the report; the rest is counted
		sigMu.Lock()
		sigSeen[v.Sig]++
		n := sigSeen[v.Sig]
		sigMu.Unlock()
		if n > 3 {
			c.Count("violations_same_signature_not_reported", 1)
			continue
		}
		c.Violation(v.Sig, v.What, v.Witness)
	}
}

// replay re-runs the case recorded in a witness file in this process.
func replay(c *core.Ctx) {
	// core.Main already printed the witness; re-evaluate its case seed.
	type wit struct {
		Witness struct {
			Seed   int64  `json:"case_seed"`
			Clause string `json:"clause"`
			Detail struct {
				Seed   int64  `json:"case_seed"`
				Clause string `json:"clause"`
			} `json:"detail"`
		} `json:"witness"`
	}
	var w wit
	b, err := os.ReadFile(c.ReplayArg())
	if err != nil || json.Unmarshal(b, &w) != nil {
		c.Fatal("cannot read witness")
		return
	}
	seed, clause := w.Witness.Seed, w.Witness.Clause
	if clause == "" {
		seed, clause = w.Witness.Detail.Seed, w.Witness.Detail.Clause
	}
	for _, cr := range runCases(childIn{Clause: clause, Seeds: []int64{seed}, IsoMod: 1}, nil) {
		merge(c, cr)
		c.Nontrivial("replay-a")
		c.Nontrivial("replay-b")
	}
}
