package main

import (
	"math/rand"
	"strings"
	"time"
)

type ivl struct {
	s  string
	ns int64
}

var intervals = []ivl{
	{"100ms", 100e6}, {"1s", 1e9}, {"1500ms", 1500e6}, {"7s", 7e9}, {"1m", 60e9}, {"1h", 3600e9},
}

var bucketCounts = []int{1, 1, 2, 2, 3, 5, 8, 60}
var countLimits = []int64{0, 1, 1, 2, 2, 3, 5, 10, 20}
var sizeLimits = []int64{0, 1, 150, 400, 400, 1000, 1000, 3000}

// ratio 0 is refused by the config parser (`required` means non-zero), so the smallest ratio is 0.01
var pctChoices = []int{1, 1, 5, 10, 20, 25, 30, 33, 40, 50, 50, 60, 70, 75, 100}
var lvlPool = []string{"error", "warn", "info", "debug", "trace", "fatal", "ошибка", `e"q`, "E R"}

// virtual epoch: far from the real clock of the machine, so that the
// time.Now() fallback of the plugin (absent/unparsable time field) is always
// outside the retained window, exactly like "current time" is always in the
// newest bucket.
var virtualBase = time.Date(2031, 3, 1, 0, 0, 0, 0, time.UTC).UnixNano()

func sp(s string) *string { return &s }

func pick[T any](r *rand.Rand, xs []T) T { return xs[r.Intn(len(xs))] }

func hostileKeys(r *rand.Rand) []string {
	pool := []string{
		"k1", "k2", "k3", "a:x", "b:", ":", "a:k1", "K1", "k1 ", " k1", "日本語キー", "ключ", `q"uo\te`, "new\nline",
		strings.Repeat("L", 300), strings.Repeat("é", 70), "k", "kk", "kkk", "0", "-1", "null", "true", "{}", "a:default2",
	}
	r.Shuffle(len(pool), func(i, j int) { pool[i], pool[j] = pool[j], pool[i] })
	return pool
}

// genDist draws a distribution for a limit; shares ratio*limit are never an
// exact .5 tie (rounding of ties is not documented), and the float sum of the
// ratios, added in config order, is <= 1 (the plugin refuses other configs).
func genDist(r *rand.Rand, field string, limit int64, size bool) Dist {
	for attempt := 0; attempt < 200; attempt++ {
		n := 1 + r.Intn(3)
		vals := append([]string(nil), lvlPool...)
		r.Shuffle(len(vals), func(i, j int) { vals[i], vals[j] = vals[j], vals[i] })
		d := Dist{Field: field}
		sum := 0
		fsum := 0.0
		ok := true
		full := r.Intn(5) == 0 // ratios sum to exactly 1: no default distribution
		for i := 0; i < n; i++ {
			p := pick(r, pctChoices)
			if full && i == n-1 {
				p = 100 - sum
			}
			if p <= 0 || sum+p > 100 {
				ok = false
				break
			}
			sum += p
			fsum += float64(p) / 100
			k := 1 + r.Intn(2)
			d.Ratios = append(d.Ratios, Ratio{Pct: p, Values: append([]string(nil), vals[:k]...)})
			vals = vals[k:]
		}
		if !ok || fsum > 1 {
			continue
		}
		tie := func(p int) bool { return (int64(p)*limit)%100 == 50 }
		for _, q := range d.Ratios {
			if tie(q.Pct) {
				ok = false
			}
		}
		if tie(100 - sum) {
			ok = false
		}
		if !ok {
			continue
		}
		return d
	}
	return Dist{Field: field, Ratios: []Ratio{{Pct: 50, Values: []string{"error"}}}}
}

func genLimit(r *rand.Rand, kind string) int64 {
	if kind == "size" {
		return pick(r, sizeLimits)
	}
	return pick(r, countLimits)
}

func genConfig(r *rand.Rand) Config {
	iv := pick(r, intervals)
	c := Config{Interval: iv.s, IntervalNs: iv.ns, Buckets: pick(r, bucketCounts)}
	switch r.Intn(10) {
	case 0:
		c.ThrottleField = ""
	case 1, 2:
		c.ThrottleField = "meta.k"
	default:
		c.ThrottleField = "k"
	}
	c.TimeField = pick(r, []string{"time", "time", "ts", "meta.ts"})
	if r.Intn(5) < 3 {
		c.Kind = "count"
		c.OmitKind = r.Intn(2) == 0
	} else {
		c.Kind = "size"
	}
	c.DefaultLimit = genLimit(r, c.Kind)
	distField := pick(r, []string{"lvl", "log.level"})
	if r.Intn(100) < 35 {
		c.Dist = genDist(r, distField, c.DefaultLimit, c.Kind == "size")
	} else if r.Intn(20) == 0 {
		c.Dist = Dist{Field: distField} // field without ratios: nothing is distributed
	}
	nr := pick(r, []int{0, 0, 1, 1, 2, 2, 3})
	for i := 0; i < nr; i++ {
		ru := Rule{Kind: pick(r, []string{"count", "count", "size"}), Cond: map[string]string{}}
		ru.Limit = genLimit(r, ru.Kind)
		switch r.Intn(20) {
		case 0: // empty conditions: matches everything, shadows what follows
		case 1, 2, 3, 4, 5:
			ru.Cond["a"] = pick(r, []string{"x", "y", "z"})
			ru.Cond["b"] = pick(r, []string{"x", "y"})
		case 6, 7, 8:
			ru.Cond["b"] = pick(r, []string{"x", "y"})
		default:
			ru.Cond["a"] = pick(r, []string{"x", "y", "z"})
		}
		if r.Intn(100) < 35 {
			ru.Dist = genDist(r, distField, ru.Limit, ru.Kind == "size")
		}
		c.Rules = append(c.Rules, ru)
	}
	return c
}

func fmtTS(r *rand.Rand, ns int64) string {
	t := time.Unix(0, ns)
	switch r.Intn(6) {
	case 0:
		return t.In(time.FixedZone("", 3*3600)).Format(time.RFC3339Nano)
	case 1:
		return t.In(time.FixedZone("", -(7*3600 + 1800))).Format(time.RFC3339Nano)
	default:
		return t.UTC().Format(time.RFC3339Nano)
	}
}

func floorDiv(a, b int64) int64 {
	q := a / b
	if a%b != 0 && (a < 0) != (b < 0) {
		q--
	}
	return q
}

// genTime draws the event time relative to the wall clock `now`.
func genTime(r *rand.Rand, e *Ev, now int64, c *Config) {
	iv := c.IntervalNs
	win := iv * int64(c.Buckets)
	maxID := floorDiv(now, iv)
	minID := maxID - int64(c.Buckets) + 1
	offs := func() int64 { // offset inside a bucket, boundaries favoured
		switch r.Intn(5) {
		case 0:
			return 0
		case 1:
			return iv - 1
		default:
			return r.Int63n(iv)
		}
	}
	set := func(class string, ns int64) {
		e.TClass, e.TSNano, e.TSOK = class, ns, true
		e.TS = sp(fmtTS(r, ns))
	}
	x := r.Intn(100)
	switch {
	case x < 22:
		set("now", now)
	case x < 34:
		set("cur-bucket", maxID*iv+offs())
	case x < 62:
		id := minID + r.Int63n(int64(c.Buckets))
		set("window", id*iv+offs())
	case x < 67:
		set("edge-oldest-in", minID*iv)
	case x < 72:
		set("edge-oldest-out", minID*iv-1)
	case x < 76:
		set("edge-newest-in", maxID*iv+iv-1)
	case x < 80:
		set("edge-newest-out", (maxID+1)*iv)
	case x < 86:
		set("past", now-win-r.Int63n(10*win+1))
	case x < 92:
		set("future", (maxID+1)*iv+r.Int63n(10*win+1))
	case x < 95:
		// representable extremes (UnixNano is defined for 1678..2262)
		ext := []int64{-1, 1, 0 - 9_000_000_000_000_000_000, 9_000_000_000_000_000_000, 1_000_000_000}
		set("extreme", pick(r, ext))
	default:
		e.TClass = "unusable"
		e.TSOK = false
		switch r.Intn(5) {
		case 0:
			e.TS = nil
		case 1:
			e.TS = sp("")
		case 2:
			e.TS = sp("not-a-time")
		case 3:
			e.TS = sp("0001-01-01T00:00:00Z") // zero time: the plugin takes the current time
		default:
			e.TS = sp(time.Unix(0, now).UTC().Format("2006-01-02 15:04:05")) // wrong layout
		}
	}
}

func genLvl(r *rand.Rand, listed []string) *string {
	x := r.Intn(100)
	switch {
	case x < 55 && len(listed) > 0:
		return sp(pick(r, listed))
	case x < 85:
		return sp(pick(r, []string{"other", "misc", "error ", "Error", "дебаг"}))
	case x < 92:
		return sp("")
	default:
		return nil
	}
}

func listedValues(c *Config) []string {
	var out []string
	add := func(d *Dist) {
		for _, q := range d.Ratios {
			out = append(out, q.Values...)
		}
	}
	add(&c.Dist)
	for i := range c.Rules {
		add(&c.Rules[i].Dist)
	}
	return out
}

func hasSize(c *Config) bool {
	if c.Kind == "size" {
		return true
	}
	for i := range c.Rules {
		if c.Rules[i].Kind == "size" {
			return true
		}
	}
	return false
}

// genSeqCase draws one sequential history.
func genSeqCase(seed int64) *Case {
	r := rand.New(rand.NewSource(seed))
	cs := &Case{Seed: seed, Clause: "seq", Cfg: genConfig(r)}
	c := &cs.Cfg
	keys := hostileKeys(r)[:1+r.Intn(5)]
	numKey := r.Intn(12) == 0
	listed := listedValues(c)
	iv := c.IntervalNs
	win := iv * int64(c.Buckets)

	now := virtualBase + r.Int63n(int64(300*24*time.Hour))
	switch r.Intn(4) {
	case 0:
		now = floorDiv(now, iv) * iv // exactly on a boundary
	case 1:
		now = floorDiv(now, iv)*iv + iv - 1 // last nanosecond of a bucket
	}
	// pads: few distinct values, so that sizes repeat (and size budgets are
	// crossed both by small and by oversized events)
	pads := []int{0, 0, 7, 64}
	if r.Intn(2) == 0 {
		pads = append(pads, 300)
	}
	if r.Intn(4) == 0 {
		pads = append(pads, 1200)
	}
	total := 120 + r.Intn(130)
	idx := 0
	for idx < total {
		// advance the wall clock
		switch x := r.Intn(100); {
		case len(cs.Steps) == 0:
		case x < 25:
		case x < 50:
			now += r.Int63n(iv)
		case x < 60:
			now = (floorDiv(now, iv) + 1) * iv // first ns of the next bucket
		case x < 75:
			now += iv + r.Int63n(iv)
		case x < 85:
			now += r.Int63n(win + 1)
		case x < 90:
			now += win - 1 + r.Int63n(3) // just short of / exactly / just over one window
		default:
			now += win + r.Int63n(9*win+1)
		}
		st := Step{Now: now}
		k := 1 + r.Intn(12)
		for j := 0; j < k && idx < total; j++ {
			e := Ev{Idx: idx}
			idx++
			// key: skewed to the first keys
			ki := r.Intn(len(keys))
			if r.Intn(2) == 0 {
				ki = 0
			}
			switch x := r.Intn(40); {
			case x == 0:
				e.Key = nil
			case x == 1:
				e.Key = sp("")
			case numKey && ki == 0:
				e.Key, e.KeyNum = sp("5"), true
			default:
				e.Key = sp(keys[ki])
			}
			if x := r.Intn(10); x < 6 {
				e.A = sp(pick(r, []string{"x", "x", "y", "z", "w"}))
			}
			if x := r.Intn(10); x < 5 {
				e.B = sp(pick(r, []string{"x", "y", "q"}))
			}
			e.Lvl = genLvl(r, listed)
			genTime(r, &e, now, c)
			e.Pad = pick(r, pads)
			e.render(c, cs.distFields())
			st.Evs = append(st.Evs, e)
		}
		cs.Steps = append(cs.Steps, st)
	}
	cs.NEvents = idx

	// size budgets that are hit exactly: make some size limits the sum of the
	// sizes of a few generated events (sizes repeat within a case), so that
	// "accumulated == limit" happens for the size kind as it does for counts
	var sizes []int64
	for si := range cs.Steps {
		for ei := range cs.Steps[si].Evs {
			sizes = append(sizes, cs.Steps[si].Evs[ei].size())
		}
	}
	adjust := func(limit *int64, kind string, d *Dist) {
		if kind != "size" || d.enabled() || r.Intn(100) >= 40 {
			return
		}
		var sum int64
		for n := 1 + r.Intn(4); n > 0; n-- {
			sum += sizes[r.Intn(len(sizes))]
		}
		*limit = sum
	}
	adjust(&c.DefaultLimit, c.Kind, &c.Dist)
	for i := range c.Rules {
		adjust(&c.Rules[i].Limit, c.Rules[i].Kind, &c.Rules[i].Dist)
	}
	return cs
}

// genConcCase draws a history for the concurrent clause: few keys, bursts
// much larger than the limits, several sources per step, the wall clock
// constant within a step.
func genConcCase(seed int64) *Case {
	r := rand.New(rand.NewSource(seed))
	cs := &Case{Seed: seed, Clause: "conc", Sources: 2 + r.Intn(7)}
	iv := pick(r, intervals)
	c := &cs.Cfg
	*c = Config{Interval: iv.s, IntervalNs: iv.ns, Buckets: pick(r, []int{1, 2, 3, 5}), ThrottleField: "k", TimeField: "time"}
	c.Kind = pick(r, []string{"count", "count", "count", "size"})
	if c.Kind == "size" {
		c.DefaultLimit = pick(r, []int64{0, 700, 2000, 6000})
	} else {
		c.DefaultLimit = pick(r, []int64{0, 1, 5, 20, 50, 100})
	}
	if c.Kind == "count" && r.Intn(3) == 0 {
		c.Dist = genDist(r, "lvl", c.DefaultLimit, false)
	}
	if r.Intn(3) == 0 {
		ru := Rule{Kind: "count", Limit: pick(r, []int64{0, 3, 10, 40}), Cond: map[string]string{"a": "x"}}
		c.Rules = append(c.Rules, ru)
	}
	keys := hostileKeys(r)[:1+r.Intn(3)]
	listed := listedValues(c)
	now := virtualBase + r.Int63n(int64(300*24*time.Hour))
	win := iv.ns * int64(c.Buckets)
	nSteps := 2 + r.Intn(4)
	idx := 0
	for s := 0; s < nSteps; s++ {
		if s > 0 {
			switch r.Intn(4) {
			case 0:
			case 1:
				now += iv.ns
			case 2:
				now += r.Int63n(win + 1)
			default:
				now += win + r.Int63n(3*win)
			}
		}
		st := Step{Now: now}
		k := 100 + r.Intn(300)
		maxID := floorDiv(now, iv.ns)
		for j := 0; j < k; j++ {
			e := Ev{Idx: idx, Src: r.Intn(cs.Sources)}
			idx++
			e.Key = sp(keys[r.Intn(len(keys))])
			if len(c.Rules) > 0 && r.Intn(3) == 0 {
				e.A = sp("x")
			}
			e.Lvl = genLvl(r, listed)
			// mostly the newest bucket, some older ones and some outside
			var ns int64
			switch x := r.Intn(10); {
			case x < 6:
				ns = maxID*iv.ns + r.Int63n(iv.ns)
				e.TClass = "cur-bucket"
			case x < 8:
				ns = (maxID-r.Int63n(int64(c.Buckets)))*iv.ns + r.Int63n(iv.ns)
				e.TClass = "window"
			case x < 9:
				ns = now - win - r.Int63n(5*win+1)
				e.TClass = "past"
			default:
				ns = (maxID+1)*iv.ns + r.Int63n(5*win+1)
				e.TClass = "future"
			}
			e.TSNano, e.TSOK = ns, true
			e.TS = sp(time.Unix(0, ns).UTC().Format(time.RFC3339Nano))
			e.Pad = 0
			if c.Kind == "size" {
				e.Pad = pick(r, []int{0, 0, 40})
			}
			e.render(c, cs.distFields())
			st.Evs = append(st.Evs, e)
		}
		cs.Steps = append(cs.Steps, st)
	}
	cs.NEvents = idx
	return cs
}

// genMultiCase draws a history for a pipeline with two throttle actions in a
// row (same throttle and time fields, otherwise independent settings, no
// distributions so that each action alone is deterministic).
func genMultiCase(seed int64) *Case {
	if seed == 0 {
		return directedMultiCase()
	}
	cs := genSeqCase(seed)
	cs.Clause = "multi"
	r := rand.New(rand.NewSource(seed ^ 0x5eed))
	strip := func(c *Config) {
		c.Dist = Dist{}
		for i := range c.Rules {
			c.Rules[i].Dist = Dist{}
		}
	}
	strip(&cs.Cfg)
	b := genConfig(r)
	strip(&b)
	b.ThrottleField, b.TimeField = cs.Cfg.ThrottleField, cs.Cfg.TimeField
	cs.Cfg2 = &b
	return cs
}

// directedMultiCase is the smallest history that separates "two independent
// throttles" from "one shared budget": limits 10 then 3, eight events of one
// key at one instant. Independent: 3 pass. Shared: 5 pass.
func directedMultiCase() *Case {
	a := Config{Interval: "1m", IntervalNs: 60e9, Buckets: 3, DefaultLimit: 10, Kind: "count", ThrottleField: "k", TimeField: "time"}
	b := a
	b.DefaultLimit = 3
	cs := &Case{Seed: 0, Clause: "multi", Cfg: a, Cfg2: &b}
	now := virtualBase + 12345
	st := Step{Now: now}
	for i := 0; i < 8; i++ {
		e := Ev{Idx: i, Key: sp("x"), TSNano: now, TSOK: true, TClass: "now"}
		e.TS = sp(time.Unix(0, now).UTC().Format(time.RFC3339Nano))
		e.render(&cs.Cfg, nil)
		st.Evs = append(st.Evs, e)
	}
	cs.Steps = []Step{st}
	cs.NEvents = 8
	return cs
}
