package main

import (
	"encoding/json"
	"fmt"
	"sort"
	"strings"
)

// ---- configuration of one throttle action (what the generator intends) ----

// Ratio is one entry of limit_distribution.ratios; the ratio is Pct/100.
type Ratio struct {
	Pct    int      `json:"pct"`
	Values []string `json:"values"`
}

// Dist is a limit_distribution ("" field = none).
type Dist struct {
	Field  string  `json:"field,omitempty"`
	Ratios []Ratio `json:"ratios,omitempty"`
}

func (d *Dist) enabled() bool { return d.Field != "" && len(d.Ratios) > 0 }

// Rule is one entry of `rules`.
type Rule struct {
	Limit int64             `json:"limit"`
	Kind  string            `json:"kind"` // count | size
	Cond  map[string]string `json:"cond"`
	Dist  Dist              `json:"dist"`
}

// Config is the throttle configuration of a case.
type Config struct {
	Interval      string `json:"interval"` // bucket_interval text
	IntervalNs    int64  `json:"interval_ns"`
	Buckets       int    `json:"buckets"`
	DefaultLimit  int64  `json:"default_limit"`
	Kind          string `json:"kind"`      // count | size
	OmitKind      bool   `json:"omit_kind"` // leave limit_kind out (documented default: count)
	ThrottleField string `json:"throttle_field"`
	TimeField     string `json:"time_field"`
	Rules         []Rule `json:"rules"`
	Dist          Dist   `json:"dist"`
}

// limitOf returns (limit, kind, dist) of rule index r (len(Rules) = default).
func (c *Config) limitOf(r int) (int64, string, *Dist) {
	if r < len(c.Rules) {
		return c.Rules[r].Limit, c.Rules[r].Kind, &c.Rules[r].Dist
	}
	k := c.Kind
	if k == "" {
		k = "count"
	}
	return c.DefaultLimit, k, &c.Dist
}

func distJSON(d *Dist) map[string]any {
	m := map[string]any{"field": d.Field}
	rs := []any{}
	for _, r := range d.Ratios {
		rs = append(rs, map[string]any{"ratio": json.Number(pctText(r.Pct)), "values": r.Values})
	}
	if len(rs) > 0 {
		m["ratios"] = rs
	}
	return m
}

// pctText renders Pct/100 as a decimal literal ("0.3", "0.25", "1", "0").
func pctText(p int) string {
	if p == 100 {
		return "1"
	}
	s := fmt.Sprintf("0.%02d", p)
	s = strings.TrimRight(s, "0")
	if s == "0." {
		return "0"
	}
	return s
}

// actionsJSON renders the `actions:` list of a pipeline config with this
// single throttle action, as it would appear in a file.d config file.
func (c *Config) actionsJSON() []byte { return actionsJSON(c) }

// actionsJSON renders a pipeline `actions:` list with one throttle action per
// configuration, in order.
func actionsJSON(cfgs ...*Config) []byte {
	var list []any
	for _, c := range cfgs {
		list = append(list, c.actionMap())
	}
	b, err := json.Marshal(list)
	if err != nil {
		panic(err)
	}
	return b
}

func (c *Config) actionMap() map[string]any {
	a := map[string]any{
		"type":            "throttle",
		"bucket_interval": c.Interval,
		"buckets_count":   c.Buckets,
		"default_limit":   c.DefaultLimit,
		"time_field":      c.TimeField,
		"limiter_backend": "memory",
	}
	if !c.OmitKind {
		a["limit_kind"] = c.Kind
	}
	if c.ThrottleField != "" {
		a["throttle_field"] = c.ThrottleField
	}
	if c.Dist.Field != "" {
		a["limit_distribution"] = distJSON(&c.Dist)
	}
	if len(c.Rules) > 0 {
		rs := []any{}
		for i := range c.Rules {
			r := &c.Rules[i]
			m := map[string]any{"limit": r.Limit, "limit_kind": r.Kind, "conditions": r.Cond}
			if r.Dist.Field != "" {
				m["limit_distribution"] = distJSON(&r.Dist)
			}
			rs = append(rs, m)
		}
		a["rules"] = rs
	}
	return a
}

// ---- events ----

// Ev is one generated event: the semantic values the generator intends
// (the model reads only these) and the JSON text fed to the pipeline.
type Ev struct {
	Idx    int     `json:"idx"`
	Key    *string `json:"key"`               // nil: throttle field absent
	KeyNum bool    `json:"key_num,omitempty"` // key rendered as a JSON number
	A      *string `json:"a,omitempty"`       // rule condition fields
	B      *string `json:"b,omitempty"`
	Lvl    *string `json:"lvl,omitempty"` // distribution field
	TS     *string `json:"ts"`            // time field text; nil: absent
	TSNano int64   `json:"ts_nano"`       // unix nanos if TSOK
	TSOK   bool    `json:"ts_ok"`         // TS is a valid, representable, non-zero rfc3339nano time
	TClass string  `json:"tclass"`        // generator's intent (for coverage only)
	Pad    int     `json:"pad"`
	Src    int     `json:"src,omitempty"` // source id (concurrent clause)
	Raw    string  `json:"raw"`
}

func (e *Ev) size() int64 { return int64(len(e.Raw)) }

// setPath stores v under a (possibly one-level nested) selector "a.b".
func setPath(m map[string]any, sel string, v any) {
	parts := strings.Split(sel, ".")
	cur := m
	for i, p := range parts {
		if i == len(parts)-1 {
			cur[p] = v
			return
		}
		nx, ok := cur[p].(map[string]any)
		if !ok {
			nx = map[string]any{}
			cur[p] = nx
		}
		cur = nx
	}
}

// render builds the JSON text of the event for the given configuration.
func (e *Ev) render(c *Config, distFields []string) {
	m := map[string]any{"id": e.Idx}
	if e.TS != nil {
		setPath(m, c.TimeField, *e.TS)
	}
	if c.ThrottleField != "" && e.Key != nil {
		if e.KeyNum {
			setPath(m, c.ThrottleField, json.Number(*e.Key))
		} else {
			setPath(m, c.ThrottleField, *e.Key)
		}
	}
	if e.A != nil {
		m["a"] = *e.A
	}
	if e.B != nil {
		m["b"] = *e.B
	}
	if e.Lvl != nil {
		for _, f := range distFields {
			setPath(m, f, *e.Lvl)
		}
	}
	if e.Pad > 0 {
		m["p"] = strings.Repeat("x", e.Pad)
	}
	b, err := json.Marshal(m)
	if err != nil {
		panic(err)
	}
	e.Raw = string(b)
}

// Step is a group of events processed under one wall-clock reading.
type Step struct {
	Now int64 `json:"now"` // virtual unix nanos
	Evs []Ev  `json:"evs"`
}

// Case is one generated history.
type Case struct {
	Seed     int64   `json:"seed"`
	Clause   string  `json:"clause"` // seq | conc
	Cfg      Config  `json:"cfg"`
	Cfg2     *Config `json:"cfg2,omitempty"` // multi clause: a second throttle action after the first
	Steps    []Step  `json:"steps"`
	Sources  int     `json:"sources,omitempty"`
	NEvents  int     `json:"n_events"`
	distFlds []string
}

func (c *Case) distFields() []string {
	if c.distFlds != nil {
		return c.distFlds
	}
	set := map[string]bool{}
	if c.Cfg.Dist.Field != "" {
		set[c.Cfg.Dist.Field] = true
	}
	for i := range c.Cfg.Rules {
		if f := c.Cfg.Rules[i].Dist.Field; f != "" {
			set[f] = true
		}
	}
	out := []string{}
	for f := range set {
		out = append(out, f)
	}
	sort.Strings(out)
	c.distFlds = out
	return out
}
