package main

import (
	"fmt"
	"sort"
)

// Reference model of the throttle action, written from the README of the
// plugin and the text of property C16. It knows nothing about rings of
// buckets: the state is a dictionary
//
//	(rule index, throttle key, bucket id) -> accumulated amounts per share
//
// Semantics taken from the documentation / property:
//   - the limit is the one of the first rule whose conditions all hold, else
//     default_limit; every (rule, key) pair has a budget of its own;
//   - the retained window is the `buckets_count` intervals ending with the
//     interval that contains the wall clock; an event whose time is outside
//     of it (or unusable) counts against the newest interval;
//   - the amount of an event is 1 (count) or its size in bytes (size);
//   - the bucket accumulates every event mapped to it (the plugin measures
//     the incoming throughput); an event passes iff the accumulated amount
//     including itself is within the limit;
//   - with a distribution, a listed value is charged to the share of its
//     group, any other value to the default share and, once that is used up,
//     to *some* listed share that still has room ("stealing"; which one is not
//     documented, so the model keeps every possibility and is pruned by the
//     observed decisions). If the ratios sum to 1 there is no default
//     distribution: the README says both that such events are throttled and
//     that the default distribution may steal, so both are accepted.

const stateCap = 20000

const noKey = "\x00<no key>"

type limKey struct {
	rule int
	key  string
}

type bktKey struct {
	limKey
	id int64
}

type share struct {
	limit int64
}

// limiterSpec is the documented meaning of one rule's limit.
type limiterSpec struct {
	limit   int64
	kind    string
	dist    bool
	shares  []int64        // [0] default share, [1..] listed groups
	group   map[string]int // value -> group index (1-based)
	noDeflt bool           // ratios sum to 1
}

func nearest(num, den int64) int64 { // num/den rounded to nearest, num>=0; ties never occur by construction
	return (2*num + den) / (2 * den)
}

func specOf(c *Config, rule int) *limiterSpec {
	limit, kind, d := c.limitOf(rule)
	s := &limiterSpec{limit: limit, kind: kind}
	if !d.enabled() {
		return s
	}
	s.dist = true
	s.group = map[string]int{}
	sum := 0
	s.shares = make([]int64, len(d.Ratios)+1)
	for i, q := range d.Ratios {
		sum += q.Pct
		s.shares[i+1] = nearest(int64(q.Pct)*limit, 100)
		for _, v := range q.Values {
			s.group[v] = i + 1
		}
	}
	s.shares[0] = nearest(int64(100-sum)*limit, 100)
	s.noDeflt = sum == 100
	return s
}

type bucketState struct {
	states [][]int64 // possible accumulations per share; plain limiter: one state of one slot
	capped bool
}

// evInfo is what the model derived for one event (for diagnostics, coverage
// and the safety sums).
type evInfo struct {
	Rule     int    `json:"rule"`
	Key      string `json:"key"`
	Bucket   int64  `json:"bucket"`
	MaxID    int64  `json:"max_id"`
	MinID    int64  `json:"min_id"`
	Where    string `json:"where"` // in-window | outside-past | outside-future | unusable
	Amount   int64  `json:"amount"`
	Limiter  string `json:"limiter"` // plain | dist-listed | dist-unlisted
	Group    int    `json:"group"`
	CanPass  bool   `json:"can_pass"`   // some model state lets it pass
	CanRej   bool   `json:"can_reject"` // some model state rejects it
	Stole    bool   `json:"stole"`      // passed although the default share was used up in every state
	Capped   bool   `json:"capped,omitempty"`
	NStates  int    `json:"n_states"`
	Explains bool   `json:"explains"`
}

type model struct {
	cfg   *Config
	specs []*limiterSpec
	acc   map[bktKey]*bucketState
	lastN int64
}

func newModel(c *Config) *model {
	m := &model{cfg: c, acc: map[bktKey]*bucketState{}}
	for r := 0; r <= len(c.Rules); r++ {
		m.specs = append(m.specs, specOf(c, r))
	}
	return m
}

func (m *model) ruleOf(e *Ev) int {
	for i := range m.cfg.Rules {
		ok := true
		for f, v := range m.cfg.Rules[i].Cond {
			var have *string
			switch f {
			case "a":
				have = e.A
			case "b":
				have = e.B
			}
			if have == nil || *have != v {
				ok = false
				break
			}
		}
		if ok {
			return i
		}
	}
	return len(m.cfg.Rules)
}

func (m *model) keyOf(e *Ev) string {
	if m.cfg.ThrottleField == "" {
		return noKey
	}
	if e.Key == nil || *e.Key == "" {
		return noKey
	}
	return *e.Key
}

// locate maps the event to a bucket id under wall clock `now`.
func (m *model) locate(e *Ev, now int64) (id, minID, maxID int64, where string) {
	iv := m.cfg.IntervalNs
	maxID = floorDiv(now, iv)
	minID = maxID - int64(m.cfg.Buckets) + 1
	if !e.TSOK {
		return maxID, minID, maxID, "unusable"
	}
	id = floorDiv(e.TSNano, iv)
	switch {
	case id < minID:
		return maxID, minID, maxID, "outside-past"
	case id > maxID:
		return maxID, minID, maxID, "outside-future"
	}
	return id, minID, maxID, "in-window"
}

// step feeds one event with its observed decision; returns what the model
// derived. info.Explains == false: no documented behaviour explains the
// decision.
func (m *model) step(e *Ev, now int64, passed bool) evInfo {
	if now < m.lastN {
		panic("model: wall clock went backwards")
	}
	m.lastN = now
	rule := m.ruleOf(e)
	sp := m.specs[rule]
	key := m.keyOf(e)
	id, minID, maxID, where := m.locate(e, now)
	amount := int64(1)
	if sp.kind == "size" {
		amount = e.size()
	}
	info := evInfo{Rule: rule, Key: key, Bucket: id, MinID: minID, MaxID: maxID, Where: where, Amount: amount, Limiter: "plain"}
	bk := bktKey{limKey{rule, key}, id}
	bs := m.acc[bk]
	if bs == nil {
		n := 1
		if sp.dist {
			n = len(sp.shares)
		}
		bs = &bucketState{states: [][]int64{make([]int64, n)}}
		m.acc[bk] = bs
	}
	info.Capped = bs.capped
	if bs.capped {
		info.Explains = true
		return info
	}

	type succ struct {
		st   []int64
		pass bool
	}
	var next []succ
	add := func(st []int64, slot int, pass bool) {
		ns := append([]int64(nil), st...)
		ns[slot] += amount
		next = append(next, succ{ns, pass})
	}
	if !sp.dist {
		st := bs.states[0]
		add(st, 0, st[0]+amount <= sp.limit)
	} else {
		g := 0
		if e.Lvl != nil {
			g = sp.group[*e.Lvl]
		}
		info.Group = g
		if g > 0 {
			info.Limiter = "dist-listed"
			for _, st := range bs.states {
				add(st, g, st[g]+amount <= sp.shares[g])
			}
		} else {
			info.Limiter = "dist-unlisted"
			allExhausted := true
			for _, st := range bs.states {
				if st[0]+amount <= sp.shares[0] {
					allExhausted = false
					add(st, 0, true)
					continue
				}
				room := false
				for i := 1; i < len(st); i++ {
					if st[i]+amount <= sp.shares[i] {
						room = true
						add(st, i, true)
					}
				}
				if !room || sp.noDeflt {
					add(st, 0, false)
				}
			}
			info.Stole = allExhausted && passed
		}
	}
	// prune by the observed decision, merge equal states
	seen := map[string]bool{}
	var kept [][]int64
	for _, s := range next {
		if s.pass {
			info.CanPass = true
		} else {
			info.CanRej = true
		}
		if s.pass != passed {
			continue
		}
		k := fmt.Sprint(s.st)
		if !seen[k] {
			seen[k] = true
			kept = append(kept, s.st)
		}
	}
	info.Explains = len(kept) > 0
	if !info.Explains {
		// keep going with every successor so that one defect is reported once per case
		for _, s := range next {
			k := fmt.Sprint(s.st)
			if !seen[k] {
				seen[k] = true
				kept = append(kept, s.st)
			}
		}
		info.Stole = false
	}
	if len(kept) > stateCap {
		bs.capped = true
		kept = kept[:1]
	}
	bs.states = kept
	info.NStates = len(kept)
	return info
}

// ---- model-independent safety sums over a finished history ----

type sums struct {
	passAmt  map[bktKey]int64         // passed amount per (rule,key,bucket)
	passGrp  map[bktKey]map[int]int64 // passed amount per listed group
	allAmt   map[bktKey]int64
	nPass    map[bktKey]int
	nRej     map[bktKey]int
	passDef  map[bktKey]int64 // passed amount of unlisted values
	nDef     map[bktKey]int
	nRejDef  map[bktKey]int
	nRejGrp  map[bktKey]map[int]int
	keysSeen map[limKey]bool
}

func newSums() *sums {
	return &sums{
		passAmt: map[bktKey]int64{}, passGrp: map[bktKey]map[int]int64{}, allAmt: map[bktKey]int64{},
		nPass: map[bktKey]int{}, nRej: map[bktKey]int{}, passDef: map[bktKey]int64{}, nDef: map[bktKey]int{},
		nRejDef: map[bktKey]int{}, nRejGrp: map[bktKey]map[int]int{}, keysSeen: map[limKey]bool{},
	}
}

func (s *sums) add(info *evInfo, passed bool) {
	bk := bktKey{limKey{info.Rule, info.Key}, info.Bucket}
	s.keysSeen[bk.limKey] = true
	s.allAmt[bk] += info.Amount
	if info.Limiter == "dist-unlisted" {
		s.nDef[bk]++
	}
	if passed {
		s.passAmt[bk] += info.Amount
		s.nPass[bk]++
		switch info.Limiter {
		case "dist-listed":
			if s.passGrp[bk] == nil {
				s.passGrp[bk] = map[int]int64{}
			}
			s.passGrp[bk][info.Group] += info.Amount
		case "dist-unlisted":
			s.passDef[bk] += info.Amount
		}
	} else {
		s.nRej[bk]++
		switch info.Limiter {
		case "dist-listed":
			if s.nRejGrp[bk] == nil {
				s.nRejGrp[bk] = map[int]int{}
			}
			s.nRejGrp[bk][info.Group]++
		case "dist-unlisted":
			s.nRejDef[bk]++
		}
	}
}

type sumViolation struct {
	Sig  string
	What string
	Bkt  bktKey
}

// check evaluates the upper bounds that hold whatever the order of the
// events was: passed amount per (rule, key, bucket) <= limit; per listed
// group <= its share; total <= sum of the shares.
func (s *sums) check(m *model, clause string) []sumViolation {
	var out []sumViolation
	keys := make([]bktKey, 0, len(s.allAmt))
	for k := range s.allAmt {
		keys = append(keys, k)
	}
	sort.Slice(keys, func(i, j int) bool {
		a, b := keys[i], keys[j]
		if a.rule != b.rule {
			return a.rule < b.rule
		}
		if a.key != b.key {
			return a.key < b.key
		}
		return a.id < b.id
	})
	for _, bk := range keys {
		sp := m.specs[bk.rule]
		if !sp.dist {
			if s.passAmt[bk] > sp.limit {
				out = append(out, sumViolation{
					Sig:  fmt.Sprintf("%s safety: passed amount of one (rule,key,bucket) exceeds the limit; kind=%s limiter=plain", clause, sp.kind),
					What: fmt.Sprintf("passed %d > limit %d for rule %d key %q bucket %d", s.passAmt[bk], sp.limit, bk.rule, bk.key, bk.id),
					Bkt:  bk,
				})
			}
			continue
		}
		var tot int64
		for _, v := range sp.shares {
			tot += v
		}
		if s.passAmt[bk] > tot {
			out = append(out, sumViolation{
				Sig:  fmt.Sprintf("%s safety: passed amount of one (rule,key,bucket) exceeds the sum of the shares; kind=%s limiter=dist", clause, sp.kind),
				What: fmt.Sprintf("passed %d > sum of shares %d (%v) for rule %d key %q bucket %d", s.passAmt[bk], tot, sp.shares, bk.rule, bk.key, bk.id),
				Bkt:  bk,
			})
		}
		for g, v := range s.passGrp[bk] {
			if v > sp.shares[g] {
				out = append(out, sumViolation{
					Sig:  fmt.Sprintf("%s safety: passed amount of a listed distribution value exceeds its share; kind=%s limiter=dist", clause, sp.kind),
					What: fmt.Sprintf("group %d passed %d > share %d for rule %d key %q bucket %d", g, v, sp.shares[g], bk.rule, bk.key, bk.id),
					Bkt:  bk,
				})
			}
		}
	}
	return out
}
