package main

import (
	"fmt"
	"runtime"
	"sync"
	"sync/atomic"
	"time"

	simplejson "github.com/bitly/go-simplejson"
	"github.com/prometheus/client_golang/prometheus"
	"go.uber.org/zap"

	"github.com/ozontech/file.d/fd"
	"github.com/ozontech/file.d/pipeline"
	"github.com/ozontech/file.d/plugin/action/throttle"
	"github.com/ozontech/file.d/plugin/input/fake"
	"github.com/ozontech/file.d/plugin/output/devnull"
)

var pipeSeq atomic.Int64

var (
	rigsMu  sync.RWMutex
	rigs    = map[*pipeline.Pipeline]*rig{}
	obsOnce sync.Once
)

// rig is one real pipeline: fake input -> throttle action (built from JSON
// through fd.SetupActions, i.e. the config path of the real binary) ->
// devnull output, with the limiters' clock replaced by a virtual one.
type rig struct {
	name    string
	p       *pipeline.Pipeline
	in      *fake.Plugin
	clock   atomic.Int64
	refused atomic.Int64
	passed  []atomic.Bool // by event index (event.Offset)

	mu        sync.Mutex
	committed int
	cond      *sync.Cond
}

func newRig(actionsJS []byte, nEvents int, parallel bool) (*rig, error) {
	r := &rig{name: fmt.Sprintf("c16_%d_%d", time.Now().UnixNano(), pipeSeq.Add(1))}
	r.cond = sync.NewCond(&r.mu)
	r.passed = make([]atomic.Bool, nEvents)

	settings := &pipeline.Settings{
		Capacity:            512,
		MaintenanceInterval: 5 * time.Second,
		EventTimeout:        pipeline.DefaultEventTimeout,
		Antispam:            pipeline.AntispamSettings{Threshold: pipeline.DefaultAntispamThreshold, MaintenanceInterval: pipeline.DefaultMaintenanceInterval},
		AvgEventSize:        2048,
		MetaCacheSize:       32,
		StreamField:         "stream",
		Decoder:             "json",
		Metric: &pipeline.MetricSettings{
			HoldDuration:        pipeline.DefaultMetricHoldDuration,
			MaxLabelValueLength: pipeline.DefaultMetricMaxLabelValueLength,
		},
	}
	p := pipeline.New(r.name, settings, prometheus.NewRegistry(), zap.NewNop())
	if !parallel {
		p.DisableParallelism()
	}

	inAny, _ := fake.Factory()
	r.in = inAny.(*fake.Plugin)
	p.SetInput(&pipeline.InputPluginInfo{
		PluginStaticInfo:  &pipeline.PluginStaticInfo{Type: "fake"},
		PluginRuntimeInfo: &pipeline.PluginRuntimeInfo{Plugin: r.in},
	})
	outAny, _ := devnull.Factory()
	out := outAny.(*devnull.Plugin)
	p.SetOutput(&pipeline.OutputPluginInfo{
		PluginStaticInfo:  &pipeline.PluginStaticInfo{Type: "devnull"},
		PluginRuntimeInfo: &pipeline.PluginRuntimeInfo{Plugin: out},
	})

	actions, err := simplejson.NewJson(actionsJS)
	if err != nil {
		return nil, err
	}
	values := map[string]int{"capacity": settings.Capacity, "gomaxprocs": runtime.GOMAXPROCS(0)}
	if err := fd.SetupActions(p, fd.DefaultPluginRegistry, actions, values); err != nil {
		return nil, fmt.Errorf("SetupActions: %w", err)
	}

	out.SetOutFn(func(e *pipeline.Event) {
		if i := int(e.Offset); i >= 0 && i < len(r.passed) {
			r.passed[i].Store(true)
		}
	})
	// Discarded events are finalized without notifying the input, so the
	// "event is done" signal is the finalize observer of the verif build.
	rigsMu.Lock()
	rigs[p] = r
	rigsMu.Unlock()
	obsOnce.Do(func() {
		pipeline.VerifSetFinalizeObserver(func(p *pipeline.Pipeline, e *pipeline.Event, _, _ bool) {
			if e.IsTimeoutKind() || e.IsChildKind() {
				return
			}
			rigsMu.RLock()
			r := rigs[p]
			rigsMu.RUnlock()
			if r == nil {
				return
			}
			r.mu.Lock()
			r.committed++
			r.cond.Broadcast()
			r.mu.Unlock()
		})
	})
	p.Start()
	r.p = p
	if !throttle.VerifSetNowFn(r.name, func() time.Time { return time.Unix(0, r.clock.Load()) }) {
		p.Stop()
		return nil, fmt.Errorf("no limiters map for pipeline %s", r.name)
	}
	return r, nil
}

// send hands the event to the pipeline the way an input plugin does
// (InputPluginController.In; fake.Plugin.In is the same call but drops the
// result). false: the pipeline refused the event before any action saw it.
func (r *rig) send(e *Ev, src int) bool {
	seq := r.p.In(pipeline.SourceID(src), "c16", pipeline.NewOffsets(int64(e.Idx), nil), []byte(e.Raw), false, nil)
	if seq == pipeline.EventSeqIDError {
		r.refused.Add(1)
		return false
	}
	return true
}

// waitCommitted blocks until n events were finalized (passed or discarded).
// A generous watchdog returns false (the caller reports "inconclusive").
func (r *rig) waitCommitted(n int) bool {
	var timedOut atomic.Bool
	t := time.AfterFunc(60*time.Second, func() {
		timedOut.Store(true)
		r.mu.Lock()
		r.cond.Broadcast()
		r.mu.Unlock()
	})
	defer t.Stop()
	r.mu.Lock()
	defer r.mu.Unlock()
	for r.committed < n && !timedOut.Load() {
		r.cond.Wait()
	}
	return r.committed >= n
}

func (r *rig) stop() {
	r.p.Stop()
	rigsMu.Lock()
	delete(rigs, r.p)
	rigsMu.Unlock()
	throttle.VerifForget(r.name)
}

// runSeq drives a history through one processor, in order; returns the
// pass/discard decision per event index.
func runSeq(c *Case, only func(*Ev) bool) ([]bool, []bool, error) {
	r, err := newRig(c.actions(), c.NEvents, false)
	if err != nil {
		return nil, nil, err
	}
	defer r.stop()
	sent := make([]bool, c.NEvents)
	n := 0
	for si := range c.Steps {
		st := &c.Steps[si]
		r.clock.Store(st.Now)
		k := 0
		for ei := range st.Evs {
			e := &st.Evs[ei]
			if only != nil && !only(e) {
				continue
			}
			if !r.send(e, 1) {
				return nil, nil, errRefused
			}
			sent[e.Idx] = true
			k++
		}
		n += k
		if k > 0 && !r.waitCommitted(n) {
			return nil, nil, errWatchdog
		}
	}
	dec := make([]bool, c.NEvents)
	for i := range dec {
		dec[i] = r.passed[i].Load()
	}
	return dec, sent, nil
}

var errWatchdog = fmt.Errorf("watchdog: events not finalized")
var errRefused = fmt.Errorf("pipeline refused a generated event before the action")

// runConc drives a history through a parallel pipeline: within a step the
// events are fed from one goroutine per source, so that several processors
// (each with its own Plugin instance) hit the shared limiters concurrently.
func runConc(c *Case) ([]bool, error) {
	r, err := newRig(c.actions(), c.NEvents, true)
	if err != nil {
		return nil, err
	}
	defer r.stop()
	n := 0
	for si := range c.Steps {
		st := &c.Steps[si]
		r.clock.Store(st.Now)
		bySrc := make([][]*Ev, c.Sources)
		for ei := range st.Evs {
			e := &st.Evs[ei]
			bySrc[e.Src] = append(bySrc[e.Src], e)
		}
		var wg sync.WaitGroup
		for s := range bySrc {
			if len(bySrc[s]) == 0 {
				continue
			}
			wg.Add(1)
			go func(s int) {
				defer wg.Done()
				for _, e := range bySrc[s] {
					r.send(e, s+1)
				}
			}(s)
		}
		wg.Wait()
		if r.refused.Load() > 0 {
			return nil, errRefused
		}
		n += len(st.Evs)
		if !r.waitCommitted(n) {
			return nil, errWatchdog
		}
	}
	dec := make([]bool, c.NEvents)
	for i := range dec {
		dec[i] = r.passed[i].Load()
	}
	return dec, nil
}

func (c *Case) actions() []byte {
	if c.Cfg2 != nil {
		return actionsJSON(&c.Cfg, c.Cfg2)
	}
	return actionsJSON(&c.Cfg)
}
