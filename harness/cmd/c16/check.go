package main

import (
	"fmt"
	"sort"
	"strings"
)

// viol is a refuting observation found in a child.
type viol struct {
	Sig     string `json:"sig"`
	What    string `json:"what"`
	Witness any    `json:"witness"`
}

// caseResult is what evaluating one case produced.
type caseResult struct {
	Seed         int64            `json:"seed"`
	Clause       string           `json:"clause"`
	Fingerprint  string           `json:"fp,omitempty"`
	Nontrivial   bool             `json:"nontrivial"`
	Counters     map[string]int64 `json:"counters"`
	Violations   []viol           `json:"violations,omitempty"`
	Inconclusive string           `json:"inconclusive,omitempty"`
	Sample       any              `json:"sample,omitempty"`
}

func (r *caseResult) count(name string, n int64) { r.Counters[name] += n }

func cfgShape(c *Config) string {
	kinds := map[string]bool{}
	_, k, _ := c.limitOf(len(c.Rules))
	kinds[k] = true
	nd := 0
	if c.Dist.enabled() {
		nd++
	}
	for i := range c.Rules {
		kinds[c.Rules[i].Kind] = true
		if c.Rules[i].Dist.enabled() {
			nd++
		}
	}
	ks := []string{}
	for k := range kinds {
		ks = append(ks, k)
	}
	sort.Strings(ks)
	tf := "key"
	if c.ThrottleField == "" {
		tf = "nokey"
	}
	return fmt.Sprintf("iv=%s b=%d %s r=%d d=%d %s", c.Interval, c.Buckets, strings.Join(ks, "+"), len(c.Rules), nd, tf)
}

// trimmed witness: the configuration, the offending event with what the
// model derived, and the earlier events of the same (rule, key) budget.
func witness(cs *Case, upto int, infos []evInfo, dec []bool, lk limKey) map[string]any {
	type row struct {
		Idx    int    `json:"idx"`
		Now    int64  `json:"now"`
		Raw    string `json:"raw"`
		Passed bool   `json:"passed"`
		Info   evInfo `json:"model"`
	}
	var rows []row
	for si := range cs.Steps {
		for ei := range cs.Steps[si].Evs {
			e := &cs.Steps[si].Evs[ei]
			if e.Idx > upto || e.Idx >= len(infos) {
				continue
			}
			in := infos[e.Idx]
			if in.Rule != lk.rule || in.Key != lk.key {
				continue
			}
			raw := e.Raw
			if len(raw) > 400 {
				raw = raw[:400] + "…"
			}
			rows = append(rows, row{e.Idx, cs.Steps[si].Now, raw, dec[e.Idx], in})
		}
	}
	if len(rows) > 60 {
		rows = rows[len(rows)-60:]
	}
	return map[string]any{
		"case_seed": cs.Seed, "clause": cs.Clause, "config": cs.Cfg,
		"actions_json": string(cs.Cfg.actionsJSON()), "history_of_budget": rows,
	}
}

// evalSeq runs one sequential case against the real pipeline and compares
// every decision with the reference model.
func evalSeq(cs *Case, withIsolation bool) *caseResult {
	cl := cs.Clause // "seq", or "many" (long rule lists, same oracle)
	many := cl == "many"
	res := &caseResult{Seed: cs.Seed, Clause: cl, Counters: map[string]int64{}}
	dec, _, err := runSeq(cs, nil)
	if err != nil {
		if err == errWatchdog || err == errRefused {
			res.Inconclusive = firstWords(err.Error(), 1)
			return res
		}
		// the generator only emits configurations the plugin documents as
		// valid; a refusal decides nothing about C16 (the run ends with exit 2)
		res.Inconclusive = "config-refused"
		fmt.Println("config refused:", err, string(cs.Cfg.actionsJSON()))
		return res
	}
	m := newModel(&cs.Cfg)
	// many: which rules saw one (key, bucket), and which of them rejected there
	rulesAt := map[keyBkt]map[int]bool{}
	rejAt := map[keyBkt]map[int]bool{}
	evOfRule := map[int]int{}
	sm := newSums()
	infos := make([]evInfo, cs.NEvents)
	beh := map[string]bool{}
	reported := false
	var prevNow int64
	lastCall := map[limKey]int64{} // last maxID at which the budget was used
	capped := false
	for si := range cs.Steps {
		st := &cs.Steps[si]
		if si > 0 {
			d := floorDiv(st.Now, cs.Cfg.IntervalNs) - floorDiv(prevNow, cs.Cfg.IntervalNs)
			switch {
			case d == 0:
				res.count("clock_same_bucket", 1)
			case d < int64(cs.Cfg.Buckets):
				res.count("clock_shift_lt_window", 1)
			case d == int64(cs.Cfg.Buckets):
				res.count("clock_shift_eq_window", 1)
			default:
				res.count("clock_shift_gt_window", 1)
			}
		}
		prevNow = st.Now
		for ei := range st.Evs {
			e := &st.Evs[ei]
			p := dec[e.Idx]
			in := m.step(e, st.Now, p)
			infos[e.Idx] = in
			sm.add(&in, p)
			if in.Capped {
				capped = true
				continue
			}
			ds := "rej"
			if p {
				ds = "pass"
			}
			res.count("ev_"+in.Where+"_"+ds, 1)
			res.count("ev_"+in.Limiter+"_"+ds, 1)
			res.count("ev_tclass_"+e.TClass, 1)
			if many {
				band := ruleBand(&cs.Cfg, in.Rule)
				res.count("ev_rule_"+band+"_"+ds, 1)
				beh[band+"/"+ds] = true
				k := keyBkt{in.Key, in.Bucket}
				if rulesAt[k] == nil {
					rulesAt[k], rejAt[k] = map[int]bool{}, map[int]bool{}
				}
				rulesAt[k][in.Rule] = true
				if !p {
					rejAt[k][in.Rule] = true
				}
				evOfRule[in.Rule]++
			} else {
				res.count("ev_rule_"+ruleName(&cs.Cfg, in.Rule), 1)
			}
			beh[in.Where+"/"+in.Limiter+"/"+ds] = true
			lk := limKey{in.Rule, in.Key}
			if prev, ok := lastCall[lk]; ok {
				d := in.MaxID - prev
				if d >= int64(cs.Cfg.Buckets) {
					res.count("budget_reused_after_full_window_jump", 1)
					beh["jump>=window"] = true
				} else if d > 0 {
					res.count("budget_reused_after_partial_shift", 1)
					beh["shift<window"] = true
				}
			}
			lastCall[lk] = in.MaxID
			if in.Where == "in-window" && in.Bucket != in.MaxID {
				res.count("ev_older_bucket_"+ds, 1)
				beh["older/"+ds] = true
			}
			if in.Stole {
				res.count("ev_stole_listed_share", 1)
				beh["steal"] = true
			}
			if in.NStates > 1 {
				res.count("ev_model_ambiguous_states", 1)
			}
			if !in.Explains && !reported {
				reported = true
				dir := "rejected although every documented accounting leaves the bucket within its limit"
				short := "rejected-under-limit"
				if p {
					dir = "passed although every documented accounting puts the bucket over its limit"
					short = "passed-over-limit"
				}
				sig := fmt.Sprintf(cl+" model: %s kind=%s limiter=%s event-time=%s", short, m.specs[in.Rule].kind, in.Limiter, in.Where)
				res.Violations = append(res.Violations, viol{
					Sig:     sig,
					What:    fmt.Sprintf("event %d (rule %d, key %q, bucket %d of [%d,%d], amount %d) %s; limit=%d shares=%v", e.Idx, in.Rule, in.Key, in.Bucket, in.MinID, in.MaxID, in.Amount, dir, m.specs[in.Rule].limit, m.specs[in.Rule].shares),
					Witness: witness(cs, e.Idx, infos, dec, lk),
				})
			}
		}
	}
	if capped {
		res.count("cases_with_capped_model_states", 1)
	}
	for _, sv := range sm.check(m, cl) {
		res.Violations = append(res.Violations, viol{Sig: sv.Sig, What: sv.What, Witness: witness(cs, cs.NEvents, infos, dec, sv.Bkt.limKey)})
		break
	}
	nPass, nRej := 0, 0
	for _, p := range dec {
		if p {
			nPass++
		} else {
			nRej++
		}
	}
	res.count("events", int64(len(dec)))
	res.count("events_passed", int64(nPass))
	res.count("events_discarded", int64(nRej))
	res.count("budgets_rule_key", int64(len(sm.keysSeen)))
	res.count("budgets_rule_key_bucket", int64(len(sm.allAmt)))
	res.Nontrivial = nPass > 0 && nRej > 0
	bs := make([]string, 0, len(beh))
	for b := range beh {
		bs = append(bs, b)
	}
	sort.Strings(bs)
	res.Fingerprint = cl + "|" + cfgShape(&cs.Cfg) + "|" + strings.Join(bs, ",")
	if many {
		evalManyExtras(cs, res, m, dec, infos, rulesAt, rejAt, evOfRule, withIsolation)
		if cs.Seed%97 == 0 || len(res.Violations) > 0 {
			res.Sample = sampleOf(cs, dec, infos)
		}
		return res
	}

	// keys never share a budget, checked without the model: the decisions
	// for one key must not change when all other keys' events are removed.
	if withIsolation {
		cnt := map[string]int{}
		for i := range infos {
			cnt[infos[i].Key]++
		}
		if len(cnt) > 1 {
			best, bn := "", -1
			ks := make([]string, 0, len(cnt))
			for k := range cnt {
				ks = append(ks, k)
			}
			sort.Strings(ks)
			for _, k := range ks {
				if cnt[k] > bn {
					best, bn = k, cnt[k]
				}
			}
			dec2, sent, err := runSeq(cs, func(e *Ev) bool { return infos[e.Idx].Key == best })
			if err == errWatchdog {
				res.count("isolation_watchdog", 1)
			} else if err == nil {
				res.count("isolation_replays", 1)
				res.count("isolation_events_compared", int64(bn))
				for i := range dec2 {
					if sent[i] && dec2[i] != dec[i] {
						in := infos[i]
						res.Violations = append(res.Violations, viol{
							Sig:  fmt.Sprintf("seq isolation: a key's decisions change when the other keys' events are removed; kind=%s limiter=%s", m.specs[in.Rule].kind, in.Limiter),
							What: fmt.Sprintf("event %d of key %q: passed=%v with all keys, passed=%v alone", i, best, dec[i], dec2[i]),
							Witness: map[string]any{"alone": dec2[i], "with_others": dec[i], "key": best,
								"detail": witness(cs, i, infos, dec, limKey{in.Rule, in.Key})},
						})
						break
					}
				}
			}
		}
	}
	if cs.Seed%97 == 0 || len(res.Violations) > 0 {
		res.Sample = sampleOf(cs, dec, infos)
	}
	return res
}

func ruleName(c *Config, r int) string {
	if r == len(c.Rules) {
		return "default"
	}
	return fmt.Sprintf("%d", r)
}

func firstWords(s string, n int) string {
	f := strings.Fields(s)
	if len(f) > n {
		f = f[:n]
	}
	return strings.Join(f, " ")
}

func sampleOf(cs *Case, dec []bool, infos []evInfo) any {
	type row struct {
		Now    int64  `json:"now"`
		Raw    string `json:"raw"`
		Passed bool   `json:"passed"`
		Bucket int64  `json:"bucket"`
		Where  string `json:"where"`
	}
	var rows []row
	for si := range cs.Steps {
		for ei := range cs.Steps[si].Evs {
			e := &cs.Steps[si].Evs[ei]
			if len(rows) >= 6 {
				break
			}
			raw := e.Raw
			if len(raw) > 160 {
				raw = raw[:160] + "…"
			}
			rows = append(rows, row{cs.Steps[si].Now, raw, dec[e.Idx], infos[e.Idx].Bucket, infos[e.Idx].Where})
		}
	}
	return map[string]any{"clause": cs.Clause, "case_seed": cs.Seed, "actions_json": string(cs.Cfg.actionsJSON()), "n_events": cs.NEvents, "first_events": rows}
}

// evalConc runs one concurrent case and checks the order-independent sums.
func evalConc(cs *Case) *caseResult {
	res := &caseResult{Seed: cs.Seed, Clause: "conc", Counters: map[string]int64{}}
	dec, err := runConc(cs)
	if err != nil {
		if err == errWatchdog || err == errRefused {
			res.Inconclusive = firstWords(err.Error(), 1)
			return res
		}
		// the generator only emits configurations the plugin documents as
		// valid; a refusal decides nothing about C16 (the run ends with exit 2)
		res.Inconclusive = "config-refused"
		fmt.Println("config refused:", err, string(cs.Cfg.actionsJSON()))
		return res
	}
	m := newModel(&cs.Cfg)
	sm := newSums()
	infos := make([]evInfo, cs.NEvents)
	addV := func(sig, what string, lk limKey) {
		for _, v := range res.Violations {
			if v.Sig == sig {
				return
			}
		}
		res.Violations = append(res.Violations, viol{Sig: sig, What: what, Witness: witness(cs, cs.NEvents, infos, dec, lk)})
	}
	beh := map[string]bool{}
	for si := range cs.Steps {
		st := &cs.Steps[si]
		touched := map[bktKey]bool{}
		rejIn := map[bktKey]int64{} // smallest rejected amount in this step
		for ei := range st.Evs {
			e := &st.Evs[ei]
			rule := m.ruleOf(e)
			sp := m.specs[rule]
			id, minID, maxID, where := m.locate(e, st.Now)
			in := evInfo{Rule: rule, Key: m.keyOf(e), Bucket: id, MinID: minID, MaxID: maxID, Where: where, Amount: 1, Limiter: "plain"}
			if sp.kind == "size" {
				in.Amount = e.size()
			}
			if sp.dist {
				in.Limiter = "dist-unlisted"
				if e.Lvl != nil && sp.group[*e.Lvl] > 0 {
					in.Limiter, in.Group = "dist-listed", sp.group[*e.Lvl]
				}
			}
			infos[e.Idx] = in
			sm.add(&in, dec[e.Idx])
			bk := bktKey{limKey{in.Rule, in.Key}, in.Bucket}
			touched[bk] = true
			ds := "rej"
			if dec[e.Idx] {
				ds = "pass"
			} else if v, ok := rejIn[bk]; !ok || in.Amount < v {
				rejIn[bk] = in.Amount
			}
			res.count("ev_"+in.Where+"_"+ds, 1)
			res.count("ev_"+in.Limiter+"_"+ds, 1)
			beh[in.Where+"/"+in.Limiter+"/"+ds] = true
		}
		// after the step: cumulative conditions per touched bucket
		for bk := range touched {
			sp := m.specs[bk.rule]
			if sp.dist {
				continue
			}
			if sp.kind == "count" {
				want := int64(sm.nPass[bk] + sm.nRej[bk])
				if want > sp.limit {
					want = sp.limit
				}
				res.count("conc_exact_count_checks", 1)
				if got := int64(sm.nPass[bk]); got < want {
					addV("conc sums: fewer events passed than the limit allows although enough arrived; kind=count limiter=plain",
						fmt.Sprintf("after step %d: rule %d key %q bucket %d: %d arrived, limit %d, passed %d", si, bk.rule, bk.key, bk.id, sm.nPass[bk]+sm.nRej[bk], sp.limit, got), bk.limKey)
				}
			} else if amt, ok := rejIn[bk]; ok {
				res.count("conc_size_reject_checks", 1)
				// a rejection needs accumulated(before)+own > limit; everything
				// that arrived up to the end of this step bounds that from above
				if sm.allAmt[bk] <= sp.limit {
					addV("conc sums: event rejected although everything that arrived fits the limit; kind=size limiter=plain",
						fmt.Sprintf("after step %d: rule %d key %q bucket %d: all arrived %d <= limit %d, rejected amount %d", si, bk.rule, bk.key, bk.id, sm.allAmt[bk], sp.limit, amt), bk.limKey)
				}
			}
		}
	}
	for _, sv := range sm.check(m, "conc") {
		addV(sv.Sig, sv.What, sv.Bkt.limKey)
	}
	// distribution (count kind) at the end of the history
	for bk := range sm.allAmt {
		sp := m.specs[bk.rule]
		if !sp.dist || sp.kind != "count" {
			continue
		}
		res.count("conc_dist_bucket_checks", 1)
		var tot int64
		for _, v := range sp.shares {
			tot += v
		}
		inDefault := int64(sm.nDef[bk])
		if inDefault > sp.shares[0] {
			inDefault = sp.shares[0]
		}
		if !sp.noDeflt {
			if sm.passDef[bk] < inDefault {
				addV("conc sums: unlisted values got less than the default share although enough arrived; kind=count limiter=dist",
					fmt.Sprintf("rule %d key %q bucket %d: %d unlisted arrived, default share %d, passed %d", bk.rule, bk.key, bk.id, sm.nDef[bk], sp.shares[0], sm.passDef[bk]), bk.limKey)
			}
			if sm.nRejDef[bk] > 0 && sm.passAmt[bk] != tot {
				addV("conc sums: unlisted value rejected although some share was not used up; kind=count limiter=dist",
					fmt.Sprintf("rule %d key %q bucket %d: passed %d, sum of shares %d (%v), unlisted rejected %d", bk.rule, bk.key, bk.id, sm.passAmt[bk], tot, sp.shares, sm.nRejDef[bk]), bk.limKey)
			}
		}
		stolen := sm.passDef[bk] - inDefault
		if sp.noDeflt {
			stolen = sm.passDef[bk]
		}
		var need int64
		for g, n := range sm.nRejGrp[bk] {
			if n > 0 {
				need += sp.shares[g] - sm.passGrp[bk][g]
			}
		}
		if need > stolen {
			addV("conc sums: listed value rejected although its share was not used up; kind=count limiter=dist",
				fmt.Sprintf("rule %d key %q bucket %d: unused room of rejecting groups %d > stolen %d; shares %v passed-by-group %v", bk.rule, bk.key, bk.id, need, stolen, sp.shares, sm.passGrp[bk]), bk.limKey)
		}
		if stolen > 0 {
			res.count("conc_dist_buckets_with_stealing", 1)
			beh["steal"] = true
		}
	}
	nPass := 0
	for _, p := range dec {
		if p {
			nPass++
		}
	}
	res.count("events", int64(len(dec)))
	res.count("events_passed", int64(nPass))
	res.count("events_discarded", int64(len(dec)-nPass))
	res.count("budgets_rule_key_bucket", int64(len(sm.allAmt)))
	res.Nontrivial = nPass > 0 && nPass < len(dec)
	bs := make([]string, 0, len(beh))
	for b := range beh {
		bs = append(bs, b)
	}
	sort.Strings(bs)
	res.Fingerprint = fmt.Sprintf("conc|src=%d|%s|%s", cs.Sources, cfgShape(&cs.Cfg), strings.Join(bs, ","))
	if cs.Seed%31 == 0 || len(res.Violations) > 0 {
		res.Sample = sampleOf(cs, dec, infos)
	}
	return res
}

// evalMulti: two throttle actions in one pipeline must decide like the same
// two actions in two pipelines of their own (second fed with what the first
// let through) — real code against real code — and like two independent
// reference models.
func evalMulti(cs *Case) *caseResult {
	res := &caseResult{Seed: cs.Seed, Clause: "multi", Counters: map[string]int64{}}
	fail := func(err error) *caseResult {
		if err == errWatchdog || err == errRefused {
			res.Inconclusive = firstWords(err.Error(), 1)
		} else {
			res.Inconclusive = "config-refused"
			fmt.Println("config refused:", err, string(cs.actions()))
		}
		return res
	}
	both, _, err := runSeq(cs, nil)
	if err != nil {
		return fail(err)
	}
	onlyA := *cs
	onlyA.Cfg2 = nil
	dA, _, err := runSeq(&onlyA, nil)
	if err != nil {
		return fail(err)
	}
	onlyB := *cs
	onlyB.Cfg, onlyB.Cfg2 = *cs.Cfg2, nil
	dB, _, err := runSeq(&onlyB, func(e *Ev) bool { return dA[e.Idx] })
	if err != nil {
		return fail(err)
	}
	mA, mB := newModel(&cs.Cfg), newModel(cs.Cfg2)
	nPass, nRejA, nRejB, sameBudget := 0, 0, 0, 0
	reportedReal, reportedModel := false, false
	for si := range cs.Steps {
		st := &cs.Steps[si]
		for ei := range st.Evs {
			e := &st.Evs[ei]
			want := dA[e.Idx] && dB[e.Idx]
			ia := mA.step(e, st.Now, true)
			mwant := ia.Explains
			var ib evInfo
			if mwant {
				ib = mB.step(e, st.Now, true)
				mwant = ib.Explains
				if ia.Rule == ib.Rule {
					sameBudget++
				}
			}
			switch {
			case want:
				nPass++
			case !dA[e.Idx]:
				nRejA++
			default:
				nRejB++
			}
			wit := func() map[string]any {
				raw := e.Raw
				if len(raw) > 300 {
					raw = raw[:300] + "…"
				}
				return map[string]any{"case_seed": cs.Seed, "clause": "multi", "actions_json": string(cs.actions()),
					"event": raw, "event_idx": e.Idx, "now": st.Now, "one_pipeline_passed": both[e.Idx],
					"separate_pipelines_first_passed": dA[e.Idx], "separate_pipelines_second_passed": dB[e.Idx],
					"model_first": ia, "model_second": ib}
			}
			if both[e.Idx] != want && !reportedReal {
				reportedReal = true
				res.Violations = append(res.Violations, viol{
					Sig:     "multi: two throttle actions in one pipeline decide differently from the same two actions in separate pipelines (budgets shared between actions)",
					What:    fmt.Sprintf("event %d: passed=%v through [throttle A, throttle B] in one pipeline, but A alone passed=%v and B alone (fed with A's output) passed=%v", e.Idx, both[e.Idx], dA[e.Idx], dB[e.Idx]),
					Witness: wit(),
				})
			}
			if want != mwant && !reportedModel {
				reportedModel = true
				res.Violations = append(res.Violations, viol{
					Sig:     "multi: a throttle action alone in its pipeline deviates from the reference model",
					What:    fmt.Sprintf("event %d: separate pipelines passed=%v, models passed=%v", e.Idx, want, mwant),
					Witness: wit(),
				})
			}
		}
	}
	res.count("events", int64(cs.NEvents))
	res.count("events_passed", int64(nPass))
	res.count("events_discarded_by_first", int64(nRejA))
	res.count("events_discarded_by_second", int64(nRejB))
	res.count("events_same_rule_index_in_both", int64(sameBudget))
	res.Nontrivial = nPass > 0 && nRejA > 0 && nRejB > 0
	res.Fingerprint = "multi|" + cfgShape(&cs.Cfg) + "|" + cfgShape(cs.Cfg2)
	if len(res.Violations) > 0 {
		res.Sample = map[string]any{"clause": "multi", "case_seed": cs.Seed, "actions_json": string(cs.actions())}
	}
	return res
}
