package main

// Structural classification of a refuting (rule, event) pair into a
// signature that is stable across seeds. The classification never decides
// whether a pair is a violation (ref.go does); it only names the shape.

import (
	"fmt"
	"sort"
	"strings"
)

func countEmptyContainers(v *val) int {
	if v == nil || (v.k != kObj && v.k != kArr) {
		return 0
	}
	n := 0
	if len(v.kids) == 0 {
		n++
	}
	for _, c := range v.kids {
		n += countEmptyContainers(c)
	}
	return n
}

const (
	sigContainer = "doif field-op: object/array value reported as matched (documented: never matched)"
	sigEmptyCont = "doif op=byte_len_cmp: each empty object/array inside the measured value is counted as 1 byte instead of 2"
	sigRegexCI   = "doif op=regex case_sensitive=false has no effect: the regex is matched against the unchanged text, case-sensitively"
	sigEscState  = "doif op=byte_len_cmp on an object/array holding an escaped JSON string: the measured size (hence the decision) changes once another check has read that string"
	sigMfAndRe   = "match_fields mode=and/and_prefix with a /regexp/ condition: no match although every condition holds"
)

// leafSignature names a leaf whose real result differs from the documented one.
func leafSignature(l *rule, v *val, want tri, got bool) string {
	k := v.kindOf()
	ci := l.isFieldOp() && !l.caseSensitive()
	switch {
	case l.isFieldOp() && (k == kObj || k == kArr) && got:
		return sigContainer
	case ci && l.op == "regex" && (k == kStr || k == kNum || k == kBool):
		plain := false
		for _, p := range l.values {
			if mustRe(*p).MatchString(v.s) {
				plain = true
			}
		}
		if plain == got {
			return sigRegexCI
		}
	case ci && (k == kStr || k == kNum || k == kBool):
		chg := lowerChangesLen(v.s)
		for _, p := range l.values {
			if p != nil && lowerChangesLen(*p) {
				chg = true
			}
		}
		if chg {
			return fmt.Sprintf("doif op=%s case_sensitive=false: text with a rune whose lower-case form has another UTF-8 length; want=%v got=%v", l.op, want, got)
		}
	case l.op == "byte_len_cmp" && (k == kObj || k == kArr):
		if e := countEmptyContainers(v); e > 0 {
			if full := subtreeLen(v, true); full >= 0 && cmpInt(l.cmp, int64(full-e), int64(l.n)) == got {
				return sigEmptyCont
			}
		}
	}
	s := "doif op=" + l.op
	if l.isFieldOp() {
		if ci {
			s += " case_sensitive=false"
		}
		if k == kStr && v.writtenEscaped() {
			s += " escaped-json-string"
		}
	}
	if l.cmp != "" {
		s += " cmp_op=" + l.cmp
	}
	if l.op == "ts_cmp" {
		f := l.format
		if f == "" {
			f = "default"
		}
		mode := "const"
		if l.value == "now" || l.value == "file_d_start" {
			mode = l.value
		}
		s += " format=" + f + " value=" + mode
	}
	if len(l.path) == 0 {
		s += " field=<root>"
	}
	return fmt.Sprintf("%s fieldkind=%s want=%v got=%v", s, k, want, got)
}

// classifyMf names a match_fields deviation.
func classifyMf(m *mfRule, root *val, pre, final tri, got bool) string {
	mode := m.effMode()
	gotPre := got
	if m.inverted() {
		gotPre = !got
	}
	hasRe := false
	for _, c := range m.conds {
		if c.isRe {
			hasRe = true
		}
	}
	if (mode == "and" || mode == "and_prefix") && hasRe && pre == triT && !gotPre {
		return sigMfAndRe
	}
	prefix := mode == "and_prefix" || mode == "or_prefix"
	parts := make([]string, 0, len(m.conds))
	for i := range m.conds {
		c := &m.conds[i]
		kindName := "values"
		if c.isRe {
			kindName = "regexp"
		} else if c.bare {
			kindName = "bare"
		}
		parts = append(parts, fmt.Sprintf("%s:%s:%v", kindName, lookup(root, c.path).kindOf(), evalMfCond(c, prefix, root)))
	}
	sort.Strings(parts)
	return fmt.Sprintf("match_fields mode=%s invert=%v conds=[%s] want=%v got=%v", mode, m.inverted(), strings.Join(parts, " "), final, got)
}

// nondetSignature names a pair that got different decisions in one process.
func nondetSignature(generic string, r *rule, ev *val) string {
	for _, l := range r.leaves(nil) {
		if l.op != "byte_len_cmp" {
			continue
		}
		v := lookup(ev, l.path)
		if k := v.kindOf(); (k == kObj || k == kArr) && subtreeLen(v, true) < 0 {
			return sigEscState
		}
	}
	return generic
}
