package main

// Part A: do_if trees built through doif.NewFromMap from the configuration
// map and evaluated with Checker.Check(doif.NewEventData(root)), compared with
// the naive evaluator on every (rule, event) pair of a batch.

import (
	"fmt"
	"hash/fnv"
	"math/rand"
	"sort"
	"strconv"
	"strings"
	"time"

	"github.com/ozontech/file.d/pipeline/doif"
	insaneJSON "github.com/ozontech/insane-json"

	"verifharness/core"
)

// local statistics of one batch, flushed once (keeps the Ctx lock cold)
type stats struct {
	counters map[string]int64
	fps      map[uint64]struct{}
	evals    int
}

func newStats() *stats { return &stats{counters: map[string]int64{}, fps: map[uint64]struct{}{}} }

func (s *stats) count(name string, n int64) { s.counters[name] += n }

func (s *stats) fp(parts ...string) {
	h := fnv.New64a()
	for _, p := range parts {
		h.Write([]byte(p))
		h.Write([]byte{0})
	}
	s.fps[h.Sum64()] = struct{}{}
}

func (s *stats) flush(c *core.Ctx) {
	c.Eval(s.evals)
	keys := make([]string, 0, len(s.counters))
	for k := range s.counters {
		keys = append(keys, k)
	}
	sort.Strings(keys)
	for _, k := range keys {
		c.Count(k, s.counters[k])
	}
	for f := range s.fps {
		c.Nontrivial(strconv.FormatUint(f, 36))
	}
}

func permFn(rng *rand.Rand) func(n int) []int {
	return func(n int) []int { return rng.Perm(n) }
}

type doifBatch struct {
	voc    *vocab
	rules  []*rule
	events []*val
	evJSON []string
	now    time.Time
}

func genDoifBatch(rng *rand.Rand, nRules, nGeneric, perRule int, maxDepth int, allowNow bool, objectRootsOnly bool) *doifBatch {
	b := &doifBatch{voc: genVocab(rng), now: time.Now()}
	for i := 0; i < nRules; i++ {
		d := rng.Intn(maxDepth + 1)
		b.rules = append(b.rules, genRule(rng, b.voc, d, allowNow))
	}
	b.voc.indexRules(b.rules)
	for i := 0; i < nGeneric; i++ {
		b.events = append(b.events, genEvent(rng, b.voc, nil, b.now))
	}
	for _, r := range b.rules {
		ls := r.leaves(nil)
		for i := 0; i < perRule; i++ {
			b.events = append(b.events, genEvent(rng, b.voc, ls, b.now))
		}
	}
	if !objectRootsOnly {
		// roots that are not objects (the `field: ""` rules look at the root value)
		b.events = append(b.events, genString(rng, b.voc), vNum(pick(rng, b.voc.nums)), vArr(genSmall(rng, b.voc, 1)), vNull())
	}
	for _, e := range b.events {
		b.evJSON = append(b.evJSON, e.JSON())
	}
	return b
}

func kindsOfLeaves(r *rule, root *val) string {
	var sb strings.Builder
	for _, l := range r.leaves(nil) {
		sb.WriteByte("ANBnsoa"[lookup(root, l.path).kindOf()])
	}
	return sb.String()
}

// reporter classifies the refuting pairs of one batch: sub-rule checkers are
// built once per batch, and only the first pairs of a batch are decomposed
// (the rest is counted), which bounds the cost when nearly everything fails.
type reporter struct {
	c       *core.Ctx
	cache   map[*rule]*doif.Checker
	cfg     map[*rule]string
	used    int
	skipped int64
}

const maxDecomposedPerBatch = 60

func newReporter(c *core.Ctx) *reporter {
	return &reporter{c: c, cache: map[*rule]*doif.Checker{}, cfg: map[*rule]string{}}
}

func (rp *reporter) checker(n *rule) (*doif.Checker, string, error) {
	if chk, ok := rp.cache[n]; ok {
		if chk == nil {
			return nil, "", fmt.Errorf("not constructible")
		}
		return chk, rp.cfg[n], nil
	}
	chk, cfgJSON, err := buildChecker(n.toMap(nil))
	if err != nil {
		rp.cache[n] = nil
		return nil, "", err
	}
	rp.cache[n], rp.cfg[n] = chk, cfgJSON
	return chk, cfgJSON, nil
}

func (rp *reporter) done() {
	if rp.skipped > 0 {
		rp.c.Count("refuting_pairs_counted_but_not_decomposed", rp.skipped)
	}
}

// reportDoif decomposes a refuting pair down to the smallest sub-rule that
// alone deviates and reports one violation per distinct shape.
func (rp *reporter) reportDoif(via string, r *rule, ev *val, evJSON string, want tri, got bool, nowNs int64) {
	c := rp.c
	if rp.used >= maxDecomposedPerBatch {
		rp.skipped++
		return
	}
	rp.used++
	buildChecker := func(n *rule) (*doif.Checker, string, error) { return rp.checker(n) }
	reported := 0
	base := map[string]any{"via": via, "rule": mustJSON(r.toMap(nil)), "event": evJSON, "tree_want": want.String(), "tree_got": got}
	for _, l := range r.leaves(nil) {
		lw := evalLeaf(l, ev, nowNs)
		if lw == triE {
			continue
		}
		chk, cfgJSON, err := buildChecker(l)
		if err != nil {
			continue
		}
		lg, pan := realCheckFresh(chk, evJSON)
		if pan != "" {
			continue
		}
		if lg != (lw == triT) {
			v := lookup(ev, l.path)
			sig := leafSignature(l, v, lw, lg)
			w := map[string]any{"leaf_rule": cfgJSON, "leaf_want": lw.String(), "leaf_got": lg}
			for k, x := range base {
				w[k] = x
			}
			violate(c, sig, fmt.Sprintf("%s: rule %s on event %s: documented %v, real %v", via, cfgJSON, core.Trunc(evJSON, 300), lw, lg), w)
			reported++
		}
	}
	if reported > 0 {
		return
	}
	// every leaf alone agrees: look for the lowest logical node that deviates
	var walk func(n *rule) bool
	walk = func(n *rule) bool {
		if !n.isLogical() {
			return false
		}
		for _, k := range n.kids {
			if walk(k) {
				return true
			}
		}
		nw := evalRule(n, ev, nowNs)
		if nw == triE {
			return false
		}
		chk, cfgJSON, err := buildChecker(n)
		if err != nil {
			return false
		}
		ng, pan := realCheckFresh(chk, evJSON)
		if pan != "" || ng == (nw == triT) {
			return false
		}
		w := map[string]any{"node_rule": cfgJSON, "node_want": nw.String(), "node_got": ng}
		for k, x := range base {
			w[k] = x
		}
		violate(c, fmt.Sprintf("doif logical op=%s operands=%d: every operand alone agrees with the documentation, the combination does not; want=%v got=%v", n.op, len(n.kids), nw, ng),
			fmt.Sprintf("%s: rule %s on event %s", via, cfgJSON, core.Trunc(evJSON, 300)), w)
		return true
	}
	if walk(r) {
		return
	}
	violate(c, "doif decision depends on context: every sub-rule evaluated alone on a fresh event agrees with the documentation, the tree in the run does not",
		fmt.Sprintf("%s: rule %s on event %s: documented %v, real %v", via, base["rule"], core.Trunc(evJSON, 300), want, got), base)
}

func mustJSON(v any) string {
	b, err := jsonMarshal(v)
	if err != nil {
		return "marshal error: " + err.Error()
	}
	return string(b)
}

type builtRule struct {
	a, b     *doif.Checker
	cfgA     string
	cfgB     string
	buildErr string
}

func buildBoth(c *core.Ctx, r *rule, rng *rand.Rand) *builtRule {
	br := &builtRule{}
	var err error
	br.a, br.cfgA, err = buildChecker(r.toMap(nil))
	if err == nil {
		br.b, br.cfgB, err = buildChecker(r.toMap(permFn(rng)))
	}
	if err != nil {
		br.buildErr = err.Error()
		violate(c, "doif constructor rejects a documented rule: op="+r.op+" err="+core.NormalizeMsg(firstWords(err.Error(), 12)),
			"doif.NewFromMap failed for "+br.cfgA+": "+err.Error(), map[string]any{"rule": br.cfgA, "error": err.Error()})
	}
	return br
}

func firstWords(s string, n int) string {
	f := strings.Fields(s)
	if len(f) > n {
		f = f[:n]
	}
	return strings.Join(f, " ")
}

// runDirectBatch evaluates all rules of a batch on all its events, twice.
func runDirectBatch(c *core.Ctx, seed int64, nRules, nGeneric, perRule int) {
	rng := rand.New(rand.NewSource(seed))
	st := newStats()
	defer st.flush(c)
	rp := newReporter(c)
	defer rp.done()
	b := genDoifBatch(rng, nRules, nGeneric, perRule, 4, true, false)
	nowNs := b.now.UnixNano()

	built := make([]*builtRule, len(b.rules))
	for i, r := range b.rules {
		built[i] = buildBoth(c, r, rng)
	}
	nE, nR := len(b.events), len(b.rules)
	resA := make([][]int8, nR) // -1 not evaluated, 0 false, 1 true
	resB := make([][]int8, nR)
	for i := range resA {
		resA[i] = make([]int8, nE)
		resB[i] = make([]int8, nE)
		for j := range resA[i] {
			resA[i][j], resB[i][j] = -1, -1
		}
	}
	// pass 1: events in order, one root reused for all events (as the event
	// pool does), rules in order, original value order
	pass := func(res [][]int8, evOrder, ruleOrder []int, useB bool) {
		root := insaneJSON.Spawn()
		defer insaneJSON.Release(root)
		for _, ei := range evOrder {
			if err := root.DecodeString(b.evJSON[ei]); err != nil {
				c.Fatal("generated event is not decodable: %s: %v", b.evJSON[ei], err)
				return
			}
			for _, ri := range ruleOrder {
				br := built[ri]
				if br.buildErr != "" {
					continue
				}
				chk := br.a
				if useB {
					chk = br.b
				}
				got, pan := realCheck(chk, root)
				if pan != "" {
					violate(c, "doif panic op-shape="+b.rules[ri].shape()+" msg="+core.NormalizeMsg(pan), "Checker.Check panicked: "+pan,
						map[string]any{"rule": br.cfgA, "event": b.evJSON[ei], "panic": pan})
					// the root may be damaged: decode again
					_ = root.DecodeString(b.evJSON[ei])
					continue
				}
				if got {
					res[ri][ei] = 1
				} else {
					res[ri][ei] = 0
				}
			}
		}
	}
	evOrder := make([]int, nE)
	ruleOrder := make([]int, nR)
	for i := range evOrder {
		evOrder[i] = i
	}
	for i := range ruleOrder {
		ruleOrder[i] = i
	}
	pass(resA, evOrder, ruleOrder, false)
	pass(resB, rng.Perm(nE), rng.Perm(nR), true)

	for ri, r := range b.rules {
		if built[ri].buildErr != "" {
			continue
		}
		shape := r.shape()
		depth := r.depth()
		leaves := r.leaves(nil)
		for ei, ev := range b.events {
			want := evalRule(r, ev, nowNs)
			ga, gb := resA[ri][ei], resB[ri][ei]
			if ga < 0 || gb < 0 {
				continue
			}
			st.evals++
			st.count("doif.direct.pairs", 1)
			st.count(fmt.Sprintf("doif.tree.depth%d.%s", depth, want), 1)
			// per-leaf outcome statistics (what the oracle saw)
			for _, l := range leaves {
				st.count("doif.leaf."+l.op+"."+evalLeaf(l, ev, nowNs).String(), 1)
			}
			if ga != gb {
				violate(c, nondetSignature("doif nondeterministic: same rule and event, different decision after reordering values/operands/earlier events", r, ev),
					fmt.Sprintf("rule %s / %s on event %s: first %d, second %d", built[ri].cfgA, built[ri].cfgB, core.Trunc(b.evJSON[ei], 300), ga, gb),
					map[string]any{"rule": built[ri].cfgA, "rule_reordered": built[ri].cfgB, "event": b.evJSON[ei], "first": ga, "second": gb, "documented": want.String()})
			}
			if want == triE {
				st.count("doif.direct.undetermined_by_docs", 1)
				continue
			}
			st.fp("doif", shape, kindsOfLeaves(r, ev), want.String())
			if (ga == 1) != (want == triT) {
				rp.reportDoif("direct", r, ev, b.evJSON[ei], want, ga == 1, nowNs)
			} else if (gb == 1) != (want == triT) {
				rp.reportDoif("direct(reordered)", r, ev, b.evJSON[ei], want, gb == 1, nowNs)
			}
		}
	}
	if seed%97 == 0 && len(b.rules) > 0 {
		c.Sample(map[string]any{"part": "doif-direct", "rule": built[0].cfgA, "event": b.evJSON[0], "documented": evalRule(b.rules[0], b.events[0], nowNs).String(), "real": resA[0][0]})
	}
}
