package main

// The real path: a pipeline (fake input -> actions -> devnull output) whose
// actions are configured from JSON through fd.SetupActions (extractConditions
// / extractMatchMode / extractMatchInvert / extractDoIfChecker), processed by
// the real processors. Every action is a probe whose Do records
// (action index, event offset); all probes pass the event on, so one pipeline
// decides (#actions x #events) selector applications at once.
//
// Runs in a child process: a panic inside a processor goroutine or a
// logger.Fatal in the setup would otherwise end the whole check.

import (
	"encoding/json"
	"fmt"
	"sync"
	"sync/atomic"
	"time"

	simplejson "github.com/bitly/go-simplejson"
	"github.com/ozontech/file.d/fd"
	"github.com/ozontech/file.d/pipeline"
	"github.com/ozontech/file.d/plugin/input/fake"
	"github.com/ozontech/file.d/plugin/output/devnull"
	"github.com/prometheus/client_golang/prometheus"
	"go.uber.org/zap"

	"verifharness/core"
)

const probeType = "verif_c14_probe"

type probeConfig struct {
	Idx int `json:"idx"`
}

type probePlugin struct{ idx, inst int }

var probeInst atomic.Int64

type recorder struct {
	mu     sync.Mutex
	nAct   int
	nSlots int
	hits   [][]uint8 // [action][slot] number of Do invocations
	stray  int
	insts  map[[2]int]struct{} // (action, plugin instance) pairs that worked; instances per action = processors that took part
}

var curRec atomic.Pointer[recorder]

func (p *probePlugin) Start(config pipeline.AnyConfig, _ *pipeline.ActionPluginParams) {
	p.idx = config.(*probeConfig).Idx
	p.inst = int(probeInst.Add(1)) // one plugin instance per processor
}
func (p *probePlugin) Stop() {}
func (p *probePlugin) Do(ev *pipeline.Event) pipeline.ActionResult {
	if r := curRec.Load(); r != nil {
		slot := int(ev.Offset) - 1
		r.mu.Lock()
		if p.idx >= 0 && p.idx < r.nAct && slot >= 0 && slot < r.nSlots {
			if r.hits[p.idx][slot] < 200 {
				r.hits[p.idx][slot]++
			}
			r.insts[[2]int{p.idx, p.inst}] = struct{}{}
		} else {
			r.stray++
		}
		r.mu.Unlock()
	}
	// chain batches (chain.go): the probe changes the event like a modify /
	// remove_fields action would, then passes it on
	if m := curMuts.Load(); m != nil && p.idx >= 0 && p.idx < len(*m) {
		for i := range (*m)[p.idx] {
			applyMutOp(ev.Root, &(*m)[p.idx][i])
		}
	}
	return pipeline.ActionPass
}

// activeProcessors is the largest number of instances of one action that
// handled events (every processor has its own instance of every action).
func (r *recorder) activeProcessors() int {
	per := map[int]int{}
	best := 0
	for k := range r.insts {
		per[k[0]]++
		if per[k[0]] > best {
			best = per[k[0]]
		}
	}
	return best
}

func registerProbe() {
	fd.DefaultPluginRegistry.RegisterAction(&pipeline.PluginStaticInfo{
		Type: probeType,
		Factory: func() (pipeline.AnyPlugin, pipeline.AnyConfig) {
			return &probePlugin{}, &probeConfig{}
		},
	})
}

type pipeBatch struct {
	ID       string            `json:"id"`
	Actions  []json.RawMessage `json:"actions"` // selector part of each action config (match_* or do_if)
	Events   []string          `json:"events"`
	Order2   []int             `json:"order2"` // event order of the second pass
	Parallel bool              `json:"parallel"`
	LowMem   bool              `json:"low_mem"`
	// chain batches: what the probe of each action does to the event when it is
	// applied; Final asks for the event as it reaches the output
	Muts  [][]mutOp `json:"muts,omitempty"`
	Final bool      `json:"final,omitempty"`
}

type pipeBatchResult struct {
	ID   string      `json:"id"`
	Hits [2][]string `json:"hits"` // per pass, per action: one byte per event: '0' not invoked, '1' invoked once, '2' more than once
	Err  string      `json:"err,omitempty"`
	Ms   int64       `json:"ms"`
	// chain batches: per pass, per event: the event at the output
	Final [2][]string `json:"final,omitempty"`
}

type pipeIn struct {
	Batches []pipeBatch `json:"batches"`
}

type pipeOut struct {
	Results []pipeBatchResult `json:"results"`
}

var pipeSeq atomic.Int64

// newProbePipeline builds (does not start) a pipeline fake -> probes -> devnull
// whose actions are the given selector configs, set up through fd.SetupActions.
func newProbePipeline(actions []json.RawMessage, parallel, lowMem bool, capacity int) (*pipeline.Pipeline, *fake.Plugin, *devnull.Plugin, int, string) {
	// the actions array as it would stand in the pipeline config
	acts := make([]map[string]any, 0, len(actions))
	for i, raw := range actions {
		m := map[string]any{}
		if err := json.Unmarshal(raw, &m); err != nil {
			return nil, nil, nil, 0, "bad action json: " + err.Error()
		}
		m["type"] = probeType
		m["idx"] = i
		acts = append(acts, m)
	}
	actsJSON, _ := json.Marshal(acts)
	sj, err := simplejson.NewJson(actsJSON)
	if err != nil {
		return nil, nil, nil, 0, "simplejson: " + err.Error()
	}

	settings := &pipeline.Settings{
		Capacity:            capacity,
		MaintenanceInterval: time.Second * 5,
		EventTimeout:        pipeline.DefaultEventTimeout,
		Antispam:            pipeline.AntispamSettings{Threshold: pipeline.DefaultAntispamThreshold},
		AvgEventSize:        1024,
		MetaCacheSize:       32,
		StreamField:         "stream",
		Decoder:             "json",
		Metric: &pipeline.MetricSettings{
			HoldDuration:        pipeline.DefaultMetricHoldDuration,
			MaxLabelValueLength: pipeline.DefaultMetricMaxLabelValueLength,
		},
		Pool: pipeline.PoolTypeStd,
	}
	if lowMem { // not used by the generated jobs: the low-memory pool can lose a wake-up (a C04 matter) and wedge In
		settings.Pool = pipeline.PoolTypeLowMem
	}
	name := fmt.Sprintf("c14_%d", pipeSeq.Add(1))
	p := pipeline.New(name, settings, prometheus.NewRegistry(), zap.NewNop())
	if !parallel {
		p.DisableParallelism()
	}
	inAny, _ := fake.Factory()
	in := inAny.(*fake.Plugin)
	p.SetInput(&pipeline.InputPluginInfo{
		PluginStaticInfo:  &pipeline.PluginStaticInfo{Type: "fake"},
		PluginRuntimeInfo: &pipeline.PluginRuntimeInfo{Plugin: in},
	})
	outAny, _ := devnull.Factory()
	out := outAny.(*devnull.Plugin)
	p.SetOutput(&pipeline.OutputPluginInfo{
		PluginStaticInfo:  &pipeline.PluginStaticInfo{Type: "devnull"},
		PluginRuntimeInfo: &pipeline.PluginRuntimeInfo{Plugin: out},
	})
	if err := fd.SetupActions(p, fd.DefaultPluginRegistry, sj, nil); err != nil {
		return nil, nil, nil, 0, "SetupActions: " + err.Error()
	}

	return p, in, out, len(acts), ""
}

func runPipeBatch(b *pipeBatch) (res pipeBatchResult) {
	t0 := time.Now()
	res.ID = b.ID
	defer func() { res.Ms = time.Since(t0).Milliseconds() }()

	p, in, out, nAct, errText := newProbePipeline(b.Actions, b.Parallel, b.LowMem, 64)
	if errText != "" {
		res.Err = errText
		return res
	}
	nE := len(b.Events)
	rec := &recorder{nAct: nAct, nSlots: 2 * nE, hits: make([][]uint8, nAct), insts: map[[2]int]struct{}{}}
	for i := range rec.hits {
		rec.hits[i] = make([]uint8, 2*nE)
	}
	curRec.Store(rec)
	defer curRec.Store(nil)

	if len(b.Muts) > 0 {
		curMuts.Store(&b.Muts)
		defer curMuts.Store(nil)
	}
	var finMu sync.Mutex
	var finals []string
	if b.Final {
		finals = make([]string, 2*nE)
	}

	var outCount atomic.Int64
	out.SetOutFn(func(e *pipeline.Event) {
		if finals != nil {
			if slot := int(e.Offset) - 1; slot >= 0 && slot < len(finals) {
				s := e.Root.EncodeToString()
				finMu.Lock()
				finals[slot] = s
				finMu.Unlock()
			}
		}
		outCount.Add(1)
	})
	p.Start()

	feed := func(pass int, order []int) {
		for k, ei := range order {
			slot := pass*nE + ei
			src := pipeline.SourceID(1 + k%3)
			in.In(src, "c14", pipeline.NewOffsets(int64(slot+1), nil), []byte(b.Events[ei]))
		}
	}
	order1 := make([]int, nE)
	for i := range order1 {
		order1[i] = i
	}
	// the feeder may block inside In (pool exhausted); a wedge there is not
	// this property's business: the watchdog turns it into "inconclusive"
	go func() {
		feed(0, order1)
		feed(1, b.Order2)
	}()

	deadline := time.Now().Add(60 * time.Second)
	for outCount.Load() < int64(2*nE) {
		if time.Now().After(deadline) {
			res.Err = fmt.Sprintf("watchdog: only %d of %d events reached the output", outCount.Load(), 2*nE)
			return res // the pipeline is left behind; the child ends soon anyway
		}
		time.Sleep(200 * time.Microsecond)
	}
	p.Stop()

	rec.mu.Lock()
	defer rec.mu.Unlock()
	if rec.stray > 0 && res.Err == "" {
		res.Err = fmt.Sprintf("probe saw %d invocations outside the batch", rec.stray)
	}
	for pass := 0; pass < 2; pass++ {
		res.Hits[pass] = make([]string, nAct)
		for a := 0; a < nAct; a++ {
			row := make([]byte, nE)
			for ei := 0; ei < nE; ei++ {
				switch h := rec.hits[a][pass*nE+ei]; {
				case h == 0:
					row[ei] = '0'
				case h == 1:
					row[ei] = '1'
				default:
					row[ei] = '2'
				}
			}
			res.Hits[pass][a] = string(row)
		}
		if finals != nil {
			finMu.Lock()
			res.Final[pass] = append([]string(nil), finals[pass*nE:(pass+1)*nE]...)
			finMu.Unlock()
		}
	}
	return res
}

func pipeChild(raw json.RawMessage, io *core.ChildIO) (any, error) {
	var in pipeIn
	if err := json.Unmarshal(raw, &in); err != nil {
		return nil, err
	}
	out := pipeOut{}
	for i := range in.Batches {
		io.Log(map[string]any{"batch": in.Batches[i].ID, "index": i})
		out.Results = append(out.Results, runPipeBatch(&in.Batches[i]))
	}
	return out, nil
}
