// C14 — Action selection follows the documented boolean semantics.
//
// A naive evaluator written from the READMEs (ref.go) is compared with
//
//	A. doif.NewFromMap(config map).Check(doif.NewEventData(root))        (direct.go)
//	B. match_fields / match_mode / match_invert in a real pipeline        (pipe.go)
//	C. do_if in a real pipeline (and against A)                           (pipe.go)
//
// on generated (rule, event) pairs; every pair is decided twice, with another
// order of values / operands / earlier events.
package main

import (
	"encoding/json"
	"fmt"
	"math/rand"
	"os"
	"sort"
	"strings"
	"time"

	insaneJSON "github.com/ozontech/insane-json"

	"verifharness/core"
)

// ---------------------------------------------------------------------
// parent side of the pipeline parts

type mfCase struct {
	rules  []*mfRule
	events []*val
	evJSON []string
}

type pipeJob struct {
	batch pipeBatch
	kind  string // "mf" | "doif" | "chain-mf" | "chain-doif"
	mf    *mfCase
	di    *doifBatch
	ch    *chainCase
}

func makeMfJob(seed int64, id string, nRules, nGeneric, perRule int) *pipeJob {
	rng := rand.New(rand.NewSource(seed))
	voc := genVocab(rng)
	mc := &mfCase{}
	for i := 0; i < nRules; i++ {
		mc.rules = append(mc.rules, genMfRule(rng, voc))
	}
	voc.indexMfRules(mc.rules)
	for i := 0; i < nGeneric; i++ {
		mc.events = append(mc.events, genMfEvent(rng, voc, nil))
	}
	for _, m := range mc.rules {
		for i := 0; i < perRule; i++ {
			mc.events = append(mc.events, genMfEvent(rng, voc, m))
		}
	}
	job := &pipeJob{kind: "mf", mf: mc}
	job.batch = pipeBatch{ID: id, Parallel: rng.Intn(2) == 0}
	for _, e := range mc.events {
		s := e.JSON()
		mc.evJSON = append(mc.evJSON, s)
		job.batch.Events = append(job.batch.Events, s)
	}
	job.batch.Order2 = rng.Perm(len(mc.events))
	// every rule twice: as generated and with permuted value lists
	for _, m := range mc.rules {
		a, _ := json.Marshal(m.actionFields(nil))
		b, _ := json.Marshal(m.actionFields(permFn(rng)))
		job.batch.Actions = append(job.batch.Actions, a, b)
	}
	return job
}

func makeDoifJob(seed int64, id string, nRules, nGeneric, perRule int) *pipeJob {
	rng := rand.New(rand.NewSource(seed))
	di := genDoifBatch(rng, nRules, nGeneric, perRule, 3, rng.Intn(4) == 0, true)
	job := &pipeJob{kind: "doif", di: di}
	job.batch = pipeBatch{ID: id, Parallel: rng.Intn(2) == 0, Events: di.evJSON}
	job.batch.Order2 = rng.Perm(len(di.events))
	for _, r := range di.rules {
		a, _ := json.Marshal(map[string]any{"do_if": r.toMap(nil)})
		b, _ := json.Marshal(map[string]any{"do_if": r.toMap(permFn(rng))})
		job.batch.Actions = append(job.batch.Actions, a, b)
	}
	return job
}

func judgeMf(c *core.Ctx, job *pipeJob, res *pipeBatchResult) {
	st := newStats()
	defer st.flush(c)
	mc := job.mf
	for ri, m := range mc.rules {
		shape := m.shape()
		for ei, ev := range mc.events {
			pre, final := evalMf(m, ev)
			st.evals++
			st.count("mf.pipeline.pairs", 1)
			var got [4]byte
			for pass := 0; pass < 2; pass++ {
				got[pass*2] = res.Hits[pass][2*ri][ei]
				got[pass*2+1] = res.Hits[pass][2*ri+1][ei]
			}
			for _, g := range got {
				if g == '2' {
					violate(c, "pipeline: action invoked more than once for one event", "probe Do called more than once",
						map[string]any{"action": string(job.batch.Actions[2*ri]), "event": mc.evJSON[ei]})
				}
			}
			same := got[0] == got[1] && got[1] == got[2] && got[2] == got[3]
			if !same {
				violate(c, "match_fields nondeterministic: same rule and event, different decision after reordering values/earlier events",
					fmt.Sprintf("action %s on event %s: decisions %q", job.batch.Actions[2*ri], core.Trunc(mc.evJSON[ei], 300), string(got[:])),
					map[string]any{"action": string(job.batch.Actions[2*ri]), "action_reordered": string(job.batch.Actions[2*ri+1]), "event": mc.evJSON[ei], "decisions": string(got[:]), "documented": final.String()})
			}
			if final == triE {
				st.count("mf.undetermined_by_docs", 1)
				continue
			}
			kinds := make([]string, 0, len(m.conds))
			for i := range m.conds {
				kinds = append(kinds, lookup(ev, m.conds[i].path).kindOf().String()+":"+evalMfCond(&m.conds[i], strings.HasSuffix(m.effMode(), "_prefix"), ev).String())
			}
			sort.Strings(kinds)
			st.fp("mf", shape, strings.Join(kinds, ","), final.String())
			if final == triT {
				st.count("mf."+m.effMode()+".applied", 1)
			} else {
				st.count("mf."+m.effMode()+".skipped", 1)
			}
			for _, c2 := range m.conds {
				if c2.isRe {
					st.count("mf.cond.regexp", 1)
				} else {
					st.count("mf.cond.values", 1)
				}
			}
			for k, g := range got {
				if (g != '0') != (final == triT) {
					sig := classifyMf(m, ev, pre, final, g != '0')
					act := job.batch.Actions[2*ri+k%2]
					violate(c, sig, fmt.Sprintf("action %s on event %s: documented %v, probe invoked=%v", act, core.Trunc(mc.evJSON[ei], 300), final, g != '0'),
						map[string]any{"via": "pipeline", "action": string(act), "event": mc.evJSON[ei], "documented_before_invert": pre.String(), "documented": final.String(), "invoked": g != '0', "pass": k / 2})
					break
				}
			}
		}
	}
	if len(mc.rules) > 0 {
		c.Sample(map[string]any{"part": "match_fields-pipeline", "action": string(job.batch.Actions[0]), "event": mc.evJSON[0],
			"documented": func() string { _, f := evalMf(mc.rules[0], mc.events[0]); return f.String() }(), "invoked": string(res.Hits[0][0][0])})
	}
}

func judgeDoif(c *core.Ctx, job *pipeJob, res *pipeBatchResult) {
	st := newStats()
	defer st.flush(c)
	di := job.di
	nowNs := di.now.UnixNano()
	rp := newReporter(c)
	defer rp.done()
	for ri, r := range di.rules {
		chk, cfgJSON, err := buildChecker(r.toMap(nil))
		if err != nil {
			continue // reported by part A's constructor check on its own rules; here the child would have died
		}
		shape := r.shape()
		for ei, ev := range di.events {
			want := evalRule(r, ev, nowNs)
			st.evals++
			st.count("doif.pipeline.pairs", 1)
			var got [4]byte
			for pass := 0; pass < 2; pass++ {
				got[pass*2] = res.Hits[pass][2*ri][ei]
				got[pass*2+1] = res.Hits[pass][2*ri+1][ei]
			}
			same := got[0] == got[1] && got[1] == got[2] && got[2] == got[3]
			if !same {
				violate(c, nondetSignature("do_if in pipeline nondeterministic: same rule and event, different decision after reordering values/operands/earlier events", r, ev),
					fmt.Sprintf("do_if %s on event %s: decisions %q", cfgJSON, core.Trunc(di.evJSON[ei], 300), string(got[:])),
					map[string]any{"rule": cfgJSON, "event": di.evJSON[ei], "decisions": string(got[:]), "documented": want.String()})
			}
			direct, pan := realCheckFresh(chk, di.evJSON[ei])
			if pan == "" && same && direct != (got[0] != '0') {
				violate(c, "do_if: the pipeline's decision differs from Checker.Check on the same rule and event",
					fmt.Sprintf("do_if %s on event %s: pipeline invoked=%v, Check=%v", cfgJSON, core.Trunc(di.evJSON[ei], 300), got[0] != '0', direct),
					map[string]any{"rule": cfgJSON, "event": di.evJSON[ei], "invoked": got[0] != '0', "check": direct})
			}
			if want == triE {
				st.count("doif.pipeline.undetermined_by_docs", 1)
				continue
			}
			st.fp("doif-pipe", shape, kindsOfLeaves(r, ev), want.String())
			if want == triT {
				st.count("doif.pipeline.applied", 1)
			} else {
				st.count("doif.pipeline.skipped", 1)
			}
			for _, g := range got {
				if (g != '0') != (want == triT) {
					rp.reportDoif("pipeline", r, ev, di.evJSON[ei], want, g != '0', nowNs)
					break
				}
			}
		}
	}
	if len(di.rules) > 0 {
		c.Sample(map[string]any{"part": "do_if-pipeline", "action": string(job.batch.Actions[0]), "event": di.evJSON[0],
			"documented": evalRule(di.rules[0], di.events[0], nowNs).String(), "invoked": string(res.Hits[0][0][0])})
	}
}

// runPipeJobs sends the jobs to child processes (groups of `per` batches).
func runPipeJobs(c *core.Ctx, jobs []*pipeJob, per, workers int) {
	var groups [][]*pipeJob
	for i := 0; i < len(jobs); i += per {
		j := i + per
		if j > len(jobs) {
			j = len(jobs)
		}
		groups = append(groups, jobs[i:j])
	}
	core.ParallelFor(len(groups), workers, func(gi int) {
		g := groups[gi]
		in := pipeIn{}
		for _, j := range g {
			in.Batches = append(in.Batches, j.batch)
		}
		res := core.RunChild("pipe", in, core.ChildOpt{Timeout: childTimeout, GOMAXPROCS: 4})
		if res.TimedOut {
			if path := os.Getenv("VERIF_C14_DUMP"); path != "" {
				_ = os.WriteFile(path+".timeout", []byte(res.Stderr), 0o644)
			}
			c.Inconclusive("pipeline child watchdog")
			return
		}
		if res.Crashed() {
			// attribute to the batch logged last and confirm by running it alone
			var last struct {
				Index int `json:"index"`
			}
			_ = json.Unmarshal(res.LastLog(), &last)
			msg, site := core.PanicSite(res.Stderr)
			if last.Index >= 0 && last.Index < len(g) {
				solo := core.RunChild("pipe", pipeIn{Batches: []pipeBatch{g[last.Index].batch}}, core.ChildOpt{Timeout: 5 * time.Minute, GOMAXPROCS: 4})
				if solo.Crashed() {
					m2, s2 := core.PanicSite(solo.Stderr)
					violate(c, "pipeline crash kind="+g[last.Index].kind+" msg="+core.NormalizeMsg(m2)+" site="+s2, "the pipeline process died while applying selectors",
						map[string]any{"batch": g[last.Index].batch, "stderr": core.Trunc(solo.Stderr, 3000)})
					return
				}
			}
			c.Inconclusive("pipeline child crashed, not reproduced alone: " + core.NormalizeMsg(msg) + "@" + site)
			return
		}
		var out pipeOut
		if err := json.Unmarshal(res.Out, &out); err != nil || len(out.Results) != len(g) {
			c.Inconclusive("pipeline child output unreadable")
			return
		}
		for i, j := range g {
			r := &out.Results[i]
			if r.Err != "" {
				if strings.HasPrefix(r.Err, "SetupActions:") {
					violate(c, "fd.SetupActions rejects a documented selector kind="+j.kind+" err="+core.NormalizeMsg(firstWords(r.Err, 10)), r.Err, map[string]any{"actions": j.batch.Actions, "error": r.Err})
				} else {
					c.Inconclusive("pipeline batch: " + core.NormalizeMsg(firstWords(r.Err, 6)))
				}
				continue
			}
			c.Count("pipeline.batches", 1)
			c.Count("pipeline.batch_ms", r.Ms)
			switch {
			case j.ch != nil:
				judgeChain(c, j, r)
			case j.kind == "mf":
				judgeMf(c, j, r)
			default:
				judgeDoif(c, j, r)
			}
		}
	})
}

var childTimeout = 10 * time.Minute

func sortStrings(xs []string) { sort.Strings(xs) }

// exampleJobs checks the naive evaluator against every outcome printed in
// the READMEs (a disagreement voids the run), runs the real Checker on the
// do_if examples directly and returns pipeline jobs made of the examples.
func exampleJobs(c *core.Ctx) []*pipeJob {
	now := time.Now()
	st := newStats()
	defer st.flush(c)

	di := &doifBatch{now: now}
	rp := newReporter(c)
	defer rp.done()
	seenEv := map[string]int{}
	addEv := func(s string, evs *[]*val, js *[]string) int {
		if i, ok := seenEv[s]; ok {
			return i
		}
		*evs = append(*evs, valFromJSON(s))
		*js = append(*js, s)
		seenEv[s] = len(*evs) - 1
		return len(*evs) - 1
	}
	for xi := range doifExamples {
		ex := &doifExamples[xi]
		r := ruleFromJSON(ex.rule)
		di.rules = append(di.rules, r)
		chk, _, err := buildChecker(r.toMap(nil))
		if err != nil {
			violate(c, "doif constructor rejects a README example: "+ex.name, err.Error(), map[string]any{"rule": ex.rule})
			continue
		}
		for _, e := range ex.events {
			ei := addEv(e.json, &di.events, &di.evJSON)
			want := evalRule(r, di.events[ei], now.UnixNano())
			if want != b2t(e.want) {
				c.Fatal("the naive evaluator disagrees with README example doif/%s on %s: README %v, evaluator %v", ex.name, e.json, e.want, want)
				continue
			}
			got, pan := realCheckFresh(chk, e.json)
			st.evals++
			st.count("examples.doif.direct", 1)
			st.fp("example-doif", ex.name, e.json)
			if pan != "" {
				violate(c, "doif panic on README example "+ex.name, pan, map[string]any{"rule": ex.rule, "event": e.json})
			} else if got != e.want {
				rp.reportDoif("readme-example", r, di.events[ei], e.json, want, got, now.UnixNano())
			}
		}
	}
	directedStateDependence(c, st)

	diJob := &pipeJob{kind: "doif", di: di}
	diJob.batch = pipeBatch{ID: "examples-doif", Parallel: true, Events: di.evJSON}
	for i := len(di.events) - 1; i >= 0; i-- {
		diJob.batch.Order2 = append(diJob.batch.Order2, i)
	}
	for _, r := range di.rules {
		a, _ := json.Marshal(map[string]any{"do_if": r.toMap(nil)})
		diJob.batch.Actions = append(diJob.batch.Actions, a, a)
	}

	mc := &mfCase{}
	seenEv = map[string]int{}
	for xi := range mfExamples {
		ex := &mfExamples[xi]
		m := mfRuleFromExample(ex)
		mc.rules = append(mc.rules, m)
		for _, e := range ex.events {
			ei := addEv(e.json, &mc.events, &mc.evJSON)
			_, want := evalMf(m, mc.events[ei])
			st.count("examples.mf", 1)
			if want != b2t(e.want) {
				c.Fatal("the naive evaluator disagrees with README example match_mode/%s on %s: README %v, evaluator %v", ex.name, e.json, e.want, want)
			}
		}
	}
	mfJob := &pipeJob{kind: "mf", mf: mc}
	mfJob.batch = pipeBatch{ID: "examples-mf", Parallel: false, Events: mc.evJSON}
	for i := len(mc.events) - 1; i >= 0; i-- {
		mfJob.batch.Order2 = append(mfJob.batch.Order2, i)
	}
	for _, m := range mc.rules {
		a, _ := json.Marshal(m.actionFields(nil))
		mfJob.batch.Actions = append(mfJob.batch.Actions, a, a)
	}
	return []*pipeJob{mfJob, diJob}
}

// directedStateDependence: the decision of rule A on one decoded event must
// not change because another rule B has been evaluated on it in between
// (in a pipeline B is the selector of an earlier action). Fixed scenarios, so
// that the observation does not depend on the seed.
func directedStateDependence(c *core.Ctx, st *stats) {
	type scen struct{ a, b, event string }
	scens := []scen{
		{`{"op":"byte_len_cmp","field":"ts","cmp_op":"gt","value":11}`, `{"op":"contains","field":"ts.n","values":["te"]}`, `{"ts":{"n":"\"te"}}`},
		{`{"op":"byte_len_cmp","field":"ts","cmp_op":"eq","value":10}`, `{"op":"equal","field":"ts.0","values":["x"]}`, `{"ts":["a\nb",1]}`},
		{`{"op":"byte_len_cmp","field":"msg","cmp_op":"eq","value":4}`, `{"op":"prefix","field":"msg","values":["a"]}`, `{"msg":"a\nbc"}`},
		{`{"op":"equal","field":"msg","values":["a\nbc"]}`, `{"op":"byte_len_cmp","field":"msg","cmp_op":"eq","value":4}`, `{"msg":"a\nbc"}`},
		{`{"op":"int_val_cmp","field":"n","cmp_op":"eq","value":12}`, `{"op":"suffix","field":"n","values":["2"]}`, `{"n":"\u00312"}`},
		{`{"op":"check_type","field":"msg","values":["str"]}`, `{"op":"regex","field":"msg","values":["b"]}`, `{"msg":"a\tb"}`},
	}
	for _, sc := range scens {
		ra, rb := ruleFromJSON(sc.a), ruleFromJSON(sc.b)
		ca, _, errA := buildChecker(ra.toMap(nil))
		cb, _, errB := buildChecker(rb.toMap(nil))
		if errA != nil || errB != nil {
			c.Fatal("directed scenario not constructible: %v %v", errA, errB)
			return
		}
		root := insaneJSON.Spawn()
		if err := root.DecodeString(sc.event); err != nil {
			c.Fatal("directed scenario event: %v", err)
			return
		}
		first, _ := realCheck(ca, root)
		_, _ = realCheck(cb, root)
		second, _ := realCheck(ca, root)
		insaneJSON.Release(root)
		st.evals++
		st.count("directed.state_dependence_scenarios", 1)
		st.fp("directed", sc.a, sc.b, sc.event)
		if first != second {
			ev := valFromJSON(sc.event)
			violate(c, nondetSignature("doif nondeterministic: same rule and event, different decision after another rule was evaluated on the event", ra, ev),
				fmt.Sprintf("rule %s on event %s: %v, then after evaluating %s on the same decoded event: %v", sc.a, sc.event, first, sc.b, second),
				map[string]any{"rule": sc.a, "rule_between": sc.b, "event": sc.event, "first": first, "second": second})
		}
	}
}

func main() {
	registerProbe()
	core.RegisterChild("pipe", pipeChild)
	core.RegisterChild("pipeconc", pipeConcChild)
	core.Main("C14", "exploration", run)
}

func run(c *core.Ctx) {
	c.SetRule("batches share a vocabulary (field paths incl. nested / shielded-dot names, base words with shared prefixes/suffixes, case variants, multi-byte text, runes whose lower-case has another UTF-8 length, JSON escapes); " +
		"do_if trees up to depth 4 from every operator (equal, contains, contains_any, prefix, suffix, regex; byte_len_cmp, array_len_cmp, int_val_cmp x 6 comparators; ts_cmp const/now/file_d_start in 13 formats; check_type; and/or/not), case sensitive and not, 1-5 values incl. empty, duplicate, null; " +
		"match_fields with 0-3 conditions (value lists, bare strings, /regexp/) x {and, or, and_prefix, or_prefix, default} x match_invert; events: generic ones plus ones aimed at each rule's boundaries (absent, null, bool, number, nested object/array, lengths around the values' lengths, timestamps around thresholds). " +
		"Each (rule,event) pair is decided at least twice (value/operand order permuted, other earlier events, reused roots). " +
		"Selector chains: pipelines of 4 groups of 2-4 neighbouring actions whose selectors (match_fields or do_if) are identical / value-permuted / nearly identical / unrelated; an applied action sets, adds or removes the fields the group's selector reads (values aimed at the conditions, other values, removal of the field or its parent, or as controls nothing / an unrelated field) and passes the event on; each action is judged on the event as it receives it (model = generated event + mutations of the actions observed applied, checked against the event at the output). " +
		"Concurrent clause: one Checker evaluated by 2..8 goroutines at once over disjoint decoded events (20/24 rounds, each event twice in a row) against its own sequential decisions; the same selectors in a single-processor pipeline and in a 16-processor pipeline fed by 4-8 goroutines over 4-8 streams, 6 rounds, compared per (action,event). distinct_nontrivial = distinct (rule shape, kinds of the looked-up fields, documented outcome), plus distinct (operator description, goroutines/active processors) of concurrently evaluated checkers that have both outcomes among their events.")
	c.Assume("the naive evaluator is the specification: pipeline/doif/README.md, pipeline/README.md (match modes, datetime formats), doc comments of pipeline/plugin.go; Go regexp and time.Parse are trusted as the documented regex/time engines")
	c.Assume("a JSON null in `values` of `equal` means 'field is null or absent' (code comment + unit test equal_nil_or_empty_string); pairs whose outcome the documentation leaves open (e.g. contains \"\" on an absent field, int_val_cmp on a fraction, match_fields on null/bool/object/array) are counted as undetermined_by_docs and not judged")
	c.Assume("ts_cmp now/file_d_start thresholds are only judged when the field timestamp is >= 12h away from them (generated >= 24h away)")

	// ---- A: do_if direct
	nDirect := c.N(2400, 60000)
	t0 := time.Now()
	core.ParallelFor(nDirect, 16, func(i int) {
		runDirectBatch(c, c.SubSeed("direct", i), 14, 22, 3)
	})
	c.Extra("wall_direct_s", time.Since(t0).Seconds())
	t0 = time.Now()

	// ---- B + C: the real pipeline
	nMf := c.N(560, 11000)
	nDi := c.N(160, 3200)
	jobs := exampleJobs(c)
	for i := 0; i < nMf; i++ {
		jobs = append(jobs, makeMfJob(c.SubSeed("mf", i), fmt.Sprintf("mf-%d", i), 24, 30, 2))
	}
	for i := 0; i < nDi; i++ {
		jobs = append(jobs, makeDoifJob(c.SubSeed("doif-pipe", i), fmt.Sprintf("doif-%d", i), 16, 24, 2))
	}
	per := c.N(8, 20)
	c.Extra("wall_generate_pipeline_jobs_s", time.Since(t0).Seconds())
	t0 = time.Now()
	runPipeJobs(c, jobs, per, 8)
	c.Extra("wall_pipeline_s", time.Since(t0).Seconds())

	// ---- D: selector chains (chain.go): neighbouring actions with identical / nearly identical /
	// different selectors, earlier actions change the fields later selectors read
	t0 = time.Now()
	var chjobs []*pipeJob
	for i := 0; i < c.N(48, 960); i++ {
		chjobs = append(chjobs, makeChainMfJob(c.SubSeed("chain-mf", i), fmt.Sprintf("chain-mf-%d", i), 4, 12, 8))
	}
	for i := 0; i < c.N(32, 640); i++ {
		chjobs = append(chjobs, makeChainDoifJob(c.SubSeed("chain-doif", i), fmt.Sprintf("chain-doif-%d", i), 4, 12, 8))
	}
	runPipeJobs(c, chjobs, per, 8)
	c.Extra("wall_selector_chains_s", time.Since(t0).Seconds())

	// ---- E + F: the concurrent clause (conc.go)
	t0 = time.Now()
	nConc := c.N(300, 3000)
	core.ParallelFor(nConc, 2, func(i int) {
		runConcDirectBatch(c, c.SubSeed("conc-direct", i), c.N(20, 24))
	})
	c.Extra("wall_concurrent_direct_s", time.Since(t0).Seconds())
	t0 = time.Now()
	nConcPipe := c.N(64, 640)
	var cjobs []*concJob
	for i := 0; i < nConcPipe; i++ {
		kind := "doif"
		if i%4 == 3 {
			kind = "mf"
		}
		cjobs = append(cjobs, makeConcJob(c.SubSeed("conc-pipe", i), fmt.Sprintf("conc-%s-%d", kind, i), kind, 16, 60, 6))
	}
	runConcJobs(c, cjobs, c.N(4, 12), 2)
	c.Extra("wall_concurrent_pipeline_s", time.Since(t0).Seconds())

	flushSignatures(c)

	// ---- the run must have observed every behaviour class
	need := []string{"conc.direct.checks", "conc.direct.checkers_with_both_outcomes", "conc.pipeline.pairs.doif", "conc.pipeline.pairs.mf", "conc.pipeline.batches_really_parallel", "doif.direct.pairs", "mf.pipeline.pairs", "doif.pipeline.pairs", "doif.pipeline.applied", "doif.pipeline.skipped", "mf.cond.regexp", "mf.cond.values"}
	for _, op := range []string{"equal", "contains", "contains_any", "prefix", "suffix", "regex", "byte_len_cmp", "array_len_cmp", "int_val_cmp", "ts_cmp", "check_type"} {
		need = append(need, "doif.leaf."+op+".true", "doif.leaf."+op+".false")
	}
	for _, m := range []string{"and", "or", "and_prefix", "or_prefix"} {
		need = append(need, "mf."+m+".applied", "mf."+m+".skipped")
	}
	for _, k := range []string{"mf", "doif"} {
		need = append(need, "chain."+k+".applied", "chain."+k+".skipped", "chain."+k+".events_followed_to_the_output",
			"chain."+k+".identical_selector.decision_changed_by_previous_action",
			"chain."+k+".identical_selector.field_changed_by_previous_action_same_decision",
			"chain."+k+".identical_selector.previous_action_skipped",
			"chain."+k+".near_selector.decision_changed_by_previous_action",
			"chain."+k+".different_selector.decision_changed_by_previous_action")
	}
	for d := 0; d <= 4; d++ {
		need = append(need, fmt.Sprintf("doif.tree.depth%d.true", d), fmt.Sprintf("doif.tree.depth%d.false", d))
	}
	for _, n := range need {
		if c.Counter(n) == 0 {
			c.Fatal("behaviour class never observed: %s", n)
		}
	}
}
