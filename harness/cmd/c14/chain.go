package main

// D. Selector chains: every action decides on the event AS IT RECEIVES IT.
//
// A pipeline is a list of groups of 2-4 neighbouring actions whose selectors
// are identical, identical up to the order of values, nearly identical
// (match_invert / match_mode / one value / one condition changed; not(..) /
// and(..) around a do_if tree) or unrelated. Every action is the probe of
// pipe.go, which - when it is applied - changes the event the way modify /
// set / remove_fields style actions do: it sets, adds or removes exactly the
// fields the neighbouring selectors read (or, as a control, nothing / another
// field), then passes the event on.
//
// Oracle: the parent follows the event along the list on its own model: the
// state at action i is the generated event with the mutations of the actions
// that were OBSERVED to be applied before i. The naive evaluator (ref.go)
// decides action i's selector on that state; the probe must have been invoked
// iff it says true. The event at the output must be the model's last state
// (otherwise the model of the mutations is void and the batch is not judged).

import (
	"bytes"
	"encoding/json"
	"fmt"
	"math/rand"
	"os"
	"reflect"
	"strings"
	"sync/atomic"
	"time"

	"github.com/ozontech/file.d/pipeline/doif"
	insaneJSON "github.com/ozontech/insane-json"

	"verifharness/core"
)

// ---------------------------------------------------------------------
// child side: what an applied probe does to the event

type mutOp struct {
	Path []string `json:"path"`
	Del  bool     `json:"del,omitempty"`
	Str  *string  `json:"str,omitempty"`  // set to this text (MutateToString)
	JSON string   `json:"json,omitempty"` // set to this JSON value (MutateToJSON)
}

var curMuts atomic.Pointer[[][]mutOp]

// applyMutOp: "set" creates missing intermediate objects and is void when an
// existing intermediate value is not an object; "del" removes the field if it
// is there.
func applyMutOp(root *insaneJSON.Root, op *mutOp) {
	n := len(op.Path)
	if n == 0 || root == nil {
		return
	}
	node := root.Node
	for _, seg := range op.Path[:n-1] {
		if node == nil || !node.IsObject() {
			return
		}
		next := node.Dig(seg)
		if next == nil {
			if op.Del {
				return
			}
			next = node.AddFieldNoAlloc(root, seg).MutateToObject()
		}
		node = next
	}
	if node == nil || !node.IsObject() {
		return
	}
	last := op.Path[n-1]
	if op.Del {
		if t := node.Dig(last); t != nil {
			t.Suicide()
		}
		return
	}
	t := node.AddFieldNoAlloc(root, last)
	if op.Str != nil {
		t.MutateToString(*op.Str)
	} else {
		t.MutateToJSON(root, op.JSON)
	}
}

// ---------------------------------------------------------------------
// parent side: the same mutations on the model

func cloneVal(v *val) *val {
	if v == nil {
		return nil
	}
	c := *v
	c.keys = append([]string(nil), v.keys...)
	c.kids = make([]*val, len(v.kids))
	for i, k := range v.kids {
		c.kids[i] = cloneVal(k)
	}
	return &c
}

func delPath(root *val, path []string) {
	n := len(path)
	if n == 0 {
		return
	}
	parent := lookup(root, path[:n-1])
	if parent == nil || parent.k != kObj {
		return
	}
	for i, k := range parent.keys {
		if k == path[n-1] {
			parent.keys = append(parent.keys[:i], parent.keys[i+1:]...)
			parent.kids = append(parent.kids[:i], parent.kids[i+1:]...)
			return
		}
	}
}

type chainMut struct {
	op   mutOp
	v    *val   // value of a "set"
	what string // del | set-aimed | set-other, + "/unrelated" for a field the group's selector does not read
}

func applyModel(state *val, ms []chainMut) {
	for i := range ms {
		if ms[i].op.Del {
			delPath(state, ms[i].op.Path)
		} else {
			setPath(state, ms[i].op.Path, cloneVal(ms[i].v))
		}
	}
}

type chainAct struct {
	mf   *mfRule
	di   *rule
	perm bool   // rendered with permuted value / operand order
	rel  string // selector compared with the previous action's: first | identical | permuted | near | different
	muts []chainMut
	cfg  json.RawMessage
}

type chainCase struct {
	kind   string // mf | doif
	acts   []*chainAct
	events []*val
	evJSON []string
	now    time.Time
}

func setOp(path []string, v *val, what string) chainMut {
	m := chainMut{op: mutOp{Path: path}, what: what}
	// An empty text is set through MutateToJSON(`""`), not MutateToString(""):
	// the latter leaves a string node without a data pointer, which do_if `equal`
	// takes for null/absent (`equal [""]` false, `equal [null]` true) although the
	// event is written as "" and a fresh decode of it decides the opposite way -
	// a defect of the Checker on such nodes, not a matter of the chain.
	if v.k == kStr && v.s != "" {
		c := *v
		c.esc = 0 // written by the encoder of the real event, not by this model
		s := c.s
		m.op.Str = &s
		m.v = &c
	} else {
		m.v = v
		m.op.JSON = v.JSON()
	}
	return m
}

func mutKinds(ms []chainMut) string {
	if len(ms) == 0 {
		return "none"
	}
	parts := make([]string, len(ms))
	for i := range ms {
		parts[i] = ms[i].what
	}
	return strings.Join(parts, "+")
}

// ---- match_fields chains

func cloneMf(m *mfRule) *mfRule {
	c := &mfRule{mode: m.mode, invert: m.invert}
	for _, x := range m.conds {
		x.values = append([]string(nil), x.values...)
		c.conds = append(c.conds, x)
	}
	return c
}

func nearMf(rng *rand.Rand, voc *vocab, m *mfRule) *mfRule {
	c := cloneMf(m)
	switch rng.Intn(5) {
	case 0:
		if c.inverted() {
			c.invert = pick(rng, []int{0, 1})
		} else {
			c.invert = 2
		}
	case 1:
		c.mode = map[string]string{"and": "or", "or": "and", "and_prefix": "or_prefix", "or_prefix": "and_prefix"}[m.effMode()]
	case 2:
		c.mode = map[string]string{"and": "and_prefix", "or": "or_prefix", "and_prefix": "and", "or_prefix": "or"}[m.effMode()]
	case 3:
		if len(c.conds) > 1 {
			c.conds = c.conds[:len(c.conds)-1]
		} else {
			c.invert = 2 - c.invert
		}
	default:
		done := false
		for i := range c.conds {
			if !c.conds[i].isRe {
				w := mutate(rng, pick(rng, voc.strs))
				if c.conds[i].bare && strings.HasPrefix(w, "/") {
					w = "s" + w
				}
				c.conds[i].values[rng.Intn(len(c.conds[i].values))] = w
				done = true
				break
			}
		}
		if !done {
			c.invert = 2 - c.invert
		}
	}
	return c
}

// genMutsMf: what an applied action does to the fields the group's selector reads.
func genMutsMf(rng *rand.Rand, voc *vocab, base *mfRule) []chainMut {
	if rng.Intn(100) < 25 || len(base.conds) == 0 {
		if rng.Intn(2) == 0 {
			return nil
		}
		return []chainMut{setOp([]string{"chain_marker"}, genString(rng, voc), "set-other/unrelated")}
	}
	var out []chainMut
	n := 1 + rng.Intn(2)
	for i := 0; i < n; i++ {
		c := &base.conds[rng.Intn(len(base.conds))]
		path := c.path
		switch x := rng.Intn(100); {
		case x < 28:
			if len(path) > 1 && rng.Intn(3) == 0 {
				path = path[:1] // the parent object goes, and the field with it
			}
			out = append(out, chainMut{op: mutOp{Path: path, Del: true}, what: "del"})
		case x < 64:
			out = append(out, setOp(path, mfTargetValue(rng, voc, c), "set-aimed"))
		case x < 92:
			out = append(out, setOp(path, genValue(rng, voc), "set-other"))
		default:
			out = append(out, setOp(pick(rng, voc.paths), genValue(rng, voc), "set-other/unrelated"))
		}
	}
	return out
}

func relOf(prev, cur json.RawMessage, label string) string {
	if prev == nil {
		return "first"
	}
	if bytes.Equal(prev, cur) {
		return "identical"
	}
	if label == "identical" {
		return "different"
	}
	return label
}

func makeChainMfJob(seed int64, id string, nGroups, nGeneric, perGroup int) *pipeJob {
	rng := rand.New(rand.NewSource(seed))
	voc := genVocab(rng)
	cc := &chainCase{kind: "mf"}
	var bases []*mfRule
	var all []*mfRule
	for g := 0; g < nGroups; g++ {
		base := genMfRule(rng, voc)
		bases = append(bases, base)
		size := 2 + rng.Intn(3)
		for k := 0; k < size; k++ {
			a := &chainAct{mf: base, rel: "different"}
			if k > 0 {
				switch x := rng.Intn(100); {
				case x < 58:
					a.rel = "identical"
				case x < 68:
					a.rel, a.perm = "permuted", true
				case x < 88:
					a.rel, a.mf = "near", nearMf(rng, voc, base)
				default:
					a.rel, a.mf = "different", genMfRule(rng, voc)
				}
			}
			a.muts = genMutsMf(rng, voc, base)
			all = append(all, a.mf)
			cc.acts = append(cc.acts, a)
		}
	}
	voc.indexMfRules(all)
	for i := 0; i < nGeneric; i++ {
		cc.events = append(cc.events, genMfEvent(rng, voc, nil))
	}
	for _, b := range bases {
		for i := 0; i < perGroup; i++ {
			cc.events = append(cc.events, genMfEvent(rng, voc, b))
		}
	}
	job := &pipeJob{kind: "chain-mf", ch: cc}
	job.batch = pipeBatch{ID: id, Parallel: rng.Intn(2) == 0, Final: true}
	var prev json.RawMessage
	for _, a := range cc.acts {
		var perm func(int) []int
		if a.perm {
			perm = permFn(rng)
		}
		a.cfg, _ = json.Marshal(a.mf.actionFields(perm))
		a.rel = relOf(prev, a.cfg, a.rel)
		prev = a.cfg
	}
	finishChainJob(rng, job)
	return job
}

func finishChainJob(rng *rand.Rand, job *pipeJob) {
	cc := job.ch
	for _, a := range cc.acts {
		job.batch.Actions = append(job.batch.Actions, a.cfg)
		ops := make([]mutOp, 0, len(a.muts))
		for i := range a.muts {
			ops = append(ops, a.muts[i].op)
		}
		job.batch.Muts = append(job.batch.Muts, ops)
	}
	for _, e := range cc.events {
		cc.evJSON = append(cc.evJSON, e.JSON())
	}
	job.batch.Events = cc.evJSON
	job.batch.Order2 = rng.Perm(len(cc.events))
}

// ---- do_if chains

func cloneRule(r *rule) *rule {
	c := *r
	c.path = append([]string(nil), r.path...)
	if r.path == nil {
		c.path = nil
	}
	c.values = append([]*string(nil), r.values...)
	c.kids = nil
	for _, k := range r.kids {
		c.kids = append(c.kids, cloneRule(k))
	}
	return &c
}

func nearRule(rng *rand.Rand, voc *vocab, r *rule) *rule {
	switch rng.Intn(4) {
	case 0:
		return &rule{op: "not", kids: []*rule{r}}
	case 1:
		return &rule{op: pick(rng, []string{"and", "or"}), kids: []*rule{r}}
	case 2:
		return &rule{op: "and", kids: []*rule{r, genLeaf(rng, voc, false)}}
	}
	c := cloneRule(r)
	ls := c.leaves(nil)
	l := ls[rng.Intn(len(ls))]
	switch {
	case l.cmp != "":
		l.cmp = pick(rng, cmpOps)
		if l.op != "ts_cmp" {
			l.n += rng.Intn(3) - 1
			if l.n < 0 {
				l.n = 0
			}
		}
	case l.isFieldOp() && l.op != "regex" && l.op != "contains_any":
		l.values[rng.Intn(len(l.values))] = sp(mutate(rng, pick(rng, voc.strs)))
	case l.isFieldOp():
		l.cs = (l.cs + 1) % 3
	default:
		l.values = append(l.values, sp(pick(rng, typeNames)))
	}
	return c
}

func genMutsDoif(rng *rand.Rand, voc *vocab, base *rule, now time.Time) []chainMut {
	var ls []*rule
	for _, l := range base.leaves(nil) {
		if len(l.path) > 0 {
			ls = append(ls, l)
		}
	}
	if rng.Intn(100) < 25 || len(ls) == 0 {
		if rng.Intn(2) == 0 {
			return nil
		}
		return []chainMut{setOp([]string{"chain_marker"}, genString(rng, voc), "set-other/unrelated")}
	}
	var out []chainMut
	n := 1 + rng.Intn(2)
	for i := 0; i < n; i++ {
		l := ls[rng.Intn(len(ls))]
		path := l.path
		switch x := rng.Intn(100); {
		case x < 28:
			if len(path) > 1 && rng.Intn(3) == 0 {
				path = path[:1]
			}
			out = append(out, chainMut{op: mutOp{Path: path, Del: true}, what: "del"})
		case x < 64:
			out = append(out, setOp(path, targetValue(rng, voc, l, now), "set-aimed"))
		case x < 92:
			out = append(out, setOp(path, genValue(rng, voc), "set-other"))
		default:
			out = append(out, setOp(pick(rng, voc.paths), genValue(rng, voc), "set-other/unrelated"))
		}
	}
	return out
}

func makeChainDoifJob(seed int64, id string, nGroups, nGeneric, perGroup int) *pipeJob {
	rng := rand.New(rand.NewSource(seed))
	voc := genVocab(rng)
	cc := &chainCase{kind: "doif", now: time.Now()}
	var bases []*rule
	var all []*rule
	type pending struct {
		a    *chainAct
		base *rule
	}
	var pend []pending
	for g := 0; g < nGroups; g++ {
		base := genRule(rng, voc, rng.Intn(3), false)
		bases = append(bases, base)
		size := 2 + rng.Intn(3)
		for k := 0; k < size; k++ {
			a := &chainAct{di: base, rel: "different"}
			if k > 0 {
				switch x := rng.Intn(100); {
				case x < 58:
					a.rel = "identical"
				case x < 68:
					a.rel, a.perm = "permuted", true
				case x < 88:
					a.rel, a.di = "near", nearRule(rng, voc, base)
				default:
					a.rel, a.di = "different", genRule(rng, voc, rng.Intn(3), false)
				}
			}
			all = append(all, a.di)
			cc.acts = append(cc.acts, a)
			pend = append(pend, pending{a, base})
		}
	}
	voc.indexRules(all)
	for _, p := range pend {
		p.a.muts = genMutsDoif(rng, voc, p.base, cc.now)
	}
	for i := 0; i < nGeneric; i++ {
		cc.events = append(cc.events, genEvent(rng, voc, nil, cc.now))
	}
	for _, b := range bases {
		ls := b.leaves(nil)
		for i := 0; i < perGroup; i++ {
			cc.events = append(cc.events, genEvent(rng, voc, ls, cc.now))
		}
	}
	job := &pipeJob{kind: "chain-doif", ch: cc}
	job.batch = pipeBatch{ID: id, Parallel: rng.Intn(2) == 0, Final: true}
	var prev json.RawMessage
	for _, a := range cc.acts {
		var perm func(int) []int
		if a.perm {
			perm = permFn(rng)
		}
		a.cfg, _ = json.Marshal(map[string]any{"do_if": a.di.toMap(perm)})
		a.rel = relOf(prev, a.cfg, a.rel)
		prev = a.cfg
	}
	finishChainJob(rng, job)
	return job
}

// ---------------------------------------------------------------------
// the oracle

func sameJSONValue(a, b string) bool {
	dec := func(s string) (any, bool) {
		d := json.NewDecoder(strings.NewReader(s))
		d.UseNumber()
		var v any
		if err := d.Decode(&v); err != nil {
			return nil, false
		}
		return v, true
	}
	va, ok1 := dec(a)
	vb, ok2 := dec(b)
	return ok1 && ok2 && reflect.DeepEqual(va, vb)
}

// readsChanged: did the mutations touch a field (or a parent / child of a
// field) the selector reads?
func pathsOverlap(a, b []string) bool {
	n := len(a)
	if len(b) < n {
		n = len(b)
	}
	for i := 0; i < n; i++ {
		if a[i] != b[i] {
			return false
		}
	}
	return true
}

func (a *chainAct) reads() [][]string {
	var out [][]string
	if a.mf != nil {
		for i := range a.mf.conds {
			out = append(out, a.mf.conds[i].path)
		}
		return out
	}
	for _, l := range a.di.leaves(nil) {
		out = append(out, l.path)
	}
	return out
}

func touches(ms []chainMut, reads [][]string) bool {
	for i := range ms {
		for _, r := range reads {
			if pathsOverlap(ms[i].op.Path, r) {
				return true
			}
		}
	}
	return false
}

func judgeChain(c *core.Ctx, job *pipeJob, res *pipeBatchResult) {
	st := newStats()
	defer st.flush(c)
	cc := job.ch
	kind := cc.kind
	nowNs := cc.now.UnixNano()
	pre := "chain." + kind + "."

	var chks []*doif.Checker
	if kind == "doif" {
		for _, a := range cc.acts {
			chk, _, err := buildChecker(a.di.toMap(nil))
			if err != nil {
				chk = nil // the child would have reported it (SetupActions)
			}
			chks = append(chks, chk)
		}
	}
	eval := func(a *chainAct, state *val) tri {
		if a.mf != nil {
			_, f := evalMf(a.mf, state)
			return f
		}
		return evalRule(a.di, state, nowNs)
	}
	shapes := make([]string, len(cc.acts))
	reads := make([][][]string, len(cc.acts))
	for i, a := range cc.acts {
		if a.mf != nil {
			shapes[i] = a.mf.shape()
		} else {
			shapes[i] = a.di.shape()
		}
		reads[i] = a.reads()
	}

	for pass := 0; pass < 2; pass++ {
		if len(res.Final[pass]) != len(cc.events) {
			c.Inconclusive("chain: the child returned no output events")
			return
		}
		for ei, ev := range cc.events {
			state := cloneVal(ev)
			var before *val // the event as the previous action received it
			prevApplied := false
			type finding struct {
				ai         int
				want       tri
				got, stale bool
				stateJSON  string
			}
			var finds []finding
			for ai, a := range cc.acts {
				g := res.Hits[pass][ai][ei]
				got := g != '0'
				if g == '2' {
					violate(c, "pipeline: action invoked more than once for one event", "probe Do called more than once",
						map[string]any{"action": string(a.cfg), "event": cc.evJSON[ei], "chain": true})
				}
				want := eval(a, state)
				st.evals++
				st.count(pre+"pairs", 1)
				judged := want != triE
				if judged && kind == "doif" {
					// what the real Checker says on a fresh decode of this state; where it
					// deviates from the documentation itself (parts A and C report that),
					// the pair tells nothing about the chain
					if chks[ai] == nil {
						judged = false
					} else if direct, pan := realCheckFresh(chks[ai], state.JSON()); pan != "" || direct != (want == triT) {
						judged = false
						st.count(pre+"checker_itself_deviates_not_judged", 1)
					}
				}
				if !judged {
					st.count(pre+"undetermined_not_judged", 1)
				} else {
					wantBefore := triE
					if before != nil {
						wantBefore = eval(a, before)
					}
					changed := prevApplied && wantBefore != triE && wantBefore != want
					if want == triT {
						st.count(pre+"applied", 1)
					} else {
						st.count(pre+"skipped", 1)
					}
					if ai > 0 {
						switch {
						case changed:
							st.count(pre+a.rel+"_selector.decision_changed_by_previous_action", 1)
						case prevApplied && touches(cc.acts[ai-1].muts, reads[ai]):
							st.count(pre+a.rel+"_selector.field_changed_by_previous_action_same_decision", 1)
						case prevApplied:
							st.count(pre+a.rel+"_selector.previous_action_applied_other_fields", 1)
						default:
							st.count(pre+a.rel+"_selector.previous_action_skipped", 1)
						}
						st.fp("chain", kind, a.rel, shapes[ai], mutKinds(cc.acts[ai-1].muts), fmt.Sprint(prevApplied, changed), want.String())
					}
					if got != (want == triT) {
						finds = append(finds, finding{ai, want, got, changed && got == (wantBefore == triT), state.JSON()})
					}
				}
				before = nil
				prevApplied = got
				if got {
					before = cloneVal(state)
					applyModel(state, a.muts)
				}
			}
			// the model of the mutations must describe the real event
			if !sameJSONValue(state.JSON(), res.Final[pass][ei]) {
				st.count(pre+"model_of_mutations_diverged", 1)
				c.Inconclusive("chain: the event at the output differs from the modelled one (mutation model void)")
				if path := os.Getenv("VERIF_C14_DUMP"); path != "" {
					dumpLine(path, map[string]any{"chain_model_diverged": true, "event": cc.evJSON[ei], "model": state.JSON(), "real": res.Final[pass][ei], "actions": job.batch.Actions, "muts": job.batch.Muts, "hits": hitsColumn(res, pass, ei)})
				}
				continue
			}
			st.count(pre+"events_followed_to_the_output", 1)
			for _, f := range finds {
				a := cc.acts[f.ai]
				verb := "skipped although its own selector is true"
				if f.got {
					verb = "applied although its own selector is false"
				}
				sig := fmt.Sprintf("selector chain (%s): action %s on the event as it receives it; selector vs previous action: %s; the decision is the one for the event before the previous action changed it: %v", selKind(kind), verb, a.rel, f.stale)
				w := map[string]any{"via": "pipeline-chain", "action_index": f.ai, "action": string(a.cfg), "event_at_input": cc.evJSON[ei], "event_as_received_by_the_action": f.stateJSON,
					"documented": f.want.String(), "invoked": f.got, "pass": pass, "actions": job.batch.Actions, "mutations": job.batch.Muts, "invoked_per_action": hitsColumn(res, pass, ei)}
				if f.ai > 0 {
					w["previous_action"] = string(cc.acts[f.ai-1].cfg)
					w["previous_action_mutations"] = job.batch.Muts[f.ai-1]
				}
				violate(c, sig, fmt.Sprintf("action #%d %s received %s: documented %v, probe invoked=%v", f.ai, a.cfg, core.Trunc(f.stateJSON, 300), f.want, f.got), w)
			}
		}
	}
	if len(cc.acts) > 1 && len(cc.events) > 0 {
		c.Sample(map[string]any{"part": "selector-chain-" + kind, "actions": job.batch.Actions[:2], "mutations": job.batch.Muts[:2], "event": cc.evJSON[0], "invoked_per_action": hitsColumn(res, 0, 0), "at_output": res.Final[0][0]})
	}
}

func selKind(kind string) string {
	if kind == "mf" {
		return "match_fields"
	}
	return "do_if"
}

func hitsColumn(res *pipeBatchResult, pass, ei int) string {
	b := make([]byte, len(res.Hits[pass]))
	for ai := range res.Hits[pass] {
		b[ai] = res.Hits[pass][ai][ei]
	}
	return string(b)
}

func dumpLine(path string, v any) {
	if f, err := os.OpenFile(path, os.O_CREATE|os.O_WRONLY|os.O_APPEND, 0o644); err == nil {
		b, _ := json.Marshal(v)
		sigMu.Lock()
		_, _ = f.Write(append(b, '\n'))
		sigMu.Unlock()
		f.Close()
	}
}
