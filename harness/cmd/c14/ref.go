package main

// The naive evaluator: the documented meaning of do_if trees
// (pipeline/doif/README.md) and of match_fields / match_mode / match_invert
// (pipeline/README.md "Match modes", doc comments in pipeline/plugin.go),
// written over the Go event tree. No length bucketing, no truncation, whole
// strings are lower-cased, every operand is evaluated, value order is
// irrelevant by construction (any/all over the list).
//
// Results are three-valued: where the documentation does not determine the
// outcome (e.g. a `contains ""` test on an absent field) the evaluator
// answers `either` and the pair is not judged.

import (
	"regexp"
	"strconv"
	"strings"
	"sync"
	"time"
)

type tri int8

const (
	triF tri = iota
	triT
	triE // not determined by the documentation
)

func (t tri) String() string { return [...]string{"false", "true", "either"}[t] }

func b2t(b bool) tri {
	if b {
		return triT
	}
	return triF
}

func triNot(a tri) tri {
	switch a {
	case triT:
		return triF
	case triF:
		return triT
	}
	return triE
}

// triAll / triAny evaluate every operand (no short-circuit).
func triAll(xs []tri) tri {
	res := triT
	for _, x := range xs {
		if x == triF {
			res = triF
		}
	}
	if res == triF {
		return triF
	}
	for _, x := range xs {
		if x == triE {
			return triE
		}
	}
	return triT
}

func triAny(xs []tri) tri {
	for _, x := range xs {
		if x == triT {
			return triT
		}
	}
	for _, x := range xs {
		if x == triE {
			return triE
		}
	}
	return triF
}

func cmpInt(op string, lhs, rhs int64) bool {
	switch op {
	case "lt":
		return lhs < rhs
	case "le":
		return lhs <= rhs
	case "gt":
		return lhs > rhs
	case "ge":
		return lhs >= rhs
	case "eq":
		return lhs == rhs
	case "ne":
		return lhs != rhs
	}
	panic("cmpInt: bad op " + op)
}

var reCache sync.Map

func mustRe(p string) *regexp.Regexp {
	if re, ok := reCache.Load(p); ok {
		return re.(*regexp.Regexp)
	}
	re := regexp.MustCompile(p)
	reCache.Store(p, re)
	return re
}

// scalarBytes is the "byte representation of the value" of a scalar.
func scalarBytes(v *val) string {
	switch v.k {
	case kStr, kNum, kBool:
		return v.s
	}
	panic("scalarBytes: not a scalar with bytes")
}

// evalFieldOp: README "Field op node" + "Field operations".
func evalFieldOp(r *rule, v *val) tri {
	k := v.kindOf()
	if k == kObj || k == kArr {
		// "Array and object values are considered as not matched"
		return triF
	}
	ci := !r.caseSensitive()

	if k == kAbsent || k == kNull {
		// Only `equal` with a null value is pinned down (a null in the values
		// list means "field is null or absent"; null differs from ""). Whether
		// an absent field behaves like an empty text for the other tests is
		// not documented: if the answer for empty text would be "matched" the
		// outcome is left open, otherwise it is "not matched" on any reading.
		if r.op == "equal" {
			for _, p := range r.values {
				if p == nil {
					return triT
				}
			}
		}
		emptyWould := evalFieldOpText(r, "", ci)
		if emptyWould == triF {
			return triF
		}
		return triE
	}
	return evalFieldOpText(r, scalarBytes(v), ci)
}

func evalFieldOpText(r *rule, data string, ci bool) tri {
	field := data
	if ci {
		field = strings.ToLower(data)
	}
	norm := func(s string) string {
		if ci {
			return strings.ToLower(s)
		}
		return s
	}
	switch r.op {
	case "equal":
		for _, p := range r.values {
			if p != nil && field == norm(*p) {
				return triT
			}
		}
		return triF
	case "contains":
		for _, p := range r.values {
			if p != nil && strings.Contains(field, norm(*p)) {
				return triT
			}
		}
		return triF
	case "prefix":
		for _, p := range r.values {
			if p != nil && strings.HasPrefix(field, norm(*p)) {
				return triT
			}
		}
		return triF
	case "suffix":
		for _, p := range r.values {
			if p != nil && strings.HasSuffix(field, norm(*p)) {
				return triT
			}
		}
		return triF
	case "contains_any":
		// "contains any of the value characters"
		for _, ch := range norm(*r.values[0]) {
			if strings.ContainsRune(field, ch) {
				return triT
			}
		}
		return triF
	case "regex":
		// "matches any regex from the values list"
		plain, lowered, insens := false, false, false
		for _, p := range r.values {
			if mustRe(*p).MatchString(data) {
				plain = true
			}
			if ci {
				if mustRe(*p).MatchString(strings.ToLower(data)) {
					lowered = true
				}
				if mustRe("(?i)" + *p).MatchString(data) {
					insens = true
				}
			}
		}
		if !ci {
			return b2t(plain)
		}
		// case_sensitive=false on a regex: the documented readings are "the
		// field value is converted to lower letters" and a case-insensitive
		// match. Where they agree that is the answer, otherwise open.
		if lowered == insens {
			return b2t(lowered)
		}
		return triE
	}
	panic("evalFieldOpText: bad op " + r.op)
}

// subtreeLen is the number of bytes of the compact JSON text of a value, or
// -1 when a string in it is written with escapes (then "length in bytes" is
// not determined; the code comments in len_cmp_op.go say so too).
func subtreeLen(v *val, top bool) int {
	switch v.k {
	case kNull:
		return 4
	case kBool, kNum:
		return len(v.s)
	case kStr:
		if v.writtenEscaped() {
			return -1
		}
		return len(v.s) + 2
	case kArr:
		n := 2
		for i, c := range v.kids {
			l := subtreeLen(c, false)
			if l < 0 {
				return -1
			}
			n += l
			if i > 0 {
				n++
			}
		}
		return n
	case kObj:
		n := 2
		for i, c := range v.kids {
			if needsEscape(v.keys[i]) || (v.esc != 0 && string(appendJSONString(nil, v.keys[i], v.esc)) != `"`+v.keys[i]+`"`) {
				return -1
			}
			l := subtreeLen(c, false)
			if l < 0 {
				return -1
			}
			n += len(v.keys[i]) + 2 + 1 + l
			if i > 0 {
				n++
			}
		}
		return n
	}
	panic("subtreeLen")
}

var reCanonInt = regexp.MustCompile(`^-?(0|[1-9][0-9]*)$`)
var reNumberish = regexp.MustCompile(`^[ \t]*[+-]?[0-9][0-9_.,eE+-]*[ \t]*$`)
var reJSONNumber = regexp.MustCompile(`^-?(0|[1-9][0-9]*)(\.[0-9]+)?([eE][+-]?[0-9]+)?$`)

func evalLenCmp(r *rule, v *val) tri {
	k := v.kindOf()
	switch r.op {
	case "byte_len_cmp":
		switch k {
		case kAbsent:
			return triF
		case kStr:
			// {"pod_id":""} has length 0: the text between the quotes
			return b2t(cmpInt(r.cmp, int64(len(v.s)), int64(r.n)))
		case kNum, kBool:
			// {"pod_id":123} has length 3: the literal
			return b2t(cmpInt(r.cmp, int64(len(v.s)), int64(r.n)))
		case kNull:
			a, b := cmpInt(r.cmp, 4, int64(r.n)), cmpInt(r.cmp, 0, int64(r.n))
			if a == b {
				return b2t(a)
			}
			return triE
		default:
			l := subtreeLen(v, true)
			if l < 0 {
				return triE
			}
			return b2t(cmpInt(r.cmp, int64(l), int64(r.n)))
		}
	case "array_len_cmp":
		if k != kArr {
			return triF // not an array / not found: not matched
		}
		return b2t(cmpInt(r.cmp, int64(len(v.kids)), int64(r.n)))
	case "int_val_cmp":
		switch k {
		case kNum, kStr:
			s := v.s
			if reCanonInt.MatchString(s) && s != "-0" {
				x, err := strconv.ParseInt(s, 10, 64)
				if err != nil {
					return triE // beyond int64
				}
				return b2t(cmpInt(r.cmp, x, int64(r.n)))
			}
			if k == kNum || reJSONNumber.MatchString(s) || reNumberish.MatchString(s) {
				return triE // fractions, exponents, -0, leading zeros or sign: not documented
			}
			return triF // text that is not a number has no integer value
		default:
			return triF
		}
	}
	panic("evalLenCmp: bad op " + r.op)
}

// documented aliases (pipeline/README.md "Datetime parse formats")
var tsAliases = map[string]string{
	"ansic":          "Mon Jan _2 15:04:05 2006",
	"unixdate":       "Mon Jan _2 15:04:05 MST 2006",
	"rubydate":       "Mon Jan 02 15:04:05 -0700 2006",
	"rfc822":         "02 Jan 06 15:04 MST",
	"rfc822z":        "02 Jan 06 15:04 -0700",
	"rfc850":         "Monday, 02-Jan-06 15:04:05 MST",
	"rfc1123":        "Mon, 02 Jan 2006 15:04:05 MST",
	"rfc1123z":       "Mon, 02 Jan 2006 15:04:05 -0700",
	"rfc3339":        "2006-01-02T15:04:05Z07:00",
	"rfc3339nano":    "2006-01-02T15:04:05.999999999Z07:00",
	"kitchen":        "3:04PM",
	"stamp":          "Jan _2 15:04:05",
	"stampmilli":     "Jan _2 15:04:05.000",
	"stampmicro":     "Jan _2 15:04:05.000000",
	"stampnano":      "Jan _2 15:04:05.000000000",
	"nginx_errorlog": "2006/01/02 15:04:05",
}

var reDigits = regexp.MustCompile(`^-?[0-9]{1,18}$`)
var reUnixFloat = regexp.MustCompile(`^([0-9]{1,15})\.([0-9]{1,9})$`)

// refParseTime returns the instant (unix nanoseconds) a field text denotes in
// the given format, ok=false when it is not parsable; open=true when the
// documentation does not say.
func refParseTime(format, s string) (ns int64, ok bool, open bool) {
	if format == "" {
		format = "rfc3339nano"
	}
	switch format {
	case "unixtime", "unixtimemilli", "unixtimemicro", "unixtimenano":
		if reDigits.MatchString(s) {
			x, _ := strconv.ParseInt(s, 10, 64)
			switch format {
			case "unixtime":
				if x > 9e9 || x < -9e9 {
					return 0, false, true
				}
				return x * 1e9, true, false
			case "unixtimemilli":
				if x > 9e12 || x < -9e12 {
					return 0, false, true
				}
				return x * 1e6, true, false
			case "unixtimemicro":
				if x > 9e15 || x < -9e15 {
					return 0, false, true
				}
				return x * 1e3, true, false
			default:
				return x, true, false
			}
		}
		if m := reUnixFloat.FindStringSubmatch(s); m != nil {
			// "its whole part is always considered as seconds and the
			// fractional part is fractions of a second"
			sec, _ := strconv.ParseInt(m[1], 10, 64)
			frac := m[2]
			for len(frac) < 9 {
				frac += "0"
			}
			nsec, _ := strconv.ParseInt(frac, 10, 64)
			if sec > 9e9 {
				return 0, false, true
			}
			return sec*1e9 + nsec, true, false
		}
		// anything else containing only number-ish characters is left open
		if s != "" && strings.Trim(s, "+-0123456789.eE_xXabcdefABCDEF ") == "" {
			return 0, false, true
		}
		return 0, false, false
	}
	layout, isAlias := tsAliases[format]
	if !isAlias {
		layout = format
	}
	t, err := time.Parse(layout, s) // "Field will be parsed with time.Parse"
	if err != nil {
		return 0, false, false
	}
	if y := t.Year(); y < 1700 || y > 2250 {
		return 0, false, true // outside the range of nanosecond timestamps
	}
	return t.UnixNano(), true, false
}

// evalTsCmp: README "Timestamp comparison op node". nowNs is the wall clock
// of the evaluation; the generator keeps every field timestamp at least one
// day away from any now-based threshold, so its exact value is irrelevant.
func evalTsCmp(r *rule, v *val, nowNs int64) tri {
	if v.kindOf() != kStr {
		return triF // no field / field is not string
	}
	ns, ok, open := refParseTime(r.format, v.s)
	if open {
		return triE
	}
	if !ok {
		return triF // not parsable
	}
	var thr int64
	switch r.value {
	case "now":
		intv := 10 * time.Second // default update_interval
		if r.intv != "" {
			d, err := time.ParseDuration(r.intv)
			if err != nil {
				panic(err)
			}
			intv = d
		}
		thr = nowNs + int64(intv) // "now + value_shift + update_interval"
	case "file_d_start":
		thr = nowNs
	default:
		t, err := time.Parse(time.RFC3339Nano, r.value)
		if err != nil {
			panic(err)
		}
		thr = t.UnixNano()
	}
	if r.shift != "" {
		d, err := time.ParseDuration(r.shift)
		if err != nil {
			panic(err)
		}
		thr += int64(d)
	}
	if r.value == "now" || r.value == "file_d_start" {
		diff := ns - thr
		if diff < 0 {
			diff = -diff
		}
		if diff < int64(12*time.Hour) {
			return triE // too close to the wall clock to judge
		}
	}
	return b2t(cmpInt(r.cmp, ns, thr))
}

// evalCheckType: README "Check type op node".
func evalCheckType(r *rule, v *val) tri {
	k := v.kindOf()
	for _, p := range r.values {
		var want kind
		switch *p {
		case "object", "obj":
			want = kObj
		case "array", "arr":
			want = kArr
		case "number", "num":
			want = kNum
		case "string", "str":
			want = kStr
		case "null":
			want = kNull
		case "nil":
			want = kAbsent
		default:
			panic("evalCheckType: bad type name " + *p)
		}
		if k == want {
			return triT
		}
	}
	return triF
}

func evalLeaf(r *rule, root *val, nowNs int64) tri {
	v := lookup(root, r.path)
	switch {
	case r.isFieldOp():
		return evalFieldOp(r, v)
	case r.op == "check_type":
		return evalCheckType(r, v)
	case r.op == "ts_cmp":
		return evalTsCmp(r, v, nowNs)
	default:
		return evalLenCmp(r, v)
	}
}

func evalRule(r *rule, root *val, nowNs int64) tri {
	if !r.isLogical() {
		return evalLeaf(r, root, nowNs)
	}
	xs := make([]tri, len(r.kids))
	for i, k := range r.kids {
		xs[i] = evalRule(k, root, nowNs)
	}
	switch r.op {
	case "and":
		return triAll(xs)
	case "or":
		return triAny(xs)
	case "not":
		return triNot(xs[0])
	}
	panic("evalRule: bad op")
}

// ---------------------------------------------------------------------
// match_fields

// evalMfCond: one field of match_fields against the event. In the *_prefix
// modes listed values are prefixes, otherwise exact values; /re/ is a regexp
// in every mode.
func evalMfCond(c *mfCond, prefix bool, root *val) tri {
	v := lookup(root, c.path)
	switch v.kindOf() {
	case kAbsent:
		return triF // nothing to compare with
	case kStr, kNum:
		// numbers are compared by their text
	default:
		return triE // null / bool / object / array: not documented
	}
	text := v.s
	if c.isRe {
		return b2t(mustRe(c.regex).MatchString(text))
	}
	for _, want := range c.values {
		if prefix {
			if strings.HasPrefix(text, want) {
				return triT
			}
		} else if text == want {
			return triT
		}
	}
	return triF
}

// evalMf returns the decision before inversion and the final one.
func evalMf(m *mfRule, root *val) (pre, final tri) {
	mode := m.effMode()
	prefix := mode == "and_prefix" || mode == "or_prefix"
	xs := make([]tri, len(m.conds))
	for i := range m.conds {
		xs[i] = evalMfCond(&m.conds[i], prefix, root)
	}
	if mode == "and" || mode == "and_prefix" {
		pre = triAll(xs)
	} else {
		pre = triAny(xs)
	}
	final = pre
	if m.inverted() {
		final = triNot(pre)
	}
	return pre, final
}
