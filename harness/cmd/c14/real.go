package main

// Thin wrappers around the real code under observation.

import (
	"encoding/json"
	"fmt"

	simplejson "github.com/bitly/go-simplejson"
	"github.com/ozontech/file.d/pipeline/doif"
	insaneJSON "github.com/ozontech/insane-json"
)

func jsonMarshal(v any) ([]byte, error) { return json.Marshal(v) }

// buildChecker goes the way the configuration goes in fd: JSON text ->
// simplejson (numbers are json.Number) -> map -> doif.NewFromMap.
func buildChecker(m map[string]any) (chk *doif.Checker, cfgJSON string, err error) {
	b, err := json.Marshal(m)
	if err != nil {
		return nil, "", err
	}
	cfgJSON = string(b)
	defer func() {
		if p := recover(); p != nil {
			err = fmt.Errorf("PANIC in doif.NewFromMap: %v", p)
		}
	}()
	j, err := simplejson.NewJson(b)
	if err != nil {
		return nil, cfgJSON, err
	}
	chk, err = doif.NewFromMap(j.MustMap())
	return chk, cfgJSON, err
}

// realCheck evaluates the real checker on a decoded root; a panic is
// returned as an error text.
func realCheck(chk *doif.Checker, root *insaneJSON.Root) (res bool, panicked string) {
	defer func() {
		if p := recover(); p != nil {
			panicked = fmt.Sprint(p)
		}
	}()
	return chk.Check(doif.NewEventData(root)), ""
}

// realCheckFresh decodes the event into a fresh root and evaluates once.
func realCheckFresh(chk *doif.Checker, evJSON string) (bool, string) {
	root := insaneJSON.Spawn()
	defer insaneJSON.Release(root)
	if err := root.DecodeString(evJSON); err != nil {
		return false, "decode: " + err.Error()
	}
	return realCheck(chk, root)
}
