package main

// Concurrent clause: one *doif.Checker (one set of match conditions) is shared
// by every processor of a pipeline, so its decisions must not depend on what
// other event is being evaluated at the same moment.
//
//	E. direct: a Checker is built once, its decisions on a set of decoded
//	   events are taken sequentially, then 2..8 goroutines evaluate the same
//	   Checker at the same time, each over its own events (its own roots), for
//	   many rounds; every decision must equal the sequential one.
//	F. real path: the same actions (do_if / match_fields) are installed in a
//	   single-processor pipeline (events fed one after another) and in a
//	   pipeline with many processors fed by several goroutines through several
//	   sources (= streams), several rounds; per (action, event) the probe must
//	   be invoked in the parallel pipeline exactly when it was in the
//	   sequential one.
//
// The binary is not built with the race detector (run.sh decides that), so
// only decisions are compared.

import (
	"encoding/json"
	"fmt"
	"math/rand"
	"sort"
	"strings"
	"sync"
	"sync/atomic"
	"time"

	"github.com/ozontech/file.d/pipeline"
	"github.com/ozontech/file.d/pipeline/doif"
	insaneJSON "github.com/ozontech/insane-json"

	"verifharness/core"
)

func leafDesc(l *rule) string {
	if l.isFieldOp() {
		return fmt.Sprintf("op=%s case_sensitive=%v", l.op, l.caseSensitive())
	}
	if l.op == "ts_cmp" {
		mode := "const"
		if l.value == "now" || l.value == "file_d_start" {
			mode = l.value
		}
		return "op=ts_cmp value=" + mode
	}
	return "op=" + l.op
}

func treeDesc(r *rule) string {
	if !r.isLogical() {
		return leafDesc(r)
	}
	set := map[string]struct{}{}
	for _, l := range r.leaves(nil) {
		set[leafDesc(l)] = struct{}{}
	}
	parts := make([]string, 0, len(set))
	for k := range set {
		parts = append(parts, k)
	}
	sort.Strings(parts)
	return "tree[" + strings.Join(parts, "; ") + "]"
}

type concChecker struct {
	r   *rule
	chk *doif.Checker
	cfg string
}

// runConcDirectBatch is part E for one batch.
func runConcDirectBatch(c *core.Ctx, seed int64, rounds int) {
	rng := rand.New(rand.NewSource(seed))
	st := newStats()
	defer st.flush(c)

	voc := genVocab(rng)
	voc.longText = true
	voc.ciBias = true
	now := time.Now()
	var rules []*rule
	for i := 0; i < 8; i++ {
		rules = append(rules, genRule(rng, voc, rng.Intn(3), true))
	}
	voc.indexRules(rules)
	var shared []*val
	for i := 0; i < 16; i++ {
		shared = append(shared, genEvent(rng, voc, nil, now))
	}
	nG := 2 + int(uint64(seed)%7) // 2..8 goroutines
	st.count(fmt.Sprintf("conc.direct.batches_with_%d_goroutines", nG), 1)
	for _, r := range rules {
		// the events of this rule: the shared ones plus ones aimed at its leaves
		// (so that most of them reach the comparison inside the nodes)
		events := append([]*val{}, shared...)
		ls := r.leaves(nil)
		for i := 0; i < 32; i++ {
			events = append(events, genEvent(rng, voc, ls, now))
		}
		runConcRule(c, st, r, events, nG, rounds, seed)
	}
}

// runConcRule: the tree r and each of its leaves alone (a leaf alone names
// the operator), over one set of decoded events.
func runConcRule(c *core.Ctx, st *stats, r *rule, events []*val, nG, rounds int, seed int64) {
	b := &doifBatch{events: events}
	var cks []*concChecker
	add := func(r *rule) {
		chk, cfg, err := buildChecker(r.toMap(nil))
		if err != nil {
			return // constructor problems are part A's business
		}
		cks = append(cks, &concChecker{r: r, chk: chk, cfg: cfg})
	}
	add(r)
	if r.isLogical() {
		for _, l := range r.leaves(nil) {
			add(l)
		}
	}

	// decoded events, one root each
	nE := len(b.events)
	roots := make([]*insaneJSON.Root, nE)
	evJSON := make([]string, nE)
	for i, e := range b.events {
		evJSON[i] = e.JSON()
		roots[i] = insaneJSON.Spawn()
		if err := roots[i].DecodeString(evJSON[i]); err != nil {
			c.Fatal("generated event is not decodable: %s: %v", evJSON[i], err)
			return
		}
	}
	defer func() {
		for _, r := range roots {
			insaneJSON.Release(r)
		}
	}()

	// sequential decisions. The first sweep lets every checker touch every
	// root (insane-json unescapes strings in place on first access, which is
	// known to move byte_len_cmp of containers); the second sweep is the
	// baseline, a third one confirms that it is stable without concurrency.
	base := make([][]bool, len(cks))
	for pass := 0; pass < 3; pass++ {
		for ci, ck := range cks {
			if pass == 1 {
				base[ci] = make([]bool, nE)
			}
			for ei := range roots {
				got, pan := realCheck(ck.chk, roots[ei])
				if pan != "" {
					violate(c, "doif panic op-shape="+ck.r.shape()+" msg="+core.NormalizeMsg(pan), "Checker.Check panicked: "+pan, map[string]any{"rule": ck.cfg, "event": evJSON[ei]})
					continue
				}
				switch pass {
				case 1:
					base[ci][ei] = got
				case 2:
					if got != base[ci][ei] {
						violate(c, nondetSignature("doif nondeterministic: same rule and event, different decision when evaluated again (sequentially)", ck.r, b.events[ei]),
							fmt.Sprintf("rule %s on event %s: %v then %v", ck.cfg, core.Trunc(evJSON[ei], 300), base[ci][ei], got),
							map[string]any{"rule": ck.cfg, "event": evJSON[ei], "first": base[ci][ei], "second": got})
					}
				}
			}
		}
	}

	// concurrent sweeps, checker by checker so that all goroutines are inside
	// the same node at the same time
	type mismatch struct {
		ei, round, g int
		got          bool
		pan          string
	}
	for ci, ck := range cks {
		var (
			wg    sync.WaitGroup
			start = make(chan struct{})
			mu    sync.Mutex
			bad   []mismatch
			nChk  atomic.Int64
		)
		for g := 0; g < nG; g++ {
			wg.Add(1)
			go func(g int) {
				defer wg.Done()
				<-start
				n := int64(0)
				for round := 0; round < rounds; round++ {
					for ei := g; ei < nE; ei += nG { // disjoint events, own roots
						// every event twice in a row (consecutive events with the
						// same content are common in logs; a node that remembers
						// its last input is exercised that way)
						for rep := 0; rep < 2; rep++ {
							got, pan := realCheck(ck.chk, roots[ei])
							n++
							if pan != "" || got != base[ci][ei] {
								mu.Lock()
								if len(bad) < 4 {
									bad = append(bad, mismatch{ei, round, g, got, pan})
								}
								mu.Unlock()
							}
						}
					}
				}
				nChk.Add(n)
			}(g)
		}
		close(start)
		wg.Wait()
		st.evals += int(nChk.Load())
		st.count("conc.direct.checks", nChk.Load())
		nT, nF := 0, 0
		for _, v := range base[ci] {
			if v {
				nT++
			} else {
				nF++
			}
		}
		if nT > 0 && nF > 0 {
			// both outcomes present among the events evaluated at the same time:
			// an overwritten scratch value can flip a decision
			st.count("conc.direct.checkers_with_both_outcomes", 1)
			st.fp("conc-direct", treeDesc(ck.r), fmt.Sprint(nG))
		}
		for _, m := range bad {
			if m.pan != "" {
				violate(c, "doif concurrent evaluation panics: "+treeDesc(ck.r)+" msg="+core.NormalizeMsg(m.pan),
					fmt.Sprintf("%d goroutines evaluating one Checker %s: panic %s", nG, ck.cfg, m.pan),
					map[string]any{"rule": ck.cfg, "event": evJSON[m.ei], "goroutines": nG, "panic": m.pan})
				continue
			}
			violate(c, "doif concurrent evaluation differs from sequential: "+treeDesc(ck.r),
				fmt.Sprintf("one Checker %s evaluated by %d goroutines at the same time, each on its own events: event %s decided %v, sequentially %v (round %d, goroutine %d)",
					ck.cfg, nG, core.Trunc(evJSON[m.ei], 300), m.got, base[ci][m.ei], m.round, m.g),
				map[string]any{"rule": ck.cfg, "event": evJSON[m.ei], "sequential": base[ci][m.ei], "concurrent": m.got, "goroutines": nG, "round": m.round})
		}
	}
	if seed%11 == 0 && len(cks) > 0 && !r.isLogical() {
		c.Sample(map[string]any{"part": "concurrent-direct", "rule": cks[0].cfg, "goroutines": nG, "events": nE, "rounds": rounds})
	}
}

// ---------------------------------------------------------------------
// part F: sequential pipeline vs parallel pipeline (child side)

type pipeConcBatch struct {
	ID      string            `json:"id"`
	Actions []json.RawMessage `json:"actions"`
	Events  []string          `json:"events"`
	Feeders int               `json:"feeders"`
	Rounds  int               `json:"rounds"`
}

type pipeConcResult struct {
	ID          string   `json:"id"`
	Seq         []string `json:"seq"`  // per action, one byte per event
	Conc        []string `json:"conc"` // per action, one byte per (round, event)
	ActiveProcs int      `json:"active_procs"`
	Err         string   `json:"err,omitempty"`
	Ms          int64    `json:"ms"`
}

type pipeConcIn struct {
	Batches []pipeConcBatch `json:"batches"`
}

type pipeConcOut struct {
	Results []pipeConcResult `json:"results"`
}

// runProbes runs one pipeline over `slots` deliveries (slot s carries event
// s % nE) spread over `feeders` goroutines, each with its own source id.
func runProbes(actions []json.RawMessage, events []string, parallel bool, feeders, slots int) (rows []string, procs int, errText string) {
	p, in, out, nAct, errText := newProbePipeline(actions, parallel, false, 256)
	if errText != "" {
		return nil, 0, errText
	}
	rec := &recorder{nAct: nAct, nSlots: slots, hits: make([][]uint8, nAct), insts: map[[2]int]struct{}{}}
	for i := range rec.hits {
		rec.hits[i] = make([]uint8, slots)
	}
	curRec.Store(rec)
	defer curRec.Store(nil)
	var outCount atomic.Int64
	out.SetOutFn(func(*pipeline.Event) { outCount.Add(1) })
	p.Start()
	nE := len(events)
	start := make(chan struct{})
	for f := 0; f < feeders; f++ {
		go func(f int) {
			<-start
			for s := f; s < slots; s += feeders {
				in.In(pipeline.SourceID(100+f), "c14", pipeline.NewOffsets(int64(s+1), nil), []byte(events[s%nE]))
			}
		}(f)
	}
	close(start)
	deadline := time.Now().Add(60 * time.Second)
	for outCount.Load() < int64(slots) {
		if time.Now().After(deadline) {
			return nil, 0, fmt.Sprintf("watchdog: only %d of %d events reached the output", outCount.Load(), slots)
		}
		time.Sleep(200 * time.Microsecond)
	}
	p.Stop()
	rec.mu.Lock()
	defer rec.mu.Unlock()
	if rec.stray > 0 {
		return nil, 0, fmt.Sprintf("probe saw %d invocations outside the batch", rec.stray)
	}
	rows = make([]string, nAct)
	for a := 0; a < nAct; a++ {
		row := make([]byte, slots)
		for s := 0; s < slots; s++ {
			switch h := rec.hits[a][s]; {
			case h == 0:
				row[s] = '0'
			case h == 1:
				row[s] = '1'
			default:
				row[s] = '2'
			}
		}
		rows[a] = string(row)
	}
	return rows, rec.activeProcessors(), ""
}

func runPipeConcBatch(b *pipeConcBatch) (res pipeConcResult) {
	t0 := time.Now()
	res.ID = b.ID
	defer func() { res.Ms = time.Since(t0).Milliseconds() }()
	nE := len(b.Events)
	var errText string
	if res.Seq, _, errText = runProbes(b.Actions, b.Events, false, 1, nE); errText != "" {
		res.Err = "sequential: " + errText
		return res
	}
	if res.Conc, res.ActiveProcs, errText = runProbes(b.Actions, b.Events, true, b.Feeders, nE*b.Rounds); errText != "" {
		res.Err = "parallel: " + errText
	}
	return res
}

func pipeConcChild(raw json.RawMessage, io *core.ChildIO) (any, error) {
	var in pipeConcIn
	if err := json.Unmarshal(raw, &in); err != nil {
		return nil, err
	}
	out := pipeConcOut{}
	for i := range in.Batches {
		io.Log(map[string]any{"batch": in.Batches[i].ID, "index": i})
		out.Results = append(out.Results, runPipeConcBatch(&in.Batches[i]))
	}
	return out, nil
}

// ---------------------------------------------------------------------
// part F, parent side

type concJob struct {
	batch pipeConcBatch
	kind  string
	descs []string // per action: what the selector is made of (for the signature)
}

func makeConcJob(seed int64, id, kind string, nRules, nEvents, rounds int) *concJob {
	rng := rand.New(rand.NewSource(seed))
	voc := genVocab(rng)
	voc.longText = true
	voc.ciBias = true
	job := &concJob{kind: kind}
	job.batch = pipeConcBatch{ID: id, Feeders: 4 + rng.Intn(5), Rounds: rounds}
	var events []*val
	if kind == "doif" {
		var rules []*rule
		for i := 0; i < nRules; i++ {
			rules = append(rules, genRule(rng, voc, rng.Intn(3), false))
		}
		voc.indexRules(rules)
		now := time.Now()
		for i := 0; i < nEvents; i++ {
			var ls []*rule
			if i%3 == 0 {
				ls = rules[i%len(rules)].leaves(nil)
			}
			events = append(events, genEvent(rng, voc, ls, now))
		}
		for _, r := range rules {
			a, _ := json.Marshal(map[string]any{"do_if": r.toMap(nil)})
			job.batch.Actions = append(job.batch.Actions, a)
			job.descs = append(job.descs, treeDesc(r))
		}
	} else {
		var rules []*mfRule
		for i := 0; i < nRules; i++ {
			rules = append(rules, genMfRule(rng, voc))
		}
		voc.indexMfRules(rules)
		for i := 0; i < nEvents; i++ {
			var m *mfRule
			if i%3 == 0 {
				m = rules[i%len(rules)]
			}
			events = append(events, genMfEvent(rng, voc, m))
		}
		for _, m := range rules {
			a, _ := json.Marshal(m.actionFields(nil))
			job.batch.Actions = append(job.batch.Actions, a)
			job.descs = append(job.descs, m.shape())
		}
	}
	for _, e := range events {
		job.batch.Events = append(job.batch.Events, e.JSON())
	}
	return job
}

func judgeConc(c *core.Ctx, job *concJob, res *pipeConcResult) {
	st := newStats()
	defer st.flush(c)
	nE := len(job.batch.Events)
	c.Count("conc.pipeline.batches", 1)
	c.Count(fmt.Sprintf("conc.pipeline.batches_with_%d_active_processors", res.ActiveProcs), 1)
	if res.ActiveProcs >= 2 {
		c.Count("conc.pipeline.batches_really_parallel", 1)
	}
	for a := range job.batch.Actions {
		seq, conc := res.Seq[a], res.Conc[a]
		both := strings.ContainsRune(seq, '0') && strings.ContainsRune(seq, '1')
		if both {
			st.fp("conc-pipe", job.kind, job.descs[a], fmt.Sprint(res.ActiveProcs))
		}
		reported := 0
		for s := 0; s < len(conc); s++ {
			st.evals++
			st.count("conc.pipeline.pairs."+job.kind, 1)
			if conc[s] == seq[s%nE] || reported >= 3 {
				continue
			}
			reported++
			what := "do_if"
			if job.kind == "mf" {
				what = "match_fields"
			}
			violate(c, fmt.Sprintf("%s in a pipeline with parallel processors decides differently from the sequential pipeline: %s", what, job.descs[a]),
				fmt.Sprintf("action %s, event %s: probe invocations sequential=%c, parallel=%c (round %d, %d processors active, %d feeders)",
					job.batch.Actions[a], core.Trunc(job.batch.Events[s%nE], 300), seq[s%nE], conc[s], s/nE, res.ActiveProcs, job.batch.Feeders),
				map[string]any{"action": string(job.batch.Actions[a]), "event": job.batch.Events[s%nE], "sequential": string(seq[s%nE]), "parallel": string(conc[s]),
					"round": s / nE, "active_processors": res.ActiveProcs, "feeders": job.batch.Feeders})
		}
	}
	if len(job.batch.Actions) > 0 {
		c.Sample(map[string]any{"part": "concurrent-pipeline", "kind": job.kind, "action": string(job.batch.Actions[0]), "events": nE, "rounds": job.batch.Rounds,
			"feeders": job.batch.Feeders, "active_processors": res.ActiveProcs})
	}
}

func runConcJobs(c *core.Ctx, jobs []*concJob, per, workers int) {
	var groups [][]*concJob
	for i := 0; i < len(jobs); i += per {
		j := i + per
		if j > len(jobs) {
			j = len(jobs)
		}
		groups = append(groups, jobs[i:j])
	}
	core.ParallelFor(len(groups), workers, func(gi int) {
		g := groups[gi]
		in := pipeConcIn{}
		for _, j := range g {
			in.Batches = append(in.Batches, j.batch)
		}
		res := core.RunChild("pipeconc", in, core.ChildOpt{Timeout: childTimeout, GOMAXPROCS: 8})
		if res.TimedOut {
			c.Inconclusive("parallel-pipeline child watchdog")
			return
		}
		if res.Crashed() {
			var last struct {
				Index int `json:"index"`
			}
			_ = json.Unmarshal(res.LastLog(), &last)
			msg, site := core.PanicSite(res.Stderr)
			// a crash under concurrency need not reproduce alone: try three times
			if last.Index >= 0 && last.Index < len(g) {
				for try := 0; try < 3; try++ {
					solo := core.RunChild("pipeconc", pipeConcIn{Batches: []pipeConcBatch{g[last.Index].batch}}, core.ChildOpt{Timeout: 5 * time.Minute, GOMAXPROCS: 8})
					if solo.Crashed() {
						m2, s2 := core.PanicSite(solo.Stderr)
						violate(c, "pipeline with parallel processors crashes while applying selectors: kind="+g[last.Index].kind+" msg="+core.NormalizeMsg(m2)+" site="+s2,
							"the pipeline process died", map[string]any{"batch": g[last.Index].batch, "stderr": core.Trunc(solo.Stderr, 3000)})
						return
					}
				}
			}
			c.Inconclusive("parallel-pipeline child crashed, not reproduced alone: " + core.NormalizeMsg(msg) + "@" + site)
			return
		}
		var out pipeConcOut
		if err := json.Unmarshal(res.Out, &out); err != nil || len(out.Results) != len(g) {
			c.Inconclusive("parallel-pipeline child output unreadable")
			return
		}
		for i, j := range g {
			r := &out.Results[i]
			if r.Err != "" {
				c.Inconclusive("parallel-pipeline batch: " + core.NormalizeMsg(firstWords(r.Err, 6)))
				continue
			}
			c.Count("conc.pipeline.batch_ms", r.Ms)
			judgeConc(c, j, r)
		}
	})
}
