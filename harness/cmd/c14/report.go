package main

import (
	"encoding/json"
	"fmt"
	"os"
	"sort"
	"sync"

	"verifharness/core"
)

// sigCounts counts every refuting observation by signature (core only keeps
// the first few of each); the table goes to the evidence file and to stdout.
var (
	sigMu     sync.Mutex
	sigCounts = map[string]int{}
)

const maxReportsPerSignature = 12

// violate forwards the first observations of a signature to core and counts
// all of them.
func violate(c *core.Ctx, signature, what string, witness any) {
	sigMu.Lock()
	sigCounts[signature]++
	n := sigCounts[signature]
	sigMu.Unlock()
	if n <= maxReportsPerSignature {
		c.Violation(signature, what, witness)
		if path := os.Getenv("VERIF_C14_DUMP"); path != "" { // development aid: all witnesses as JSON lines
			if f, err := os.OpenFile(path, os.O_CREATE|os.O_WRONLY|os.O_APPEND, 0o644); err == nil {
				b, _ := json.Marshal(map[string]any{"signature": signature, "what": what, "witness": witness})
				sigMu.Lock()
				_, _ = f.Write(append(b, '\n'))
				sigMu.Unlock()
				f.Close()
			}
		}
	}
}

// wouldReport tells whether building a witness is still worth it.
func seenTooOften(signature string) bool {
	sigMu.Lock()
	defer sigMu.Unlock()
	return sigCounts[signature] >= maxReportsPerSignature
}

func flushSignatures(c *core.Ctx) {
	sigMu.Lock()
	defer sigMu.Unlock()
	if len(sigCounts) == 0 {
		return
	}
	keys := make([]string, 0, len(sigCounts))
	for k := range sigCounts {
		keys = append(keys, k)
	}
	sort.Strings(keys)
	table := map[string]int{}
	fmt.Println("refuting observations by signature:")
	for _, k := range keys {
		table[k] = sigCounts[k]
		fmt.Printf("  %6d  %s\n", sigCounts[k], k)
	}
	c.Extra("refuting_observations_by_signature", table)
}
